//! C01 boundary stream: hand-assembled, seed-independent cases around the decision points of the frame machine and the
//! transaction handler (depth limit, EIP-170 / EIP-3860 / EIP-3541 limits, code-deposit gas, refund caps, EIP-7623
//! floor, stipend, 63/64 rule, SELFDESTRUCT per fork, blob fee, reward, EIP-7702 refund and delegation, access lists,
//! collisions, static-context violations, return data, every precompile with a valid input, SSTORE gas matrix, the
//! RIPEMD-160 touch precedent, EXP gas, call-scheme contexts, nonces, transient storage, BLOCKHASH window). Each case
//! also gets the two gas limits "exactly what the first run spent" and "one less".
use crate::c01::*;
use crate::c01gen::{revm_canon, sender, Asm};
use crate::*;
use revm::primitives::{Address, SpecId, B256, U256};

fn a_n(n: u64) -> Address {
    ua(U256::from(n))
}
fn ether(n: u64) -> U256 {
    U256::from(n) * U256::from(1_000_000_000_000_000_000u128)
}
const A: u64 = 0x1000;
const B: u64 = 0x1001;
const C: u64 = 0x1002;

fn base(spec: SpecId) -> Case {
    let en = |s: SpecId| SpecId::enabled(spec, s);
    Case {
        spec,
        hs: true,
        chain_id: 1,
        number: U256::from(1000u64),
        coinbase: a_n(0xc01bba5e),
        timestamp: U256::from(1_700_000_000u64),
        gas_limit: U256::from(30_000_000u64),
        basefee: U256::from(if en(SpecId::LONDON) { 10u64 } else { 0 }),
        difficulty: U256::from(0x20000u64),
        prevrandao: if en(SpecId::MERGE) { Some(B256::from(U256::from(0xbeefu64))) } else { None },
        blob_gasprice: if en(SpecId::CANCUN) { Some(3) } else { None },
        limit_code_size: None,
        accts: vec![Acct { addr: sender(), balance: ether(1000), nonce: 7, ..Default::default() }],
        pcs: vec![],
        txs: vec![],
    }
}
fn with_contract(c: &mut Case, addr: u64, code: Vec<u8>, balance: u64, storage: Vec<(u64, u64)>) {
    let en = SpecId::enabled(c.spec, SpecId::SPURIOUS_DRAGON);
    c.accts.push(Acct {
        addr: a_n(addr),
        balance: U256::from(balance),
        nonce: if en { 1 } else { 0 },
        code,
        storage: storage.into_iter().map(|(k, v)| (U256::from(k), U256::from(v))).collect(),
    });
}
fn call_tx(c: &Case, to: Option<u64>, gas: u64, value: u64, data: Vec<u8>) -> TxSpec {
    let london = SpecId::enabled(c.spec, SpecId::LONDON);
    TxSpec {
        caller: sender(),
        gas_limit: gas,
        gas_price: U256::from(if london { 15u64 } else { 2 }),
        to: to.map(a_n),
        value: U256::from(value),
        data,
        nonce: Some(7),
        chain_id: Some(1),
        ..Default::default()
    }
}

/// `CALL`-family snippet: pushes args and performs `op` to `to` with gas word `gas` (None = GAS), value (for CALL/CALLCODE)
fn call(a: &mut Asm, op: u8, to: u64, gas: Option<U256>, value: u64, in_len: u64, out_len: u64) {
    a.push_u(out_len).push_u(0).push_u(in_len).push_u(0);
    if op == 0xf1 || op == 0xf2 {
        a.push_u(value);
    }
    a.push_u(to);
    match gas {
        Some(g) => {
            a.push(g);
        }
        None => {
            a.op(0x5a);
        }
    }
    a.op(op);
}
fn sstore_top(a: &mut Asm, slot: u64) {
    a.push_u(slot).op(0x55);
}
fn code(f: impl FnOnce(&mut Asm)) -> Vec<u8> {
    let mut a = Asm::new();
    f(&mut a);
    a.code
}
/// initcode returning `len` zero bytes
fn init_return_zeros(len: u64) -> Vec<u8> {
    code(|a| {
        a.push_u(len).push_u(0).op(0xf3);
    })
}
/// initcode returning the given runtime (≤ 32 bytes)
fn init_return(rt: &[u8]) -> Vec<u8> {
    code(|a| {
        let l = rt.len() as u64;
        a.push(U256::from_be_slice(rt)).push_u(0).op(0x52).push_u(l).push_u(32 - l).op(0xf3);
    })
}
/// store `initcode` (≤ 32 bytes) at memory 0 and CREATE / CREATE2 it with `value`; leaves the address on the stack
fn create(a: &mut Asm, init: &[u8], value: u64, salt: Option<u64>) {
    let mut w = [0u8; 32];
    w[..init.len()].copy_from_slice(init);
    a.push(U256::from_be_bytes(w)).push_u(0).op(0x52);
    if let Some(s) = salt {
        a.push_u(s);
    }
    a.push_u(init.len() as u64).push_u(0).push_u(value).op(if salt.is_some() { 0xf5 } else { 0xf0 });
}

// ---------------------------------------------------------------------------------------------- frame scripts
//
// A small language for programs whose behaviour is spread over call frames. A script is a list of bodies; body 0 is
// what the transaction runs, body k runs when the contract is entered with CALLDATASIZE = k. The same compiled code
// sits at `A` (0x1000) and at its twin `B` (0x1001); a `Call` item enters body `k` by CALL to ADDRESS (re-entrancy),
// DELEGATECALL / CALLCODE to the twin (same storage context), CALL / STATICCALL to the twin (other storage context).
// Every per-frame accumulator that is merged into the parent on success only (refund counter, logs, journal entries
// of storage / transient storage / warmth / balances / nonces / created accounts) can so be driven from any frame,
// with each frame ending in success, REVERT or an exceptional halt.

#[derive(Clone, Copy, Debug, PartialEq, Eq)]
pub enum Kind {
    CallSelf,
    Delegate,
    CallCode,
    CallOther,
    Static,
}
impl Kind {
    pub fn tag(self) -> &'static str {
        match self {
            Kind::CallSelf => "call-self",
            Kind::Delegate => "delegatecall",
            Kind::CallCode => "callcode",
            Kind::CallOther => "call-other",
            Kind::Static => "staticcall",
        }
    }
}

#[derive(Clone, Copy, Debug, PartialEq, Eq)]
pub enum End {
    Stop,
    Return,
    Revert,
    Invalid,
    Underflow,
    BadJump,
    SelfDestruct(u64),
    SelfDestructSelf,
    /// RETURN / REVERT of `n` bytes 0xab (n <= 96)
    ReturnN(u64),
    RevertN(u64),
    /// RETURN of the memory region (offset, length): what the frame's memory looks like at the end
    ReturnMem(u64, u64),
}
impl End {
    pub fn tag(self) -> &'static str {
        match self {
            End::Stop | End::Return | End::ReturnN(_) | End::ReturnMem(_, _) => "S",
            End::Revert | End::RevertN(_) => "R",
            End::Invalid | End::Underflow | End::BadJump => "H",
            End::SelfDestruct(_) | End::SelfDestructSelf => "D",
        }
    }
}

#[derive(Clone, Debug)]
pub enum It {
    Sstore(u64, u64),
    Sload(u64),
    Log(u64),
    Tstore(u64, u64),
    Tload(u64),
    Balance(u64),
    ExtCodeSize(u64),
    /// enter body `body` of the script in a new frame
    Call { kind: Kind, body: usize, gas: Option<u64>, value: u64 },
    /// plain CALL without input to any address
    CallAddr { to: u64, gas: Option<u64>, value: u64 },
    /// CREATE / CREATE2 of an initcode of at most 32 bytes
    Create { salt: Option<u64>, init: Vec<u8>, value: u64 },
    Gas,
    /// MSTORE `words` words of the repeated byte from offset `from`
    Fill { from: u64, words: u64, byte: u8 },
    /// enter body `body` with the output window (out_off, out_len); the flag goes to memory 0xe0 and, when `rds`,
    /// RETURNDATASIZE to 0xc0
    CallWin { kind: Kind, body: usize, out_off: u64, out_len: u64, rds: bool },
    /// call-family `op` to any address with input memory[0, in_len) and the output window; flag / size as `CallWin`
    CallAddrWin { op: u8, to: u64, gas: u64, in_len: u64, out_off: u64, out_len: u64, rds: bool },
    /// RETURNDATACOPY(dest, off, RETURNDATASIZE - off + extra)
    RetCopy { dest: u64, off: u64, extra: u64 },
    /// RETURNDATASIZE to memory 0xc0
    RetSize,
}

#[derive(Clone, Debug, Default)]
pub struct Script {
    pub bodies: Vec<(Vec<It>, End)>,
    /// inner frames do not LOG what they observe (needed when a frame is static or when logs are the subject)
    pub quiet: bool,
}

pub const OBS_BASE: u64 = 0x40;

/// Observations: body 0 collects them in memory and returns (or reverts with) them; inner bodies emit `LOG1` with the
/// observed word as the topic (dropped with the frame when it does not commit), or drop it.
fn observe(a: &mut Asm, body: usize, nobs: &mut u64, log_inner: bool) {
    if body == 0 {
        a.push_u(OBS_BASE + 32 * *nobs).op(0x52);
        *nobs += 1;
    } else if log_inner {
        a.push_u(0).push_u(0).op(0xa1);
    } else {
        a.op(0x50);
    }
}

pub fn compile(s: &Script, twin: u64) -> Vec<u8> {
    let mut a = Asm::new();
    let n = s.bodies.len();
    let mut labels = vec![];
    for k in 1..n {
        a.op(0x36).push_u(k as u64).op(0x14);
        labels.push(a.push_label());
        a.op(0x57);
    }
    for k in 0..n {
        if k > 0 {
            let t = a.here();
            a.patch(labels[k - 1], t);
            a.op(0x5b);
        }
        let (items, end) = &s.bodies[k];
        let mut nobs = 0u64;
        for it in items {
            match it {
                It::Sstore(slot, v) => {
                    a.push_u(*v).push_u(*slot).op(0x55);
                }
                It::Sload(slot) => {
                    a.push_u(*slot).op(0x54);
                    observe(&mut a, k, &mut nobs, false);
                }
                It::Log(t) => {
                    a.push_u(*t).push_u(0).push_u(0).op(0xa1);
                }
                It::Tstore(key, v) => {
                    a.push_u(*v).push_u(*key).op(0x5d);
                }
                It::Tload(key) => {
                    a.push_u(*key).op(0x5c);
                    observe(&mut a, k, &mut nobs, !s.quiet);
                }
                It::Balance(addr) => {
                    a.push_u(*addr).op(0x31);
                    observe(&mut a, k, &mut nobs, !s.quiet);
                }
                It::ExtCodeSize(addr) => {
                    a.push_u(*addr).op(0x3b);
                    observe(&mut a, k, &mut nobs, !s.quiet);
                }
                It::Call { kind, body, gas, value } => {
                    a.push_u(0).push_u(0).push_u(*body as u64).push_u(0);
                    if matches!(kind, Kind::CallSelf | Kind::CallCode | Kind::CallOther) {
                        a.push_u(*value);
                    }
                    if *kind == Kind::CallSelf {
                        a.op(0x30);
                    } else {
                        a.push_u(twin);
                    }
                    match gas {
                        Some(g) => {
                            a.push_u(*g);
                        }
                        None => {
                            a.op(0x5a);
                        }
                    }
                    a.op(match kind {
                        Kind::CallSelf | Kind::CallOther => 0xf1,
                        Kind::CallCode => 0xf2,
                        Kind::Delegate => 0xf4,
                        Kind::Static => 0xfa,
                    });
                    observe(&mut a, k, &mut nobs, false);
                }
                It::CallAddr { to, gas, value } => {
                    a.push_u(0).push_u(0).push_u(0).push_u(0).push_u(*value).push_u(*to);
                    match gas {
                        Some(g) => {
                            a.push_u(*g);
                        }
                        None => {
                            a.op(0x5a);
                        }
                    }
                    a.op(0xf1);
                    observe(&mut a, k, &mut nobs, false);
                }
                It::Create { salt, init, value } => {
                    create(&mut a, init, *value, *salt);
                    observe(&mut a, k, &mut nobs, !s.quiet);
                }
                It::Gas => {
                    a.op(0x5a);
                    observe(&mut a, k, &mut nobs, false);
                }
                It::Fill { from, words, byte } => {
                    for i in 0..*words {
                        a.push(U256::from_be_bytes([*byte; 32])).push_u(from + 32 * i).op(0x52);
                    }
                }
                It::CallWin { kind, body, out_off, out_len, rds } => {
                    a.push_u(*out_len).push_u(*out_off).push_u(*body as u64).push_u(0);
                    if matches!(kind, Kind::CallSelf | Kind::CallCode | Kind::CallOther) {
                        a.push_u(0);
                    }
                    if *kind == Kind::CallSelf {
                        a.op(0x30);
                    } else {
                        a.push_u(twin);
                    }
                    a.push_u(100_000);
                    a.op(match kind {
                        Kind::CallSelf | Kind::CallOther => 0xf1,
                        Kind::CallCode => 0xf2,
                        Kind::Delegate => 0xf4,
                        Kind::Static => 0xfa,
                    });
                    a.push_u(0xe0).op(0x52);
                    if *rds {
                        a.op(0x3d).push_u(0xc0).op(0x52);
                    }
                }
                It::CallAddrWin { op, to, gas, in_len, out_off, out_len, rds } => {
                    a.push_u(*out_len).push_u(*out_off).push_u(*in_len).push_u(0);
                    if *op == 0xf1 || *op == 0xf2 {
                        a.push_u(0);
                    }
                    a.push_u(*to).push_u(*gas).op(*op);
                    a.push_u(0xe0).op(0x52);
                    if *rds {
                        a.op(0x3d).push_u(0xc0).op(0x52);
                    }
                }
                It::RetCopy { dest, off, extra } => {
                    a.push_u(*off).op(0x3d).op(0x03);
                    if *extra > 0 {
                        a.push_u(*extra).op(0x01);
                    }
                    a.push_u(*off).push_u(*dest).op(0x3e);
                }
                It::RetSize => {
                    a.op(0x3d).push_u(0xc0).op(0x52);
                }
            }
        }
        match end {
            End::Stop => {
                a.op(0x00);
            }
            End::Return | End::Revert => {
                if k == 0 {
                    a.push_u(32 * nobs).push_u(OBS_BASE);
                } else {
                    a.push_u(0).push_u(0);
                }
                a.op(if *end == End::Return { 0xf3 } else { 0xfd });
            }
            End::Invalid => {
                a.op(0xfe);
            }
            End::Underflow => {
                a.op(0x50);
            }
            End::BadJump => {
                a.push_u(1).op(0x56);
            }
            End::SelfDestruct(t) => {
                a.push_u(*t).op(0xff);
            }
            End::SelfDestructSelf => {
                a.op(0x30).op(0xff);
            }
            End::ReturnN(n) | End::RevertN(n) => {
                for i in 0..(*n + 31) / 32 {
                    a.push(U256::from_be_bytes([0xab; 32])).push_u(32 * i).op(0x52);
                }
                a.push_u(*n).push_u(0).op(if matches!(end, End::ReturnN(_)) { 0xf3 } else { 0xfd });
            }
            End::ReturnMem(off, len) => {
                a.push_u(*len).push_u(*off).op(0xf3);
            }
        }
    }
    a.code
}

/// the case of a script: the compiled code at `A` and at the twin `B`, one transaction to `A` without calldata
pub fn script_case(spec: SpecId, s: &Script, st_a: Vec<(u64, u64)>, st_b: Vec<(u64, u64)>, balance: u64, gas: u64) -> Case {
    let mut c = base(spec);
    let code = compile(s, B);
    with_contract(&mut c, A, code.clone(), balance, st_a);
    with_contract(&mut c, B, code, balance, st_b);
    c.txs.push(call_tx(&c, Some(A), gas, 0, vec![]));
    c
}

/// SSTORE values `vals[i]` on slot 0 placed at position `pos[i]` of the frame timeline
/// 0 = outer before the call, 1 = inner before its call, 2 = inner-inner, 3 = inner after, 4 = outer after
///
/// `burn` fresh slots are written first in the outer frame: the gas they cost lifts the refund cap (1/5 of the gas
/// spent from London, 1/2 before) above anything the pattern can earn, so that every refund delta stays visible
pub fn sstore_plan(k1: Kind, k2: Kind, pos: &[usize], vals: &[u64], e1: End, e2: End, burn: u64) -> Script {
    let at = |p: usize| -> Vec<It> {
        pos.iter().zip(vals).filter(|(q, _)| **q == p).map(|(_, v)| It::Sstore(0, *v)).collect()
    };
    let use_ii = pos.contains(&2);
    let mut b0: Vec<It> = (0..burn).map(|i| It::Sstore(0x10 + i, 1)).collect();
    b0.extend(at(0));
    b0.push(It::Call { kind: k1, body: 1, gas: Some(220_000), value: 0 });
    b0.extend(at(4));
    let mut b1 = at(1);
    if use_ii {
        b1.push(It::Call { kind: k2, body: 2, gas: Some(80_000), value: 0 });
    }
    b1.extend(at(3));
    let mut bodies = vec![(b0, End::Return), (b1, e1)];
    if use_ii {
        bodies.push((at(2), e2));
    }
    Script { bodies, quiet: true }
}

const X: u64 = 5;
const Y: u64 = 7;

/// cross-frame SSTORE refund patterns (rule: refunds across nested calls)
fn xframe_sstore(out: &mut Out, w: &mut Vec<Case>, big: bool) {
    let specs = [
        SpecId::CONSTANTINOPLE,
        SpecId::PETERSBURG,
        SpecId::ISTANBUL,
        SpecId::BERLIN,
        SpecId::LONDON,
        SpecId::CANCUN,
        SpecId::PRAGUE,
    ];
    // (original, written values): the transitions X→0, 0→X, X→Y, Y→X, 0→Y→0 chained
    let seq2: Vec<(u64, Vec<u64>)> = if big {
        let mut v = vec![];
        for o in [0, X] {
            for a in [0, X, Y] {
                for b in [0, X, Y] {
                    v.push((o, vec![a, b]));
                }
            }
        }
        v
    } else {
        vec![(X, vec![0, X]), (X, vec![0, Y]), (X, vec![Y, X]), (X, vec![Y, 0]), (0, vec![X, 0]), (0, vec![X, Y])]
    };
    let seq3: Vec<(u64, Vec<u64>)> = if big {
        let mut v = vec![];
        for o in [0, X] {
            for s in [[0, Y, 0], [0, X, 0], [Y, 0, X], [Y, X, 0], [0, Y, X], [X, 0, X], [Y, 0, Y], [0, X, Y]] {
                v.push((o, s.to_vec()));
            }
        }
        v
    } else {
        vec![(X, vec![0, Y, 0]), (X, vec![0, X, 0]), (X, vec![Y, 0, X]), (0, vec![Y, 0, Y])]
    };
    let place2: [&[usize]; 7] = [&[0, 1], &[1, 4], &[1, 2], &[2, 3], &[0, 2], &[2, 4], &[1, 1]];
    let place3: [&[usize]; 6] = [&[0, 1, 4], &[0, 1, 2], &[1, 2, 3], &[1, 2, 4], &[0, 2, 4], &[0, 2, 3]];
    let (s, r, h) = (End::Stop, End::Revert, End::Invalid);
    let ends1 = vec![(s, s), (r, s), (h, s)];
    let ends2 = vec![(s, s), (s, r), (s, h), (r, s), (r, r), (r, h), (h, s), (h, r), (h, h)];
    let kinds3 = [Kind::CallSelf, Kind::Delegate, Kind::CallCode];
    let mut patterns: Vec<(u64, Vec<u64>, &[usize], End, End)> = vec![];
    for (o, vals) in &seq2 {
        for p in place2 {
            for (e1, e2) in if p.contains(&2) { &ends2 } else { &ends1 } {
                patterns.push((*o, vals.clone(), p, *e1, *e2));
            }
        }
    }
    for (o, vals) in &seq3 {
        for p in place3 {
            for (e1, e2) in if p.contains(&2) { &ends2 } else { &ends1 } {
                patterns.push((*o, vals.clone(), p, *e1, *e2));
            }
        }
    }
    for (si, spec) in specs.iter().enumerate() {
        for (pi, (o, vals, p, e1, e2)) in patterns.iter().enumerate() {
            // the quick tier has the complete product with the three same-storage ways to enter a frame
            let _ = (si, pi);
            let kinds: Vec<(Kind, Kind)> = if big {
                let mut v: Vec<(Kind, Kind)> = kinds3.iter().map(|k| (*k, *k)).collect();
                v.push((Kind::CallOther, Kind::CallOther));
                v.push((Kind::Delegate, Kind::CallSelf));
                v.push((Kind::CallSelf, Kind::Delegate));
                v.push((Kind::CallCode, Kind::Delegate));
                v
            } else {
                kinds3.iter().map(|k| (*k, *k)).collect()
            };
            for (k1, k2) in kinds {
                let sc = sstore_plan(k1, k2, p, vals, *e1, *e2, 4);
                let st = if *o == 0 { vec![] } else { vec![(0, *o)] };
                w.push(script_case(*spec, &sc, st.clone(), st, 0, 600_000));
                out.count("boundary-xframe-sstore");
                out.count(&format!("xframe-sstore-enter-{}", k1.tag()));
                out.count(&format!("xframe-sstore-ends-{}{}", e1.tag(), if p.contains(&2) { e2.tag() } else { "" }));
                out.count(&format!("xframe-sstore-writes-{}", vals.len()));
            }
        }
    }
}

/// logs, transient storage, warmth, value transfers, creates, self-destruct refunds across committing / reverting /
/// halting frames
fn xframe_other(out: &mut Out, w: &mut Vec<Case>, big: bool) {
    let (s, r, h) = (End::Stop, End::Revert, End::Invalid);
    let ends9 = [(s, s), (s, r), (s, h), (r, s), (r, r), (r, h), (h, s), (h, r), (h, h)];
    let call = |kind: Kind, body: usize, gas: u64| It::Call { kind, body, gas: Some(gas), value: 0 };
    // logs: order across frames, dropped with a frame that does not commit
    for spec in [SpecId::HOMESTEAD, SpecId::BYZANTIUM, SpecId::BERLIN, SpecId::CANCUN, SpecId::PRAGUE] {
        for kind in [Kind::CallSelf, Kind::Delegate, Kind::CallCode, Kind::CallOther, Kind::Static] {
            if kind == Kind::Static && !SpecId::enabled(spec, SpecId::BYZANTIUM) {
                continue;
            }
            for (e1, e2) in ends9 {
                for e0 in [End::Return, End::Revert] {
                    if e0 == End::Revert && !(big || (e1, e2) == (s, s)) {
                        continue;
                    }
                    let sc = Script {
                        bodies: vec![
                            (vec![It::Log(1), call(kind, 1, 200_000), It::Log(5), call(kind, 2, 50_000), It::Log(6)], e0),
                            (vec![It::Log(2), call(kind, 2, 50_000), It::Log(4)], e1),
                            (vec![It::Log(3)], e2),
                        ],
                        quiet: true,
                    };
                    w.push(script_case(spec, &sc, vec![], vec![], 0, 600_000));
                    out.count("boundary-xframe-logs");
                }
            }
        }
    }
    // transient storage: written in frames that revert / halt, read back outside
    for spec in [SpecId::CANCUN, SpecId::PRAGUE] {
        for kind in [Kind::CallSelf, Kind::Delegate, Kind::CallCode, Kind::CallOther, Kind::Static] {
            for (e1, e2) in ends9 {
                let sc = Script {
                    bodies: vec![
                        (vec![It::Tstore(1, 5), call(kind, 1, 200_000), It::Tload(1), It::Tload(2), It::Tload(3)], End::Return),
                        (vec![It::Tload(1), It::Tstore(1, 9), It::Tstore(3, 4), call(kind, 2, 50_000), It::Tload(1), It::Tload(2)], e1),
                        (vec![It::Tload(1), It::Tstore(1, 11), It::Tstore(2, 3), It::Tstore(3, 0)], e2),
                    ],
                    quiet: kind == Kind::Static,
                };
                w.push(script_case(spec, &sc, vec![], vec![], 0, 600_000));
                out.count("boundary-xframe-transient");
            }
        }
    }
    // warm / cold: slots and addresses first accessed in a frame that does not commit are cold again afterwards
    for spec in [SpecId::ISTANBUL, SpecId::BERLIN, SpecId::LONDON, SpecId::CANCUN, SpecId::PRAGUE] {
        for kind in [Kind::CallSelf, Kind::Delegate, Kind::CallCode, Kind::CallOther] {
            for (e1, e2) in ends9 {
                for variant in 0..3 {
                    // 0: nothing warm before; 1: the outer frame warms slot 3 / 0xbeef first; 2: the access list does
                    if variant > 0 && !(big || e1 != s || e2 != s) {
                        continue;
                    }
                    let mut b0 = vec![];
                    if variant == 1 {
                        b0.push(It::Sload(3));
                        b0.push(It::Balance(0xbeef));
                    }
                    b0.extend([
                        call(kind, 1, 200_000),
                        It::Gas,
                        It::Sload(3),
                        It::Gas,
                        It::Sload(4),
                        It::Gas,
                        It::Sload(6),
                        It::Gas,
                        It::Balance(0xbeef),
                        It::Gas,
                        It::ExtCodeSize(0xbef0),
                        It::Gas,
                    ]);
                    let sc = Script {
                        bodies: vec![
                            (b0, End::Return),
                            (vec![It::Sload(3), It::Balance(0xbeef), call(kind, 2, 60_000), It::Sload(4)], e1),
                            (vec![It::Sload(4), It::ExtCodeSize(0xbef0), It::Sstore(6, 1)], e2),
                        ],
                        quiet: true,
                    };
                    let mut c = script_case(spec, &sc, vec![(3, 1), (4, 2)], vec![(3, 1), (4, 2)], 0, 600_000);
                    if variant == 2 {
                        if !SpecId::enabled(spec, SpecId::BERLIN) {
                            continue;
                        }
                        c.txs[0].access_list = vec![
                            (a_n(A), vec![U256::from(4u64)]),
                            (a_n(B), vec![U256::from(3u64)]),
                            (a_n(0xbef0), vec![]),
                        ];
                    }
                    w.push(c);
                    out.count("boundary-xframe-warmth");
                }
            }
        }
    }
    // value transfers: inner commits, an outer frame undoes
    for spec in [SpecId::HOMESTEAD, SpecId::SPURIOUS_DRAGON, SpecId::BERLIN, SpecId::CANCUN] {
        for kind in [Kind::CallSelf, Kind::CallOther, Kind::CallCode] {
            for (e1, e2) in ends9 {
                for e0 in [End::Return, End::Revert] {
                    if e0 == End::Revert && !(big || (e1, e2) == (s, s)) {
                        continue;
                    }
                    let sc = Script {
                        bodies: vec![
                            (
                                vec![
                                    It::Call { kind, body: 1, gas: Some(300_000), value: 4 },
                                    It::Balance(0xe0a),
                                    It::Balance(0xe0b),
                                    It::Balance(A),
                                    It::Balance(B),
                                ],
                                e0,
                            ),
                            (
                                vec![
                                    It::CallAddr { to: 0xe0a, gas: Some(0), value: 3 },
                                    It::Call { kind, body: 2, gas: Some(100_000), value: 1 },
                                    It::CallAddr { to: 0xe0b, gas: Some(0), value: 1 },
                                ],
                                e1,
                            ),
                            (vec![It::CallAddr { to: 0xe0b, gas: Some(0), value: 2 }, It::CallAddr { to: 0xe0c, gas: Some(0), value: 0 }], e2),
                        ],
                        quiet: true,
                    };
                    let mut c = script_case(spec, &sc, vec![], vec![], 100, 900_000);
                    // 0xe0b exists, 0xe0a / 0xe0c do not
                    c.accts.push(Acct { addr: a_n(0xe0b), balance: U256::from(1u64), ..Default::default() });
                    w.push(c);
                    out.count("boundary-xframe-value");
                }
            }
        }
    }
    // creates inside frames that do not commit, re-creation at the same address, nonces after failed creates
    {
        let ok = init_return(&[0x00]);
        let fails: Vec<Vec<u8>> = vec![
            vec![0x60, 0x00, 0x60, 0x00, 0xfd],                        // REVERT
            vec![0xfe],                                                // INVALID
            code(|a| {
                a.push_u(0xef).push_u(0).op(0x53).push_u(1).push_u(0).op(0xf3); // returns 0xEF…
            }),
            code(|a| {
                a.push_u(0x6001).push_u(0).op(0xf3);                   // oversize
            }),
            vec![0x33, 0xff],                                          // initcode self-destructs
        ];
        for spec in [SpecId::HOMESTEAD, SpecId::SPURIOUS_DRAGON, SpecId::PETERSBURG, SpecId::BERLIN, SpecId::LONDON, SpecId::CANCUN, SpecId::PRAGUE] {
            for salt in [None, Some(5u64)] {
                if salt.is_some() && !SpecId::enabled(spec, SpecId::PETERSBURG) {
                    continue;
                }
                let cr = |init: &Vec<u8>, value: u64| It::Create { salt, init: init.clone(), value };
                let mut scripts: Vec<Script> = vec![];
                for kind in [Kind::CallSelf, Kind::Delegate, Kind::CallCode, Kind::CallOther] {
                    if !big && matches!(kind, Kind::CallCode | Kind::CallOther) {
                        continue;
                    }
                    for e1 in [s, r, h] {
                        // created in a frame ending in e1, created again outside
                        scripts.push(Script {
                            bodies: vec![
                                (vec![call(kind, 1, 300_000), cr(&ok, 0), cr(&ok, 0)], End::Return),
                                (vec![cr(&ok, 0)], e1),
                            ],
                            quiet: true,
                        });
                        // inner-inner creates and commits, inner does not
                        scripts.push(Script {
                            bodies: vec![
                                (vec![call(kind, 1, 400_000), cr(&ok, 0)], End::Return),
                                (vec![call(kind, 2, 200_000), cr(&ok, 0)], e1),
                                (vec![cr(&ok, 1)], s),
                            ],
                            quiet: true,
                        });
                    }
                    for f in &fails {
                        scripts.push(Script {
                            bodies: vec![(vec![call(kind, 1, 300_000), cr(&ok, 0)], End::Return), (vec![cr(f, 0), cr(&ok, 0)], s)],
                            quiet: true,
                        });
                    }
                }
                for f in &fails {
                    scripts.push(Script { bodies: vec![(vec![cr(f, 0), cr(&ok, 0), cr(f, 1), cr(&ok, 0)], End::Return)], quiet: true });
                }
                // value above the balance: no nonce bump; then a funded one
                scripts.push(Script { bodies: vec![(vec![cr(&ok, 101), cr(&ok, 100), cr(&ok, 1), cr(&ok, 0)], End::Return)], quiet: true });
                for sc in scripts {
                    w.push(script_case(spec, &sc, vec![], vec![], 100, 1_500_000));
                    out.count("boundary-xframe-create");
                }
            }
        }
    }
    // SELFDESTRUCT refund (before London) and destruction across frames
    for spec in [SpecId::FRONTIER, SpecId::TANGERINE, SpecId::SPURIOUS_DRAGON, SpecId::ISTANBUL, SpecId::BERLIN, SpecId::LONDON, SpecId::SHANGHAI, SpecId::CANCUN] {
        for kind in [Kind::CallSelf, Kind::Delegate, Kind::CallCode, Kind::CallOther] {
            if kind == Kind::Delegate && !SpecId::enabled(spec, SpecId::HOMESTEAD) {
                continue;
            }
            for ben in [End::SelfDestruct(0xdead), End::SelfDestructSelf, End::SelfDestruct(B)] {
                if !big && ben == End::SelfDestruct(B) {
                    continue;
                }
                let k2 = Kind::CallSelf;
                let scripts = vec![
                    vec![(vec![call(kind, 1, 100_000)], End::Return), (vec![], ben)],
                    vec![(vec![call(kind, 1, 100_000), call(kind, 1, 100_000)], End::Return), (vec![], ben)],
                    vec![(vec![call(k2, 2, 200_000), call(kind, 1, 100_000)], End::Return), (vec![], ben), (vec![call(kind, 1, 100_000)], r)],
                    vec![(vec![call(k2, 2, 200_000), call(kind, 1, 100_000)], End::Return), (vec![], ben), (vec![call(kind, 1, 100_000)], s)],
                    vec![(vec![call(k2, 2, 200_000), It::Balance(0xdead)], End::Return), (vec![], ben), (vec![call(kind, 1, 100_000)], h)],
                    vec![(vec![call(kind, 1, 100_000)], End::Revert), (vec![], ben)],
                    vec![(vec![It::Sstore(0, 0), call(kind, 1, 100_000)], End::Return), (vec![It::Sstore(0, 3)], ben)],
                ];
                for bodies in scripts {
                    let sc = Script { bodies, quiet: true };
                    w.push(script_case(spec, &sc, vec![(0, 9)], vec![(0, 9)], 77, 700_000));
                    out.count("boundary-xframe-selfdestruct");
                }
            }
        }
    }
}

/// gas handed to and returned from a child around the 63/64 boundaries (CALL and CREATE), exact requested gas
fn xframe_gas(out: &mut Out, w: &mut Vec<Case>, big: bool) {
    // forwards everything to `target`, returns (child's 3 words, flag, own gas after)
    let fwd = |target: u64, req: U256, value: u64| -> Vec<u8> {
        code(|a| {
            call(a, 0xf1, target, Some(req), value, 0, 0x60);
            a.push_u(0x60).op(0x52).op(0x5a).push_u(0x80).op(0x52).push_u(0xa0).push_u(0).op(0xf3);
        })
    };
    let report = |end: u8| -> Vec<u8> {
        code(|a| {
            a.op(0x5a).push_u(0).op(0x52).push_u(32).push_u(0).op(end);
        })
    };
    let burn = |k: usize, end: u8| -> Vec<u8> {
        code(|a| {
            for _ in 0..k {
                a.push_u(0).op(0x50);
            }
            a.op(end);
        })
    };
    let points: Vec<u64> = if big {
        (0..=200).chain(1440..=1540).chain(2040..=2056).collect()
    } else {
        let mut v: Vec<u64> = (0..6).collect();
        for m in [1u64, 2, 4, 8, 23, 32] {
            v.extend((64 * m - 3)..=(64 * m + 3));
        }
        v
    };
    let specs: &[SpecId] = if big {
        &[SpecId::HOMESTEAD, SpecId::TANGERINE, SpecId::BYZANTIUM, SpecId::ISTANBUL, SpecId::BERLIN, SpecId::CANCUN, SpecId::PRAGUE]
    } else {
        &[SpecId::HOMESTEAD, SpecId::TANGERINE, SpecId::BERLIN, SpecId::PRAGUE]
    };
    for spec in specs {
        let en = |s: SpecId| SpecId::enabled(*spec, s);
        let call_cost: u64 = if en(SpecId::BERLIN) { 2600 } else if en(SpecId::TANGERINE) { 700 } else { 40 };
        // child ends: returns its gas / reverts with its gas / INVALID
        for (ci, child) in [report(0xf3), report(0xfd), vec![0xfe]].into_iter().enumerate() {
            for value in [0u64, 1] {
                if value == 1 && !(big || ci == 0) {
                    continue;
                }
                let mut c = base(*spec);
                with_contract(&mut c, A, fwd(B, U256::MAX, value), 10, vec![]);
                with_contract(&mut c, B, child.clone(), 1, vec![]);
                // gas left when the call cost has been paid = k (pre-Tangerine the request is the tx's `k` itself)
                let pre = 21_000 + 7 * 3 + 9 + call_cost + if value > 0 { 9000 } else { 0 };
                if en(SpecId::TANGERINE) {
                    for k in &points {
                        c.txs.push(call_tx(&c, Some(A), pre + k, 0, vec![]));
                    }
                } else {
                    // before EIP-150 a request above what is left is an out-of-gas of the caller
                    for k in [0u64, 1, 63, 64, 65, 1000] {
                        c.txs.push(call_tx(&c, Some(A), pre + k, 0, vec![]));
                    }
                }
                out.count("boundary-xframe-gas-6364-call");
                w.push(c);
            }
        }
        // two levels: (63/64)^2
        {
            let mut c = base(*spec);
            with_contract(&mut c, A, fwd(B, U256::MAX, 0), 10, vec![]);
            with_contract(&mut c, B, fwd(C, U256::MAX, 0), 1, vec![]);
            with_contract(&mut c, C, report(0xf3), 1, vec![]);
            let pre = 21_000 + 30 + call_cost + ((30 + call_cost) * 64 + 62) / 63;
            if en(SpecId::TANGERINE) {
                for k in &points {
                    c.txs.push(call_tx(&c, Some(A), pre + k, 0, vec![]));
                }
                out.count("boundary-xframe-gas-6364-nested");
                w.push(c);
            }
        }
        // exact requested gas: the child needs exactly `cost` gas before its last instruction
        for (end, cost) in [(0x00u8, 640u64), (0xfd, 636), (0xfe, 636)] {
            let mut c = base(*spec);
            let body = if end == 0x00 {
                burn(128, 0x00)
            } else {
                code(|a| {
                    for _ in 0..126 {
                        a.push_u(0).op(0x50);
                    }
                    a.push_u(0).push_u(0).op(end);
                })
            };
            with_contract(&mut c, B, body, 1, vec![]);
            let mut callers = vec![];
            for (i, req) in [cost - 1, cost, cost + 1, 0, 1].into_iter().enumerate() {
                // one caller per requested amount, each at its own address
                let addr = 0x2000 + i as u64;
                with_contract(&mut c, addr, fwd(B, U256::from(req), 0), 10, vec![]);
                callers.push(addr);
            }
            for addr in callers {
                c.txs.push(call_tx(&c, Some(addr), 100_000, 0, vec![]));
            }
            out.count("boundary-xframe-gas-exact-request");
            w.push(c);
        }
        // CREATE keeps 1/64: the initcode burns everything it was given
        if en(SpecId::HOMESTEAD) {
            let mut c = base(*spec);
            with_contract(&mut c, A, code(|a| {
                create(a, &[0xfe], 0, None);
                a.push_u(0).op(0x52).op(0x5a).push_u(0x20).op(0x52).push_u(0x40).push_u(0).op(0xf3);
            }), 10, vec![]);
            let pre = 21_000 + 3 + 3 + 6 + 3 * 3 + 32_000 + if en(SpecId::SHANGHAI) { 2 } else { 0 };
            for k in &points {
                c.txs.push(call_tx(&c, Some(A), pre + k, 0, vec![]));
            }
            out.count("boundary-xframe-gas-6364-create");
            w.push(c);
        }
    }
}

/// The output window of a call: the parent's memory around and inside [out_off, out_off + out_len) is 0xff before the
/// call; the callee returns / reverts with fewer, as many or more bytes (0xab) than the window, halts, has no code, or
/// is a precompile; only min(out_len, returned) bytes of the window may change. The parent returns the flag,
/// RETURNDATASIZE and the whole region 0x100..0x1a0. Also RETURNDATACOPY into the same region afterwards, and CREATE
/// (return data but no window).
pub fn window_script(kind: Kind, out_off: u64, out_len: u64, callee: End, rds: bool, copy: Option<(u64, u64, u64)>) -> Script {
    let mut b0 = vec![
        It::Fill { from: 0x100, words: 5, byte: 0xff },
        It::CallWin { kind, body: 1, out_off, out_len, rds },
    ];
    if let Some((dest, off, extra)) = copy {
        b0.push(It::RetCopy { dest, off, extra });
    }
    Script { bodies: vec![(b0, End::ReturnMem(0xc0, 0xe0)), (vec![], callee)], quiet: true }
}

fn return_window(out: &mut Out, w: &mut Vec<Case>, big: bool) {
    let specs: &[SpecId] = if big {
        &[SpecId::FRONTIER, SpecId::HOMESTEAD, SpecId::BYZANTIUM, SpecId::ISTANBUL, SpecId::BERLIN, SpecId::CANCUN, SpecId::PRAGUE]
    } else {
        &[SpecId::HOMESTEAD, SpecId::BYZANTIUM, SpecId::PRAGUE]
    };
    let lens = [1u64, 31, 32, 33, 64];
    for spec in specs {
        let byz = SpecId::enabled(*spec, SpecId::BYZANTIUM);
        let offs: &[u64] = if big { &[0x120, 0x121, 0x13f] } else { &[0x121] };
        // a callee with code, entered every way
        for kind in [Kind::CallSelf, Kind::Delegate, Kind::CallCode, Kind::CallOther, Kind::Static] {
            if (kind == Kind::Static && !byz) || (kind == Kind::Delegate && !SpecId::enabled(*spec, SpecId::HOMESTEAD)) {
                continue;
            }
            for out_len in lens {
                let mut rets = vec![0u64, 1, out_len - 1, out_len, out_len + 1];
                rets.sort();
                rets.dedup();
                for ret in rets {
                    for revert in [false, true] {
                        if revert && !byz {
                            continue;
                        }
                        for off in offs {
                            let callee = if revert { End::RevertN(ret) } else { End::ReturnN(ret) };
                            let sc = window_script(kind, *off, out_len, callee, byz, None);
                            w.push(script_case(*spec, &sc, vec![], vec![], 0, 300_000));
                            out.count("boundary-return-window-code");
                        }
                    }
                }
                // halting callee, callee that stops without data
                for callee in [End::Invalid, End::Stop] {
                    let sc = window_script(kind, 0x120, out_len, callee, byz, None);
                    w.push(script_case(*spec, &sc, vec![], vec![], 0, 300_000));
                    out.count("boundary-return-window-code");
                }
                // RETURNDATACOPY afterwards: whole buffer next to / over the window, one byte too many
                if byz && (big || matches!(out_len, 1 | 32 | 33)) {
                    for (ret, copy) in [(out_len - 1, (0x160u64, 0u64, 0u64)), (out_len + 1, (0x121, 1, 0)), (1, (0x120, 0, 0)), (out_len, (0x160, 0, 1)), (0, (0x160, 0, 0))] {
                        for revert in [false, true] {
                            let callee = if revert { End::RevertN(ret) } else { End::ReturnN(ret) };
                            let sc = window_script(kind, 0x120, out_len, callee, true, Some(copy));
                            w.push(script_case(*spec, &sc, vec![], vec![], 0, 300_000));
                            out.count("boundary-return-window-returndatacopy");
                        }
                    }
                }
            }
        }
        // precompiles (identity with an input shorter / longer than the window, SHA-256, RIPEMD-160, out of gas),
        // accounts without code (existing, absent)
        for op in [0xf1u8, 0xf2, 0xf4, 0xfa] {
            if (op == 0xfa && !byz) || (op == 0xf4 && !SpecId::enabled(*spec, SpecId::HOMESTEAD)) {
                continue;
            }
            if !big && (op == 0xf2 || (op == 0xf4 && byz)) {
                continue;
            }
            for out_len in lens {
                let mut targets: Vec<(u64, u64, u64)> = vec![];
                let mut ins = vec![0u64, 1, out_len - 1, out_len, out_len + 1];
                ins.sort();
                ins.dedup();
                for in_len in ins {
                    targets.push((4, 50_000, in_len));
                }
                targets.extend([(2, 50_000, 3), (3, 50_000, 3), (4, 1, 40), (2, 1, 3), (0xe0b, 50_000, 4), (0xdead, 50_000, 4)]);
                for (to, gas, in_len) in targets {
                    let sc = Script {
                        bodies: vec![(
                            vec![
                                It::Fill { from: 0, words: 3, byte: 0xab },
                                It::Fill { from: 0x100, words: 5, byte: 0xff },
                                It::CallAddrWin { op, to, gas, in_len, out_off: 0x121, out_len, rds: byz },
                            ],
                            End::ReturnMem(0xc0, 0xe0),
                        )],
                        quiet: true,
                    };
                    let mut c = script_case(*spec, &sc, vec![], vec![], 0, 300_000);
                    c.accts.push(Acct { addr: a_n(0xe0b), balance: U256::from(1u64), ..Default::default() });
                    w.push(c);
                    out.count("boundary-return-window-precompile-or-no-code");
                }
            }
        }
        // CREATE / CREATE2: return data of a reverting initcode, no window; then RETURNDATACOPY into the region
        for salt in [None, Some(3u64)] {
            if salt.is_some() && !SpecId::enabled(*spec, SpecId::PETERSBURG) {
                continue;
            }
            for n in [0u64, 1, 32] {
                for (ei, end) in [0xfdu8, 0xf3, 0xfe].into_iter().enumerate() {
                    let init = code(|a| {
                        a.push_u(0xab).push_u(0).op(0x53);
                        if end != 0xfe {
                            a.push_u(n).push_u(0);
                        }
                        a.op(end);
                    });
                    let mut b0 = vec![It::Fill { from: 0x100, words: 5, byte: 0xff }, It::Create { salt, init, value: 0 }];
                    if byz {
                        b0.push(It::RetSize);
                        if ei == 0 {
                            b0.push(It::RetCopy { dest: 0x121, off: 0, extra: 0 });
                        }
                    }
                    let sc = Script { bodies: vec![(b0, End::ReturnMem(0xc0, 0xe0))], quiet: true };
                    w.push(script_case(*spec, &sc, vec![], vec![], 0, 400_000));
                    out.count("boundary-return-window-create");
                }
            }
        }
    }
}

/// every opcode byte once, with 17 small operands below it; the word on top of the stack afterwards is returned
fn opcode_sweep(out: &mut Out, w: &mut Vec<Case>, big: bool) {
    let specs: &[SpecId] = if big {
        &ALL
    } else {
        &[SpecId::FRONTIER, SpecId::HOMESTEAD, SpecId::BYZANTIUM, SpecId::PETERSBURG, SpecId::ISTANBUL, SpecId::LONDON, SpecId::SHANGHAI, SpecId::CANCUN, SpecId::PRAGUE]
    };
    for spec in specs {
        for op in 0u16..=255 {
            let op = op as u8;
            let prog = code(|a| {
                for i in (1..=17u64).rev() {
                    a.push_u(i);
                }
                match op {
                    0x56 => {
                        let p = a.push_label();
                        a.op(op);
                        let t = a.here();
                        a.patch(p, t);
                        a.op(0x5b);
                    }
                    0x57 => {
                        a.push_u(1);
                        let p = a.push_label();
                        a.op(op);
                        let t = a.here();
                        a.patch(p, t);
                        a.op(0x5b);
                    }
                    0xf1 | 0xf2 | 0xf4 | 0xfa => {
                        a.op(0x50).push_u(50_000).op(op);
                    }
                    0x40 => {
                        a.op(0x50).push_u(999).op(op);
                    }
                    _ => {
                        a.op(op);
                    }
                }
                a.push_u(0).op(0x52).push_u(32).push_u(0).op(0xf3);
            });
            let mut c = base(*spec);
            with_contract(&mut c, A, prog, 1000, vec![(1, 5), (2, 6)]);
            c.txs.push(call_tx(&c, Some(A), 200_000, 2, vec![0x11; 40]));
            w.push(c);
            out.count("boundary-opcode-sweep");
        }
    }
}

/// blob transactions: count / version / fee-cap / balance boundaries, blob fee kept whatever the execution does
fn blob_family(out: &mut Out, w: &mut Vec<Case>, _big: bool) {
    let vh = |i: u64, version: u8| {
        let mut b = [0u8; 32];
        b[0] = version;
        b[31] = i as u8 + 1;
        B256::from(b)
    };
    for spec in [SpecId::SHANGHAI, SpecId::CANCUN, SpecId::PRAGUE] {
        for price in [1u128, 3, 1000] {
            let mut c = base(spec);
            c.blob_gasprice = if SpecId::enabled(spec, SpecId::CANCUN) || price == 3 { Some(price) } else { None };
            // three contracts: the same reads and a refund-earning SSTORE, ending in RETURN / REVERT / INVALID
            for (i, end) in [0xf3u8, 0xfd, 0xfe].into_iter().enumerate() {
                with_contract(&mut c, A + i as u64, code(|a| {
                    for (j, idx) in [0u64, 1, 5, 6, 8, 9].into_iter().enumerate() {
                        a.push_u(idx).op(0x49).push_u(32 * j as u64).op(0x52);
                    }
                    a.op(0x4a).push_u(192).op(0x52);
                    a.push_u(0).push_u(0).op(0x55);
                    a.push_u(224).push_u(0).op(end);
                }), 0, vec![(0, 5)]);
            }
            let mk = |c: &Case, to: Option<u64>, nb: usize, cap: u128| {
                let mut t = call_tx(c, to, 300_000, 1, vec![]);
                t.prio = Some(U256::from(1u64));
                t.blobs = (0..nb).map(|i| vh(i as u64, 1)).collect();
                t.max_blob_fee = Some(U256::from(cap));
                t
            };
            for nb in [0usize, 1, 2, 6, 7, 9, 10] {
                for cap in [price.saturating_sub(1), price, price + 1] {
                    for to in [A, A + 1, A + 2] {
                        if to != A && !(cap == price && (nb == 1 || nb == 6)) {
                            continue;
                        }
                        c.txs.push(mk(&c, Some(to), nb, cap));
                    }
                }
            }
            // wrong version byte (first / last hash), create transaction, no fee cap, plain transfer with blobs
            for (nb, bad) in [(1usize, 0usize), (3, 2), (3, 0)] {
                let mut t = mk(&c, Some(A), nb, price);
                t.blobs[bad] = vh(bad as u64, 2);
                c.txs.push(t);
            }
            c.txs.push(mk(&c, None, 1, price));
            let mut t = mk(&c, Some(A), 1, price);
            t.max_blob_fee = None;
            c.txs.push(t);
            c.txs.push(mk(&c, Some(0xdead), 2, price));
            // a fee cap without blobs
            let mut t = call_tx(&c, Some(A), 300_000, 0, vec![]);
            t.max_blob_fee = Some(U256::from(price));
            c.txs.push(t);
            out.count("boundary-blob");
            w.push(c);
            // sender balance exactly gas_limit * max_fee + value + blobs * 2^17 * max_fee_per_blob_gas, and one less
            for short in [0u64, 1] {
                let mut c = base(spec);
                c.blob_gasprice = Some(price);
                with_contract(&mut c, A, vec![0x00], 0, vec![]);
                let t = mk(&c, Some(A), 2, price + 1);
                let need = U256::from(t.gas_limit) * t.gas_price + t.value + U256::from(2u64 * 131_072) * U256::from(price + 1);
                c.accts[0].balance = need - U256::from(short);
                c.txs.push(t);
                out.count("boundary-blob-balance");
                w.push(c);
            }
        }
    }
}

/// EIP-7702: the refund of the authorization list together with SSTORE refunds earned (and taken back) in nested
/// frames of the delegated code, under the EIP-3529 cap
fn eip7702_refund_family(out: &mut Out, w: &mut Vec<Case>, big: bool) {
    let spec = SpecId::PRAGUE;
    let eoa = 0xaaaa02u64;
    let eoa_new = 0xaaaa09u64;
    let (s, r, h) = (End::Stop, End::Revert, End::Invalid);
    let auth = |authority: u64, address: u64, nonce: u64| AuthItem {
        chain_id: U256::from(1u64),
        address: a_n(address),
        nonce,
        authority: Some(a_n(authority)),
    };
    let plans: Vec<(Vec<usize>, Vec<u64>)> = vec![
        (vec![0, 1], vec![0, X]),
        (vec![1, 4], vec![0, X]),
        (vec![1, 2], vec![0, Y]),
        (vec![0, 2, 4], vec![0, Y, 0]),
        (vec![1, 1], vec![0, 0]),
    ];
    for kind in [Kind::CallSelf, Kind::Delegate, Kind::CallCode] {
        for (pos, vals) in &plans {
            for (e1, e2) in [(s, s), (r, s), (s, h)] {
                if !big && kind != Kind::Delegate && (e1, e2) != (s, s) {
                    continue;
                }
                let sc = sstore_plan(kind, kind, pos, vals, e1, e2, 8);
                let mut c = base(spec);
                let prog = compile(&sc, B);
                with_contract(&mut c, A, prog.clone(), 0, vec![(0, X)]);
                with_contract(&mut c, B, prog, 0, vec![(0, X)]);
                // the authority exists with the slot set: the delegated code runs on the authority's storage
                c.accts.push(Acct {
                    addr: a_n(eoa),
                    balance: U256::from(1000u64),
                    nonce: 3,
                    storage: vec![(U256::ZERO, U256::from(X))],
                    ..Default::default()
                });
                for list in [
                    vec![auth(eoa, A, 3)],
                    vec![auth(eoa, A, 3), auth(eoa_new, A, 0)],
                    vec![auth(eoa_new, B, 0), auth(eoa, A, 3), auth(eoa, B, 4)],
                    vec![auth(eoa, A, 4)],
                ] {
                    let mut t = call_tx(&c, Some(eoa), 900_000, 0, vec![]);
                    t.prio = Some(U256::from(1u64));
                    t.auth = Some(list);
                    c.txs.push(t);
                }
                out.count("boundary-eip7702-xframe-refund");
                w.push(c);
            }
        }
    }
}

/// Numbers `nz` of non-zero calldata bytes at which, by the accounting of the specification, one of these flips between
/// `nz` and `nz + 1`: floor >= used - raw counter, floor >= used - capped refund, floor >= used, raw counter >= cap,
/// floor > gas limit; each with `lo` points below and `hi` above. `intr0`: intrinsic gas without calldata, `exec`: gas
/// of the execution, `raw`: refund counter, `halt_limit`: the gas limit of a transaction that halts (uses all of it).
pub fn floor_points(intr0: u64, exec: u64, raw: u64, gas_limit: u64, halts: bool, lo: u64, hi: u64) -> Vec<u64> {
    let floor = |nz: u64| 21_000 + 40 * nz;
    let used = |nz: u64| if halts { gas_limit } else { intr0 + 16 * nz + exec };
    let preds = |nz: u64| -> [bool; 5] {
        let u = used(nz);
        [
            floor(nz) >= u.saturating_sub(raw),
            floor(nz) >= u - raw.min(u / 5),
            floor(nz) >= u,
            raw >= u / 5,
            floor(nz) > gas_limit,
        ]
    };
    let mut points: std::collections::BTreeSet<u64> = Default::default();
    for nz in 0..3000u64 {
        if preds(nz) != preds(nz + 1) {
            for d in nz.saturating_sub(lo)..=nz + hi {
                points.insert(d);
            }
        }
    }
    points.into_iter().collect()
}

/// Prague: the EIP-7623 calldata floor against gas used minus the refund. The specification first caps the refund
/// counter (SSTORE refunds + EIP-7702 authority refunds) at a fifth of the gas used, subtracts it, and only then takes
/// the maximum with the floor. Calldata sizes sweep the floor across `used - raw counter`, `used - capped refund`,
/// `used`, and the point where the counter meets the cap - for counters below / above the cap, with and without
/// authorizations of existing authorities, for success / revert / halt.
fn floor_refund_family(out: &mut Out, w: &mut Vec<Case>, big: bool) {
    let eoa = 0xaaaa02u64;
    let eoa_b = 0xaaaa03u64;
    let eoa_new = 0xaaaa09u64;
    let auth = |authority: Option<u64>, nonce: u64| AuthItem {
        chain_id: U256::from(1u64),
        address: a_n(B),
        nonce,
        authority: authority.map(a_n),
    };
    // (list, number of valid authorizations of authorities that exist)
    let lists: Vec<(Vec<AuthItem>, u64)> = vec![
        (vec![], 0),
        (vec![auth(Some(eoa), 3)], 1),
        (vec![auth(Some(eoa), 3), auth(Some(eoa_b), 0)], 2),
        (vec![auth(Some(eoa_new), 0), auth(Some(eoa), 3), auth(None, 0), auth(Some(eoa_b), 5)], 1),
    ];
    for spec in [SpecId::PRAGUE, SpecId::CANCUN] {
        for n in [0u64, 1, 2, 4, 8] {
            for end in [0xf3u8, 0xfd, 0xfe] {
                for (ai, (list, existing)) in lists.iter().enumerate() {
                    if spec == SpecId::CANCUN && (ai > 0 || n != 4) {
                        continue;
                    }
                    if !big && ai == 3 && n != 2 {
                        continue;
                    }
                    let mut c = base(spec);
                    with_contract(&mut c, A, code(|a| {
                        for k in 0..n {
                            a.push_u(0).push_u(k).op(0x55);
                        }
                        if end != 0xfe {
                            a.push_u(0).push_u(0);
                        }
                        a.op(end);
                    }), 0, (0..n).map(|k| (k, 0xff)).collect());
                    with_contract(&mut c, B, vec![0x00], 0, vec![]);
                    c.accts.push(Acct { addr: a_n(eoa), balance: U256::from(1u64), nonce: 3, ..Default::default() });
                    c.accts.push(Acct { addr: a_n(eoa_b), balance: U256::from(1u64), nonce: 0, ..Default::default() });
                    // the accounting of the specification, as functions of the number of non-zero calldata bytes
                    let exec = n * 5006 + if end == 0xfe { 0 } else { 6 };
                    let nauth = list.len() as u64;
                    let gas_limit = if end == 0xfe { 60_000 + 25_000 * nauth } else { 400_000 };
                    let raw = (if end == 0xf3 { 4800 * n } else { 0 }) + 12_500 * existing;
                    let mut points: std::collections::BTreeSet<u64> = [0u64, 1, 200, 1300].into_iter().collect();
                    let (lo, hi) = if big { (6, 7) } else { (2, 3) };
                    points.extend(
                        floor_points(21_000 + 25_000 * nauth, exec, raw, gas_limit, end == 0xfe, lo, hi).into_iter().filter(|p| big || *p <= 1600),
                    );
                    for nz in points {
                        let mut t = call_tx(&c, Some(A), gas_limit, 0, vec![0x11; nz as usize]);
                        if !list.is_empty() {
                            t.prio = Some(U256::from(1u64));
                            t.auth = Some(list.clone());
                        }
                        c.txs.push(t);
                        out.count("floor-refund-transactions");
                    }
                    out.count("boundary-floor-refund");
                    w.push(c);
                }
            }
        }
    }
}

const ALL: [SpecId; 13] = [
    SpecId::FRONTIER,
    SpecId::HOMESTEAD,
    SpecId::TANGERINE,
    SpecId::SPURIOUS_DRAGON,
    SpecId::BYZANTIUM,
    SpecId::PETERSBURG,
    SpecId::ISTANBUL,
    SpecId::BERLIN,
    SpecId::LONDON,
    SpecId::MERGE,
    SpecId::SHANGHAI,
    SpecId::CANCUN,
    SpecId::PRAGUE,
];

/// `big`: include the cases whose initcode has the real EIP-3860 size (49152 bytes; the list-based Lean model needs
/// tens of seconds for each) — thorough tier only; the quick tier checks the same comparisons with a small
/// `limit_contract_code_size`
pub fn boundary(out: &mut Out, big: bool) -> Vec<Case> {
    let mut v: Vec<Case> = vec![];
    let mut add = |out: &mut Out, tag: &str, c: Case| {
        out.count(&format!("boundary-{}", tag));
        v.push(c);
    };

    // depth limit: unbounded self-recursion with all gas (pre-Tangerine reaches 1025 frames)
    for spec in [SpecId::FRONTIER, SpecId::HOMESTEAD, SpecId::TANGERINE, SpecId::CANCUN] {
        let mut c = base(spec);
        with_contract(&mut c, A, code(|a| {
            // CALL(self) with GAS - 100: before EIP-150 the requested gas must be affordable after the call cost
            a.push_u(0).push_u(0).push_u(0).push_u(0).push_u(0).push_u(A).push_u(100).op(0x5a).op(0x03).op(0xf1);
            a.op(0x50).op(0x00);
        }), 0, vec![]);
        for gas in [200_000u64, 1_000_000] {
            c.txs.push(call_tx(&c, Some(A), gas, 0, vec![]));
        }
        add(out, "depth", c);
    }
    // EIP-170 code size, EIP-3541, deposit gas: create transactions
    for spec in [SpecId::FRONTIER, SpecId::HOMESTEAD, SpecId::SPURIOUS_DRAGON, SpecId::BERLIN, SpecId::LONDON, SpecId::CANCUN] {
        for len in [0x5fffu64, 0x6000, 0x6001] {
            let mut c = base(spec);
            c.txs.push(call_tx(&c, None, 6_000_000, 0, init_return_zeros(len)));
            add(out, "codesize-tx", c);
        }
        let mut c = base(spec);
        c.txs.push(call_tx(&c, None, 200_000, 3, code(|a| {
            a.push_u(0xef).push_u(0).op(0x53).push_u(1).push_u(0).op(0xf3);
        })));
        c.txs.push(call_tx(&c, None, 200_000, 0, init_return(&[0xfe, 0xef])));
        add(out, "ef-prefix", c);
        // code deposit: exactly enough / one short is derived below from the gas spent
        let mut c = base(spec);
        c.txs.push(call_tx(&c, None, 200_000, 0, init_return(&[0x60, 0x01, 0x60, 0x00, 0x55, 0x00])));
        add(out, "deposit", c);
    }
    // CREATE opcode with oversize code / initcode limits
    for spec in [SpecId::LONDON, SpecId::SHANGHAI, SpecId::PRAGUE] {
        // the same limits scaled down by `limit_contract_code_size = 0x20` (max code 32, max initcode 64 bytes)
        for len in [0x40u64, 0x41] {
            let mut c = base(spec);
            c.limit_code_size = Some(0x20);
            with_contract(&mut c, A, code(|a| {
                a.push_u(len).push_u(0).push_u(0).op(0xf0);
                sstore_top(a, 0);
                a.push_u(7).push_u(len).push_u(0).push_u(0).op(0xf5);
                sstore_top(a, 1);
                // code size limit: initcode returning 0x20 / 0x21 bytes
                create(a, &init_return_zeros(0x20), 0, None);
                sstore_top(a, 2);
                create(a, &init_return_zeros(0x21), 0, None);
                sstore_top(a, 3);
            }), 0, vec![]);
            c.txs.push(call_tx(&c, Some(A), 3_000_000, 0, vec![]));
            c.txs.push(call_tx(&c, None, 3_000_000, 0, vec![0u8; len as usize]));
            c.txs.push(call_tx(&c, None, 3_000_000, 0, init_return_zeros(0x20)));
            c.txs.push(call_tx(&c, None, 3_000_000, 0, init_return_zeros(0x21)));
            add(out, "limits-scaled", c);
        }
    }
    // refund caps: clear N pre-set slots
    for spec in [SpecId::FRONTIER, SpecId::PETERSBURG, SpecId::ISTANBUL, SpecId::BERLIN, SpecId::LONDON, SpecId::PRAGUE] {
        for n in [1u64, 3, 12] {
            let mut c = base(spec);
            with_contract(&mut c, A, code(|a| {
                for i in 0..n {
                    a.push_u(0).push_u(i).op(0x55);
                }
                a.op(0x00);
            }), 0, (0..n).map(|i| (i, 5)).collect());
            c.txs.push(call_tx(&c, Some(A), 300_000, 0, vec![]));
            add(out, "refund-cap", c);
        }
    }
    // SSTORE matrix: original {0, 1} x sequences of values, with the EIP-2200 sentry
    for spec in [SpecId::FRONTIER, SpecId::PETERSBURG, SpecId::ISTANBUL, SpecId::BERLIN, SpecId::LONDON, SpecId::CANCUN] {
        for orig in [0u64, 1] {
            for seq in [[0u64, 1, 0], [1, 0, 1], [2, 2, 0], [2, 1, 2], [1, 2, 0]] {
                let mut c = base(spec);
                with_contract(&mut c, A, code(|a| {
                    for val in seq {
                        a.push_u(val).push_u(0).op(0x55);
                    }
                    a.push_u(0).op(0x54).push_u(1).op(0x55);
                }), 0, if orig == 0 { vec![] } else { vec![(0, orig)] });
                c.txs.push(call_tx(&c, Some(A), 200_000, 0, vec![]));
                add(out, "sstore-matrix", c);
            }
        }
        // sentry: SSTORE with little gas left through a gas-limited call
        let mut c = base(spec);
        with_contract(&mut c, A, code(|a| {
            call(a, 0xf1, B, Some(U256::from(2300u64)), 0, 0, 0);
            sstore_top(a, 0);
            call(a, 0xf1, B, Some(U256::from(2310u64)), 0, 0, 0);
            sstore_top(a, 1);
            call(a, 0xf1, B, Some(U256::from(30000u64)), 0, 0, 0);
            sstore_top(a, 2);
        }), 0, vec![]);
        with_contract(&mut c, B, code(|a| {
            a.push_u(1).push_u(0).op(0x55);
        }), 0, vec![(0, 2)]);
        c.txs.push(call_tx(&c, Some(A), 300_000, 0, vec![]));
        add(out, "sstore-sentry", c);
    }
    // EIP-7623 floor and intrinsic boundaries
    for spec in [SpecId::CANCUN, SpecId::PRAGUE] {
        for (nz, z) in [(1000usize, 0usize), (0, 1000), (100, 5000), (1, 0)] {
            let mut data = vec![0x11u8; nz];
            data.extend(vec![0u8; z]);
            let ig = revm::interpreter::gas::calculate_initial_tx_gas(revm_canon(spec), &data, false, &[], 0);
            let floor = ig.initial_gas.max(ig.floor_gas);
            let mut c = base(spec);
            with_contract(&mut c, A, code(|a| {
                a.push_u(1).push_u(0).op(0x55);
            }), 0, vec![]);
            for (to, g) in [(0xeeeeu64, floor), (0xeeee, floor - 1), (0xeeee, floor + 1), (A, floor), (A, floor + 30_000), (A, ig.initial_gas + 22_200)] {
                c.txs.push(call_tx(&c, Some(to), g, 0, data.clone()));
            }
            add(out, "floor", c);
        }
    }
    // stipend and value calls
    for spec in ALL {
        let mut c = base(spec);
        with_contract(&mut c, A, code(|a| {
            call(a, 0xf1, B, Some(U256::ZERO), 1, 0, 0);
            sstore_top(a, 0);
            call(a, 0xf1, C, Some(U256::ZERO), 1, 0, 0);
            sstore_top(a, 1);
            call(a, 0xf1, 0xdead, Some(U256::ZERO), 1, 0, 0);
            sstore_top(a, 2);
            call(a, 0xf1, 0xdead, Some(U256::ZERO), 0, 0, 0);
            sstore_top(a, 3);
            call(a, 0xf2, B, Some(U256::ZERO), 1, 0, 0);
            sstore_top(a, 4);
            call(a, 0xf1, B, Some(U256::ZERO), 1000, 0, 0);
            sstore_top(a, 5);
        }), 5, vec![]);
        with_contract(&mut c, B, code(|a| {
            a.push_u(0).push_u(0).op(0xa0).op(0x5a).push_u(0).op(0x52).push_u(32).push_u(0).op(0xf3);
        }), 0, vec![]);
        with_contract(&mut c, C, code(|a| {
            a.push_u(1).push_u(0).op(0x55);
        }), 0, vec![]);
        c.txs.push(call_tx(&c, Some(A), 400_000, 0, vec![]));
        add(out, "stipend", c);
        // 63/64 rule: ask for everything, the callee reports its gas
        let mut c = base(spec);
        with_contract(&mut c, A, code(|a| {
            call(a, 0xf1, B, Some(U256::MAX), 0, 0, 32);
            sstore_top(a, 0);
            a.push_u(0).op(0x51);
            sstore_top(a, 1);
            call(a, 0xf4, B, Some(U256::from(50_000u64)), 0, 0, 32);
            sstore_top(a, 2);
            a.push_u(0).op(0x51);
            sstore_top(a, 3);
        }), 0, vec![]);
        with_contract(&mut c, B, code(|a| {
            a.op(0x5a).push_u(0).op(0x52).push_u(32).push_u(0).op(0xf3);
        }), 0, vec![]);
        c.txs.push(call_tx(&c, Some(A), 300_000, 0, vec![]));
        add(out, "gas-forwarding", c);
        // call-scheme contexts: ADDRESS / CALLER / CALLVALUE as seen by the callee
        let mut c = base(spec);
        with_contract(&mut c, A, code(|a| {
            for (i, op) in [0xf1u8, 0xf2, 0xf4, 0xfa].iter().enumerate() {
                call(a, *op, B, Some(U256::from(100_000u64)), 2, 0, 96);
                sstore_top(a, 10 + i as u64);
                for w in 0..3u64 {
                    a.push_u(w * 32).op(0x51);
                    sstore_top(a, 20 + 4 * i as u64 + w);
                }
            }
        }), 100, vec![]);
        with_contract(&mut c, B, code(|a| {
            a.op(0x30).push_u(0).op(0x52).op(0x33).push_u(32).op(0x52).op(0x34).push_u(64).op(0x52);
            a.push_u(96).push_u(0).op(0xf3);
        }), 0, vec![]);
        c.txs.push(call_tx(&c, Some(A), 2_000_000, 3, vec![]));
        add(out, "call-context", c);
        // SELFDESTRUCT: existing contract to a new / existing / self beneficiary; created in the same transaction
        for target in [0xdeadu64, B, A] {
            let mut c = base(spec);
            with_contract(&mut c, A, code(|a| {
                a.push_u(target).op(0xff);
            }), 77, vec![(0, 1)]);
            with_contract(&mut c, B, vec![0x00], 1, vec![]);
            c.txs.push(call_tx(&c, Some(A), 200_000, 5, vec![]));
            add(out, "selfdestruct", c);
        }
        let mut c = base(spec);
        with_contract(&mut c, A, code(|a| {
            create(a, &init_return(&[0x33, 0xff]), 9, None);
            a.push_u(0).push_u(0).push_u(0).push_u(0).push_u(0).op(0x85).op(0x5a).op(0xf1);
            sstore_top(a, 0);
            a.op(0x80).op(0x31);
            sstore_top(a, 1);
            a.op(0x3b);
            sstore_top(a, 2);
            // twice in one transaction
            call(a, 0xf1, C, None, 0, 0, 0);
            a.op(0x50);
            call(a, 0xf1, C, None, 0, 0, 0);
            a.op(0x50);
        }), 50, vec![]);
        with_contract(&mut c, C, code(|a| {
            a.op(0x33).op(0xff);
        }), 4, vec![]);
        c.txs.push(call_tx(&c, Some(A), 600_000, 0, vec![]));
        add(out, "selfdestruct-created", c);
        // nonces and created addresses; failing initcode; collision by CREATE2 twice
        let mut c = base(spec);
        with_contract(&mut c, A, code(|a| {
            create(a, &init_return(&[0x00]), 0, None);
            sstore_top(a, 0);
            create(a, &[0x60, 0x00, 0x60, 0x00, 0xfd], 0, None);
            sstore_top(a, 1);
            create(a, &[0xfe], 0, None);
            sstore_top(a, 2);
            create(a, &init_return(&[0x00]), 0, None);
            sstore_top(a, 3);
            create(a, &init_return(&[0x00]), 0, Some(5));
            sstore_top(a, 4);
            create(a, &init_return(&[0x00]), 0, Some(5));
            sstore_top(a, 5);
            create(a, &init_return(&[0x00]), 1000, None);
            sstore_top(a, 6);
            a.op(0x3d);
            sstore_top(a, 7);
        }), 10, vec![]);
        c.txs.push(call_tx(&c, Some(A), 2_000_000, 0, vec![]));
        add(out, "create-nonce", c);
        // EXP gas per exponent byte, memory expansion, BLOCKHASH window, return-data rules
        let mut c = base(spec);
        with_contract(&mut c, A, code(|a| {
            for e in [U256::from(1u64), U256::from(0x100u64), U256::MAX] {
                a.push(e).push_u(3).op(0x0a);
                a.op(0x50);
            }
            a.push_u(1).push_u(0x10000).op(0x52);
            for n in [999u64, 1000, 1001, 744, 743, 0] {
                a.push_u(n).op(0x40);
                a.op(0x50);
            }
            a.push_u(999).op(0x40);
            sstore_top(a, 0);
            a.push_u(744).op(0x40);
            sstore_top(a, 1);
            a.push_u(743).op(0x40);
            sstore_top(a, 2);
        }), 0, vec![]);
        c.txs.push(call_tx(&c, Some(A), 500_000, 0, vec![]));
        add(out, "exp-mem-blockhash", c);
        // transaction to an absent account / value to absent account / zero-value touch of an empty account
        let mut c = base(spec);
        c.accts.push(Acct { addr: a_n(0xe0e0), ..Default::default() });
        c.txs.push(call_tx(&c, Some(0xdead), 50_000, 0, vec![]));
        c.txs.push(call_tx(&c, Some(0xdead), 50_000, 1, vec![]));
        c.txs.push(call_tx(&c, Some(0xe0e0), 50_000, 0, vec![]));
        c.txs.push(call_tx(&c, Some(3), 50_000, 0, vec![1, 2, 3]));
        add(out, "plain-transfers", c);
    }
    // account queries on every kind of account; transactions from a sender with code (EIP-3607)
    for spec in ALL {
        let mut c = base(spec);
        c.accts.push(Acct { addr: a_n(0xe0e0), ..Default::default() });
        c.accts.push(Acct { addr: a_n(0xe0e1), balance: U256::from(5u64), ..Default::default() });
        c.accts.push(Acct { addr: a_n(0xe0e2), nonce: 1, ..Default::default() });
        with_contract(&mut c, B, vec![0x00], 0, vec![]);
        with_contract(&mut c, A, code(|a| {
            let mut slot = 0u64;
            for t in [0xdeadu64, 0xe0e0, 0xe0e1, 0xe0e2, B, A, 2, 0xaaaa01] {
                for op in [0x31u8, 0x3b, 0x3f] {
                    a.push_u(t).op(op);
                    sstore_top(a, slot);
                    slot += 1;
                }
            }
            a.op(0x47);
            sstore_top(a, 100);
            a.push_u(8).push_u(0).push_u(0).push_u(B).op(0x3c).push_u(0).op(0x51);
            sstore_top(a, 101);
        }), 3, vec![]);
        c.txs.push(call_tx(&c, Some(A), 3_000_000, 0, vec![]));
        let mut t = call_tx(&c, Some(0xdead), 100_000, 0, vec![]);
        t.caller = a_n(A);
        t.nonce = None;
        c.accts.iter_mut().find(|x| x.addr == a_n(A)).unwrap().balance = ether(1);
        c.txs.push(t);
        add(out, "account-queries", c);
    }
    // RETURNDATA rules, static-context violations (Byzantium+)
    for spec in [SpecId::BYZANTIUM, SpecId::ISTANBUL, SpecId::CANCUN, SpecId::PRAGUE] {
        let mut c = base(spec);
        with_contract(&mut c, A, code(|a| {
            call(a, 0xf1, B, None, 0, 0, 0);
            a.op(0x50).op(0x3d);
            sstore_top(a, 0);
            a.push_u(40).push_u(0).push_u(0).op(0x3e);
            a.push_u(0).op(0x51);
            sstore_top(a, 1);
            call(a, 0xf1, C, None, 0, 0, 0);
            sstore_top(a, 2);
            a.op(0x3d);
            sstore_top(a, 3);
            // one byte too many: OutOfOffset
            a.push_u(1).push_u(4).push_u(0).op(0x3e);
        }), 0, vec![]);
        with_contract(&mut c, B, code(|a| {
            a.push(U256::MAX).push_u(0).op(0x52).push_u(40).push_u(0).op(0xf3);
        }), 0, vec![]);
        with_contract(&mut c, C, code(|a| {
            a.push_u(0xabcd).push_u(0).op(0x52).push_u(4).push_u(28).op(0xfd);
        }), 0, vec![]);
        c.txs.push(call_tx(&c, Some(A), 300_000, 0, vec![]));
        add(out, "returndata", c);
        for (i, body) in [
            code(|a| { a.push_u(1).push_u(0).op(0x55); }),
            code(|a| { a.push_u(0).push_u(0).op(0xa0); }),
            code(|a| { a.push_u(0).push_u(0).push_u(0).op(0xf0); }),
            code(|a| { a.push_u(0xdead).op(0xff); }),
            code(|a| { call(a, 0xf1, 0xdead, None, 1, 0, 0); }),
            code(|a| { call(a, 0xf1, 0xdead, None, 0, 0, 0); a.op(0x50); call(a, 0xf2, 0xdead, None, 1, 0, 0); }),
            code(|a| { a.push_u(1).push_u(0).op(0x5d); }),
            code(|a| { a.push_u(0).op(0x54).op(0x50).push_u(0).op(0x5c); }),
        ]
        .into_iter()
        .enumerate()
        {
            let mut c = base(spec);
            with_contract(&mut c, A, code(|a| {
                call(a, 0xfa, B, Some(U256::from(100_000u64)), 0, 0, 0);
                sstore_top(a, 0);
                a.op(0x5a);
                sstore_top(a, 1);
            }), 0, vec![]);
            with_contract(&mut c, B, body, 10, vec![]);
            c.txs.push(call_tx(&c, Some(A), 400_000, 0, vec![]));
            add(out, &format!("static-{}", i), c);
        }
        // RIPEMD-160 precedent: 0x03 touched by a failing call inside a reverting frame
        let mut c = base(spec);
        c.accts.push(Acct { addr: a_n(3), ..Default::default() });
        with_contract(&mut c, A, code(|a| {
            call(a, 0xf1, B, Some(U256::from(60_000u64)), 0, 0, 0);
            sstore_top(a, 0);
        }), 0, vec![]);
        with_contract(&mut c, B, code(|a| {
            call(a, 0xf1, 3, Some(U256::from(100u64)), 0, 32, 0);
            a.op(0x50);
            call(a, 0xf1, 3, Some(U256::from(5000u64)), 0, 32, 32);
            a.op(0x50).op(0xfe);
        }), 0, vec![]);
        c.txs.push(call_tx(&c, Some(A), 300_000, 0, vec![]));
        add(out, "ripemd-touch", c);
    }
    // precompiles with valid inputs, exact gas and one less
    {
        let h = |s: &str| -> Vec<u8> { (0..s.len() / 2).map(|i| u8::from_str_radix(&s[2 * i..2 * i + 2], 16).unwrap()).collect() };
        let ecrec = h("456e9aea5e197a1f1af7a3e85a3212fa4049a3ba34c2289b4c860fc0b0c64ef3000000000000000000000000000000000000000000000000000000000000001c9242685bf161793cc25603c231bc2f568eb630ea16aa137d2664ac80388256084f8ae3bd7535248d0bd448298cc2e2071e56992d0774dc340c368ae950852ada");
        let mut w = |n: u64| -> Vec<u8> { U256::from(n).to_be_bytes::<32>().to_vec() };
        let modexp: Vec<u8> = [w(1), w(1), w(1), vec![3, 5, 7]].concat();
        let modexp_big: Vec<u8> = [w(32), w(32), w(32), U256::MAX.to_be_bytes::<32>().to_vec(), U256::MAX.to_be_bytes::<32>().to_vec(), (U256::MAX - U256::from(58u64)).to_be_bytes::<32>().to_vec()].concat();
        let g1: Vec<u8> = [w(1), w(2)].concat();
        let bnadd: Vec<u8> = [g1.clone(), g1.clone()].concat();
        let bnmul: Vec<u8> = [g1.clone(), w(9)].concat();
        let blake = h("0000000c48c9bdf267e6096a3ba7ca8485ae67bb2bf894fe72f36e3cf1361d5f3af54fa5d182e6ad7f520e511f6c3e2b8c68059b6bbd41fbabd9831f79217e1319cde05b61626300000000000000000000000000000000000000000000000000000000000000000000000000000000000000000000000000000000000000000000000000000000000000000000000000000000000000000000000000000000000000000000000000000000000000000000000000000000000000000000000000000000000000000000000000000300000000000000000000000000000001");
        let inputs: Vec<(u64, Vec<u8>)> = vec![
            (1, ecrec.clone()),
            (1, ecrec[..100].to_vec()),
            (2, b"abc".to_vec()),
            (3, b"abc".to_vec()),
            (4, vec![1, 2, 3, 4, 5]),
            (5, modexp),
            (5, modexp_big),
            (6, bnadd),
            (6, vec![]),
            (7, bnmul),
            (8, vec![]),
            (8, vec![1u8; 192]),
            (9, blake.clone()),
            (9, blake[..212].to_vec()),
            (10, vec![0u8; 192]),
            (11, vec![0u8; 256]),
            (16, vec![0u8; 64]),
        ];
        for spec in [SpecId::HOMESTEAD, SpecId::BYZANTIUM, SpecId::ISTANBUL, SpecId::BERLIN, SpecId::CANCUN, SpecId::PRAGUE] {
            for (addr, input) in &inputs {
                let mut c = base(spec);
                // through a transaction
                c.txs.push(call_tx(&c, Some(*addr), 500_000, 0, input.clone()));
                // through a contract that copies its calldata and stores the result
                with_contract(&mut c, A, code(|a| {
                    a.op(0x36).push_u(0).push_u(0).op(0x37);
                    a.push_u(64).push_u(0x400).op(0x36).push_u(0).push_u(0).push_u(*addr).op(0x5a).op(0xf1);
                    sstore_top(a, 0);
                    a.push_u(0x400).op(0x51);
                    sstore_top(a, 1);
                    a.op(0x3d);
                    sstore_top(a, 2);
                }), 0, vec![]);
                c.txs.push(call_tx(&c, Some(A), 600_000, 0, input.clone()));
                add(out, &format!("precompile-{}", addr), c);
            }
        }
        let _ = &mut w;
    }
    // access lists
    for spec in [SpecId::BERLIN, SpecId::LONDON, SpecId::MERGE, SpecId::SHANGHAI, SpecId::CANCUN, SpecId::PRAGUE] {
        let mut c = base(spec);
        with_contract(&mut c, A, code(|a| {
            for k in [0u64, 1, 2] {
                a.push_u(k).op(0x54).op(0x50);
            }
            a.push_u(B).op(0x31).op(0x50).push_u(C).op(0x3b).op(0x50).push_u(0xdead).op(0x3f).op(0x50);
            a.op(0x41).op(0x31).op(0x50).push_u(4).op(0x31).op(0x50);
            // the address of the early EIP-2935 draft is an ordinary cold address
            a.push(U256::from_str_radix("25a219378dad9b3503c8268c9ca836a52427a4fb", 16).unwrap()).op(0x31).op(0x50);
            call(a, 0xf1, B, Some(U256::from(10_000u64)), 0, 0, 0);
            a.op(0x50);
            a.op(0x5a);
            sstore_top(a, 5);
        }), 0, vec![(0, 1), (1, 2)]);
        with_contract(&mut c, B, vec![0x00], 0, vec![]);
        with_contract(&mut c, C, vec![0x00], 0, vec![]);
        for al in [
            vec![],
            vec![(a_n(A), vec![U256::ZERO, U256::from(2u64)])],
            vec![(a_n(B), vec![]), (a_n(0xdead), vec![U256::ZERO]), (sender(), vec![]), (a_n(A), vec![U256::from(1u64), U256::from(1u64)])],
        ] {
            let mut t = call_tx(&c, Some(A), 300_000, 0, vec![]);
            t.access_list = al;
            c.txs.push(t);
        }
        add(out, "access-list", c);
    }
    // fees: EIP-1559 tips, blob fee, reward
    for spec in [SpecId::LONDON, SpecId::CANCUN, SpecId::PRAGUE] {
        let mut c = base(spec);
        with_contract(&mut c, A, code(|a| {
            a.op(0x3a);
            sstore_top(a, 0);
            a.op(0x48);
            sstore_top(a, 1);
            if SpecId::enabled(spec, SpecId::CANCUN) {
                a.op(0x4a);
                sstore_top(a, 2);
                a.push_u(0).op(0x49);
                sstore_top(a, 3);
                a.push_u(1).op(0x49);
                sstore_top(a, 4);
                a.push_u(2).op(0x49);
                sstore_top(a, 5);
            }
        }), 0, vec![]);
        for (price, prio) in [(15u64, Some(3u64)), (15, Some(15)), (15, Some(0)), (10, Some(0)), (100, Some(7)), (12, None)] {
            let mut t = call_tx(&c, Some(A), 300_000, 1, vec![]);
            t.gas_price = U256::from(price);
            t.prio = prio.map(U256::from);
            c.txs.push(t);
        }
        if SpecId::enabled(spec, SpecId::CANCUN) {
            for nb in [1usize, 2, 6, 7, 9, 10] {
                let mut t = call_tx(&c, Some(A), 300_000, 0, vec![]);
                t.prio = Some(U256::from(1u64));
                t.blobs = (0..nb).map(|i| {
                    let mut b = [0u8; 32];
                    b[0] = 1;
                    b[31] = i as u8 + 1;
                    B256::from(b)
                }).collect();
                t.max_blob_fee = Some(U256::from(5u64));
                c.txs.push(t);
            }
            let mut t = call_tx(&c, Some(A), 300_000, 0, vec![]);
            t.blobs = vec![B256::from(U256::from(1u64) << 248)];
            t.max_blob_fee = Some(U256::from(2u64));
            c.txs.push(t);
        }
        add(out, "fees", c);
    }
    // EIP-7702
    {
        let spec = SpecId::PRAGUE;
        let eoa = 0xaaaa02u64;
        let eoa_new = 0xaaaa09u64;
        let mut c = base(spec);
        c.accts.push(Acct { addr: a_n(eoa), balance: U256::from(1000u64), nonce: 3, ..Default::default() });
        with_contract(&mut c, A, code(|a| {
            a.op(0x30);
            sstore_top(a, 0);
            a.op(0x33);
            sstore_top(a, 1);
            a.push_u(eoa).op(0x3b);
            sstore_top(a, 2);
            a.push_u(eoa).op(0x3f);
            sstore_top(a, 3);
            a.push_u(23).push_u(0).push_u(0).push_u(eoa).op(0x3c).push_u(0).op(0x51);
            sstore_top(a, 4);
        }), 0, vec![]);
        with_contract(&mut c, B, code(|a| {
            call(a, 0xf1, eoa, Some(U256::from(100_000u64)), 0, 0, 0);
            sstore_top(a, 0);
            call(a, 0xf1, eoa_new, Some(U256::from(100_000u64)), 0, 0, 0);
            sstore_top(a, 1);
            a.op(0x5a);
            sstore_top(a, 2);
        }), 0, vec![]);
        let auth = |authority: u64, address: u64, nonce: u64, chain: u64| AuthItem {
            chain_id: U256::from(chain),
            address: a_n(address),
            nonce,
            authority: Some(a_n(authority)),
        };
        for (to, list) in [
            (eoa, vec![auth(eoa, A, 3, 1)]),
            (eoa, vec![auth(eoa, A, 3, 0)]),
            (eoa, vec![auth(eoa, A, 4, 1)]),
            (eoa, vec![auth(eoa, A, 3, 2)]),
            (eoa_new, vec![auth(eoa_new, A, 0, 1)]),
            (B, vec![auth(eoa, A, 3, 1), auth(eoa_new, A, 0, 1)]),
            (B, vec![auth(eoa, A, 3, 1), auth(eoa, 0, 4, 1)]),
            (eoa, vec![auth(eoa, eoa, 3, 1)]),
            (eoa, vec![auth(eoa, 4, 3, 1)]),
            (eoa, vec![auth(A, B, 1, 1)]),
            (eoa, vec![AuthItem { chain_id: U256::from(1u64), address: a_n(A), nonce: 3, authority: None }]),
            (A, vec![AuthItem { chain_id: U256::from(1u64), address: a_n(A), nonce: 8, authority: Some(sender()) }]),
        ] {
            let mut t = call_tx(&c, Some(to), 400_000, 0, vec![]);
            t.prio = Some(U256::from(1u64));
            t.auth = Some(list);
            c.txs.push(t);
        }
        add(out, "eip7702", c);
        // a delegated account in the pre-state, chains of delegation, delegation to a precompile / to itself
        for target in [A, 0xaaaa05u64, 4, 0xaaaa04] {
            let mut c = base(spec);
            let mut des = vec![0xef, 0x01, 0x00];
            des.extend_from_slice(a_n(target).as_slice());
            c.accts.push(Acct { addr: a_n(0xaaaa04), balance: U256::from(9u64), nonce: 1, code: des.clone(), ..Default::default() });
            let mut des2 = vec![0xef, 0x01, 0x00];
            des2.extend_from_slice(a_n(A).as_slice());
            c.accts.push(Acct { addr: a_n(0xaaaa05), balance: U256::ZERO, nonce: 1, code: des2, ..Default::default() });
            with_contract(&mut c, A, code(|a| {
                a.op(0x30);
                sstore_top(a, 0);
            }), 0, vec![]);
            with_contract(&mut c, B, code(|a| {
                for op in [0xf1u8, 0xf2, 0xf4, 0xfa] {
                    call(a, op, 0xaaaa04, Some(U256::from(50_000u64)), 0, 0, 0);
                    a.op(0x50);
                }
                a.op(0x5a);
                sstore_top(a, 1);
            }), 0, vec![]);
            c.txs.push(call_tx(&c, Some(0xaaaa04), 200_000, 1, vec![]));
            c.txs.push(call_tx(&c, Some(B), 400_000, 0, vec![]));
            // the delegated account as the sender of a transaction
            let mut t = call_tx(&c, Some(A), 100_000, 0, vec![]);
            t.caller = a_n(0xaaaa04);
            t.nonce = Some(1);
            c.accts.iter_mut().find(|x| x.addr == a_n(0xaaaa04)).unwrap().balance = ether(1);
            c.txs.push(t);
            add(out, "delegated-prestate", c);
        }
    }
    // create transactions onto occupied addresses
    for spec in [SpecId::HOMESTEAD, SpecId::SPURIOUS_DRAGON, SpecId::CANCUN] {
        for kind in 0..5 {
            for hs in [true, false] {
                let mut c = base(spec);
                c.hs = hs;
                let at = sender().create(7);
                let mut acc = Acct { addr: at, ..Default::default() };
                match kind {
                    0 => acc.nonce = 1,
                    1 => acc.code = vec![0x00],
                    2 => acc.storage = vec![(U256::from(1u64), U256::from(1u64))],
                    3 => acc.balance = U256::from(7u64),
                    _ => acc.storage = vec![(U256::from(1u64), U256::ZERO)],
                }
                c.accts.push(acc);
                c.txs.push(call_tx(&c, None, 200_000, 2, init_return(&[0x00])));
                add(out, "tx-create-collision", c);
            }
        }
    }
    // transient storage across frames and reverts
    for spec in [SpecId::SHANGHAI, SpecId::CANCUN, SpecId::PRAGUE] {
        let mut c = base(spec);
        with_contract(&mut c, A, code(|a| {
            a.push_u(5).push_u(1).op(0x5d);
            call(a, 0xf1, B, None, 0, 0, 0);
            a.op(0x50);
            call(a, 0xf4, B, None, 0, 0, 0);
            a.op(0x50);
            a.push_u(1).op(0x5c);
            sstore_top(a, 0);
            call(a, 0xf1, A, Some(U256::from(30_000u64)), 0, 0, 0);
            a.op(0x50);
            a.push_u(1).op(0x5c);
            sstore_top(a, 1);
            a.push_u(2).push_u(3).push_u(4).op(0x5e);
            a.op(0x5f);
            sstore_top(a, 2);
        }), 0, vec![]);
        with_contract(&mut c, B, code(|a| {
            a.push_u(9).push_u(1).op(0x5d).push_u(0).push_u(0).op(0xfd);
        }), 0, vec![]);
        c.txs.push(call_tx(&c, Some(A), 400_000, 0, vec![]));
        add(out, "transient", c);
    }
    // complete each case: oracle lines, then "exactly the gas spent" and one less for the first transaction
    for c in v.iter_mut() {
        add_oracle(c);
        let t0 = c.txs[0].clone();
        let r = {
            let p = c.clone();
            let t = t0.clone();
            guarded(move || run_tx(&p, &t))
        };
        let mut used = None;
        let mut refund = None;
        for tok in r.split(' ') {
            if let Some(x) = tok.strip_prefix("gas=") {
                used = x.parse::<u64>().ok();
            }
            if let Some(x) = tok.strip_prefix("refund=") {
                refund = x.parse::<u64>().ok();
            }
        }
        if let (Some(u), Some(rf)) = (used, refund) {
            let spent = u + rf;
            if r.starts_with("success") && spent > 21_000 && spent < 1_500_000 {
                for g in [spent, spent - 1] {
                    let mut t = t0.clone();
                    t.gas_limit = g;
                    c.txs.push(t);
                }
                add_oracle(c);
            }
        }
    }
    // cross-frame families and the opcode sweep: no derived gas limits (the programs are the boundary)
    {
        let mut w: Vec<Case> = vec![];
        xframe_sstore(out, &mut w, big);
        xframe_other(out, &mut w, big);
        xframe_gas(out, &mut w, big);
        opcode_sweep(out, &mut w, big);
        return_window(out, &mut w, big);
        blob_family(out, &mut w, big);
        eip7702_refund_family(out, &mut w, big);
        floor_refund_family(out, &mut w, big);
        for (i, c) in w.iter_mut().enumerate() {
            // single generous gas limits get the case index added: the request lines become distinct (the evidence
            // counts distinct transaction lines), nothing else changes
            if c.txs.len() == 1 && c.txs[0].gas_limit >= 200_000 {
                c.txs[0].gas_limit += i as u64;
            }
            add_oracle(c);
        }
        v.append(&mut w);
    }
    // the real EIP-3860 sizes (thorough tier only; no derived gas limits: each run of the list-based Lean model on a
    // 49152-byte initcode takes tens of seconds)
    if big {
        for len in [0xc000u64, 0xc001] {
            let spec = SpecId::SHANGHAI;
            let mut c = base(spec);
            with_contract(&mut c, A, code(|a| {
                a.push_u(7).push_u(len).push_u(0).push_u(0).op(0xf5);
                sstore_top(a, 1);
            }), 0, vec![]);
            c.txs.push(call_tx(&c, Some(A), 3_000_000, 0, vec![]));
            out.count("boundary-initcode-limit-opcode-real-size");
            v.push(c);
            let mut c = base(spec);
            c.txs.push(call_tx(&c, None, 3_000_000, 0, vec![0u8; len as usize]));
            out.count("boundary-initcode-limit-tx-real-size");
            v.push(c);
        }
    }
    // the achieved distribution over the rule families named in the property text (cases per family)
    let mut fam: std::collections::BTreeMap<&'static str, u64> = Default::default();
    for (k, n) in out.dist.iter() {
        if let Some(tag) = k.strip_prefix("boundary-") {
            *fam.entry(family_of(tag)).or_insert(0) += *n;
        }
    }
    for (f, n) in fam {
        *out.dist.entry(format!("family-{}-boundary-cases", f)).or_insert(0) += n;
    }
    out.dist.insert("boundary-transactions".into(), v.iter().map(|c| c.txs.len() as u64).sum());
    v
}

/// the rule family of the property text ("every legacy opcode, nested calls and creates, refunds, self-destruct,
/// access lists, blob and EIP-7702 transactions") a boundary tag belongs to
pub fn family_of(tag: &str) -> &'static str {
    let has = |p: &str| tag.starts_with(p);
    if has("opcode-sweep") || has("exp-mem") || has("returndata") || has("static-") || has("account-queries") || has("transient") || has("xframe-transient") {
        "opcodes"
    } else if has("xframe-sstore") || has("refund-cap") || has("sstore-") {
        "refunds"
    } else if has("selfdestruct") || has("xframe-selfdestruct") {
        "self-destruct"
    } else if has("access-list") || has("xframe-warmth") {
        "access-lists-and-warmth"
    } else if has("blob") || has("fees") {
        "blob-and-fee-transactions"
    } else if has("eip7702") || has("delegated-prestate") {
        "eip7702-transactions"
    } else if has("precompile") || has("ripemd") {
        "precompiles"
    } else if has("depth") || has("stipend") || has("gas-forwarding") || has("call-context") || has("return-window") || has("xframe-gas") || has("xframe-logs") || has("xframe-value") || has("plain-transfers") {
        "nested-calls"
    } else if has("codesize") || has("ef-prefix") || has("deposit") || has("limits") || has("create-nonce") || has("tx-create") || has("xframe-create") || has("initcode") {
        "creates"
    } else if has("floor-refund") {
        "refunds"
    } else if has("floor") {
        "intrinsic-gas-and-floor"
    } else {
        "other"
    }
}
