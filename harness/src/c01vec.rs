//! C01 vectors: the shipped execution-spec state tests `/repo/tests/pectra_devnet5/state_tests/**/*.json`, executed the
//! way `revme statetest` executes them (bins/revme/src/cmd/statetest/runner.rs): `State<EmptyDB>` over the `pre`
//! accounts, environment from `env`/`transaction`, every `post` entry of every fork; a case PASSES when revm's
//! post-state root and logs hash equal the vector's (or revm rejects a transaction whose `expectException` is set).
//! Every passing case is then emitted as an ordinary `evm` case (pre-state, transaction) so that the Lean model has to
//! reproduce revm's result and post-state: the model is validated against the reference's own answers without a
//! Merkle trie in Lean.  JSON, RLP and the Merkle-Patricia root are implemented here (no dependency may be added).
//!
//! request line inside such a case: `evm vector <relative path> <unit index> <fork name> <post index>` → `pass` |
//! `fail:<what>` (the model's reply is always `pass`: a reference vector that revm does not pass is a disagreement with
//! the execution specification).  Known stale vectors are excluded by file name, see `STALE`.
use crate::c01::*;
use crate::*;
use revm::db::{EmptyDB, State};
use revm::primitives::{
    calc_excess_blob_gas, keccak256, AccountInfo, Address, Authorization, BlobExcessGasAndPrice, Bytes, Log,
    SignedAuthorization, SpecId, B256, U256,
};
use revm::{DatabaseCommit, Evm};
use std::collections::BTreeMap;

/// interpreter steps of the real run beyond which a vector is not replayed on the Lean model
pub const MAX_MODEL_STEPS: u64 = 150_000;
pub const ROOT: &str = "/repo/tests/pectra_devnet5/state_tests";

/// vectors that the unchanged tree does not pass, with the reason (DESIGN.md §4.2): they encode the devnet-5 reading
/// of EXTCODESIZE / EXTCODEHASH / EXTCODECOPY on a delegated account (the 2-byte `0xef01`), the code implements the
/// final EIP-7702 text (the 23-byte designator; revm changelog #2016)
pub const STALE: [&str; 4] = [
    "prague/eip7702_set_code_tx/set_code_txs/ext_code_on_self_set_code.json",
    "prague/eip7702_set_code_tx/set_code_txs/ext_code_on_set_code.json",
    "prague/eip7702_set_code_tx/set_code_txs/ext_code_on_chain_delegating_set_code.json",
    "prague/eip7702_set_code_tx/set_code_txs/ext_code_on_self_delegating_set_code.json",
];

// ---------------------------------------------------------------------------------------------- JSON

#[derive(Debug, Clone)]
pub enum Json {
    Null,
    Bool(bool),
    Num(String),
    Str(String),
    Arr(Vec<Json>),
    Obj(Vec<(String, Json)>),
}

struct P<'a> {
    s: &'a [u8],
    i: usize,
}
impl<'a> P<'a> {
    fn ws(&mut self) {
        while self.i < self.s.len() && matches!(self.s[self.i], b' ' | b'\n' | b'\r' | b'\t') {
            self.i += 1;
        }
    }
    fn val(&mut self) -> Option<Json> {
        self.ws();
        match *self.s.get(self.i)? {
            b'{' => {
                self.i += 1;
                let mut v = vec![];
                self.ws();
                if self.s.get(self.i) == Some(&b'}') {
                    self.i += 1;
                    return Some(Json::Obj(v));
                }
                loop {
                    self.ws();
                    let k = self.string()?;
                    self.ws();
                    if self.s.get(self.i) != Some(&b':') {
                        return None;
                    }
                    self.i += 1;
                    let x = self.val()?;
                    v.push((k, x));
                    self.ws();
                    match self.s.get(self.i)? {
                        b',' => self.i += 1,
                        b'}' => {
                            self.i += 1;
                            return Some(Json::Obj(v));
                        }
                        _ => return None,
                    }
                }
            }
            b'[' => {
                self.i += 1;
                let mut v = vec![];
                self.ws();
                if self.s.get(self.i) == Some(&b']') {
                    self.i += 1;
                    return Some(Json::Arr(v));
                }
                loop {
                    v.push(self.val()?);
                    self.ws();
                    match self.s.get(self.i)? {
                        b',' => self.i += 1,
                        b']' => {
                            self.i += 1;
                            return Some(Json::Arr(v));
                        }
                        _ => return None,
                    }
                }
            }
            b'"' => self.string().map(Json::Str),
            b't' => {
                self.i += 4;
                Some(Json::Bool(true))
            }
            b'f' => {
                self.i += 5;
                Some(Json::Bool(false))
            }
            b'n' => {
                self.i += 4;
                Some(Json::Null)
            }
            _ => {
                let st = self.i;
                while self.i < self.s.len() && matches!(self.s[self.i], b'-' | b'+' | b'.' | b'e' | b'E' | b'0'..=b'9') {
                    self.i += 1;
                }
                if st == self.i {
                    return None;
                }
                Some(Json::Num(String::from_utf8_lossy(&self.s[st..self.i]).into_owned()))
            }
        }
    }
    fn string(&mut self) -> Option<String> {
        if self.s.get(self.i) != Some(&b'"') {
            return None;
        }
        self.i += 1;
        let mut out = Vec::new();
        loop {
            let c = *self.s.get(self.i)?;
            self.i += 1;
            match c {
                b'"' => return String::from_utf8(out).ok(),
                b'\\' => {
                    let e = *self.s.get(self.i)?;
                    self.i += 1;
                    match e {
                        b'n' => out.push(b'\n'),
                        b't' => out.push(b'\t'),
                        b'r' => out.push(b'\r'),
                        b'b' => out.push(8),
                        b'f' => out.push(12),
                        b'u' => {
                            let h = std::str::from_utf8(self.s.get(self.i..self.i + 4)?).ok()?;
                            let cp = u32::from_str_radix(h, 16).ok()?;
                            self.i += 4;
                            let ch = char::from_u32(cp).unwrap_or('?');
                            let mut b = [0u8; 4];
                            out.extend_from_slice(ch.encode_utf8(&mut b).as_bytes());
                        }
                        x => out.push(x),
                    }
                }
                x => out.push(x),
            }
        }
    }
}

pub fn parse_json(s: &[u8]) -> Option<Json> {
    let mut p = P { s, i: 0 };
    let v = p.val()?;
    p.ws();
    if p.i != s.len() {
        return None;
    }
    Some(v)
}

impl Json {
    pub fn get(&self, k: &str) -> Option<&Json> {
        match self {
            Json::Obj(v) => v.iter().find(|(kk, _)| kk == k).map(|x| &x.1),
            _ => None,
        }
    }
    pub fn str(&self) -> Option<&str> {
        match self {
            Json::Str(s) => Some(s),
            _ => None,
        }
    }
    pub fn arr(&self) -> Option<&Vec<Json>> {
        match self {
            Json::Arr(v) => Some(v),
            _ => None,
        }
    }
    pub fn obj(&self) -> Option<&Vec<(String, Json)>> {
        match self {
            Json::Obj(v) => Some(v),
            _ => None,
        }
    }
    pub fn usize(&self) -> Option<usize> {
        match self {
            Json::Num(s) => s.parse().ok(),
            Json::Str(s) => ju(s).map(|x| x.as_limbs()[0] as usize),
            _ => None,
        }
    }
}

/// `0x…` hex or decimal → U256 (like `U256::from_str`)
fn ju(s: &str) -> Option<U256> {
    if let Some(h) = s.strip_prefix("0x").or_else(|| s.strip_prefix("0X")) {
        if h.is_empty() {
            return Some(U256::ZERO);
        }
        U256::from_str_radix(h, 16).ok()
    } else {
        U256::from_str_radix(s, 10).ok()
    }
}
fn jbytes(s: &str) -> Option<Vec<u8>> {
    let h = s.strip_prefix("0x").unwrap_or(s);
    if h.len() % 2 != 0 {
        return None;
    }
    (0..h.len() / 2).map(|i| u8::from_str_radix(&h[2 * i..2 * i + 2], 16).ok()).collect()
}
fn jaddr(s: &str) -> Option<Address> {
    let b = jbytes(s)?;
    if b.len() != 20 {
        return None;
    }
    Some(Address::from_slice(&b))
}
fn jb256(s: &str) -> Option<B256> {
    let b = jbytes(s)?;
    if b.len() != 32 {
        return None;
    }
    Some(B256::from_slice(&b))
}

// ---------------------------------------------------------------------------------------------- RLP + trie

pub fn rlp_str(b: &[u8]) -> Vec<u8> {
    if b.len() == 1 && b[0] < 0x80 {
        return vec![b[0]];
    }
    let mut o = rlp_len(b.len(), 0x80);
    o.extend_from_slice(b);
    o
}
fn rlp_len(n: usize, base: u8) -> Vec<u8> {
    if n < 56 {
        vec![base + n as u8]
    } else {
        let be: Vec<u8> = (n as u64).to_be_bytes().iter().copied().skip_while(|x| *x == 0).collect();
        let mut o = vec![base + 55 + be.len() as u8];
        o.extend(be);
        o
    }
}
pub fn rlp_list(items: &[Vec<u8>]) -> Vec<u8> {
    let n: usize = items.iter().map(|x| x.len()).sum();
    let mut o = rlp_len(n, 0xc0);
    for i in items {
        o.extend_from_slice(i);
    }
    o
}
pub fn rlp_uint(v: U256) -> Vec<u8> {
    let b = v.to_be_bytes::<32>();
    let t: Vec<u8> = b.iter().copied().skip_while(|x| *x == 0).collect();
    rlp_str(&t)
}

fn hex_prefix(nib: &[u8], leaf: bool) -> Vec<u8> {
    let odd = nib.len() % 2 == 1;
    let flag = (if leaf { 2 } else { 0 }) + (if odd { 1 } else { 0 });
    let mut o = vec![];
    let mut i = 0;
    if odd {
        o.push((flag << 4) | nib[0]);
        i = 1;
    } else {
        o.push(flag << 4);
    }
    while i < nib.len() {
        o.push((nib[i] << 4) | nib[i + 1]);
        i += 2;
    }
    o
}
fn node_ref(enc: Vec<u8>) -> Vec<u8> {
    if enc.len() < 32 {
        enc
    } else {
        rlp_str(&keccak256(&enc).0)
    }
}
/// RLP of the trie node for `items` (sorted, distinct nibble keys of equal length) below `depth`
fn trie_node(items: &[(Vec<u8>, Vec<u8>)], depth: usize) -> Vec<u8> {
    if items.is_empty() {
        return vec![0x80];
    }
    if items.len() == 1 {
        return rlp_list(&[rlp_str(&hex_prefix(&items[0].0[depth..], true)), rlp_str(&items[0].1)]);
    }
    let first = &items[0].0;
    let last = &items[items.len() - 1].0;
    let mut cp = 0;
    while depth + cp < first.len() && first[depth + cp] == last[depth + cp] {
        cp += 1;
    }
    if cp > 0 {
        return rlp_list(&[rlp_str(&hex_prefix(&first[depth..depth + cp], false)), node_ref(trie_node(items, depth + cp))]);
    }
    let mut children: Vec<Vec<u8>> = vec![];
    let mut i = 0;
    for nib in 0..16u8 {
        let st = i;
        while i < items.len() && items[i].0[depth] == nib {
            i += 1;
        }
        children.push(if st == i { vec![0x80] } else { node_ref(trie_node(&items[st..i], depth + 1)) });
    }
    children.push(vec![0x80]);
    rlp_list(&children)
}
/// `triehash::sec_trie_root`: keys are hashed
pub fn sec_trie_root(kv: Vec<(Vec<u8>, Vec<u8>)>) -> B256 {
    let mut items: Vec<(Vec<u8>, Vec<u8>)> = kv
        .into_iter()
        .map(|(k, v)| {
            let h = keccak256(&k);
            (h.0.iter().flat_map(|b| [b >> 4, b & 15]).collect(), v)
        })
        .collect();
    items.sort();
    keccak256(trie_node(&items, 0))
}

pub fn state_root<'a>(accts: impl IntoIterator<Item = (Address, &'a revm::db::PlainAccount)>) -> B256 {
    sec_trie_root(
        accts
            .into_iter()
            .map(|(a, acc)| {
                let sroot = sec_trie_root(
                    acc.storage
                        .iter()
                        .filter(|(_, v)| !v.is_zero())
                        .map(|(k, v)| (k.to_be_bytes::<32>().to_vec(), rlp_uint(*v)))
                        .collect(),
                );
                let enc = rlp_list(&[
                    rlp_uint(U256::from(acc.info.nonce)),
                    rlp_uint(acc.info.balance),
                    rlp_str(&sroot.0),
                    rlp_str(&acc.info.code_hash.0),
                ]);
                (a.as_slice().to_vec(), enc)
            })
            .collect(),
    )
}

pub fn logs_hash(logs: &[Log]) -> B256 {
    let items: Vec<Vec<u8>> = logs
        .iter()
        .map(|l| {
            rlp_list(&[
                rlp_str(l.address.as_slice()),
                rlp_list(&l.topics().iter().map(|t| rlp_str(&t.0)).collect::<Vec<_>>()),
                rlp_str(&l.data.data),
            ])
        })
        .collect();
    keccak256(rlp_list(&items))
}

#[derive(Debug, Clone)]
pub enum Rlp {
    S(Vec<u8>),
    L(Vec<Rlp>),
}
/// strict (canonical) RLP decoding of one item
fn rlp_dec(b: &[u8]) -> Option<(Rlp, &[u8])> {
    let f = *b.first()?;
    let take = |b: &'_ [u8], hdr: usize, n: usize| -> Option<(Vec<u8>, usize)> {
        if b.len() < hdr + n {
            None
        } else {
            Some((b[hdr..hdr + n].to_vec(), hdr + n))
        }
    };
    let long_len = |b: &[u8], ll: usize| -> Option<usize> {
        if b.len() < 1 + ll || b[1] == 0 {
            return None;
        }
        let mut n = 0usize;
        for x in &b[1..1 + ll] {
            n = n.checked_mul(256)?.checked_add(*x as usize)?;
        }
        if n < 56 {
            return None;
        }
        Some(n)
    };
    match f {
        0..=0x7f => Some((Rlp::S(vec![f]), &b[1..])),
        0x80..=0xb7 => {
            let n = (f - 0x80) as usize;
            let (s, e) = take(b, 1, n)?;
            if n == 1 && s[0] < 0x80 {
                return None;
            }
            Some((Rlp::S(s), &b[e..]))
        }
        0xb8..=0xbf => {
            let ll = (f - 0xb7) as usize;
            let n = long_len(b, ll)?;
            let (s, e) = take(b, 1 + ll, n)?;
            Some((Rlp::S(s), &b[e..]))
        }
        _ => {
            let (hdr, n) = if f <= 0xf7 {
                (1, (f - 0xc0) as usize)
            } else {
                let ll = (f - 0xf7) as usize;
                (1 + ll, long_len(b, ll)?)
            };
            let (body, e) = take(b, hdr, n)?;
            let mut rest: &[u8] = &body;
            let mut v = vec![];
            while !rest.is_empty() {
                let (it, r) = rlp_dec(rest)?;
                v.push(it);
                rest = r;
            }
            Some((Rlp::L(v), &b[e..]))
        }
    }
}
fn rlp_u256(r: &Rlp) -> Option<U256> {
    match r {
        Rlp::S(s) if s.len() <= 32 && s.first() != Some(&0) => Some(U256::from_be_slice(s)),
        _ => None,
    }
}
fn rlp_u64(r: &Rlp) -> Option<u64> {
    match r {
        Rlp::S(s) if s.len() <= 8 && s.first() != Some(&0) => Some(U256::from_be_slice(s).as_limbs()[0]),
        _ => None,
    }
}

/// the authorization list of a type-4 transaction (`TxEip7702::decode` + `into_recovered`): `None` = not type 4,
/// `Some(Err)` = the bytes do not decode (revme skips the case)
pub fn auth_list_of(txbytes: &[u8]) -> Option<Result<Vec<AuthItem>, ()>> {
    if txbytes.first() != Some(&0x04) {
        return None;
    }
    let go = || -> Option<Vec<AuthItem>> {
        let (top, _rest) = rlp_dec(&txbytes[1..])?;
        let Rlp::L(f) = top else { return None };
        if f.len() < 13 {
            return None;
        }
        // chain_id, nonce, max_priority_fee, max_fee, gas_limit (typed integers), to, value, input, access list
        rlp_u64(&f[0])?;
        rlp_u64(&f[1])?;
        match &f[2] {
            Rlp::S(s) if s.len() <= 16 && s.first() != Some(&0) => {}
            _ => return None,
        }
        match &f[3] {
            Rlp::S(s) if s.len() <= 16 && s.first() != Some(&0) => {}
            _ => return None,
        }
        rlp_u64(&f[4])?;
        match &f[5] {
            Rlp::S(s) if s.len() == 20 || s.is_empty() => {}
            _ => return None,
        }
        rlp_u256(&f[6])?;
        let Rlp::L(auths) = &f[9] else { return None };
        let mut out = vec![];
        for a in auths {
            let Rlp::L(x) = a else { return None };
            if x.len() != 6 {
                return None;
            }
            let chain_id = rlp_u256(&x[0])?;
            let address = match &x[1] {
                Rlp::S(s) if s.len() == 20 => Address::from_slice(s),
                _ => return None,
            };
            let nonce = rlp_u64(&x[2])?;
            let y = match &x[3] {
                Rlp::S(s) if s.len() <= 1 && s.first() != Some(&0) => s.first().copied().unwrap_or(0),
                _ => return None,
            };
            let r = rlp_u256(&x[4])?;
            let s = rlp_u256(&x[5])?;
            let signed = SignedAuthorization::new_unchecked(Authorization { chain_id, address, nonce }, y, r, s);
            out.push(AuthItem { chain_id, address, nonce, authority: signed.recover_authority().ok() });
        }
        Some(out)
    };
    Some(go().ok_or(()))
}

// ---------------------------------------------------------------------------------------------- vectors

pub fn spec_of(name: &str) -> Option<SpecId> {
    Some(match name {
        "Frontier" => SpecId::FRONTIER,
        "Homestead" | "FrontierToHomesteadAt5" => SpecId::HOMESTEAD,
        "EIP150" | "HomesteadToDaoAt5" | "HomesteadToEIP150At5" => SpecId::TANGERINE,
        "EIP158" => SpecId::SPURIOUS_DRAGON,
        "Byzantium" | "EIP158ToByzantiumAt5" => SpecId::BYZANTIUM,
        "ConstantinopleFix" | "ByzantiumToConstantinopleFixAt5" => SpecId::PETERSBURG,
        "Istanbul" => SpecId::ISTANBUL,
        "Berlin" => SpecId::BERLIN,
        "London" | "BerlinToLondonAt5" => SpecId::LONDON,
        "Paris" | "Merge" => SpecId::MERGE,
        "Shanghai" => SpecId::SHANGHAI,
        "Cancun" => SpecId::CANCUN,
        "Prague" => SpecId::PRAGUE,
        _ => return None,
    })
}

pub struct VecCase {
    pub case: Case,
    pub expect_exception: bool,
    pub hash: B256,
    pub logs: B256,
    pub out: Option<Vec<u8>>,
}

/// the `Case` of `post[fork][idx]` of unit `unit` (revme's env set-up); `None` = revme skips it / not decodable
pub fn case_of(unit: &Json, fork: &str, idx: usize) -> Option<VecCase> {
    let spec = spec_of(fork)?;
    let env = unit.get("env")?;
    let txj = unit.get("transaction")?;
    let test = unit.get("post")?.get(fork)?.arr()?.get(idx)?;
    let e = |k: &str| env.get(k).and_then(|x| x.str());
    let is_prague = SpecId::enabled(spec, SpecId::PRAGUE);
    let blob_gasprice = if let Some(x) = e("currentExcessBlobGas") {
        Some(BlobExcessGasAndPrice::new(ju(x)?.to::<u64>(), is_prague).blob_gasprice)
    } else if let (Some(u), Some(x)) = (e("parentBlobGasUsed"), e("parentExcessBlobGas")) {
        let target = e("parentTargetBlobsPerBlock").and_then(ju).map(|x| x.to::<u64>()).unwrap_or(3);
        Some(BlobExcessGasAndPrice::new(calc_excess_blob_gas(ju(u)?.to(), ju(x)?.to(), target), is_prague).blob_gasprice)
    } else {
        None
    };
    let mut prevrandao = e("currentRandom").and_then(jb256);
    if SpecId::enabled(spec, SpecId::MERGE) && prevrandao.is_none() {
        prevrandao = Some(B256::ZERO);
    }
    let mut accts = vec![];
    for (a, info) in unit.get("pre")?.obj()? {
        let mut storage = vec![];
        for (k, v) in info.get("storage")?.obj()? {
            storage.push((ju(k)?, ju(v.str()?)?));
        }
        storage.sort();
        accts.push(Acct {
            addr: jaddr(a)?,
            balance: ju(info.get("balance")?.str()?)?,
            nonce: ju(info.get("nonce")?.str()?)?.to::<u64>(),
            code: jbytes(info.get("code")?.str()?)?,
            storage,
        });
    }
    accts.sort_by_key(|a| a.addr);
    let t = |k: &str| txj.get(k);
    let ix = test.get("indexes")?;
    let (di, gi, vi) = (ix.get("data")?.usize()?, ix.get("gas")?.usize()?, ix.get("value")?.usize()?);
    let gas_price = t("gasPrice").or(t("maxFeePerGas")).and_then(|x| x.str()).and_then(ju).unwrap_or_default();
    let mut access_list = vec![];
    if let Some(Json::Arr(items)) = t("accessLists").and_then(|x| x.arr()).and_then(|v| v.get(di)) {
        for it in items {
            let keys: Option<Vec<U256>> =
                it.get("storageKeys")?.arr()?.iter().map(|k| k.str().and_then(jb256).map(|h| U256::from_be_bytes(h.0))).collect();
            access_list.push((jaddr(it.get("address")?.str()?)?, keys?));
        }
    }
    let txbytes = test.get("txbytes").and_then(|x| x.str()).and_then(jbytes);
    let auth = match txbytes.as_deref().and_then(auth_list_of) {
        None => None,
        Some(Ok(l)) => Some(l),
        Some(Err(())) => return None,
    };
    let blobs: Vec<B256> = match t("blobVersionedHashes") {
        Some(Json::Arr(v)) => v.iter().map(|h| h.str().and_then(jb256)).collect::<Option<Vec<_>>>()?,
        _ => vec![],
    };
    let to = match t("to").and_then(|x| x.str()) {
        None | Some("") => None,
        Some(s) => Some(jaddr(s)?),
    };
    let tx = TxSpec {
        caller: jaddr(t("sender")?.str()?)?,
        gas_limit: {
            let g = ju(t("gasLimit")?.arr()?.get(gi)?.str()?)?;
            if g > U256::from(u64::MAX) { u64::MAX } else { g.to::<u64>() }
        },
        gas_price,
        to,
        value: ju(t("value")?.arr()?.get(vi)?.str()?)?,
        data: jbytes(t("data")?.arr()?.get(di)?.str()?)?,
        nonce: None,
        chain_id: None,
        prio: t("maxPriorityFeePerGas").and_then(|x| x.str()).and_then(ju),
        blobs,
        max_blob_fee: t("maxFeePerBlobGas").and_then(|x| x.str()).and_then(ju),
        access_list,
        auth,
    };
    let case = Case {
        spec,
        hs: false,
        chain_id: 1,
        number: ju(e("currentNumber")?)?,
        coinbase: jaddr(e("currentCoinbase")?)?,
        timestamp: ju(e("currentTimestamp")?)?,
        gas_limit: ju(e("currentGasLimit")?)?,
        basefee: e("currentBaseFee").and_then(ju).unwrap_or_default(),
        difficulty: e("currentDifficulty").and_then(ju).unwrap_or_default(),
        prevrandao,
        blob_gasprice,
        limit_code_size: None,
        accts,
        pcs: vec![],
        txs: vec![tx],
    };
    Some(VecCase {
        case,
        expect_exception: matches!(test.get("expectException"), Some(Json::Str(_))),
        hash: jb256(test.get("hash")?.str()?)?,
        logs: jb256(test.get("logs")?.str()?)?,
        out: unit.get("out").and_then(|x| x.str()).and_then(jbytes),
    })
}

/// revme's verdict on the case: `pass` or `fail:<what>`; also the canonical reply of the run on `State<EmptyDB>`
pub fn verdict(v: &VecCase) -> (String, String) {
    let c = &v.case;
    let mut cache = revm::CacheState::new(false);
    for a in &c.accts {
        let info = AccountInfo {
            balance: a.balance,
            code_hash: keccak256(&a.code),
            code: Some(revm::interpreter::analysis::to_analysed(db_bytecode(&a.code))),
            nonce: a.nonce,
        };
        cache.insert_account_with_storage(a.addr, info, a.storage.iter().cloned().collect());
    }
    cache.set_state_clear_flag(SpecId::enabled(c.spec, SpecId::SPURIOUS_DRAGON));
    let mut state: State<EmptyDB> = State::builder().with_cached_prestate(cache).with_bundle_update().build();
    let env = build_env(c, &c.txs[0]);
    let res = {
        let mut evm = Evm::builder().with_db(&mut state).with_env(env).with_spec_id(c.spec).build();
        evm.transact()
    };
    let (reply, logs, output) = match &res {
        Ok(rs) => (canon(rs), rs.result.logs().to_vec(), rs.result.output().cloned()),
        Err(_) => ("reject".to_string(), vec![], None),
    };
    if let Ok(rs) = res {
        state.commit(rs.state);
    } else if !v.expect_exception {
        return ("fail:unexpected-exception".into(), reply);
    }
    if v.expect_exception {
        return (if reply == "reject" { "pass".into() } else { "fail:expected-exception".to_string() }, reply);
    }
    if let (Some(exp), Some(got)) = (&v.out, &output) {
        if exp.as_slice() != &got[..] {
            return ("fail:output".into(), reply);
        }
    }
    let lh = logs_hash(&logs);
    if lh != v.logs {
        return (format!("fail:logs-hash got={:x}", U256::from_be_bytes(lh.0)), reply);
    }
    let root = state_root(state.cache.trie_account());
    if root != v.hash {
        return (format!("fail:state-root got={:x}", U256::from_be_bytes(root.0)), reply);
    }
    ("pass".into(), reply)
}

pub fn all_files() -> Vec<String> {
    fn walk(d: &std::path::Path, out: &mut Vec<String>) {
        let Ok(rd) = std::fs::read_dir(d) else { return };
        let mut es: Vec<_> = rd.filter_map(|e| e.ok()).map(|e| e.path()).collect();
        es.sort();
        for p in es {
            if p.is_dir() {
                walk(&p, out);
            } else if p.extension().map(|x| x == "json").unwrap_or(false)
                && std::fs::metadata(&p).map(|m| m.len() > 0).unwrap_or(false)
            {
                out.push(p.strip_prefix(ROOT).unwrap().to_string_lossy().into_owned());
            }
        }
    }
    let mut v = vec![];
    walk(std::path::Path::new(ROOT), &mut v);
    v
}

pub fn load_units(rel: &str) -> Option<Vec<(String, Json)>> {
    let s = std::fs::read(format!("{ROOT}/{rel}")).ok()?;
    let j = parse_json(&s)?;
    let mut units = j.obj()?.clone();
    units.sort_by(|a, b| a.0.cmp(&b.0));
    Some(units)
}

/// reply of `evm vector <rel> <unit idx> <fork> <post idx>`
pub fn exec_vector(rel: &str, ui: usize, fork: &str, idx: usize) -> String {
    let Some(units) = load_units(rel) else { return "fail:unreadable".into() };
    let Some((_, unit)) = units.get(ui) else { return "fail:no-such-unit".into() };
    match case_of(unit, fork, idx) {
        Some(v) => verdict(&v).0,
        None => "skip".into(),
    }
}

fn mix(seed: u64, s: &str, a: usize, b: usize) -> u64 {
    let mut h = seed ^ 0x9E3779B97F4A7C15;
    for x in s.bytes().chain((a as u64).to_le_bytes()).chain((b as u64).to_le_bytes()) {
        h = (h ^ x as u64).wrapping_mul(0x100000001b3);
        h ^= h >> 29;
    }
    h
}

/// every passing vector case (or a seed-dependent sample of about `n / 2` of them when `n < 2000`) as `evm` cases
pub fn vectors(seed: u64, n: usize, cases: &mut Vec<(Option<String>, Case)>, out: &mut Out) {
    let files = all_files();
    if files.is_empty() {
        out.count("vectors-missing");
        return;
    }
    // number of cases per file is not known before parsing: sample by a hash of the case identity
    let total_estimate = 4504usize;
    let keep_one_in = if n >= 2000 { 1 } else { (total_estimate / (n / 2).max(1)).max(1) as u64 };
    for rel in files {
        if STALE.contains(&rel.as_str()) {
            out.count("vector-file-excluded-stale");
            continue;
        }
        let Some(units) = load_units(&rel) else {
            out.count("vector-file-unreadable");
            continue;
        };
        for (ui, (_name, unit)) in units.iter().enumerate() {
            let Some(post) = unit.get("post").and_then(|p| p.obj()) else { continue };
            for (fork, tests) in post {
                let Some(tests) = tests.arr() else { continue };
                if fork == "Constantinople" || spec_of(fork).is_none() {
                    out.count("vector-fork-skipped");
                    continue;
                }
                for idx in 0..tests.len() {
                    if mix(seed, &rel, ui * 1000 + idx, fork.len()) % keep_one_in != 0 {
                        continue;
                    }
                    let Some(v) = case_of(unit, fork, idx) else {
                        out.count("vector-case-skipped");
                        continue;
                    };
                    let (verd, state_reply) = verdict(&v);
                    out.count(&format!("vector-{}", verd.split(' ').next().unwrap_or("")));
                    out.count(&format!("vector-fork-{}", fork));
                    let line = format!("evm vector {} {} {} {}", rel, ui, fork, idx);
                    let mut c = v.case.clone();
                    if verd != "pass" {
                        // reported through the line itself; no transaction for the model
                        c.accts.clear();
                        c.txs.clear();
                        cases.push((Some(line), c));
                        continue;
                    }
                    // the Lean model interprets lists: very long runs are checked against the reference only
                    let steps = {
                        let cc = c.clone();
                        let tt = c.txs[0].clone();
                        std::panic::catch_unwind(move || record(&cc, &tt).steps).unwrap_or(0)
                    };
                    if steps > MAX_MODEL_STEPS {
                        out.count("vector-too-long-for-model");
                        c.accts.clear();
                        c.txs.clear();
                        cases.push((Some(line), c));
                        continue;
                    }
                    add_oracle(&mut c);
                    // the case's own database must give what `State<EmptyDB>` gave
                    let t0 = c.txs[0].clone();
                    let own = {
                        let cc = c.clone();
                        guarded(move || run_tx(&cc, &t0))
                    };
                    if own != state_reply {
                        out.count("vector-db-divergence");
                    }
                    cases.push((Some(line), c));
                }
            }
        }
    }
}
