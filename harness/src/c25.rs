//! C25: per-instruction lockstep of the real `revm::interpreter::Interpreter` against the Lean model of the
//! interpreter (`lean/Revm/Model/Interp.lean`), with a scripted `Host` whose answers are written into the request lines.
//!
//! requests (component `interp`)
//!   `begin interp <spec> <gas> <static> <code> <input> <target> <caller> <value> <env>`      -> `ok len=<bytecode len> pc=0`
//!       `<spec>` = `SpecId as u8` (decimal; the instruction table is the one `spec_to_generic!` selects),
//!       `<env>` = `chainid,coinbase,timestamp,number,difficulty,prevrandao|-,gaslimit,basefee,gasprice,prio|-,origin,h1+h2..|-,blobgasprice|-,limit|-`
//!   `i s <tag> <resp>`   one `Interpreter::step` (opcode fetch, pointer increment, table call), `<resp>` = the answer the host
//!       gives if it is asked during this instruction: `-` (= `None`) or `ok:word:bytes:cold:orig:pres:new:flags:deleg`
//!   `i ret <tag> <result>:<gas remaining>:<refunded>:<output>:<address|->`   `insert_call_outcome` / `insert_create_outcome`
//!       after the previous instruction returned `CallOrCreate`
//!   `i dump <tag>`  full digests of stack / memory / return data
//!   reply of `s` / `ret`: `pc= r=<InstructionResult> g=<remaining> rf=<refunded> n=<stack len> top=<top 3 words> sd=<stack digest>
//!       ms=<memory len> md=<memory digest> rd=<len>:<digest>` [` h=<host call with arguments>`] [` act=<call/create inputs>`] [` out=<len>:<digest>`]
//!   `interp run <spec> .. <env> <hostq> <childq> <keccakq>`   `Interpreter::run` re-entered after every action until the frame returns
//!       -> `r= g= rf= out= steps= ms= md= n= sd=`
//! After EVERY step the harness checks from outside what the planned `cfg(risechain_revm_verif)` hook would assert inside
//! `Interpreter::step`: `program_counter() < bytecode.len()`; a failure is the reply `oob-code`. A Rust panic is the reply `panic`.
use crate::*;
use revm::interpreter::analysis::{validate_eof_inner, CodeType};
use revm::interpreter::{
    opcode::{make_instruction_table, InstructionTable, OPCODE_INFO_JUMPTABLE},
    AccountLoad, CallOutcome, CallScheme, CallValue, Contract, CreateOutcome, CreateScheme, Eip7702CodeLoad, Gas, Host,
    EOFCreateKind, InstructionResult, Interpreter, InterpreterAction, InterpreterResult, SStoreResult,
    SelfDestructResult, SharedMemory, StateLoad,
};
use revm::primitives::{
    eof::{EofBody, TypesSection},
    keccak256, spec_to_generic, AccessListItem, AccountInfo, Address, BlobExcessGasAndPrice, Bytecode, Bytes, Env, Log,
    SpecId, TxKind, B256, U256,
};
use revm::db::{CacheDB, EmptyDB};
use revm::interpreter::{CallInputs, CreateInputs, EOFCreateInputs};
use revm::{inspector_handle_register, Evm, EvmContext, Inspector};
use std::sync::Arc;
use std::cell::{Cell, RefCell};
use std::panic::AssertUnwindSafe;
use std::rc::Rc;

// ---------------------------------------------------------------- digests
const FNV_OFFSET: u64 = 0xcbf29ce484222325;
const FNV_PRIME: u64 = 0x100000001b3;
fn fnv(h: u64, b: u64) -> u64 {
    (h ^ b).wrapping_mul(FNV_PRIME)
}
fn digest_bytes(bs: &[u8]) -> u64 {
    bs.iter().fold(FNV_OFFSET, |h, b| fnv(h, *b as u64))
}
fn digest_words(ws: &[U256]) -> u64 {
    ws.iter().fold(FNV_OFFSET, |h, w| {
        let l = w.as_limbs();
        fnv(fnv(fnv(fnv(h, l[0]), l[1]), l[2]), l[3])
    })
}
fn mem_window_digest(ctx: &[u8]) -> u64 {
    if ctx.len() <= 4096 {
        digest_bytes(ctx)
    } else {
        let mut v = ctx[..2048].to_vec();
        v.extend_from_slice(&ctx[ctx.len() - 2048..]);
        digest_bytes(&v)
    }
}
fn len_dig(bs: &[u8]) -> String {
    format!("{}:{:x}", bs.len(), digest_bytes(bs))
}
fn hxa(a: Address) -> String {
    hx(U256::from_be_slice(a.as_slice()))
}
fn hxh(h: B256) -> String {
    hx(U256::from_be_bytes(h.0))
}

// ---------------------------------------------------------------- parsing
fn parse_bytes(s: &str) -> Option<Vec<u8>> {
    if s == "-" {
        return Some(vec![]);
    }
    if s.len() % 2 != 0 || !s.is_ascii() {
        return None;
    }
    (0..s.len() / 2).map(|i| u8::from_str_radix(&s[2 * i..2 * i + 2], 16).ok()).collect()
}
fn parse_word(s: &str) -> Option<U256> {
    if s.is_empty() || s.len() > 64 || s.starts_with('+') {
        return None;
    }
    U256::from_str_radix(s, 16).ok()
}
fn parse_opt_word(s: &str) -> Option<Option<U256>> {
    if s == "-" {
        Some(None)
    } else {
        parse_word(s).map(Some)
    }
}
fn parse_bool(s: &str) -> Option<bool> {
    match s {
        "0" => Some(false),
        "1" => Some(true),
        _ => None,
    }
}
fn parse_dec_u64(s: &str) -> Option<u64> {
    if s.is_empty() || !s.bytes().all(|b| b.is_ascii_digit()) {
        return None;
    }
    s.parse::<u64>().ok()
}
fn parse_dec_i64(s: &str) -> Option<i64> {
    let (neg, ds) = match s.strip_prefix('-') {
        Some(r) => (true, r),
        None => (false, s),
    };
    if ds.is_empty() || !ds.bytes().all(|b| b.is_ascii_digit()) {
        return None;
    }
    let v: i128 = ds.parse::<i128>().ok()?;
    let v = if neg { -v } else { v };
    if v < i64::MIN as i128 || v > i64::MAX as i128 {
        return None;
    }
    Some(v as i64)
}
fn addr_of(w: U256) -> Address {
    Address::from_word(B256::from(w))
}

fn spec_of(id: u8) -> Option<SpecId> {
    SpecId::try_from_u8(id)
}

/// the scripted answer of the host (one flat record; every method reads its own fields)
#[derive(Clone, Debug, Default)]
pub struct Resp {
    pub ok: bool,
    pub word: U256,
    pub bytes: Vec<u8>,
    pub cold: bool,
    pub orig: U256,
    pub pres: U256,
    pub new: U256,
    pub flags: u8,
    pub deleg: Option<bool>,
}
impl Resp {
    fn token(&self) -> String {
        if !self.ok
            && self.word.is_zero()
            && self.bytes.is_empty()
            && !self.cold
            && self.orig.is_zero()
            && self.pres.is_zero()
            && self.new.is_zero()
            && self.flags == 0
            && self.deleg.is_none()
        {
            return "-".into();
        }
        format!(
            "{}:{}:{}:{}:{}:{}:{}:{:x}:{}",
            b01(self.ok),
            hx(self.word),
            hxb(&self.bytes),
            b01(self.cold),
            hx(self.orig),
            hx(self.pres),
            hx(self.new),
            self.flags,
            match self.deleg {
                None => "-",
                Some(false) => "0",
                Some(true) => "1",
            }
        )
    }
    fn parse(s: &str) -> Option<Resp> {
        if s == "-" {
            return Some(Resp::default());
        }
        let t: Vec<&str> = s.split(':').collect();
        if t.len() != 9 {
            return None;
        }
        let flags = u8::from_str_radix(t[7], 16).ok()?;
        let deleg = match t[8] {
            "-" => None,
            "0" => Some(false),
            "1" => Some(true),
            _ => return None,
        };
        Some(Resp {
            ok: parse_bool(t[0])?,
            word: parse_word(t[1])?,
            bytes: parse_bytes(t[2])?,
            cold: parse_bool(t[3])?,
            orig: parse_word(t[4])?,
            pres: parse_word(t[5])?,
            new: parse_word(t[6])?,
            flags,
            deleg,
        })
    }
}

/// the scripted result of a child frame
#[derive(Clone, Debug)]
pub struct Child {
    pub result: InstructionResult,
    pub gas: u64,
    pub refunded: i64,
    pub output: Vec<u8>,
    pub address: Option<U256>,
}
const ALL_RESULTS: &[InstructionResult] = &[
    InstructionResult::Continue,
    InstructionResult::Stop,
    InstructionResult::Return,
    InstructionResult::SelfDestruct,
    InstructionResult::ReturnContract,
    InstructionResult::Revert,
    InstructionResult::CallTooDeep,
    InstructionResult::OutOfFunds,
    InstructionResult::CreateInitCodeStartingEF00,
    InstructionResult::InvalidEOFInitCode,
    InstructionResult::InvalidExtDelegateCallTarget,
    InstructionResult::CallOrCreate,
    InstructionResult::OutOfGas,
    InstructionResult::MemoryOOG,
    InstructionResult::MemoryLimitOOG,
    InstructionResult::PrecompileOOG,
    InstructionResult::InvalidOperandOOG,
    InstructionResult::OpcodeNotFound,
    InstructionResult::CallNotAllowedInsideStatic,
    InstructionResult::StateChangeDuringStaticCall,
    InstructionResult::InvalidFEOpcode,
    InstructionResult::InvalidJump,
    InstructionResult::NotActivated,
    InstructionResult::StackUnderflow,
    InstructionResult::StackOverflow,
    InstructionResult::OutOfOffset,
    InstructionResult::CreateCollision,
    InstructionResult::OverflowPayment,
    InstructionResult::PrecompileError,
    InstructionResult::NonceOverflow,
    InstructionResult::CreateContractSizeLimit,
    InstructionResult::CreateContractStartingWithEF,
    InstructionResult::CreateInitCodeSizeLimit,
    InstructionResult::FatalExternalError,
    InstructionResult::ReturnContractInNotInitEOF,
    InstructionResult::EOFOpcodeDisabledInLegacy,
    InstructionResult::EOFFunctionStackOverflow,
    InstructionResult::EofAuxDataOverflow,
    InstructionResult::EofAuxDataTooSmall,
    InstructionResult::InvalidEXTCALLTarget,
];
impl Child {
    fn token(&self) -> String {
        format!(
            "{:?}:{}:{}:{}:{}",
            self.result,
            self.gas,
            self.refunded,
            hxb(&self.output),
            match self.address {
                Some(a) => hx(a),
                None => "-".into(),
            }
        )
    }
    fn parse(s: &str) -> Option<Child> {
        let t: Vec<&str> = s.split(':').collect();
        if t.len() != 5 {
            return None;
        }
        let result = *ALL_RESULTS.iter().find(|r| format!("{:?}", r) == t[0])?;
        Some(Child {
            result,
            gas: parse_dec_u64(t[1])?,
            refunded: parse_dec_i64(t[2])?,
            output: parse_bytes(t[3])?,
            address: parse_opt_word(t[4])?,
        })
    }
    fn interp_result(&self) -> InterpreterResult {
        let mut g = Gas::new(self.gas);
        g.record_refund(self.refunded);
        InterpreterResult { result: self.result, output: Bytes::from(self.output.clone()), gas: g }
    }
}

// ---------------------------------------------------------------- the scripted host
pub struct ScriptHost {
    pub env: Env,
    /// answers still to be given (step mode: at most one; run mode: the queue)
    pub resp: std::collections::VecDeque<Resp>,
    /// the call received during the current instruction
    pub called: Option<String>,
}
impl ScriptHost {
    fn take(&mut self, what: String) -> Option<Resp> {
        self.called = Some(what);
        match self.resp.pop_front() {
            Some(r) if r.ok => Some(r),
            _ => None,
        }
    }
}
impl Host for ScriptHost {
    fn env(&self) -> &Env {
        &self.env
    }
    fn env_mut(&mut self) -> &mut Env {
        &mut self.env
    }
    fn load_account_delegated(&mut self, address: Address) -> Option<AccountLoad> {
        let r = self.take(format!("load:{}", hxa(address)))?;
        Some(AccountLoad {
            load: Eip7702CodeLoad { state_load: StateLoad::new((), r.cold), is_delegate_account_cold: r.deleg },
            is_empty: r.flags & 8 != 0,
        })
    }
    fn block_hash(&mut self, number: u64) -> Option<B256> {
        let r = self.take(format!("blockhash:{}", number))?;
        Some(B256::from(r.word))
    }
    fn balance(&mut self, address: Address) -> Option<StateLoad<U256>> {
        let r = self.take(format!("balance:{}", hxa(address)))?;
        Some(StateLoad::new(r.word, r.cold))
    }
    fn code(&mut self, address: Address) -> Option<StateLoad<Bytes>> {
        let r = self.take(format!("code:{}", hxa(address)))?;
        Some(StateLoad::new(Bytes::from(r.bytes), r.cold))
    }
    fn code_hash(&mut self, address: Address) -> Option<StateLoad<B256>> {
        let r = self.take(format!("codehash:{}", hxa(address)))?;
        Some(StateLoad::new(B256::from(r.word), r.cold))
    }
    fn sload(&mut self, address: Address, index: U256) -> Option<StateLoad<U256>> {
        let r = self.take(format!("sload:{}:{}", hxa(address), hx(index)))?;
        Some(StateLoad::new(r.word, r.cold))
    }
    fn sstore(&mut self, address: Address, index: U256, value: U256) -> Option<StateLoad<SStoreResult>> {
        let r = self.take(format!("sstore:{}:{}:{}", hxa(address), hx(index), hx(value)))?;
        Some(StateLoad::new(
            SStoreResult { original_value: r.orig, present_value: r.pres, new_value: r.new },
            r.cold,
        ))
    }
    fn tload(&mut self, address: Address, index: U256) -> U256 {
        // `tload` cannot fail: the answer is the word of the scripted record (0 without one)
        self.called = Some(format!("tload:{}:{}", hxa(address), hx(index)));
        match self.resp.pop_front() {
            Some(r) => r.word,
            None => U256::ZERO,
        }
    }
    fn tstore(&mut self, address: Address, index: U256, value: U256) {
        self.called = Some(format!("tstore:{}:{}:{}", hxa(address), hx(index), hx(value)));
        self.resp.pop_front();
    }
    fn log(&mut self, log: Log) {
        let topics: Vec<String> = log.data.topics().iter().map(|t| hxh(*t)).collect();
        self.called = Some(format!(
            "log:{}:{}:{}",
            hxa(log.address),
            if topics.is_empty() { "-".to_string() } else { topics.join("+") },
            len_dig(&log.data.data)
        ));
        self.resp.pop_front();
    }
    fn selfdestruct(&mut self, address: Address, target: Address) -> Option<StateLoad<SelfDestructResult>> {
        let r = self.take(format!("selfdestruct:{}:{}", hxa(address), hxa(target)))?;
        Some(StateLoad::new(
            SelfDestructResult {
                had_value: r.flags & 1 != 0,
                target_exists: r.flags & 2 != 0,
                previously_destroyed: r.flags & 4 != 0,
            },
            r.cold,
        ))
    }
}

// ---------------------------------------------------------------- case parameters
#[derive(Clone, Debug)]
pub struct EnvTok {
    pub chain: u64,
    pub coinbase: U256,
    pub timestamp: U256,
    pub number: U256,
    pub difficulty: U256,
    pub prevrandao: Option<U256>,
    pub gas_limit: U256,
    pub basefee: U256,
    pub gas_price: U256,
    pub prio: Option<U256>,
    pub origin: U256,
    pub blob_hashes: Vec<U256>,
    pub blob_gasprice: Option<u128>,
    pub limit: Option<u64>,
}
impl EnvTok {
    fn token(&self) -> String {
        let o = |x: &Option<U256>| match x {
            Some(v) => hx(*v),
            None => "-".into(),
        };
        format!(
            "{:x},{},{},{},{},{},{},{},{},{},{},{},{},{}",
            self.chain,
            hx(self.coinbase),
            hx(self.timestamp),
            hx(self.number),
            hx(self.difficulty),
            o(&self.prevrandao),
            hx(self.gas_limit),
            hx(self.basefee),
            hx(self.gas_price),
            o(&self.prio),
            hx(self.origin),
            if self.blob_hashes.is_empty() {
                "-".to_string()
            } else {
                self.blob_hashes.iter().map(|h| hx(*h)).collect::<Vec<_>>().join("+")
            },
            match self.blob_gasprice {
                Some(v) => format!("{:x}", v),
                None => "-".into(),
            },
            match self.limit {
                Some(v) => format!("{:x}", v),
                None => "-".into(),
            }
        )
    }
    fn parse(s: &str) -> Option<EnvTok> {
        let t: Vec<&str> = s.split(',').collect();
        if t.len() != 14 {
            return None;
        }
        let w64 = |s: &str| -> Option<u64> {
            let w = parse_word(s)?;
            if w > U256::from(u64::MAX) {
                None
            } else {
                Some(w.as_limbs()[0])
            }
        };
        let blob_hashes = if t[11] == "-" {
            vec![]
        } else {
            t[11].split('+').map(parse_word).collect::<Option<Vec<_>>>()?
        };
        let blob_gasprice = match parse_opt_word(t[12])? {
            None => None,
            Some(w) => {
                if w > U256::from(u128::MAX) {
                    return None;
                }
                Some(w.as_limbs()[0] as u128 | ((w.as_limbs()[1] as u128) << 64))
            }
        };
        let limit = match t[13] {
            "-" => None,
            x => Some(w64(x)?),
        };
        let a160 = |w: U256| w < (U256::from(1) << 160);
        let coinbase = parse_word(t[1])?;
        let origin = parse_word(t[10])?;
        if !a160(coinbase) || !a160(origin) {
            return None;
        }
        Some(EnvTok {
            chain: w64(t[0])?,
            coinbase,
            timestamp: parse_word(t[2])?,
            number: parse_word(t[3])?,
            difficulty: parse_word(t[4])?,
            prevrandao: parse_opt_word(t[5])?,
            gas_limit: parse_word(t[6])?,
            basefee: parse_word(t[7])?,
            gas_price: parse_word(t[8])?,
            prio: parse_opt_word(t[9])?,
            origin,
            blob_hashes,
            blob_gasprice,
            limit,
        })
    }
    fn env(&self) -> Env {
        let mut e = Env::default();
        e.cfg.chain_id = self.chain;
        e.cfg.limit_contract_code_size = self.limit.map(|x| x as usize);
        e.block.coinbase = addr_of(self.coinbase);
        e.block.timestamp = self.timestamp;
        e.block.number = self.number;
        e.block.difficulty = self.difficulty;
        e.block.prevrandao = self.prevrandao.map(B256::from);
        e.block.gas_limit = self.gas_limit;
        e.block.basefee = self.basefee;
        e.block.blob_excess_gas_and_price =
            self.blob_gasprice.map(|p| BlobExcessGasAndPrice { excess_blob_gas: 0, blob_gasprice: p });
        e.tx.gas_price = self.gas_price;
        e.tx.gas_priority_fee = self.prio;
        e.tx.caller = addr_of(self.origin);
        e.tx.blob_hashes = self.blob_hashes.iter().map(|h| B256::from(*h)).collect();
        e
    }
}

#[derive(Clone, Debug)]
pub struct EofParams {
    pub sections: Vec<Vec<u8>>,
    pub types: Vec<(u8, u8, u16)>,
    pub data: Vec<u8>,
    pub data_size: u16,
    pub containers: Vec<Vec<u8>>,
    pub init: bool,
}

#[derive(Clone, Debug)]
pub struct Params {
    /// `Some`: the contract is an EOF container (`begin eof`), `code` is unused
    pub eof: Option<EofParams>,
    pub spec: u8,
    pub gas: u64,
    pub is_static: bool,
    pub code: Vec<u8>,
    pub input: Vec<u8>,
    pub target: U256,
    pub caller: U256,
    pub value: U256,
    pub env: EnvTok,
}
impl Params {
    fn tokens(&self) -> String {
        format!(
            "{} {} {} {} {} {} {} {} {}",
            self.spec,
            self.gas,
            b01(self.is_static),
            hxb(&self.code),
            hxb(&self.input),
            hx(self.target),
            hx(self.caller),
            hx(self.value),
            self.env.token()
        )
    }
    fn parse(t: &[&str]) -> Option<Params> {
        if t.len() != 9 {
            return None;
        }
        let spec = parse_dec_u64(t[0])?;
        if spec > 255 {
            return None;
        }
        spec_of(spec as u8)?;
        let a160 = |w: U256| w < (U256::from(1) << 160);
        let target = parse_word(t[5])?;
        let caller = parse_word(t[6])?;
        if !a160(target) || !a160(caller) {
            return None;
        }
        Some(Params {
            eof: None,
            spec: spec as u8,
            gas: parse_dec_u64(t[1])?,
            is_static: parse_bool(t[2])?,
            code: parse_bytes(t[3])?,
            input: parse_bytes(t[4])?,
            target,
            caller,
            value: parse_word(t[7])?,
            env: EnvTok::parse(t[8])?,
        })
    }
    pub fn begin_line(&self) -> String {
        match &self.eof {
            None => format!("begin interp {}", self.tokens()),
            Some(e) => {
                let secs: Vec<String> = e.sections.iter().map(|c| hxb(c)).collect();
                let types: Vec<String> = e.types.iter().map(|(i, o, m)| format!("{i}.{o}.{m}")).collect();
                let conts: Vec<String> = e.containers.iter().map(|c| hxb(c)).collect();
                format!(
                    "begin eof {} {} {} {} {} {} {} {} {} {} {} {} {} {}",
                    self.spec,
                    self.gas,
                    b01(self.is_static),
                    if secs.is_empty() { "-".to_string() } else { secs.join("+") },
                    if types.is_empty() { "-".to_string() } else { types.join("+") },
                    hxb(&e.data),
                    e.data_size,
                    if conts.is_empty() { "-".to_string() } else { conts.join("+") },
                    b01(e.init),
                    hxb(&self.input),
                    hx(self.target),
                    hx(self.caller),
                    hx(self.value),
                    self.env.token()
                )
            }
        }
    }
    fn parse_eof(t: &[&str]) -> Option<Params> {
        if t.len() != 14 {
            return None;
        }
        let sections: Vec<Vec<u8>> =
            if t[3] == "-" { vec![] } else { t[3].split('+').map(parse_bytes).collect::<Option<Vec<_>>>()? };
        if sections.is_empty() || sections.len() > 1024 || sections.iter().any(|c| c.len() > 0xffff) {
            return None;
        }
        let types: Vec<(u8, u8, u16)> = if t[4] == "-" {
            vec![]
        } else {
            t[4].split('+')
                .map(|x| {
                    let p: Vec<&str> = x.split('.').collect();
                    if p.len() != 3 {
                        return None;
                    }
                    let (i, o, m) = (parse_dec_u64(p[0])?, parse_dec_u64(p[1])?, parse_dec_u64(p[2])?);
                    if i > 255 || o > 255 || m > 65535 {
                        return None;
                    }
                    Some((i as u8, o as u8, m as u16))
                })
                .collect::<Option<Vec<_>>>()?
        };
        let data = parse_bytes(t[5])?;
        let data_size = parse_dec_u64(t[6])?;
        if data_size > 65535 || data.len() > 0xffff {
            return None;
        }
        let containers: Vec<Vec<u8>> =
            if t[7] == "-" { vec![] } else { t[7].split('+').map(parse_bytes).collect::<Option<Vec<_>>>()? };
        if containers.len() > 256 || containers.iter().any(|c| c.is_empty() || c.len() > 0xffff) {
            return None;
        }
        let init = parse_bool(t[8])?;
        let legacy: Vec<&str> = vec![t[0], t[1], t[2], "-", t[9], t[10], t[11], t[12], t[13]];
        let mut p = Params::parse(&legacy)?;
        p.eof = Some(EofParams { sections, types, data, data_size: data_size as u16, containers, init });
        Some(p)
    }
    fn bytecode(&self) -> Bytecode {
        match &self.eof {
            None => Bytecode::new_legacy(Bytes::from(self.code.clone())),
            Some(e) => {
                let body = EofBody {
                    types_section: e
                        .types
                        .iter()
                        .map(|(i, o, m)| TypesSection { inputs: *i, outputs: *o, max_stack_size: *m })
                        .collect(),
                    code_section: e.sections.iter().map(|c| Bytes::from(c.clone())).collect(),
                    container_section: e.containers.iter().map(|c| Bytes::from(c.clone())).collect(),
                    data_section: Bytes::from(e.data.clone()),
                    is_data_filled: true,
                };
                let mut eof = body.into_eof();
                eof.header.data_size = e.data_size;
                Bytecode::Eof(Arc::new(eof))
            }
        }
    }
    /// does the real `validate_eof_inner` accept the container (as a runtime or as an init container)?
    pub fn validated(&self) -> bool {
        match self.bytecode() {
            Bytecode::Eof(eof) => {
                let e: &revm::primitives::Eof = &eof;
                [None, Some(CodeType::ReturnOrStop), Some(CodeType::ReturnContract)].into_iter().any(|t| {
                    std::panic::catch_unwind(AssertUnwindSafe(|| validate_eof_inner(e, t).is_ok())).unwrap_or(false)
                })
            }
            _ => false,
        }
    }
    fn interpreter(&self) -> Interpreter {
        let contract = Contract::new(
            Bytes::from(self.input.clone()),
            self.bytecode(),
            None,
            addr_of(self.target),
            None,
            addr_of(self.caller),
            self.value,
        );
        Interpreter::new(contract, self.gas, self.is_static)
    }
    fn table(&self) -> InstructionTable<ScriptHost> {
        let spec = spec_of(self.spec).unwrap();
        spec_to_generic!(spec, make_instruction_table::<ScriptHost, SPEC>())
    }
}

// ---------------------------------------------------------------- memory guard
/// the largest memory the lockstep is willing to build (the Lean model keeps memory as a list)
pub const MEM_LIMIT: u128 = 256 * 1024;

fn peek(interp: &Interpreter, i: usize) -> Option<U256> {
    interp.stack.peek(i).ok()
}
/// (offset, len) operand pairs of the instruction at the instruction pointer that can expand memory
fn mem_operands(interp: &Interpreter, op: u8) -> Vec<(Option<U256>, Option<U256>)> {
    let p = |i| peek(interp, i);
    let w = |n: u64| Some(U256::from(n));
    match op {
        0x51 | 0x52 => vec![(p(0), w(32))],
        0x53 => vec![(p(0), w(1))],
        0x5e => vec![(p(0), p(2)), (p(1), p(2))],
        0x20 | 0xf3 | 0xfd | 0xa0..=0xa4 => vec![(p(0), p(1))],
        0x37 | 0x39 | 0x3e => vec![(p(0), p(2))],
        0x3c => vec![(p(1), p(3))],
        0xf0 | 0xf5 => vec![(p(1), p(2))],
        0xf1 | 0xf2 => vec![(p(3), p(4)), (p(5), p(6))],
        0xf4 | 0xfa => vec![(p(2), p(3)), (p(4), p(5))],
        _ => vec![],
    }
}
/// would the next instruction grow memory beyond `MEM_LIMIT` (and can pay for it)?
fn danger(interp: &Interpreter) -> bool {
    let pc = interp.program_counter();
    if pc >= interp.bytecode.len() {
        return false;
    }
    let op = interp.bytecode[pc];
    for (off, len) in mem_operands(interp, op) {
        let (Some(off), Some(len)) = (off, len) else { continue };
        if len.is_zero() {
            continue;
        }
        let lim = U256::from(u64::MAX);
        if off > lim || len > lim {
            continue;
        }
        let end = off.as_limbs()[0] as u128 + len.as_limbs()[0] as u128;
        if end <= MEM_LIMIT {
            continue;
        }
        // affordable? C_mem(new words) - C_mem(current words) in u128, compared with what is left
        let cm = |w: u128| w.checked_mul(w).map(|s| s / 512 + 3 * w);
        let words = (end + 31) / 32;
        let cur = cm((interp.shared_memory.len() as u128 + 31) / 32).unwrap_or(0);
        match cm(words) {
            Some(c) if c.saturating_sub(cur) <= interp.gas.remaining() as u128 => return true,
            _ => {}
        }
    }
    false
}

// ---------------------------------------------------------------- step mode
pub struct Session {
    pub interp: Interpreter,
    pub host: ScriptHost,
    pub table: InstructionTable<ScriptHost>,
    pub dead: bool,
}

fn state_str(interp: &Interpreter) -> String {
    let data = interp.stack.data();
    let n = data.len();
    let top: Vec<String> = data.iter().rev().take(3).map(|w| hx(*w)).collect();
    let ctx = interp.shared_memory.context_memory();
    format!(
        "pc={} r={:?} g={} rf={} n={} top={} sd={:x} ms={} md={:x} rd={}",
        interp.program_counter(),
        interp.instruction_result,
        interp.gas.remaining(),
        interp.gas.refunded(),
        n,
        if top.is_empty() { "-".to_string() } else { top.join(",") },
        digest_words(data),
        interp.shared_memory.len(),
        mem_window_digest(ctx),
        len_dig(&interp.return_data_buffer)
    ) + &(if interp.is_eof {
        format!(
            " fs={}:{} cl={}",
            interp.function_stack.return_stack.len(),
            interp.function_stack.current_code_idx,
            interp.bytecode.len()
        )
    } else {
        String::new()
    })
}

/// EOF mode: would the next instruction read an immediate outside the section (or violate the `assume!` of
/// CODESIZE / CODECOPY)?
/// The interpreter itself checks none of this (validation does); executing it would be undefined behaviour.
fn eof_danger(interp: &Interpreter) -> bool {
    if !interp.is_eof {
        return false;
    }
    let pc = interp.program_counter();
    let code = &interp.bytecode;
    if pc >= code.len() {
        return false;
    }
    let op = code[pc];
    let imm = match op {
        0xe0 | 0xe1 | 0xe3 | 0xe5 | 0xd1 => 2,
        0xe6 | 0xe7 | 0xe8 | 0xec | 0xee => 1,
        0xe2 => {
            if pc + 1 >= code.len() {
                return true;
            }
            1 + (code[pc + 1] as usize + 1) * 2
        }
        0x60..=0x7f => (op - 0x5f) as usize,
        // CODESIZE / CODECOPY violate an `assume!` in EOF mode (undefined behaviour in a release build)
        0x38 | 0x39 => return true,
        _ => 0,
    };
    if pc + 1 + imm > code.len() {
        return true;
    }
    // CALLF / JUMPF into an empty section: the first fetch there would be outside
    if op == 0xe3 || op == 0xe5 {
        let idx = ((code[pc + 1] as usize) << 8) | code[pc + 2] as usize;
        if let Some(eof) = interp.eof() {
            if let Some(sec) = eof.body.code_section.get(idx) {
                if sec.is_empty() {
                    return true;
                }
            }
        }
    }
    false
}

fn action_str(a: &InterpreterAction) -> Option<String> {
    match a {
        InterpreterAction::Call { inputs } => {
            let scheme = match inputs.scheme {
                CallScheme::Call => "Call",
                CallScheme::CallCode => "CallCode",
                CallScheme::DelegateCall => "DelegateCall",
                CallScheme::StaticCall => "StaticCall",
                CallScheme::ExtCall => "ExtCall",
                CallScheme::ExtStaticCall => "ExtStaticCall",
                CallScheme::ExtDelegateCall => "ExtDelegateCall",
            };
            let (k, v) = match inputs.value {
                CallValue::Transfer(v) => ("T", v),
                CallValue::Apparent(v) => ("A", v),
            };
            Some(format!(
                "call:{}:{}:{}:{}:{}:{}:{}:{}:{}:{}:{}:{}",
                scheme,
                inputs.gas_limit,
                hxa(inputs.bytecode_address),
                hxa(inputs.target_address),
                hxa(inputs.caller),
                k,
                hx(v),
                b01(inputs.is_static),
                b01(inputs.is_eof),
                inputs.return_memory_offset.start,
                inputs.return_memory_offset.end,
                len_dig(&inputs.input)
            ))
        }
        InterpreterAction::Create { inputs } => {
            let salt = match inputs.scheme {
                CreateScheme::Create => "-".to_string(),
                CreateScheme::Create2 { salt } => hx(salt),
            };
            Some(format!(
                "create:{}:{}:{}:{}:{}",
                hxa(inputs.caller),
                salt,
                hx(inputs.value),
                inputs.gas_limit,
                len_dig(&inputs.init_code)
            ))
        }
        InterpreterAction::EOFCreate { inputs } => match &inputs.kind {
            EOFCreateKind::Opcode { initcode, input, created_address } => Some(format!(
                "eofcreate:{}:{}:{}:{}:{}:{}",
                hxa(inputs.caller),
                hxa(*created_address),
                hx(inputs.value),
                inputs.gas_limit,
                len_dig(&initcode.raw),
                len_dig(input)
            )),
            _ => None,
        },
        _ => None,
    }
}

impl Session {
    pub fn new(p: &Params) -> Session {
        let mut interp = p.interpreter();
        interp.shared_memory = SharedMemory::new();
        if p.eof.as_ref().map(|e| e.init).unwrap_or(false) {
            interp.set_is_eof_init();
        }
        Session {
            interp,
            host: ScriptHost { env: p.env.env(), resp: Default::default(), called: None },
            table: p.table(),
            dead: false,
        }
    }
    pub fn peek_opcode(&self) -> Option<u8> {
        let pc = self.interp.program_counter();
        self.interp.bytecode.get(pc).copied()
    }
    pub fn pending_action(&self) -> bool {
        self.interp.instruction_result == InstructionResult::CallOrCreate
    }
    pub fn running(&self) -> bool {
        !self.dead && self.interp.instruction_result == InstructionResult::Continue
    }
    fn reply(&self) -> String {
        let pc = self.interp.program_counter();
        // the check the planned hook inside `Interpreter::step` would make: a pointer that will be dereferenced
        // again (the frame continues) is inside the buffer; after a halting instruction it may be one past the end
        // (STOP in the last padding byte), never further
        let continues = matches!(
            self.interp.instruction_result,
            InstructionResult::Continue | InstructionResult::CallOrCreate
        );
        let len = self.interp.bytecode.len();
        if (continues && pc >= len) || pc > len {
            return "oob-code".into();
        }
        let mut s = state_str(&self.interp);
        if let Some(h) = &self.host.called {
            s.push_str(&format!(" h={h}"));
        }
        if self.interp.instruction_result == InstructionResult::CallOrCreate {
            if let Some(a) = action_str(&self.interp.next_action) {
                s.push_str(&format!(" act={a}"));
            }
        }
        if matches!(
            self.interp.instruction_result,
            InstructionResult::Return | InstructionResult::Revert | InstructionResult::ReturnContract
        ) {
            if let InterpreterAction::Return { result } = &self.interp.next_action {
                s.push_str(&format!(" out={}", len_dig(&result.output)));
            }
        }
        s
    }
    /// one `Interpreter::step` (the method itself is `pub(crate)`: same three statements on the pub fields)
    pub fn step(&mut self, resp: Resp) -> String {
        if !self.running() {
            return "bad-op".into();
        }
        let pc = self.interp.program_counter();
        if pc >= self.interp.bytecode.len() {
            self.dead = true;
            return "oob-code".into();
        }
        if danger(&self.interp) {
            self.dead = true;
            return "skip-bigmem".into();
        }
        if eof_danger(&self.interp) {
            self.dead = true;
            return "skip-eof".into();
        }
        self.host.resp.clear();
        self.host.resp.push_back(resp);
        self.host.called = None;
        let r = std::panic::catch_unwind(AssertUnwindSafe(|| {
            let opcode = unsafe { *self.interp.instruction_pointer };
            self.interp.instruction_pointer = unsafe { self.interp.instruction_pointer.offset(1) };
            (self.table[opcode as usize])(&mut self.interp, &mut self.host);
        }));
        if r.is_err() {
            self.dead = true;
            return "panic".into();
        }
        let out = self.reply();
        if out == "oob-code" {
            self.dead = true;
        }
        out
    }
    pub fn ret(&mut self, c: &Child) -> String {
        if self.dead || !self.pending_action() {
            return "bad-op".into();
        }
        self.host.called = None;
        let action = std::mem::take(&mut self.interp.next_action);
        let r = std::panic::catch_unwind(AssertUnwindSafe(|| match action {
            InterpreterAction::Call { inputs } => {
                let mut mem = self.interp.take_memory();
                let outcome = CallOutcome::new(c.interp_result(), inputs.return_memory_offset.clone());
                self.interp.insert_call_outcome(&mut mem, outcome);
                self.interp.shared_memory = mem;
                true
            }
            InterpreterAction::Create { .. } => {
                let outcome = CreateOutcome::new(c.interp_result(), c.address.map(addr_of));
                self.interp.insert_create_outcome(outcome);
                true
            }
            InterpreterAction::EOFCreate { .. } => {
                let outcome = CreateOutcome::new(c.interp_result(), c.address.map(addr_of));
                self.interp.insert_eofcreate_outcome(outcome);
                true
            }
            _ => false,
        }));
        match r {
            Err(_) => {
                self.dead = true;
                "panic".into()
            }
            Ok(false) => {
                self.dead = true;
                "bad-op".into()
            }
            Ok(true) => self.reply(),
        }
    }
    pub fn dump(&self) -> String {
        format!(
            "stack={:x} mem={} rd={}",
            digest_words(self.interp.stack.data()),
            len_dig(self.interp.shared_memory.context_memory()),
            len_dig(&self.interp.return_data_buffer)
        )
    }
}

/// executor: a pure function of the request lines
pub struct Exec {
    sess: Option<Session>,
    /// the verdict of the real validator on the container of the running EOF session
    validated: Option<bool>,
}
impl Exec {
    pub fn new() -> Exec {
        Exec { sess: None, validated: None }
    }
    pub fn line(&mut self, line: &str) -> String {
        let t: Vec<&str> = line.split(' ').collect();
        match t.as_slice() {
            ["begin", "interp", rest @ ..] => match Params::parse(rest) {
                Some(p) => {
                    let r = std::panic::catch_unwind(AssertUnwindSafe(|| Session::new(&p)));
                    match r {
                        Ok(s) => {
                            let out = format!("ok len={} pc={}", s.interp.bytecode.len(), s.interp.program_counter());
                            self.sess = Some(s);
                            self.validated = None;
                            out
                        }
                        Err(_) => {
                            self.sess = None;
                            "panic".into()
                        }
                    }
                }
                None => {
                    self.sess = None;
                    "bad-op".into()
                }
            },
            ["begin", "eof", rest @ ..] => match Params::parse_eof(rest) {
                Some(p) => {
                    let r = std::panic::catch_unwind(AssertUnwindSafe(|| Session::new(&p)));
                    match r {
                        Ok(s) => {
                            let out = format!("ok len={} pc={}", s.interp.bytecode.len(), s.interp.program_counter());
                            self.sess = Some(s);
                            self.validated = Some(p.validated());
                            out
                        }
                        Err(_) => {
                            self.sess = None;
                            self.validated = None;
                            "panic".into()
                        }
                    }
                }
                None => {
                    self.sess = None;
                    self.validated = None;
                    "bad-op".into()
                }
            },
            // `i wf <tag> <v>`: `<v>` = the verdict of the real validator on the container of this session (checked
            // here); the model answers `wf-gap` when `<v>` = 1 and its well-formedness predicate says no
            ["i", "wf", _tag, v] => match (&self.sess, self.validated, parse_bool(v)) {
                (Some(s), Some(mine), Some(v)) if s.interp.is_eof && mine == v => format!("wfok v={}", b01(v)),
                _ => "bad-op".into(),
            },
            ["i", "s", _tag, resp] => match (&mut self.sess, Resp::parse(resp)) {
                (Some(s), Some(r)) if !s.dead && !s.pending_action() => s.step(r),
                _ => "bad-op".into(),
            },
            ["i", "ret", _tag, child] => match (&mut self.sess, Child::parse(child)) {
                (Some(s), Some(c)) => s.ret(&c),
                _ => "bad-op".into(),
            },
            ["i", "dump", _tag] => match &self.sess {
                Some(s) if !s.dead => s.dump(),
                _ => "bad-op".into(),
            },
            ["interp", "run", rest @ ..] => {
                if rest.len() != 12 {
                    return "bad-op".into();
                }
                let (Some(p), Some(hq), Some(cq)) = (
                    Params::parse(&rest[..9]),
                    parse_queue(rest[9], Resp::parse),
                    parse_queue(rest[10], Child::parse),
                ) else {
                    return "bad-op".into();
                };
                if parse_queue(rest[11], parse_word).is_none() {
                    return "bad-op".into();
                }
                run_case(&p, &hq, &cq).0
            }
            _ => "bad-op".into(),
        }
    }
}

fn parse_queue<T>(s: &str, p: impl Fn(&str) -> Option<T>) -> Option<Vec<T>> {
    if s == "-" {
        return Some(vec![]);
    }
    s.split(';').map(|t| p(t)).collect()
}

// ---------------------------------------------------------------- run mode
/// `Interpreter::run`, re-entered after every action like the frame machine does; returns (reply, keccak answers in
/// order, skipped-for-memory)
pub fn run_case(p: &Params, hq: &[Resp], cq: &[Child]) -> (String, Vec<U256>, bool) {
    let steps = Rc::new(Cell::new(0usize));
    let skipped = Rc::new(Cell::new(false));
    let oob = Rc::new(Cell::new(false));
    let kq: Rc<RefCell<Vec<U256>>> = Rc::new(RefCell::new(vec![]));
    let (steps2, skipped2, oob2, kq2) = (steps.clone(), skipped.clone(), oob.clone(), kq.clone());
    let p = p.clone();
    let hq = hq.to_vec();
    let cq = cq.to_vec();
    let r = std::panic::catch_unwind(AssertUnwindSafe(move || {
        let mut interp = p.interpreter();
        let mut host = ScriptHost { env: p.env.env(), resp: hq.into_iter().collect(), called: None };
        let table = p.table();
        let wrapped: [Box<dyn Fn(&mut Interpreter, &mut ScriptHost)>; 256] = core::array::from_fn(|i| {
            let f = table[i];
            let (steps, skipped, oob, kq) = (steps2.clone(), skipped2.clone(), oob2.clone(), kq2.clone());
            Box::new(move |interp: &mut Interpreter, host: &mut ScriptHost| {
                // the pointer was already advanced past the opcode: look at the instruction from its own position
                interp.instruction_pointer = unsafe { interp.instruction_pointer.offset(-1) };
                let bad = danger(interp);
                interp.instruction_pointer = unsafe { interp.instruction_pointer.offset(1) };
                if bad {
                    skipped.set(true);
                    interp.instruction_result = InstructionResult::FatalExternalError;
                    return;
                }
                steps.set(steps.get() + 1);
                let len_zero = i == 0x20 && interp.stack.peek(1).map(|l| l.is_zero()).unwrap_or(true);
                f(interp, host);
                if i == 0x20 && !len_zero && interp.instruction_result == InstructionResult::Continue {
                    if let Ok(h) = interp.stack.peek(0) {
                        kq.borrow_mut().push(h);
                    }
                }
                if interp.instruction_result == InstructionResult::Continue
                    && interp.program_counter() >= interp.bytecode.len()
                {
                    oob.set(true);
                    interp.instruction_result = InstructionResult::FatalExternalError;
                }
            }) as Box<dyn Fn(&mut Interpreter, &mut ScriptHost)>
        });
        let mut shared = SharedMemory::new();
        let mut children = cq.into_iter();
        let default_child =
            Child { result: InstructionResult::OutOfGas, gas: 0, refunded: 0, output: vec![], address: None };
        loop {
            let action = interp.run(shared, &wrapped, &mut host);
            shared = interp.take_memory();
            match action {
                InterpreterAction::Call { inputs } => {
                    let c = children.next().unwrap_or(default_child.clone());
                    let outcome = CallOutcome::new(c.interp_result(), inputs.return_memory_offset.clone());
                    interp.insert_call_outcome(&mut shared, outcome);
                }
                InterpreterAction::Create { .. } => {
                    let c = children.next().unwrap_or(default_child.clone());
                    interp.insert_create_outcome(CreateOutcome::new(c.interp_result(), c.address.map(addr_of)));
                }
                InterpreterAction::Return { result } => {
                    return format!(
                        "r={:?} g={} rf={} out={} steps={} ms={} md={:x} n={} sd={:x}",
                        result.result,
                        result.gas.remaining(),
                        result.gas.refunded(),
                        len_dig(&result.output),
                        steps2.get(),
                        shared.len(),
                        mem_window_digest(shared.context_memory()),
                        interp.stack.len(),
                        digest_words(interp.stack.data())
                    );
                }
                _ => return "unexpected-action".to_string(),
            }
        }
    }));
    let reply = match r {
        Ok(s) => {
            if oob.get() {
                "oob-code".to_string()
            } else if skipped.get() {
                "skip-bigmem".to_string()
            } else {
                s
            }
        }
        Err(_) => "panic".to_string(),
    };
    let k = kq.borrow().clone();
    (reply, k, skipped.get())
}

// ---------------------------------------------------------------- generators
const SPECS: &[u8] = &[0, 1, 2, 3, 4, 5, 6, 7, 8, 9, 10, 11, 12, 13, 14, 15, 16, 17, 18, 19, 255];

fn rbytes(r: &mut Rng, lo: u64, hi: u64) -> Vec<u8> {
    let n = r.range(lo, hi) as usize;
    r.bytes(n)
}

fn gen_spec(r: &mut Rng) -> u8 {
    match r.below(10) {
        0..=4 => *r.pick(&[17u8, 18, 19, 255, 16, 12, 11]),
        _ => *r.pick(SPECS),
    }
}

fn gen_gas(r: &mut Rng) -> u64 {
    match r.below(100) {
        0..=3 => r.below(12),
        4..=9 => r.below(300),
        10..=19 => r.range(300, 30_000),
        20..=69 => r.range(30_000, 400_000),
        70..=84 => r.range(400_000, 12_000_000),
        85..=89 => 1u64 << 32,
        90..=93 => 1u64 << 63,
        94..=96 => u64::MAX - r.below(3),
        _ => r.next(),
    }
}

fn gen_addr(r: &mut Rng) -> U256 {
    match r.below(4) {
        0 => U256::from(r.below(20)),
        1 => (U256::from(1) << 160) - U256::from(1 + r.below(2)),
        _ => r.u256() >> 96,
    }
}

fn gen_env(r: &mut Rng) -> EnvTok {
    EnvTok {
        chain: if r.chance(1, 4) { r.next() } else { r.below(1000) },
        coinbase: gen_addr(r),
        timestamp: r.word(),
        number: r.word(),
        difficulty: r.word(),
        // `None` only in the dedicated stream: DIFFICULTY under MERGE unwraps it
        prevrandao: Some(r.word()),
        gas_limit: r.word(),
        basefee: r.word(),
        gas_price: r.word(),
        prio: if r.chance(1, 2) { Some(r.word()) } else { None },
        origin: gen_addr(r),
        blob_hashes: (0..r.below(4)).map(|_| r.word()).collect(),
        blob_gasprice: if r.chance(2, 3) {
            Some(if r.chance(1, 4) { u128::MAX - r.below(2) as u128 } else { r.next() as u128 })
        } else {
            None
        },
        limit: match r.below(6) {
            0 => Some(r.below(100)),
            1 => Some(u64::MAX),
            2 => Some(0x6000),
            _ => None,
        },
    }
}

/// memory offsets / lengths: small, word boundaries, the guard's neighbourhood, around 2^32 and 2^64
fn gen_mem_word(r: &mut Rng) -> U256 {
    let one = U256::from(1);
    match r.below(100) {
        0..=39 => U256::from(*r.pick(&[0u64, 1, 2, 31, 32, 33, 63, 64, 65, 96, 100, 128, 255, 256, 1000])),
        40..=59 => U256::from(r.below(2048)),
        60..=69 => U256::from(r.range(2048, 70_000)),
        70..=74 => U256::from(r.range(70_000, 262_144 + 64)),
        75..=79 => U256::from(*r.pick(&[u32::MAX as u64 - 1, u32::MAX as u64, 1 << 32, (1 << 32) + 1, 1 << 40])),
        80..=86 => U256::from(*r.pick(&[
            u64::MAX,
            u64::MAX - 1,
            u64::MAX - 30,
            u64::MAX - 31,
            u64::MAX - 32,
            u64::MAX - 33,
            1 << 63,
            (1 << 63) - 1,
            (1u64 << 63) + 1,
            1 << 59,
        ])),
        87..=91 => (one << 64) + U256::from(r.below(3)),
        92..=94 => U256::MAX - U256::from(r.below(3)),
        95..=96 => one << (64 * r.range(1, 3) as usize),
        _ => r.word(),
    }
}

fn push_word(code: &mut Vec<u8>, w: U256, r: &mut Rng) {
    if w.is_zero() && r.chance(1, 3) {
        code.push(0x5f);
        return;
    }
    let be = w.to_be_bytes::<32>();
    let lead = be.iter().take_while(|b| **b == 0).count();
    let mut n = (32 - lead).max(1);
    if r.chance(1, 6) {
        n = r.range(n as u64, 32) as usize;
    }
    code.push(0x5f + n as u8);
    code.extend_from_slice(&be[32 - n..]);
}

/// stack inputs of every opcode (opcode.rs)
fn inputs_of(op: u8) -> usize {
    match op {
        0x01..=0x07 | 0x0a | 0x0b | 0x10..=0x14 | 0x16..=0x18 | 0x1a..=0x1d | 0x20 => 2,
        0x08 | 0x09 => 3,
        0x15 | 0x19 => 1,
        0x31 | 0x35 | 0x3b | 0x3f | 0x40 | 0x49 | 0x50 | 0x51 | 0x54 | 0x56 | 0x5c | 0xff => 1,
        0x37 | 0x39 | 0x3e | 0x5e | 0xf0 => 3,
        0x3c | 0xf5 => 4,
        0x52 | 0x53 | 0x55 | 0x57 | 0x5d | 0xf3 | 0xfd => 2,
        0x80..=0x8f => (op - 0x7f) as usize,
        0x90..=0x9f => (op - 0x8e) as usize,
        0xa0..=0xa4 => (op - 0xa0) as usize + 2,
        0xf1 | 0xf2 => 7,
        0xf4 | 0xfa => 6,
        _ => 0,
    }
}

/// operands of `op` chosen from the domain that matters for it; `jumpdests` = positions usable as targets
fn gen_operands(op: u8, r: &mut Rng, jumpdests: &[usize], code_len: usize) -> Vec<U256> {
    let n = inputs_of(op);
    let target = |r: &mut Rng| -> U256 {
        match r.below(10) {
            0..=4 if !jumpdests.is_empty() => U256::from(*r.pick(jumpdests) as u64),
            5 => U256::from(r.below(code_len as u64 + 40)),
            6 => U256::from(code_len as u64 + r.below(40)),
            7 => *r.pick(&[U256::from(u64::MAX), U256::from(1u64 << 32), U256::from(1) << 64, U256::MAX]),
            _ => r.word(),
        }
    };
    // operands listed top first
    match op {
        0x51 => vec![gen_mem_word(r)],
        0x52 | 0x53 => vec![gen_mem_word(r), r.word()],
        0x5e => vec![gen_mem_word(r), gen_mem_word(r), gen_mem_word(r)],
        0x20 | 0xf3 | 0xfd => vec![gen_mem_word(r), gen_mem_word(r)],
        0x37 | 0x39 | 0x3e => vec![gen_mem_word(r), gen_mem_word(r), gen_mem_word(r)],
        0x3c => vec![gen_addr(r), gen_mem_word(r), gen_mem_word(r), gen_mem_word(r)],
        0xa0..=0xa4 => {
            let mut v = vec![gen_mem_word(r), gen_mem_word(r)];
            for _ in 2..n {
                v.push(r.word());
            }
            v
        }
        0x56 => vec![target(r)],
        0x57 => vec![target(r), if r.chance(1, 3) { U256::ZERO } else { r.word() }],
        0xf0 => vec![r.word(), gen_mem_word(r), gen_mem_word(r)],
        0xf5 => vec![r.word(), gen_mem_word(r), gen_mem_word(r), r.word()],
        0xf1 | 0xf2 => vec![
            if r.chance(1, 2) { U256::from(r.below(100_000)) } else { r.word() },
            gen_addr(r),
            if r.chance(1, 2) { U256::ZERO } else { r.word() },
            gen_mem_word(r),
            gen_mem_word(r),
            gen_mem_word(r),
            gen_mem_word(r),
        ],
        0xf4 | 0xfa => vec![
            if r.chance(1, 2) { U256::from(r.below(100_000)) } else { r.word() },
            gen_addr(r),
            gen_mem_word(r),
            gen_mem_word(r),
            gen_mem_word(r),
            gen_mem_word(r),
        ],
        0x35 | 0x49 => vec![gen_mem_word(r)],
        0x31 | 0x3b | 0x3f | 0xff => vec![if r.chance(1, 2) { gen_addr(r) } else { r.word() }],
        _ => (0..n).map(|_| r.word()).collect(),
    }
}

const COMMON_OPS: &[u8] = &[
    0x01, 0x02, 0x03, 0x04, 0x05, 0x06, 0x07, 0x08, 0x09, 0x0a, 0x0b, 0x10, 0x11, 0x12, 0x13, 0x14, 0x15, 0x16, 0x17,
    0x18, 0x19, 0x1a, 0x1b, 0x1c, 0x1d, 0x20, 0x30, 0x31, 0x32, 0x33, 0x34, 0x35, 0x36, 0x37, 0x38, 0x39, 0x3a, 0x3b,
    0x3c, 0x3d, 0x3e, 0x3f, 0x40, 0x41, 0x42, 0x43, 0x44, 0x45, 0x46, 0x47, 0x48, 0x49, 0x4a, 0x50, 0x51, 0x52, 0x53,
    0x54, 0x55, 0x56, 0x57, 0x58, 0x59, 0x5a, 0x5b, 0x5c, 0x5d, 0x5e, 0x5f, 0x80, 0x81, 0x8f, 0x90, 0x91, 0x9f, 0xa0,
    0xa1, 0xa2, 0xa3, 0xa4, 0xf0, 0xf1, 0xf2, 0xf3, 0xf4, 0xf5, 0xfa, 0xfd, 0xfe, 0xff,
];
const MEM_OPS: &[u8] = &[0x51, 0x52, 0x53, 0x5e, 0x20, 0x37, 0x39, 0x3e, 0x3c, 0x59, 0xa0, 0xa2, 0x51, 0x52];
const HOST_OPS: &[u8] =
    &[0x31, 0x3b, 0x3c, 0x3f, 0x40, 0x47, 0x54, 0x55, 0x5c, 0x5d, 0xa0, 0xa1, 0xa4, 0xff, 0xf0, 0xf1, 0xf2, 0xf4, 0xf5, 0xfa];

/// a structured program: `k` instructions, each preceded by pushes of its operands
fn gen_structured(r: &mut Rng, ops: &[u8], k: usize) -> Vec<u8> {
    // a few jump destinations first, so that targets exist
    let mut code = vec![];
    let mut jumpdests = vec![];
    let est_len = k * 40;
    for _ in 0..k {
        if r.chance(1, 6) {
            jumpdests.push(code.len());
            code.push(0x5b);
        }
        let op = if r.chance(1, 12) { r.next() as u8 } else { *r.pick(ops) };
        let operands = gen_operands(op, r, &jumpdests, est_len);
        // sometimes one operand short (underflow), sometimes none pushed (uses what is there)
        let drop = if r.chance(1, 25) { 1 } else { 0 };
        for w in operands.iter().rev().skip(drop) {
            push_word(&mut code, *w, r);
        }
        code.push(op);
        if (0x60..=0x7f).contains(&op) {
            // immediate bytes (possibly a JUMPDEST byte inside push data)
            let n = (op - 0x5f) as usize;
            let have = if r.chance(1, 8) { r.below(n as u64 + 1) as usize } else { n };
            for _ in 0..have {
                code.push(if r.chance(1, 5) { 0x5b } else { r.next() as u8 });
            }
        }
    }
    match r.below(6) {
        0 => code.push(0x00),
        1 => {
            // PUSHn truncated at the very end
            let n = r.range(1, 32) as u8;
            code.push(0x5f + n);
            let have = r.below(n as u64) as usize;
            code.extend(r.bytes(have));
        }
        _ => {}
    }
    code
}

fn gen_random_code(r: &mut Rng) -> Vec<u8> {
    let n = match r.below(10) {
        0 => 0,
        1..=5 => r.range(1, 24),
        _ => r.range(24, 200),
    } as usize;
    (0..n)
        .map(|_| match r.below(10) {
            0..=1 => 0x5b,
            2 => 0x60 + r.below(32) as u8,
            3 => *r.pick(COMMON_OPS),
            _ => r.next() as u8,
        })
        .collect()
}

/// loops and deep stacks
fn gen_loop(r: &mut Rng) -> Vec<u8> {
    match r.below(4) {
        // JUMPDEST; <body>; PUSH1 0; JUMP   (runs until the gas or the stack ends)
        0 => {
            let mut c = vec![0x5b];
            match r.below(4) {
                0 => c.extend_from_slice(&[0x60, 0x01]),       // grows the stack by one per round
                1 => c.extend_from_slice(&[0x5a, 0x50]),       // GAS POP
                2 => c.extend_from_slice(&[0x59, 0x51, 0x50]), // MSIZE MLOAD POP: grows memory by a word per round
                _ => {}
            }
            c.extend_from_slice(&[0x60, 0x00, 0x56]);
            c
        }
        // straight-line DUP1 run beyond the stack limit
        1 => {
            let mut c = vec![0x60, 0x07];
            c.extend(std::iter::repeat(0x80).take(r.range(1015, 1030) as usize));
            c.push(0x50);
            c
        }
        // countdown loop with JUMPI
        2 => {
            // PUSH2 n; JUMPDEST; PUSH1 1; SWAP1; SUB; DUP1; PUSH1 3; JUMPI; STOP
            let n = r.range(1, 300) as u16;
            vec![0x61, (n >> 8) as u8, n as u8, 0x5b, 0x60, 0x01, 0x90, 0x03, 0x80, 0x60, 0x03, 0x57, 0x00]
        }
        // PUSH32 run to the stack limit
        _ => {
            let mut c = vec![];
            for _ in 0..r.range(1020, 1027) {
                c.push(0x5f + r.range(1, 32) as u8);
                let n = (*c.last().unwrap() - 0x5f) as usize;
                c.extend(r.bytes(n));
            }
            c
        }
    }
}

fn gen_params(r: &mut Rng, code: Vec<u8>) -> Params {
    Params {
        eof: None,
        spec: gen_spec(r),
        gas: gen_gas(r),
        is_static: r.chance(1, 6),
        code,
        input: match r.below(4) {
            0 => vec![],
            1 => rbytes(r, 1, 40),
            2 => rbytes(r, 28, 36),
            _ => rbytes(r, 40, 200),
        },
        target: gen_addr(r),
        caller: gen_addr(r),
        value: r.word(),
        env: gen_env(r),
    }
}

/// the answer the scripted host will give during the next instruction
fn gen_resp(r: &mut Rng, op: Option<u8>) -> Resp {
    let Some(op) = op else { return Resp::default() };
    let is_host = matches!(op, 0x31 | 0x3b | 0x3c | 0x3f | 0x40 | 0x47 | 0x54 | 0x55 | 0x5c | 0x5d | 0xa0..=0xa4 | 0xff | 0xf1 | 0xf2 | 0xf4 | 0xfa | 0xf8 | 0xf9 | 0xfb);
    if !is_host && !r.chance(1, 50) {
        return Resp::default();
    }
    if r.chance(1, 25) {
        return Resp::default(); // `None`: FatalExternalError
    }
    let small = |r: &mut Rng| *r.pick(&[U256::ZERO, U256::from(1), U256::from(2), U256::MAX]);
    let (orig, pres, new) = (small(r), small(r), small(r));
    Resp {
        ok: true,
        word: r.word(),
        bytes: match r.below(4) {
            0 => vec![],
            1 => rbytes(r, 1, 40),
            _ => rbytes(r, 40, 300),
        },
        cold: r.chance(1, 2),
        orig,
        pres,
        new,
        flags: r.below(16) as u8,
        deleg: match r.below(4) {
            0 => Some(false),
            1 => Some(true),
            _ => None,
        },
    }
}

fn gen_child(r: &mut Rng, gas_limit: u64) -> Child {
    let result = match r.below(10) {
        0..=2 => InstructionResult::Stop,
        3..=4 => InstructionResult::Return,
        5..=6 => InstructionResult::Revert,
        7 => InstructionResult::OutOfGas,
        _ => loop {
            let x = *r.pick(ALL_RESULTS);
            // a FatalExternalError child never reaches `insert_*_outcome` in the EVM (`take_error()?` comes first);
            // handing one in is the documented `panic!` of these functions
            if x != InstructionResult::FatalExternalError {
                break x;
            }
        },
    };
    Child {
        result,
        gas: match r.below(10) {
            0 => 0,
            1 => gas_limit,
            2..=7 => r.below(gas_limit.saturating_add(1)),
            8 => gas_limit.saturating_add(r.below(1000)), // not admissible (more than it was given): wraps are modelled
            _ => r.next(),
        },
        refunded: match r.below(10) {
            0..=5 => 0,
            6..=7 => r.below(100_000) as i64,
            8 => -(r.below(100_000) as i64),
            _ => *r.pick(&[i64::MAX, i64::MIN, i64::MAX - 1, -1]),
        },
        output: match r.below(4) {
            0 => vec![],
            1 => rbytes(r, 1, 33),
            _ => rbytes(r, 33, 200),
        },
        address: if r.chance(3, 4) { Some(gen_addr(r)) } else { None },
    }
}

/// the keccak answer for the next instruction, computed from the state before it (the memory it would read,
/// zero-extended), so that the request line carries it
fn keccak_resp(s: &Session) -> Resp {
    let (Some(off), Some(len)) = (peek(&s.interp, 0), peek(&s.interp, 1)) else { return Resp::default() };
    let lim = U256::from(2 * MEM_LIMIT as u64);
    if len.is_zero() || off > lim || len > lim {
        return Resp::default();
    }
    let (off, len) = (off.as_limbs()[0] as usize, len.as_limbs()[0] as usize);
    let ctx = s.interp.shared_memory.context_memory();
    let mut data = vec![0u8; len];
    for i in 0..len {
        if off + i < ctx.len() {
            data[i] = ctx[off + i];
        }
    }
    Resp { ok: true, word: U256::from_be_bytes(keccak256(&data).0), ..Default::default() }
}

/// the address EOFCREATE will compute (`target.create2(salt, keccak256(container))`), so that the request line carries it
fn eofcreate_resp(s: &Session) -> Resp {
    let pc = s.interp.program_counter();
    let (Some(salt), Some(eof)) = (peek(&s.interp, 1), s.interp.eof()) else { return Resp::default() };
    let Some(idx) = s.interp.bytecode.get(pc + 1) else { return Resp::default() };
    let Some(sub) = eof.body.container_section.get(*idx as usize) else { return Resp::default() };
    let a = s.interp.contract.target_address.create2(salt.to_be_bytes::<32>(), keccak256(sub));
    Resp { ok: true, word: U256::from_be_slice(a.as_slice()), ..Default::default() }
}

/// one lockstep case: `begin`, then instructions until the frame ends / `max_steps`
fn gen_case(r: &mut Rng, p: &Params, max_steps: usize, out: &mut Out, lines: &mut Vec<String>) {
    let case_id = lines.len();
    let mut ex = Exec::new();
    let b = p.begin_line();
    let rep = ex.line(&b);
    lines.push(b);
    if !rep.starts_with("ok ") {
        return;
    }
    if p.eof.is_some() {
        let v = ex.validated.unwrap_or(false);
        out.count(if v { "eof:validated" } else { "eof:not-validated" });
        let l = format!("i wf {}.wf {}", case_id, b01(v));
        ex.line(&l);
        lines.push(l);
    }
    let mut steps = 0;
    loop {
        let Some(sess) = ex.sess.as_ref() else { break };
        if sess.dead {
            break;
        }
        if sess.pending_action() {
            let gl = match &sess.interp.next_action {
                InterpreterAction::Call { inputs } => inputs.gas_limit,
                InterpreterAction::Create { inputs } => inputs.gas_limit,
                InterpreterAction::EOFCreate { inputs } => inputs.gas_limit,
                _ => 0,
            };
            let mut c = gen_child(r, gl);
            if matches!(sess.interp.next_action, InterpreterAction::EOFCreate { .. }) {
                if r.chance(1, 2) {
                    c.result = InstructionResult::ReturnContract;
                }
                // `ReturnContract` without an address is the `expect("EOF Address")` of insert_eofcreate_outcome;
                // the frame machine always supplies it
                if c.result == InstructionResult::ReturnContract && c.address.is_none() {
                    c.address = Some(gen_addr(r));
                }
            }
            let l = format!("i ret {}.r{} {}", case_id, lines.len(), c.token());
            let rep = ex.line(&l);
            lines.push(l);
            out.count("line:ret");
            if rep == "panic" {
                out.count("reply:panic");
            }
            continue;
        }
        if !sess.running() || steps >= max_steps {
            break;
        }
        if danger(&sess.interp) {
            out.count("case:stopped-before-big-memory");
            break;
        }
        if eof_danger(&sess.interp) {
            out.count("case:stopped-before-unchecked-eof-instruction");
            break;
        }
        let op = sess.peek_opcode();
        let resp = if op == Some(0x20) {
            keccak_resp(sess)
        } else if op == Some(0xec) && sess.interp.is_eof {
            eofcreate_resp(sess)
        } else {
            gen_resp(r, op)
        };
        let l = format!("i s {}.{} {}", case_id, steps, resp.token());
        let rep = ex.line(&l);
        lines.push(l);
        steps += 1;
        if let Some(op) = op {
            out.count(&format!("op:{:02x}", op));
        }
        if rep == "panic" {
            out.count("reply:panic");
        } else if rep == "oob-code" {
            out.count("reply:oob-code");
        } else if let Some(rr) = rep.split(' ').find(|t| t.starts_with("r=")) {
            if rr != "r=Continue" {
                out.count(&format!("end:{}", &rr[2..]));
            }
        }
    }
    if ex.sess.as_ref().map(|s| !s.dead).unwrap_or(false) {
        lines.push(format!("i dump {}", case_id));
    }
    out.count("case:step");
}

fn gen_run_line(r: &mut Rng, p: &Params, out: &mut Out, lines: &mut Vec<String>) {
    let hq: Vec<Resp> = (0..r.below(6)).map(|_| gen_resp(r, Some(0x31))).collect();
    let cq: Vec<Child> = (0..r.below(4)).map(|_| gen_child(r, p.gas / 2)).collect();
    let (_, kq, skipped) = run_case(p, &hq, &cq);
    if skipped {
        out.count("case:run-skipped-big-memory");
        return;
    }
    let q = |v: Vec<String>| if v.is_empty() { "-".to_string() } else { v.join(";") };
    lines.push(format!(
        "interp run {} {} {} {}",
        p.tokens(),
        q(hq.iter().map(|x| x.token()).collect()),
        q(cq.iter().map(|x| x.token()).collect()),
        q(kq.iter().map(|x| hx(*x)).collect())
    ));
    out.count("case:run");
}

/// boundary stream: every opcode byte under every SpecId, operands present, ample and scarce gas
fn gen_opcode_spec_matrix(r: &mut Rng, out: &mut Out, lines: &mut Vec<String>, every: usize) {
    let mut k = 0usize;
    for op in 0u16..=255 {
        for &spec in SPECS {
            k += 1;
            if every > 1 && (k + r.below(every as u64) as usize) % every != 0 {
                continue;
            }
            let op = op as u8;
            let mut code = vec![0x5b];
            let operands: Vec<U256> = (0..inputs_of(op).max(if r.chance(1, 2) { 0 } else { 2 }))
                .map(|_| U256::from(r.below(64)))
                .collect();
            for w in operands.iter().rev() {
                push_word(&mut code, *w, r);
            }
            code.push(op);
            code.extend_from_slice(&[0x5b, 0x58, 0x00]);
            let mut p = gen_params(r, code);
            p.spec = spec;
            p.gas = if r.chance(1, 5) { r.below(60) } else { 1_000_000 };
            p.is_static = r.chance(1, 8);
            gen_case(r, &p, 40, out, lines);
        }
    }
}

/// PUSHn at the end of the code with every number of missing immediate bytes
fn gen_truncated_push(r: &mut Rng, out: &mut Out, lines: &mut Vec<String>, sample: bool) {
    for n in 1u8..=32 {
        for have in 0..=n {
            if sample && !r.chance(1, 8) {
                continue;
            }
            let mut code = vec![];
            if r.chance(1, 2) {
                code.extend_from_slice(&[0x5b, 0x5b]);
            }
            code.push(0x5f + n);
            for _ in 0..have {
                code.push(if r.chance(1, 4) { 0x5b } else { r.next() as u8 });
            }
            let mut p = gen_params(r, code);
            p.gas = if r.chance(1, 6) { r.below(8) } else { 50_000 };
            gen_case(r, &p, 10, out, lines);
        }
    }
}

// ---------------------------------------------------------------- EOF programs
const EOF_PLAIN_OPS: &[u8] = &[
    0x01, 0x03, 0x10, 0x15, 0x16, 0x19, 0x20, 0x30, 0x33, 0x34, 0x35, 0x36, 0x37, 0x3d, 0x3e, 0x50, 0x51, 0x52, 0x53,
    0x54, 0x55, 0x59, 0x5b, 0x5e, 0x5f, 0x80, 0x81, 0x90, 0x91, 0xa0, 0xa1, 0xd0, 0xd2, 0xd3, 0xf7, 0x5c, 0x5d, 0x49,
];

enum EItem {
    Raw(Vec<u8>),
    /// RJUMP / RJUMPI to the start of item `target` (or a raw offset)
    Jump { op: u8, target: usize, raw: Option<i16> },
    /// RJUMPV with the given targets
    JumpV { targets: Vec<usize>, raw: Option<i16> },
}

fn eof_operands(op: u8, r: &mut Rng) -> Vec<U256> {
    match op {
        0xd0 | 0xf7 => vec![match r.below(5) {
            0 => U256::from(r.below(100)),
            1 => U256::from(u64::MAX),
            2 => U256::MAX,
            _ => U256::from(r.below(40)),
        }],
        0xd3 => vec![gen_mem_word(r), gen_mem_word(r), gen_mem_word(r)],
        _ => gen_operands(op, r, &[], 0),
    }
}

fn gen_eof_section(r: &mut Rng, idx: usize, nsec: usize, ncont: usize, init: bool) -> Vec<u8> {
    let k = r.range(2, 14) as usize;
    let mut items: Vec<EItem> = vec![];
    for _ in 0..k {
        match r.below(20) {
            0..=1 => {
                // conditional / unconditional relative jump
                let op = if r.chance(1, 3) { 0xe0 } else { 0xe1 };
                if op == 0xe1 {
                    let mut c = vec![];
                    push_word(&mut c, if r.chance(1, 2) { U256::ZERO } else { r.word() }, r);
                    items.push(EItem::Raw(c));
                }
                let raw = if r.chance(1, 12) { Some(r.next() as i16 % 64) } else { None };
                items.push(EItem::Jump { op, target: r.below(k as u64 + 2) as usize, raw });
            }
            2 => {
                let n = r.range(1, 4) as usize;
                let mut c = vec![];
                push_word(&mut c, match r.below(4) { 0 => U256::from(u64::MAX), 1 => U256::MAX, _ => U256::from(r.below(n as u64 + 2)) }, r);
                items.push(EItem::Raw(c));
                let raw = if r.chance(1, 12) { Some(r.next() as i16 % 64) } else { None };
                items.push(EItem::JumpV { targets: (0..n).map(|_| r.below(k as u64 + 2) as usize).collect(), raw });
            }
            3 => {
                // CALLF (mostly to an existing section)
                let t = if r.chance(1, 15) { r.below(70000) } else { r.below(nsec as u64) };
                items.push(EItem::Raw(vec![0xe3, (t >> 8) as u8, t as u8]));
            }
            4 => {
                let off = if r.chance(1, 3) { r.next() as u16 } else { r.below(70) as u16 };
                items.push(EItem::Raw(vec![0xd1, (off >> 8) as u8, off as u8]));
            }
            5 => {
                let op = *r.pick(&[0xe6u8, 0xe7, 0xe8]);
                let imm = if r.chance(1, 3) { r.next() as u8 } else { r.below(4) as u8 };
                items.push(EItem::Raw(vec![op, imm]));
            }
            6 if idx > 0 => items.push(EItem::Raw(vec![0xe4])),
            7 => {
                // EXTCALL / EXTDELEGATECALL / EXTSTATICCALL
                let op = *r.pick(&[0xf8u8, 0xf9, 0xfb]);
                let mut c = vec![];
                if op == 0xf8 {
                    push_word(&mut c, if r.chance(1, 2) { U256::ZERO } else { r.word() }, r);
                }
                push_word(&mut c, gen_mem_word(r), r);
                push_word(&mut c, gen_mem_word(r), r);
                push_word(&mut c, if r.chance(1, 8) { r.word() } else { gen_addr(r) }, r);
                c.push(op);
                items.push(EItem::Raw(c));
            }
            8 if ncont > 0 || r.chance(1, 10) => {
                // EOFCREATE: value, salt, data_offset, data_size on the stack (value on top)
                let mut c = vec![];
                push_word(&mut c, gen_mem_word(r), r);
                push_word(&mut c, gen_mem_word(r), r);
                push_word(&mut c, r.word(), r);
                push_word(&mut c, if r.chance(1, 2) { U256::ZERO } else { r.word() }, r);
                let i = if r.chance(1, 15) { r.next() as u8 } else { r.below(ncont.max(1) as u64) as u8 };
                c.extend_from_slice(&[0xec, i]);
                items.push(EItem::Raw(c));
            }
            _ => {
                let op = *r.pick(EOF_PLAIN_OPS);
                let mut c = vec![];
                let ops = eof_operands(op, r);
                let drop = if r.chance(1, 25) { 1 } else { 0 };
                for w in ops.iter().rev().skip(drop) {
                    push_word(&mut c, *w, r);
                }
                c.push(op);
                items.push(EItem::Raw(c));
            }
        }
    }
    // terminator
    items.push(EItem::Raw(match r.below(6) {
        _ if init && ncont > 0 && r.chance(1, 2) => {
            // RETURNCONTRACT: aux_data_offset (top), aux_data_size
            let mut c = vec![];
            push_word(&mut c, match r.below(4) { 0 => U256::ZERO, 1 => U256::from(0xffff), _ => gen_mem_word(r) }, r);
            push_word(&mut c, gen_mem_word(r), r);
            let i = if r.chance(1, 15) { r.next() as u8 } else { r.below(ncont as u64) as u8 };
            c.extend_from_slice(&[0xee, i]);
            c
        }
        0 if idx > 0 => vec![0xe4],
        1 => {
            let t = r.below(nsec as u64);
            vec![0xe5, (t >> 8) as u8, t as u8]
        }
        2 => vec![0x5f, 0x5f, 0xf3],
        3 => vec![0xfe],
        _ => vec![0x00],
    }));
    // layout
    let size = |it: &EItem| match it {
        EItem::Raw(c) => c.len(),
        EItem::Jump { .. } => 3,
        EItem::JumpV { targets, .. } => 2 + 2 * targets.len(),
    };
    let mut pos = vec![0usize];
    for it in &items {
        pos.push(pos.last().unwrap() + size(it));
    }
    let at = |t: usize| -> i64 { pos[t.min(items.len() - 1)] as i64 };
    let mut code = vec![];
    for (i, it) in items.iter().enumerate() {
        match it {
            EItem::Raw(c) => code.extend_from_slice(c),
            EItem::Jump { op, target, raw } => {
                let base = pos[i] as i64 + 3;
                let off = raw.unwrap_or((at(*target) - base) as i16);
                code.push(*op);
                code.extend_from_slice(&off.to_be_bytes());
            }
            EItem::JumpV { targets, raw } => {
                let base = pos[i] as i64 + 2 + 2 * targets.len() as i64;
                code.push(0xe2);
                code.push((targets.len() - 1) as u8);
                for (j, t) in targets.iter().enumerate() {
                    let off = if j == 0 { raw.unwrap_or((at(*t) - base) as i16) } else { (at(*t) - base) as i16 };
                    code.extend_from_slice(&off.to_be_bytes());
                }
            }
        }
    }
    code
}

/// a sub-container: usually a decodable one with its data section filled
fn gen_subcontainer(r: &mut Rng) -> Vec<u8> {
    if r.chance(1, 25) {
        return rbytes(r, 1, 40);
    }
    let nsec = r.range(1, 2) as usize;
    let body = EofBody {
        types_section: (0..nsec).map(|_| TypesSection { inputs: 0, outputs: 0x80, max_stack_size: 0 }).collect(),
        code_section: (0..nsec).map(|_| Bytes::from(vec![if r.chance(1, 2) { 0x00 } else { 0xfe }])).collect(),
        container_section: vec![],
        data_section: Bytes::from(rbytes(r, 0, 40)),
        is_data_filled: true,
    };
    let mut e = body.into_eof();
    if r.chance(1, 12) {
        // declared data longer than what is there: `is_data_filled = false` after decoding
        e.header.data_size += r.range(1, 9) as u16;
        return e.encode_slow().to_vec();
    }
    e.raw.to_vec()
}

/// EOF containers aimed at one of EOFCREATE / RETURNCONTRACT / EXTCALL / EXTDELEGATECALL / EXTSTATICCALL: operands in
/// place, ample gas, decodable sub-containers, and a few instructions that look at the result afterwards
fn gen_eof_directed(r: &mut Rng) -> Params {
    let ncont = r.range(1, 3) as usize;
    let containers: Vec<Vec<u8>> = (0..ncont).map(|_| gen_subcontainer(r)).collect();
    let which = r.below(5);
    let init = which == 1;
    let small = |r: &mut Rng| U256::from(*r.pick(&[0u64, 1, 31, 32, 33, 64, 100]));
    let mut c = vec![];
    // something in memory first
    if r.chance(1, 2) {
        push_word(&mut c, r.word(), r);
        push_word(&mut c, small(r), r);
        c.push(0x52);
    }
    let after: &[u8] = &[0x3d, 0x5f, 0xf7, 0x59, 0x00]; // RETURNDATASIZE PUSH0 RETURNDATALOAD MSIZE STOP
    match which {
        0 => {
            let sz = if r.chance(1, 6) { gen_mem_word(r) } else { small(r) };
            let off = if r.chance(1, 6) { gen_mem_word(r) } else { small(r) };
            push_word(&mut c, sz, r);
            push_word(&mut c, off, r);
            push_word(&mut c, r.word(), r);
            push_word(&mut c, if r.chance(1, 2) { U256::ZERO } else { r.word() }, r);
            c.extend_from_slice(&[0xec, if r.chance(1, 12) { ncont as u8 } else { r.below(ncont as u64) as u8 }]);
            c.extend_from_slice(after);
        }
        1 => {
            let sz = match r.below(6) {
                0 => U256::ZERO,
                1 => U256::from(0xffffu64),
                2 => U256::from(0x10000u64),
                3 => gen_mem_word(r),
                _ => small(r),
            };
            push_word(&mut c, sz, r);
            push_word(&mut c, if r.chance(1, 6) { gen_mem_word(r) } else { small(r) }, r);
            c.extend_from_slice(&[0xee, if r.chance(1, 12) { ncont as u8 } else { r.below(ncont as u64) as u8 }]);
        }
        _ => {
            let op = [0xf8u8, 0xf9, 0xfb][(which - 2) as usize];
            if op == 0xf8 {
                push_word(&mut c, if r.chance(1, 2) { U256::ZERO } else { U256::from(r.below(1000)) }, r);
            }
            push_word(&mut c, if r.chance(1, 6) { gen_mem_word(r) } else { small(r) }, r);
            push_word(&mut c, if r.chance(1, 6) { gen_mem_word(r) } else { small(r) }, r);
            push_word(&mut c, if r.chance(1, 10) { r.word() } else { gen_addr(r) }, r);
            c.push(op);
            c.extend_from_slice(after);
        }
    }
    let mut p = gen_params(r, vec![]);
    p.spec = *r.pick(&[19u8, 255]);
    p.gas = match r.below(6) {
        0 => r.below(40_000),
        1 => r.range(2300, 9000),
        _ => r.range(100_000, 3_000_000),
    };
    if which != 0 && which != 1 {
        p.is_static = r.chance(1, 3);
    } else {
        p.is_static = r.chance(1, 10);
    }
    let data = rbytes(r, 0, 40);
    p.eof = Some(EofParams {
        sections: vec![c],
        types: vec![(0, 0x80, 8)],
        data_size: data.len() as u16,
        data,
        containers,
        init,
    });
    p
}

fn gen_eof_params(r: &mut Rng) -> Params {
    let nsec = r.range(1, 4) as usize;
    let ncont = if r.chance(1, 2) { r.range(1, 3) as usize } else { 0 };
    let init = ncont > 0 && r.chance(1, 3);
    let sections: Vec<Vec<u8>> = (0..nsec)
        .map(|i| if r.chance(1, 30) { gen_random_code(r) } else { gen_eof_section(r, i, nsec, ncont, init) })
        .map(|c| if c.is_empty() { vec![0x00] } else { c })
        .collect();
    let types: Vec<(u8, u8, u16)> = (0..if r.chance(1, 20) { nsec - 1 } else { nsec })
        .map(|_| {
            let inputs = r.below(4) as u8;
            let outputs = if r.chance(1, 4) { 0x80 } else { r.below(4) as u8 };
            let max = match r.below(8) {
                0 => r.below(inputs as u64 + 1) as u16,
                1 => 1023,
                2 => 1024,
                3 => r.next() as u16,
                _ => inputs as u16 + r.below(20) as u16,
            };
            (inputs, outputs, max)
        })
        .collect();
    let data = match r.below(4) {
        0 => vec![],
        1 => rbytes(r, 1, 31),
        _ => rbytes(r, 32, 100),
    };
    let data_size = if r.chance(1, 5) { data.len() as u16 + r.below(50) as u16 } else { data.len() as u16 };
    let mut p = gen_params(r, vec![]);
    p.spec = *r.pick(&[19u8, 255, 19, 18]);
    if p.gas > 3_000_000 && r.chance(3, 4) {
        p.gas = r.range(1000, 300_000);
    }
    let containers: Vec<Vec<u8>> = (0..ncont).map(|_| gen_subcontainer(r)).collect();
    p.eof = Some(EofParams { sections, types, data, data_size, containers, init });
    p
}


// ---------------------------------------------------------------- valid EOF containers
/// code emitter that tracks the operand stack height the way `validate_eof_code` does
struct Em {
    code: Vec<u8>,
    h: usize,
    max: usize,
}
impl Em {
    fn new(h: usize) -> Em {
        Em { code: vec![], h, max: h }
    }
    /// at every instruction start
    fn mark(&mut self) {
        if self.h > self.max {
            self.max = self.h;
        }
    }
    fn raw(&mut self, bytes: &[u8], ins: usize, outs: usize) {
        self.mark();
        assert!(self.h >= ins);
        self.code.extend_from_slice(bytes);
        self.h = self.h - ins + outs;
    }
    fn push(&mut self, w: U256, r: &mut Rng) {
        self.mark();
        push_word(&mut self.code, w, r);
        self.h += 1;
    }
    fn need(&mut self, n: usize, r: &mut Rng) {
        while self.h < n {
            let w = if r.chance(1, 3) { r.word() } else { U256::from(r.below(70)) };
            self.push(w, r);
        }
    }
    fn set_height(&mut self, n: usize, r: &mut Rng) {
        while self.h > n {
            self.raw(&[0x50], 1, 0);
        }
        self.need(n, r);
    }
    /// a sub-emitter at the same height
    fn fork(&self) -> Em {
        Em { code: vec![], h: self.h, max: self.h }
    }
    fn join(&mut self, sub: Em) {
        self.code.extend_from_slice(&sub.code);
        if sub.max > self.max {
            self.max = sub.max;
        }
    }
}

struct VCtx {
    /// (inputs, outputs) per section, 0x80 = non-returning
    sigs: Vec<(u8, u8)>,
    data_size: usize,
    /// sub-containers usable by EOFCREATE (init containers) / by RETURNCONTRACT (runtime containers)
    init_subs: Vec<u8>,
    runtime_subs: Vec<u8>,
    /// is this container itself an init container (no STOP / RETURN) ?
    init: bool,
}

fn small_mem(r: &mut Rng) -> U256 {
    if r.chance(1, 8) {
        gen_mem_word(r)
    } else {
        U256::from(*r.pick(&[0u64, 1, 31, 32, 33, 64, 96, 100, 200]))
    }
}

/// a stack-neutral sequence of instructions
fn v_neutral(e: &mut Em, r: &mut Rng) {
    for _ in 0..r.below(3) {
        match r.below(4) {
            0 => {
                e.raw(&[0x5f], 0, 1);
                e.raw(&[0x50], 1, 0);
            }
            1 => e.raw(&[0x5b], 0, 0),
            2 => {
                e.push(U256::from(r.below(300)), r);
                e.push(U256::from(r.below(300)), r);
                e.raw(&[0x01], 2, 1);
                e.raw(&[0x50], 1, 0);
            }
            _ => {
                e.push(small_mem(r), r);
                e.raw(&[0x51], 1, 1);
                e.raw(&[0x50], 1, 0);
            }
        }
    }
}

/// a terminating sequence for section `idx`
fn v_term(e: &mut Em, r: &mut Rng, c: &VCtx, idx: usize) {
    let (_, outs) = c.sigs[idx];
    let push2 = |e: &mut Em, r: &mut Rng| {
        e.push(small_mem(r), r);
        e.push(small_mem(r), r);
    };
    if outs != 0x80 {
        // returning: RETF, or JUMPF to a returning section with at most as many outputs
        let cands: Vec<usize> =
            (1..c.sigs.len()).filter(|j| c.sigs[*j].1 != 0x80 && c.sigs[*j].1 <= outs).collect();
        if !cands.is_empty() && r.chance(1, 4) {
            let j = *r.pick(&cands);
            let (ji, jo) = c.sigs[j];
            e.set_height(outs as usize + ji as usize - jo as usize, r);
            e.raw(&[0xe5, (j >> 8) as u8, j as u8], ji as usize, 0);
        } else {
            e.set_height(outs as usize, r);
            e.raw(&[0xe4], outs as usize, 0);
        }
        return;
    }
    let nonret: Vec<usize> = (1..c.sigs.len()).filter(|j| c.sigs[*j].1 == 0x80 && *j != idx).collect();
    match r.below(6) {
        0 if !nonret.is_empty() => {
            let j = *r.pick(&nonret);
            let ji = c.sigs[j].0 as usize;
            e.need(ji, r);
            e.raw(&[0xe5, (j >> 8) as u8, j as u8], ji, 0);
        }
        1 => {
            push2(e, r);
            e.raw(&[0xfd], 2, 0);
        }
        2 => e.raw(&[0xfe], 0, 0),
        _ if c.init => {
            if c.runtime_subs.is_empty() {
                e.raw(&[0xfe], 0, 0);
            } else {
                // RETURNCONTRACT: aux_data_offset (top), aux_data_size
                let sz = match r.below(5) {
                    0 => U256::from(0xffffu64),
                    1 => small_mem(r),
                    _ => U256::from(r.below(40)),
                };
                e.push(sz, r);
                e.push(small_mem(r), r);
                let k = *r.pick(&c.runtime_subs);
                e.raw(&[0xee, k], 2, 0);
            }
        }
        3 => {
            push2(e, r);
            e.raw(&[0xf3], 2, 0);
        }
        _ => e.raw(&[0x00], 0, 0),
    }
}

/// `cond; RJUMPI over; <block that ends the frame / the function>; over:`
fn v_early_exit(e: &mut Em, r: &mut Rng, block: impl FnOnce(&mut Em, &mut Rng)) {
    e.push(if r.chance(1, 2) { U256::ZERO } else { U256::from(1) }, r);
    e.mark();
    e.h -= 1;
    let mut sub = e.fork();
    block(&mut sub, r);
    let off = sub.code.len() as i16;
    e.code.push(0xe1);
    e.code.extend_from_slice(&off.to_be_bytes());
    let h = e.h;
    e.join(sub);
    e.h = h;
}

fn v_callf(e: &mut Em, r: &mut Rng, c: &VCtx, j: usize) {
    let (ji, jo) = c.sigs[j];
    e.need(ji as usize, r);
    e.raw(&[0xe3, (j >> 8) as u8, j as u8], ji as usize, jo as usize);
}

fn v_eofcreate(e: &mut Em, r: &mut Rng, k: u8) {
    e.push(small_mem(r), r);
    e.push(small_mem(r), r);
    e.push(r.word(), r);
    e.push(if r.chance(1, 2) { U256::ZERO } else { U256::from(r.below(1000)) }, r);
    e.raw(&[0xec, k], 4, 1);
}

fn v_item(e: &mut Em, r: &mut Rng, c: &VCtx, idx: usize) {
    if e.h > 12 {
        e.set_height(r.range(0, 6) as usize, r);
        return;
    }
    let returning: Vec<usize> = (1..c.sigs.len()).filter(|j| c.sigs[*j].1 != 0x80).collect();
    match r.below(24) {
        0 => {
            let (op, req) = match r.below(3) {
                0 => {
                    let imm = r.below(4) as u8;
                    ([0xe6u8, imm], imm as usize + 1)
                }
                1 => {
                    let imm = r.below(4) as u8;
                    ([0xe7, imm], imm as usize + 2)
                }
                _ => {
                    let imm = *r.pick(&[0x00u8, 0x01, 0x10, 0x11, 0x02]);
                    ([0xe8, imm], (imm >> 4) as usize + (imm & 0xf) as usize + 3)
                }
            };
            e.need(req, r);
            let outs = if op[0] == 0xe6 { e.h + 1 } else { e.h };
            let ins = e.h;
            e.raw(&op, ins, outs);
        }
        1 if c.data_size >= 32 => {
            let off = r.below(c.data_size as u64 - 31) as u16;
            e.raw(&[0xd1, (off >> 8) as u8, off as u8], 0, 1);
        }
        2 | 3 if !returning.is_empty() => {
            let j = *r.pick(&returning);
            v_callf(e, r, c, j);
        }
        4 | 5 => {
            // conditional forward jump over a neutral block
            e.push(if r.chance(1, 2) { U256::ZERO } else { r.word() }, r);
            e.mark();
            e.h -= 1;
            let mut sub = e.fork();
            v_neutral(&mut sub, r);
            let off = sub.code.len() as i16;
            e.code.push(0xe1);
            e.code.extend_from_slice(&off.to_be_bytes());
            e.join(sub);
        }
        6 => {
            // RJUMPV over neutral blocks
            let m = r.range(1, 3) as usize;
            e.push(match r.below(4) { 0 => U256::MAX, 1 => U256::from(u64::MAX), _ => U256::from(r.below(m as u64 + 2)) }, r);
            e.mark();
            e.h -= 1;
            let mut blocks = vec![];
            let mut starts = vec![0usize];
            for _ in 0..=m {
                let mut sub = e.fork();
                v_neutral(&mut sub, r);
                starts.push(starts.last().unwrap() + sub.code.len());
                blocks.push(sub);
            }
            e.code.push(0xe2);
            e.code.push((m - 1) as u8);
            for _ in 0..m {
                let t = starts[r.below(starts.len() as u64) as usize] as i16;
                e.code.extend_from_slice(&t.to_be_bytes());
            }
            for b in blocks {
                e.join(b);
            }
        }
        7 => {
            // a counted loop with a backward RJUMPI
            e.push(U256::from(r.range(1, 4)), r);
            let l = e.code.len();
            v_neutral(e, r);
            e.push(U256::from(1), r);
            e.raw(&[0x90], 2, 2);
            e.raw(&[0x03], 2, 1);
            e.raw(&[0x80], 1, 2);
            e.mark();
            e.h -= 1;
            let off = (l as i64 - (e.code.len() as i64 + 3)) as i16;
            e.code.push(0xe1);
            e.code.extend_from_slice(&off.to_be_bytes());
            e.raw(&[0x50], 1, 0);
        }
        8 => {
            let op = *r.pick(&[0xf8u8, 0xf9, 0xfb]);
            if op == 0xf8 {
                e.push(if r.chance(1, 2) { U256::ZERO } else { U256::from(r.below(1000)) }, r);
            }
            e.push(small_mem(r), r);
            e.push(small_mem(r), r);
            e.push(if r.chance(1, 10) { r.word() } else { gen_addr(r) }, r);
            e.raw(&[op], if op == 0xf8 { 4 } else { 3 }, 1);
        }
        9 if !c.init_subs.is_empty() => {
            let k = *r.pick(&c.init_subs);
            v_eofcreate(e, r, k);
        }
        10 => {
            let c2 = VCtx {
                sigs: c.sigs.clone(),
                data_size: c.data_size,
                init_subs: c.init_subs.clone(),
                runtime_subs: c.runtime_subs.clone(),
                init: c.init,
            };
            v_early_exit(e, r, |s, r| v_term(s, r, &c2, idx));
        }
        11 => {
            // RJUMP to the next instruction
            e.mark();
            e.code.extend_from_slice(&[0xe0, 0, 0]);
        }
        _ => {
            let op = *r.pick(EOF_PLAIN_OPS);
            let Some(info) = OPCODE_INFO_JUMPTABLE[op as usize] else { return };
            if info.is_disabled_in_eof() {
                return;
            }
            let (ins, outs) = (info.inputs() as usize, info.outputs() as usize);
            if (0x80..=0x9f).contains(&op) {
                e.need(ins, r);
            } else {
                let ops: Vec<U256> = match op {
                    0x51 => vec![small_mem(r)],
                    0x52 | 0x53 => vec![small_mem(r), r.word()],
                    0x5e | 0x37 | 0x3e | 0xd3 => vec![small_mem(r), small_mem(r), small_mem(r)],
                    0x20 => vec![small_mem(r), small_mem(r)],
                    0xa0 | 0xa1 => {
                        let mut v = vec![small_mem(r), small_mem(r)];
                        if op == 0xa1 {
                            v.push(r.word());
                        }
                        v
                    }
                    _ => eof_operands(op, r),
                };
                if ops.len() != ins {
                    return;
                }
                for w in ops.iter().rev() {
                    e.push(*w, r);
                }
            }
            e.raw(&[op], ins, outs);
        }
    }
}

/// a container the real validator accepts (checked by the caller): stack heights tracked, every section and
/// sub-container reached, jumps on instruction starts, exact `max_stack_size`
fn gen_eof_valid(r: &mut Rng) -> Params {
    let nsec = r.range(1, 4) as usize;
    let mut sigs: Vec<(u8, u8)> = vec![(0, 0x80)];
    for _ in 1..nsec {
        sigs.push((r.below(3) as u8, if r.chance(1, 4) { 0x80 } else { r.below(3) as u8 }));
    }
    let init = r.chance(1, 4);
    let data = match r.below(3) {
        0 => vec![],
        _ => rbytes(r, 32, 80),
    };
    // sub-containers: runtime ones (for RETURNCONTRACT, only in an init container), init ones (for EOFCREATE)
    let runtime_sub = |r: &mut Rng| -> Vec<u8> {
        let body = EofBody {
            types_section: vec![TypesSection { inputs: 0, outputs: 0x80, max_stack_size: 0 }],
            code_section: vec![Bytes::from(vec![if r.chance(1, 2) { 0x00 } else { 0xfe }])],
            container_section: vec![],
            data_section: Bytes::from(rbytes(r, 0, 40)),
            is_data_filled: true,
        };
        body.into_eof().raw.to_vec()
    };
    let mut containers: Vec<Vec<u8>> = vec![];
    let mut init_subs = vec![];
    let mut runtime_subs = vec![];
    if init {
        for _ in 0..r.range(1, 2) {
            runtime_subs.push(containers.len() as u8);
            containers.push(runtime_sub(r));
        }
    }
    if r.chance(1, 2) {
        for _ in 0..r.range(1, 2) {
            init_subs.push(containers.len() as u8);
            let inner = runtime_sub(r);
            let body = EofBody {
                types_section: vec![TypesSection { inputs: 0, outputs: 0x80, max_stack_size: 2 }],
                code_section: vec![Bytes::from(vec![0x5f, 0x5f, 0xee, 0x00])],
                container_section: vec![Bytes::from(inner)],
                data_section: Bytes::from(rbytes(r, 0, 20)),
                is_data_filled: true,
            };
            containers.push(body.into_eof().raw.to_vec());
        }
    }
    let c = VCtx { sigs: sigs.clone(), data_size: data.len(), init_subs, runtime_subs, init };
    let mut sections = vec![];
    let mut types = vec![];
    for idx in 0..nsec {
        let mut e = Em::new(sigs[idx].0 as usize);
        // section 0 reaches every other section and every sub-container
        let mut todo: Vec<Box<dyn FnOnce(&mut Em, &mut Rng)>> = vec![];
        if idx == 0 {
            for j in 1..nsec {
                let c2 = VCtx {
                    sigs: c.sigs.clone(),
                    data_size: c.data_size,
                    init_subs: c.init_subs.clone(),
                    runtime_subs: c.runtime_subs.clone(),
                    init: c.init,
                };
                if sigs[j].1 != 0x80 {
                    todo.push(Box::new(move |e: &mut Em, r: &mut Rng| v_callf(e, r, &c2, j)));
                } else {
                    todo.push(Box::new(move |e: &mut Em, r: &mut Rng| {
                        v_early_exit(e, r, |s, r| {
                            let ji = c2.sigs[j].0 as usize;
                            s.need(ji, r);
                            s.raw(&[0xe5, (j >> 8) as u8, j as u8], ji, 0);
                        })
                    }));
                }
            }
            for k in c.init_subs.clone() {
                todo.push(Box::new(move |e: &mut Em, r: &mut Rng| v_eofcreate(e, r, k)));
            }
            for k in c.runtime_subs.clone() {
                todo.push(Box::new(move |e: &mut Em, r: &mut Rng| {
                    v_early_exit(e, r, |s, r| {
                        s.push(U256::from(r.below(40)), r);
                        s.push(small_mem(r), r);
                        s.raw(&[0xee, k], 2, 0);
                    })
                }));
            }
        }
        let k = r.range(1, 9) as usize;
        for _ in 0..k {
            if !todo.is_empty() && r.chance(1, 2) {
                let f = todo.remove(0);
                f(&mut e, r);
            } else {
                v_item(&mut e, r, &c, idx);
            }
        }
        for f in todo {
            f(&mut e, r);
        }
        v_term(&mut e, r, &c, idx);
        types.push((sigs[idx].0, sigs[idx].1, e.max as u16));
        sections.push(e.code);
    }
    let mut p = gen_params(r, vec![]);
    p.spec = *r.pick(&[19u8, 255]);
    p.gas = match r.below(6) {
        0 => r.below(3000),
        1 => r.range(3000, 40_000),
        _ => r.range(100_000, 3_000_000),
    };
    p.is_static = r.chance(1, 10);
    p.eof = Some(EofParams { sections, types, data_size: data.len() as u16, data, containers, init });
    p
}

// ---------------------------------------------------------------- frames of real transactions
/// minimal JSON (the state-test fixtures: objects, arrays, strings, numbers, null / booleans)
#[derive(Debug)]
enum J {
    Null,
    Bool(bool),
    Num(f64),
    Str(String),
    Arr(Vec<J>),
    Obj(Vec<(String, J)>),
}
impl J {
    fn get(&self, k: &str) -> Option<&J> {
        match self {
            J::Obj(v) => v.iter().find(|(a, _)| a == k).map(|(_, b)| b),
            _ => None,
        }
    }
    fn str(&self) -> Option<&str> {
        match self {
            J::Str(s) => Some(s),
            _ => None,
        }
    }
    fn arr(&self) -> Option<&[J]> {
        match self {
            J::Arr(v) => Some(v),
            _ => None,
        }
    }
    fn obj(&self) -> Option<&[(String, J)]> {
        match self {
            J::Obj(v) => Some(v),
            _ => None,
        }
    }
    fn idx(&self) -> Option<usize> {
        match self {
            J::Num(x) => Some(*x as usize),
            _ => None,
        }
    }
}
struct JP<'a> {
    b: &'a [u8],
    i: usize,
}
impl<'a> JP<'a> {
    fn ws(&mut self) {
        while self.i < self.b.len() && matches!(self.b[self.i], b' ' | b'\n' | b'\r' | b'\t') {
            self.i += 1;
        }
    }
    fn lit(&mut self, s: &str) -> Option<()> {
        if self.b[self.i..].starts_with(s.as_bytes()) {
            self.i += s.len();
            Some(())
        } else {
            None
        }
    }
    fn string(&mut self) -> Option<String> {
        if *self.b.get(self.i)? != b'"' {
            return None;
        }
        self.i += 1;
        let mut out: Vec<u8> = vec![];
        loop {
            let c = *self.b.get(self.i)?;
            self.i += 1;
            match c {
                b'"' => break,
                b'\\' => {
                    let e = *self.b.get(self.i)?;
                    self.i += 1;
                    match e {
                        b'n' => out.push(b'\n'),
                        b't' => out.push(b'\t'),
                        b'r' => out.push(b'\r'),
                        b'b' => out.push(8),
                        b'f' => out.push(12),
                        b'u' => {
                            // not needed for the fields read here
                            self.i += 4;
                            out.push(b'?');
                        }
                        x => out.push(x),
                    }
                }
                x => out.push(x),
            }
        }
        Some(String::from_utf8_lossy(&out).into_owned())
    }
    fn value(&mut self) -> Option<J> {
        self.ws();
        match *self.b.get(self.i)? {
            b'{' => {
                self.i += 1;
                let mut v = vec![];
                self.ws();
                if *self.b.get(self.i)? == b'}' {
                    self.i += 1;
                    return Some(J::Obj(v));
                }
                loop {
                    self.ws();
                    let k = self.string()?;
                    self.ws();
                    if *self.b.get(self.i)? != b':' {
                        return None;
                    }
                    self.i += 1;
                    let x = self.value()?;
                    v.push((k, x));
                    self.ws();
                    match *self.b.get(self.i)? {
                        b',' => self.i += 1,
                        b'}' => {
                            self.i += 1;
                            return Some(J::Obj(v));
                        }
                        _ => return None,
                    }
                }
            }
            b'[' => {
                self.i += 1;
                let mut v = vec![];
                self.ws();
                if *self.b.get(self.i)? == b']' {
                    self.i += 1;
                    return Some(J::Arr(v));
                }
                loop {
                    let x = self.value()?;
                    v.push(x);
                    self.ws();
                    match *self.b.get(self.i)? {
                        b',' => self.i += 1,
                        b']' => {
                            self.i += 1;
                            return Some(J::Arr(v));
                        }
                        _ => return None,
                    }
                }
            }
            b'"' => self.string().map(J::Str),
            b'n' => self.lit("null").map(|_| J::Null),
            b't' => self.lit("true").map(|_| J::Bool(true)),
            b'f' => self.lit("false").map(|_| J::Bool(false)),
            _ => {
                let st = self.i;
                while self.i < self.b.len() && matches!(self.b[self.i], b'0'..=b'9' | b'-' | b'+' | b'.' | b'e' | b'E') {
                    self.i += 1;
                }
                std::str::from_utf8(&self.b[st..self.i]).ok()?.parse::<f64>().ok().map(J::Num)
            }
        }
    }
}
fn parse_json(b: &[u8]) -> Option<J> {
    let mut p = JP { b, i: 0 };
    p.value()
}

fn jhex_word(j: Option<&J>) -> Option<U256> {
    let s = j?.str()?;
    let s = s.strip_prefix("0x").unwrap_or(s);
    if s.is_empty() {
        return Some(U256::ZERO);
    }
    U256::from_str_radix(s, 16).ok()
}
fn jhex_bytes(j: Option<&J>) -> Option<Vec<u8>> {
    let s = j?.str()?;
    let s = s.strip_prefix("0x").unwrap_or(s);
    if s.len() % 2 != 0 {
        return None;
    }
    (0..s.len() / 2).map(|i| u8::from_str_radix(&s[2 * i..2 * i + 2], 16).ok()).collect()
}
fn jaddr(j: Option<&J>) -> Option<Address> {
    let b = jhex_bytes(j)?;
    if b.len() != 20 {
        return None;
    }
    Some(Address::from_slice(&b))
}

fn spec_by_name(n: &str) -> Option<SpecId> {
    Some(match n {
        "Frontier" => SpecId::FRONTIER,
        "Homestead" => SpecId::HOMESTEAD,
        "EIP150" | "Tangerine" => SpecId::TANGERINE,
        "EIP158" | "Spurious" => SpecId::SPURIOUS_DRAGON,
        "Byzantium" => SpecId::BYZANTIUM,
        "ConstantinopleFix" | "Petersburg" => SpecId::PETERSBURG,
        "Istanbul" => SpecId::ISTANBUL,
        "Berlin" => SpecId::BERLIN,
        "London" => SpecId::LONDON,
        "Paris" | "Merge" => SpecId::MERGE,
        "Shanghai" => SpecId::SHANGHAI,
        "Cancun" => SpecId::CANCUN,
        "Prague" => SpecId::PRAGUE,
        "Osaka" => SpecId::OSAKA,
        _ => return None,
    })
}

/// one frame of a real transaction: how the interpreter was set up, what the host answered to every instruction,
/// what came back from every child frame, and how the frame ended
pub struct RecFrame {
    pub params: Params,
    pub steps: Vec<Resp>,
    pub children: Vec<Child>,
    /// (result, gas remaining) of a call frame as handed to the caller
    pub end: Option<(InstructionResult, u64)>,
    pub is_create: bool,
}

type RealDb = CacheDB<EmptyDB>;

/// the recording inspector
#[derive(Default)]
pub struct Rec {
    spec: u8,
    open: Vec<RecFrame>,
    /// one mark per call / create the inspector was told about: did it become a frame?
    marks: Vec<bool>,
    pub done: Vec<RecFrame>,
}
impl Rec {
    fn host_answer(interp: &Interpreter, ctx: &mut EvmContext<RealDb>) -> Resp {
        let op = interp.current_opcode();
        let pk = |i: usize| interp.stack.peek(i).ok();
        let me = interp.contract.target_address;
        let acct = |ctx: &mut EvmContext<RealDb>, a: U256| -> Resp {
            let mut c = ctx.inner.clone();
            match c.load_account_delegated(addr_of(a)) {
                Ok(l) => Resp {
                    ok: true,
                    cold: l.load.state_load.is_cold,
                    flags: if l.is_empty { 8 } else { 0 },
                    deleg: l.load.is_delegate_account_cold,
                    ..Default::default()
                },
                Err(_) => Resp::default(),
            }
        };
        match op {
            0x31 | 0x47 => {
                let a = if op == 0x47 { Some(me) } else { pk(0).map(addr_of) };
                let Some(a) = a else { return Resp::default() };
                let mut c = ctx.inner.clone();
                match c.balance(a) {
                    Ok(l) => Resp { ok: true, word: l.data, cold: l.is_cold, ..Default::default() },
                    Err(_) => Resp::default(),
                }
            }
            0x3b | 0x3c => {
                let Some(a) = pk(0) else { return Resp::default() };
                let mut c = ctx.inner.clone();
                match c.code(addr_of(a)) {
                    Ok(l) => Resp { ok: true, bytes: l.data.to_vec(), cold: l.is_cold, ..Default::default() },
                    Err(_) => Resp::default(),
                }
            }
            0x3f => {
                let Some(a) = pk(0) else { return Resp::default() };
                let mut c = ctx.inner.clone();
                match c.code_hash(addr_of(a)) {
                    Ok(l) => Resp { ok: true, word: U256::from_be_bytes(l.data.0), cold: l.is_cold, ..Default::default() },
                    Err(_) => Resp::default(),
                }
            }
            0x40 => {
                // `Context::block_hash`
                let Some(n) = pk(0) else { return Resp::default() };
                let sat = |w: U256| if w > U256::from(u64::MAX) { u64::MAX } else { w.as_limbs()[0] };
                let (n, cur) = (sat(n), sat(ctx.inner.env.block.number));
                let word = match cur.checked_sub(n) {
                    None | Some(0) => U256::ZERO,
                    Some(d) if d <= revm::primitives::BLOCK_HASH_HISTORY => {
                        let mut c = ctx.inner.clone();
                        match c.block_hash(n) {
                            Ok(h) => U256::from_be_bytes(h.0),
                            Err(_) => return Resp::default(),
                        }
                    }
                    _ => U256::ZERO,
                };
                Resp { ok: true, word, ..Default::default() }
            }
            0x54 => {
                let Some(k) = pk(0) else { return Resp::default() };
                let mut c = ctx.inner.clone();
                match c.sload(me, k) {
                    Ok(l) => Resp { ok: true, word: l.data, cold: l.is_cold, ..Default::default() },
                    Err(_) => Resp::default(),
                }
            }
            0x55 => {
                let (Some(k), Some(v)) = (pk(0), pk(1)) else { return Resp::default() };
                let mut c = ctx.inner.clone();
                match c.sstore(me, k, v) {
                    Ok(l) => Resp {
                        ok: true,
                        orig: l.data.original_value,
                        pres: l.data.present_value,
                        new: l.data.new_value,
                        cold: l.is_cold,
                        ..Default::default()
                    },
                    Err(_) => Resp::default(),
                }
            }
            0x5c => {
                let Some(k) = pk(0) else { return Resp::default() };
                let mut c = ctx.inner.clone();
                Resp { ok: true, word: c.tload(me, k), ..Default::default() }
            }
            0xff => {
                let Some(t) = pk(0) else { return Resp::default() };
                let mut c = ctx.inner.clone();
                match c.selfdestruct(me, addr_of(t)) {
                    Ok(l) => Resp {
                        ok: true,
                        cold: l.is_cold,
                        flags: (l.data.had_value as u8) | (l.data.target_exists as u8) << 1 | (l.data.previously_destroyed as u8) << 2,
                        ..Default::default()
                    },
                    Err(_) => Resp::default(),
                }
            }
            0xf1 | 0xf2 | 0xf4 | 0xfa => match pk(1) {
                Some(a) => acct(ctx, a),
                None => Resp::default(),
            },
            0xf8 | 0xf9 | 0xfb => match pk(0) {
                Some(a) => acct(ctx, a),
                None => Resp::default(),
            },
            _ => Resp::default(),
        }
    }
    fn child_of(r: &InterpreterResult, address: Option<Address>) -> Child {
        Child {
            result: r.result,
            gas: r.gas.remaining(),
            refunded: r.gas.refunded(),
            output: r.output.to_vec(),
            address: address.map(|a| U256::from_be_slice(a.as_slice())),
        }
    }
    /// a call / create came back: close its frame (if it became one), hand the result to the caller's record
    fn came_back(&mut self, r: &InterpreterResult, address: Option<Address>) {
        if self.marks.pop() == Some(true) {
            if let Some(mut f) = self.open.pop() {
                f.end = Some((r.result, r.gas.remaining()));
                self.done.push(f);
            }
        }
        if let Some(parent) = self.open.last_mut() {
            parent.children.push(Rec::child_of(r, address));
        }
    }
}
impl Inspector<RealDb> for Rec {
    fn initialize_interp(&mut self, interp: &mut Interpreter, ctx: &mut EvmContext<RealDb>) {
        if let Some(m) = self.marks.last_mut() {
            *m = true;
        }
        let w = |a: Address| U256::from_be_slice(a.as_slice());
        let env = &ctx.inner.env;
        let (eof, code) = match &interp.contract.bytecode {
            Bytecode::Eof(e) => (
                Some(EofParams {
                    sections: e.body.code_section.iter().map(|c| c.to_vec()).collect(),
                    types: e.body.types_section.iter().map(|t| (t.inputs, t.outputs, t.max_stack_size)).collect(),
                    data: e.body.data_section.to_vec(),
                    data_size: e.header.data_size,
                    containers: e.body.container_section.iter().map(|c| c.to_vec()).collect(),
                    init: interp.is_eof_init,
                }),
                vec![],
            ),
            b => (None, b.original_byte_slice().to_vec()),
        };
        let params = Params {
            eof,
            spec: self.spec,
            gas: interp.gas.limit(),
            is_static: interp.is_static,
            code,
            input: interp.contract.input.to_vec(),
            target: w(interp.contract.target_address),
            caller: w(interp.contract.caller),
            value: interp.contract.call_value,
            env: EnvTok {
                chain: env.cfg.chain_id,
                coinbase: w(env.block.coinbase),
                timestamp: env.block.timestamp,
                number: env.block.number,
                difficulty: env.block.difficulty,
                prevrandao: env.block.prevrandao.map(|h| U256::from_be_bytes(h.0)),
                gas_limit: env.block.gas_limit,
                basefee: env.block.basefee,
                gas_price: env.tx.gas_price,
                prio: env.tx.gas_priority_fee,
                origin: w(env.tx.caller),
                blob_hashes: env.tx.blob_hashes.iter().map(|h| U256::from_be_bytes(h.0)).collect(),
                blob_gasprice: env.block.blob_excess_gas_and_price.as_ref().map(|b| b.blob_gasprice),
                limit: env.cfg.limit_contract_code_size.map(|x| x as u64),
            },
        };
        self.open.push(RecFrame { params, steps: vec![], children: vec![], end: None, is_create: false });
    }
    fn step(&mut self, interp: &mut Interpreter, ctx: &mut EvmContext<RealDb>) {
        let r = Rec::host_answer(interp, ctx);
        if let Some(f) = self.open.last_mut() {
            f.steps.push(r);
        }
    }
    fn call(&mut self, _ctx: &mut EvmContext<RealDb>, _inputs: &mut CallInputs) -> Option<CallOutcome> {
        self.marks.push(false);
        None
    }
    fn call_end(&mut self, _ctx: &mut EvmContext<RealDb>, _inputs: &CallInputs, outcome: CallOutcome) -> CallOutcome {
        self.came_back(&outcome.result, None);
        outcome
    }
    fn create(&mut self, _ctx: &mut EvmContext<RealDb>, _inputs: &mut CreateInputs) -> Option<CreateOutcome> {
        self.marks.push(false);
        None
    }
    fn create_end(&mut self, _ctx: &mut EvmContext<RealDb>, _inputs: &CreateInputs, outcome: CreateOutcome) -> CreateOutcome {
        if self.marks.last() == Some(&true) {
            if let Some(f) = self.open.last_mut() {
                f.is_create = true;
            }
        }
        self.came_back(&outcome.result, outcome.address);
        outcome
    }
    fn eofcreate(&mut self, _ctx: &mut EvmContext<RealDb>, _inputs: &mut EOFCreateInputs) -> Option<CreateOutcome> {
        self.marks.push(false);
        None
    }
    fn eofcreate_end(
        &mut self,
        _ctx: &mut EvmContext<RealDb>,
        _inputs: &EOFCreateInputs,
        outcome: CreateOutcome,
    ) -> CreateOutcome {
        if self.marks.last() == Some(&true) {
            if let Some(f) = self.open.last_mut() {
                f.is_create = true;
            }
        }
        self.came_back(&outcome.result, outcome.address);
        outcome
    }
}

/// run one transaction of a state-test fixture on the full EVM with the recording inspector
fn record_tx(unit: &J, spec: SpecId, post: &J) -> Option<Vec<RecFrame>> {
    let mut db = RealDb::new(EmptyDB::default());
    for (a, acc) in unit.get("pre")?.obj()? {
        let addr = jaddr(Some(&J::Str(a.clone())))?;
        let code = jhex_bytes(acc.get("code")).unwrap_or_default();
        let bytecode = if code.is_empty() {
            Bytecode::default()
        } else {
            match Bytecode::new_raw_checked(Bytes::from(code.clone())) {
                Ok(b) => b,
                Err(_) => Bytecode::new_legacy(Bytes::from(code.clone())),
            }
        };
        let info = AccountInfo {
            balance: jhex_word(acc.get("balance"))?,
            nonce: jhex_word(acc.get("nonce"))?.as_limbs()[0],
            code_hash: keccak256(&code),
            code: Some(bytecode),
        };
        db.insert_account_info(addr, info);
        if let Some(st) = acc.get("storage").and_then(|s| s.obj()) {
            for (k, v) in st {
                let k = jhex_word(Some(&J::Str(k.clone())))?;
                let _ = db.insert_account_storage(addr, k, jhex_word(Some(v))?);
            }
        }
    }
    let e = unit.get("env")?;
    let tx = unit.get("transaction")?;
    if tx.get("authorizationList").and_then(|a| a.arr()).map(|a| !a.is_empty()).unwrap_or(false) {
        return None;
    }
    let idx = post.get("indexes")?;
    let (di, gi, vi) = (idx.get("data")?.idx()?, idx.get("gas")?.idx()?, idx.get("value")?.idx()?);
    let mut env = Env::default();
    env.cfg.chain_id = 1;
    env.block.number = jhex_word(e.get("currentNumber"))?;
    env.block.coinbase = jaddr(e.get("currentCoinbase"))?;
    env.block.timestamp = jhex_word(e.get("currentTimestamp"))?;
    env.block.gas_limit = jhex_word(e.get("currentGasLimit"))?;
    env.block.basefee = jhex_word(e.get("currentBaseFee")).unwrap_or_default();
    env.block.difficulty = jhex_word(e.get("currentDifficulty")).unwrap_or_default();
    env.block.prevrandao = jhex_word(e.get("currentRandom")).map(B256::from);
    if spec.is_enabled_in(SpecId::MERGE) && env.block.prevrandao.is_none() {
        env.block.prevrandao = Some(B256::default());
    }
    if let Some(x) = jhex_word(e.get("currentExcessBlobGas")) {
        env.block.set_blob_excess_gas_and_price(x.as_limbs()[0], spec.is_enabled_in(SpecId::PRAGUE));
    }
    env.tx.caller = jaddr(tx.get("sender"))?;
    env.tx.gas_price = jhex_word(tx.get("gasPrice")).or(jhex_word(tx.get("maxFeePerGas"))).unwrap_or_default();
    env.tx.gas_priority_fee = jhex_word(tx.get("maxPriorityFeePerGas"));
    env.tx.blob_hashes = match tx.get("blobVersionedHashes").and_then(|a| a.arr()) {
        Some(a) => a.iter().map(|h| jhex_word(Some(h)).map(B256::from)).collect::<Option<Vec<_>>>()?,
        None => vec![],
    };
    env.tx.max_fee_per_blob_gas = jhex_word(tx.get("maxFeePerBlobGas"));
    let gl = jhex_word(tx.get("gasLimit")?.arr()?.get(gi))?;
    env.tx.gas_limit = if gl > U256::from(u64::MAX) { u64::MAX } else { gl.as_limbs()[0] };
    env.tx.data = Bytes::from(jhex_bytes(tx.get("data")?.arr()?.get(di))?);
    env.tx.value = jhex_word(tx.get("value")?.arr()?.get(vi))?;
    env.tx.nonce = None;
    if let Some(al) = tx.get("accessLists").and_then(|a| a.arr()).and_then(|a| a.get(di)).and_then(|a| a.arr()) {
        for it in al {
            let address = jaddr(it.get("address"))?;
            let storage_keys = it
                .get("storageKeys")?
                .arr()?
                .iter()
                .map(|k| jhex_word(Some(k)).map(B256::from))
                .collect::<Option<Vec<_>>>()?;
            env.tx.access_list.push(AccessListItem { address, storage_keys });
        }
    }
    env.tx.transact_to = match tx.get("to").and_then(|t| t.str()) {
        Some(s) if !s.is_empty() => TxKind::Call(jaddr(tx.get("to"))?),
        _ => TxKind::Create,
    };
    let rec = Rec { spec: spec as u8, ..Default::default() };
    let r = std::panic::catch_unwind(AssertUnwindSafe(move || {
        let mut evm = Evm::builder()
            .with_db(db)
            .with_external_context(rec)
            .with_spec_id(spec)
            .modify_env(|x| **x = env)
            .append_handler_register(inspector_handle_register)
            .build();
        let ok = evm.transact().is_ok();
        let rec = std::mem::take(&mut evm.context.external);
        (ok, rec)
    }));
    match r {
        Ok((true, rec)) => Some(rec.done),
        _ => None,
    }
}

fn list_json(dir: &std::path::Path, acc: &mut Vec<std::path::PathBuf>) {
    let Ok(rd) = std::fs::read_dir(dir) else { return };
    let mut es: Vec<_> = rd.filter_map(|e| e.ok()).map(|e| e.path()).collect();
    es.sort();
    for p in es {
        if p.is_dir() {
            list_json(&p, acc);
        } else if p.extension().map(|x| x == "json").unwrap_or(false)
            && std::fs::metadata(&p).map(|m| m.len() > 0 && m.len() < 6_000_000).unwrap_or(false)
        {
            acc.push(p);
        }
    }
}

/// replay one recorded frame at the interpreter level: the host answers and child results are the recorded ones
fn gen_recorded(f: &RecFrame, max_steps: usize, out: &mut Out, lines: &mut Vec<String>) {
    let case_id = lines.len();
    let mut ex = Exec::new();
    let b = f.params.begin_line();
    let rep = ex.line(&b);
    lines.push(b);
    if !rep.starts_with("ok ") {
        out.count("real:begin-refused");
        return;
    }
    out.count("real:frame");
    let (mut steps, mut kids) = (0usize, 0usize);
    let mut complete = false;
    loop {
        let Some(sess) = ex.sess.as_ref() else { break };
        if sess.dead {
            break;
        }
        if sess.pending_action() {
            let Some(c) = f.children.get(kids) else {
                out.count("real:child-missing");
                break;
            };
            kids += 1;
            let l = format!("i ret {}.r{} {}", case_id, lines.len(), c.token());
            ex.line(&l);
            lines.push(l);
            out.count("line:ret");
            continue;
        }
        if !sess.running() {
            complete = true;
            break;
        }
        if steps >= max_steps {
            break;
        }
        if danger(&sess.interp) {
            out.count("case:stopped-before-big-memory");
            break;
        }
        if eof_danger(&sess.interp) {
            out.count("real:unchecked-eof-instruction");
            break;
        }
        let op = sess.peek_opcode();
        let resp = if op == Some(0x20) {
            keccak_resp(sess)
        } else if op == Some(0xec) && sess.interp.is_eof {
            eofcreate_resp(sess)
        } else {
            match f.steps.get(steps) {
                Some(r) => r.clone(),
                None => {
                    out.count("real:step-missing");
                    break;
                }
            }
        };
        let l = format!("i s {}.{} {}", case_id, steps, resp.token());
        let rep = ex.line(&l);
        lines.push(l);
        steps += 1;
        if let Some(op) = op {
            out.count(&format!("op:{:02x}", op));
        }
        if rep == "panic" {
            out.count("reply:panic");
        } else if rep == "oob-code" {
            out.count("reply:oob-code");
        }
    }
    // the replay has to take the road the real frame took
    if complete {
        if let (Some(sess), Some((res, gas))) = (ex.sess.as_ref(), f.end) {
            if !f.is_create {
                if sess.interp.instruction_result == res && sess.interp.gas.remaining() == gas && steps == f.steps.len() {
                    out.count("real:replay-agrees");
                } else {
                    out.count("real:replay-diverged");
                }
            }
        }
    }
}

/// frames of real transactions (the state-test fixtures shipped with the code)
fn gen_real(r: &mut Rng, txs: usize, out: &mut Out, lines: &mut Vec<String>) {
    let root = std::path::Path::new("/repo/tests/pectra_devnet5/state_tests");
    let mut files = vec![];
    list_json(root, &mut files);
    if files.is_empty() {
        out.count("real:no-vectors");
        return;
    }
    let mut done = 0;
    let mut tries = 0;
    while done < txs && tries < 4 * txs {
        tries += 1;
        let p = r.pick(&files).clone();
        let Ok(bytes) = std::fs::read(&p) else { continue };
        let Some(j) = parse_json(&bytes) else {
            out.count("real:unparsed-file");
            continue;
        };
        let Some(units) = j.obj() else { continue };
        if units.is_empty() {
            continue;
        }
        for _ in 0..3 {
            let (_, unit) = &units[r.below(units.len() as u64) as usize];
            let Some(posts) = unit.get("post").and_then(|p| p.obj()) else { continue };
            if posts.is_empty() {
                continue;
            }
            let (sname, ps) = &posts[r.below(posts.len() as u64) as usize];
            let (Some(spec), Some(ps)) = (spec_by_name(sname), ps.arr()) else { continue };
            if ps.is_empty() {
                continue;
            }
            let post = &ps[r.below(ps.len() as u64) as usize];
            let Some(frames) = record_tx(unit, spec, post) else {
                out.count("real:tx-not-executed");
                continue;
            };
            out.count("real:tx");
            done += 1;
            // the outermost frame is recorded last; at most 6 frames of one transaction
            let n = frames.len();
            let mut pick: Vec<usize> = (0..n).collect();
            while pick.len() > 6 {
                let i = r.below(pick.len() as u64 - 1) as usize;
                pick.remove(i);
            }
            for i in pick {
                gen_recorded(&frames[i], 300, out, lines);
            }
        }
    }
}

fn gen(seed: u64, n: usize, out: &mut Out) -> Vec<String> {
    let mut r = Rng::new(seed ^ 0xC25);
    let mut lines = vec![];
    // fixed boundary streams (sampled in the quick tier)
    let thorough = n >= 4000;
    gen_opcode_spec_matrix(&mut r, out, &mut lines, if thorough { 1 } else { 12 });
    gen_truncated_push(&mut r, out, &mut lines, !thorough);
    gen_real(&mut r, if thorough { 500 } else { 30 }, out, &mut lines);
    // DIFFICULTY under MERGE with `prevrandao = None`: the `unwrap()` of host_env.rs (excluded by `Env` validation)
    for _ in 0..n {
        if r.chance(1, 5) {
            let p = match r.below(5) {
                0 | 1 => gen_eof_valid(&mut r),
                2 | 3 => gen_eof_directed(&mut r),
                _ => gen_eof_params(&mut r),
            };
            out.count("case:eof");
            gen_case(&mut r, &p, 200, out, &mut lines);
            continue;
        }
        let which = r.below(100);
        let code = match which {
            0..=39 => {
                let k = r.range(1, 14) as usize;
                gen_structured(&mut r, COMMON_OPS, k)
            }
            40..=54 => {
                let k = r.range(2, 16) as usize;
                gen_structured(&mut r, MEM_OPS, k)
            }
            55..=69 => {
                let k = r.range(1, 8) as usize;
                gen_structured(&mut r, HOST_OPS, k)
            }
            70..=84 => gen_random_code(&mut r),
            _ => gen_loop(&mut r),
        };
        let mut p = gen_params(&mut r, code);
        let max_steps = if which >= 85 { 1300 } else { 120 };
        if which >= 85 {
            // loops: bounded gas keeps the case short
            p.gas = match r.below(4) {
                0 => r.below(2000),
                1 => r.range(2000, 40_000),
                _ => p.gas,
            };
        }
        if r.chance(1, 4) {
            if p.gas > 3_000_000 {
                p.gas = r.range(1000, 300_000);
            }
            gen_run_line(&mut r, &p, out, &mut lines);
        } else {
            gen_case(&mut r, &p, max_steps, out, &mut lines);
        }
    }
    lines
}

pub fn run(seed: u64, n: usize, replay: Option<Vec<String>>, out: &mut Out) {
    let lines = match replay {
        Some(l) => l,
        None => gen(seed, n, out),
    };
    let mut ex = Exec::new();
    for l in lines {
        let rep = ex.line(&l);
        // a line that would build a huge memory is not part of the stream (generation never emits one)
        if rep == "skip-bigmem" {
            out.count("reply:skip-bigmem");
        }
        out.push(l, rep);
    }
}
