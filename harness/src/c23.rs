//! C23: every precompile of `revm-precompile` called through `Precompiles::new(spec).get(addr)`.
//!
//! request: `precompile <name> <fork> <gas_limit hex> <input hex> [oracle tokens]`
//! reply:   `ok <gas_used dec> <output hex>` | `err <PrecompileError variant>` | `fatal` | `panic`
//!          | `absent` (address not in the fork's set) | `unsafe-alloc` / `unsafe-rounds` (guard, see below)
//! request: `precompile fn lincost <len hex> <base hex> <word hex>`            reply `<u64 dec>`
//!          `precompile fn itercount <exp_len hex> <exp_highp hex>`            reply `<u64 dec>`
//!          `precompile fn modexp_gas <byzantium|berlin> <bl> <el> <ml> <hp>`  reply `<u64 dec>`
//!          `precompile fn rpad|lpad <n dec> <data hex>`                       reply `<bytes hex>`
//!
//! Oracle tokens carry the answers of the cryptographic cores that are *parameters* of the Lean model
//! (the executor ignores them and always runs the real code; the generator obtains them from the real
//! code): `o=<hex|->` ecrecover's output with ample gas; `g2=<bits> pair=<0|1>` validity of each G2
//! element (probed by a one-element pairing call) and the pairing verdict; `o=<0|1>` KZG proof verdict;
//! `o=<hex|fail>` BLS12-381 result with ample gas.
//!
//! Guards (identical in the Lean driver): a modexp call that would reach the allocation of
//! 2^20 < base_len+exp_len+mod_len <= isize::MAX bytes is not executed (`unsafe-alloc`: the allocator
//! would abort the process or the call would run for hours); a blake2f call with more than 2^20 paid
//! rounds is not executed (`unsafe-rounds`).
use crate::*;
use revm::precompile::{
    calc_linear_cost_u32, modexp, u64_to_address, utilities, PrecompileError, PrecompileErrors,
    PrecompileSpecId, Precompiles,
};
use revm::primitives::{Bytes, Env, U256};

pub const FORKS: [(&str, PrecompileSpecId); 6] = [
    ("homestead", PrecompileSpecId::HOMESTEAD),
    ("byzantium", PrecompileSpecId::BYZANTIUM),
    ("istanbul", PrecompileSpecId::ISTANBUL),
    ("berlin", PrecompileSpecId::BERLIN),
    ("cancun", PrecompileSpecId::CANCUN),
    ("prague", PrecompileSpecId::PRAGUE),
];
pub const NAMES: [(&str, u64); 17] = [
    ("ecrecover", 1),
    ("sha256", 2),
    ("ripemd160", 3),
    ("identity", 4),
    ("modexp", 5),
    ("bn_add", 6),
    ("bn_mul", 7),
    ("bn_pair", 8),
    ("blake2f", 9),
    ("kzg", 10),
    ("bls_g1add", 0x0b),
    ("bls_g1msm", 0x0c),
    ("bls_g2add", 0x0d),
    ("bls_g2msm", 0x0e),
    ("bls_pairing", 0x0f),
    ("bls_mapfp", 0x10),
    ("bls_mapfp2", 0x11),
];

fn fork_by_name(s: &str) -> Option<PrecompileSpecId> {
    FORKS.iter().find(|(n, _)| *n == s).map(|(_, f)| *f)
}
fn addr_by_name(s: &str) -> Option<u64> {
    NAMES.iter().find(|(n, _)| *n == s).map(|(_, a)| *a)
}

fn err_name(e: &PrecompileError) -> &'static str {
    match e {
        PrecompileError::OutOfGas => "OutOfGas",
        PrecompileError::Blake2WrongLength => "Blake2WrongLength",
        PrecompileError::Blake2WrongFinalIndicatorFlag => "Blake2WrongFinalIndicatorFlag",
        PrecompileError::ModexpExpOverflow => "ModexpExpOverflow",
        PrecompileError::ModexpBaseOverflow => "ModexpBaseOverflow",
        PrecompileError::ModexpModOverflow => "ModexpModOverflow",
        PrecompileError::Bn128FieldPointNotAMember => "Bn128FieldPointNotAMember",
        PrecompileError::Bn128AffineGFailedToCreate => "Bn128AffineGFailedToCreate",
        PrecompileError::Bn128PairLength => "Bn128PairLength",
        PrecompileError::BlobInvalidInputLength => "BlobInvalidInputLength",
        PrecompileError::BlobMismatchedVersion => "BlobMismatchedVersion",
        PrecompileError::BlobVerifyKzgProofFailed => "BlobVerifyKzgProofFailed",
        PrecompileError::Other(_) => "Other",
    }
}

/// raw call of the real precompile: None = address absent in that fork
pub fn call_raw(fork: PrecompileSpecId, addr: u64, input: &[u8], gas: u64) -> Option<Result<(u64, Vec<u8>), String>> {
    let set = Precompiles::new(fork);
    let pc = set.get(&u64_to_address(addr))?;
    let env = Env::default();
    let mut pc = pc.clone();
    Some(match pc.call(&Bytes::copy_from_slice(input), gas, &env) {
        Ok(o) => Ok((o.gas_used, o.bytes.to_vec())),
        Err(PrecompileErrors::Error(e)) => Err(format!("err {}", err_name(&e))),
        Err(PrecompileErrors::Fatal { .. }) => Err("fatal".into()),
    })
}

fn render(r: Option<Result<(u64, Vec<u8>), String>>) -> String {
    match r {
        None => "absent".into(),
        Some(Ok((g, o))) => format!("ok {} {}", g, hxb(&o)),
        Some(Err(e)) => e,
    }
}

fn be_u256(data: &[u8], off: usize) -> U256 {
    let mut b = [0u8; 32];
    for i in 0..32 {
        if let Some(x) = data.get(off + i) {
            b[i] = *x;
        }
    }
    U256::from_be_bytes(b)
}

/// harness guard for modexp (see module doc): Some(total) when the call would allocate `total` bytes
fn modexp_alloc(berlin: bool, input: &[u8], gas: u64) -> Option<u64> {
    let (bl, el, ml) = (be_u256(input, 0), be_u256(input, 32), be_u256(input, 64));
    let lim = U256::from(u64::MAX);
    if gas < if berlin { 200 } else { 0 } || bl > lim || ml > lim || el > lim {
        return None;
    }
    let (bl, el, ml) = (bl.to::<u64>(), el.to::<u64>(), ml.to::<u64>());
    if bl == 0 && ml == 0 {
        return None;
    }
    let data = input.get(96..).unwrap_or_default();
    let d2 = data.get(bl as usize..).unwrap_or_default();
    let mut hp = [0u8; 32];
    let n = std::cmp::min(el, 32) as usize;
    for i in 0..n {
        hp[32 - n + i] = *d2.get(i).unwrap_or(&0);
    }
    let hp = U256::from_be_bytes(hp);
    let cost = if berlin { modexp::berlin_gas_calc(bl, el, ml, &hp) } else { modexp::byzantium_gas_calc(bl, el, ml, &hp) };
    if cost > gas {
        return None;
    }
    Some(bl.saturating_add(el).saturating_add(ml))
}

fn parse_u64(s: &str) -> Option<u64> {
    u64::from_str_radix(s, 16).ok()
}
fn parse_bytes(s: &str) -> Option<Vec<u8>> {
    if s == "-" {
        return Some(vec![]);
    }
    if s.len() % 2 != 0 {
        return None;
    }
    (0..s.len() / 2).map(|i| u8::from_str_radix(&s[2 * i..2 * i + 2], 16).ok()).collect()
}

pub fn exec_line(line: &str) -> String {
    let t: Vec<&str> = line.split(' ').collect();
    if t.len() < 2 || t[0] != "precompile" {
        return "bad-op".into();
    }
    if t[1] == "fn" {
        return exec_fn(&t[2..]);
    }
    if t.len() < 5 {
        return "bad-op".into();
    }
    let (Some(addr), Some(fork), Some(gas), Some(input)) =
        (addr_by_name(t[1]), fork_by_name(t[2]), parse_u64(t[3]), parse_bytes(t[4]))
    else {
        return "bad-op".into();
    };
    let name = t[1].to_string();
    guarded(move || {
        let present = Precompiles::new(fork).contains(&u64_to_address(addr));
        if present && name == "modexp" {
            if let Some(total) = modexp_alloc(fork >= PrecompileSpecId::BERLIN, &input, gas) {
                if total > (1 << 20) && total <= isize::MAX as u64 {
                    return "unsafe-alloc".into();
                }
            }
        }
        if present && name == "blake2f" && input.len() == 213 {
            let rounds = u32::from_be_bytes(input[..4].try_into().unwrap()) as u64;
            if rounds > (1 << 20) && gas >= rounds {
                return "unsafe-rounds".into();
            }
        }
        render(call_raw(fork, addr, &input, gas))
    })
}

fn exec_fn(t: &[&str]) -> String {
    let t: Vec<String> = t.iter().map(|s| s.to_string()).collect();
    guarded(move || match t.first().map(|s| s.as_str()) {
        Some("lincost") if t.len() == 4 => {
            let (Some(l), Some(b), Some(w)) = (parse_u64(&t[1]), parse_u64(&t[2]), parse_u64(&t[3])) else { return "bad-op".into() };
            format!("{}", calc_linear_cost_u32(l as usize, b, w))
        }
        Some("itercount") if t.len() == 3 => {
            let (Some(l), Ok(h)) = (parse_u64(&t[1]), U256::from_str_radix(&t[2], 16)) else { return "bad-op".into() };
            format!("{}", modexp::calculate_iteration_count(l, &h))
        }
        Some("modexp_gas") if t.len() == 6 => {
            let (Some(bl), Some(el), Some(ml), Ok(h)) =
                (parse_u64(&t[2]), parse_u64(&t[3]), parse_u64(&t[4]), U256::from_str_radix(&t[5], 16))
            else {
                return "bad-op".into();
            };
            match t[1].as_str() {
                "byzantium" => format!("{}", modexp::byzantium_gas_calc(bl, el, ml, &h)),
                "berlin" => format!("{}", modexp::berlin_gas_calc(bl, el, ml, &h)),
                _ => "bad-op".into(),
            }
        }
        Some("rpad") | Some("lpad") if t.len() == 3 => {
            let (Ok(n), Some(d)) = (t[1].parse::<usize>(), parse_bytes(&t[2])) else { return "bad-op".into() };
            if n > 1 << 16 {
                return "bad-op".into();
            }
            if t[0] == "rpad" { hxb(&utilities::right_pad_vec(&d, n)) } else { hxb(&utilities::left_pad_vec(&d, n)) }
        }
        _ => "bad-op".into(),
    })
}

// ---------------------------------------------------------------------------------------------
// generators
// ---------------------------------------------------------------------------------------------

struct G {
    rng: Rng,
    lines: Vec<String>,
}

const MAXG: u64 = u64::MAX;

fn hex32(w: U256) -> Vec<u8> {
    w.to_be_bytes::<32>().to_vec()
}

impl G {
    fn fork(&mut self) -> &'static str {
        FORKS[self.rng.below(6) as usize].0
    }
    fn fork_from(&mut self, first: usize) -> &'static str {
        FORKS[self.rng.range(first as u64, 5) as usize].0
    }
    fn emit(&mut self, name: &str, fork: &str, gas: u64, input: &[u8], oracle: &str) {
        let mut s = format!("precompile {} {} {:x} {}", name, fork, gas, hxb(input));
        if !oracle.is_empty() {
            s.push(' ');
            s.push_str(oracle);
        }
        self.lines.push(s);
    }
    /// gas limits around the observed cost (or around `hint` when the call fails)
    fn gases(&mut self, cost: Option<u64>, hints: &[u64]) -> Vec<u64> {
        let mut v = vec![];
        if let Some(c) = cost {
            if c > 0 {
                v.push(c - 1);
            }
            v.push(c);
        }
        for h in hints {
            if self.rng.chance(1, 2) {
                v.push(h.saturating_sub(1));
                v.push(*h);
            }
        }
        match self.rng.below(6) {
            0 => v.push(0),
            1 => v.push(MAXG),
            2 => v.push(cost.unwrap_or(1000).saturating_add(self.rng.below(100000))),
            3 => v.push(self.rng.below(cost.unwrap_or(1000).saturating_add(1))),
            _ => {}
        }
        if v.is_empty() {
            v.push(MAXG);
        }
        v
    }
    fn len_pick(&mut self) -> usize {
        const L: [usize; 22] = [0, 1, 2, 31, 32, 33, 55, 56, 57, 63, 64, 65, 95, 96, 97, 119, 120, 127, 128, 129, 255, 256];
        match self.rng.below(4) {
            0 | 1 => *self.rng.pick(&L),
            2 => self.rng.below(300) as usize,
            _ => self.rng.below(2100) as usize,
        }
    }

    // ---- linear-cost family ----
    fn hashes(&mut self) {
        let name = *self.rng.pick(&["sha256", "ripemd160", "identity"]);
        let n = self.len_pick();
        let data = match self.rng.below(4) {
            0 => vec![0u8; n],
            1 => vec![0xffu8; n],
            _ => self.rng.bytes(n),
        };
        let fork = self.fork();
        let cost = call_raw(fork_by_name(fork).unwrap(), addr_by_name(name).unwrap(), &data, MAXG).and_then(|r| r.ok()).map(|x| x.0);
        for g in self.gases(cost, &[]) {
            self.emit(name, fork, g, &data, "");
        }
    }

    // ---- ecrecover ----
    fn ecrecover(&mut self) {
        let valid = parse_bytes(
            "456e9aea5e197a1f1af7a3e85a3212fa4049a3ba34c2289b4c860fc0b0c64ef3\
             000000000000000000000000000000000000000000000000000000000000001c\
             9242685bf161793cc25603c231bc2f568eb630ea16aa137d2664ac8038825608\
             4f8ae3bd7535248d0bd448298cc2e2071e56992d0774dc340c368ae950852ada",
        )
        .unwrap();
        let n_order = U256::from_str_radix("fffffffffffffffffffffffffffffffebaaedce6af48a03bbfd25e8cd0364141", 16).unwrap();
        let mut inp = valid.clone();
        match self.rng.below(12) {
            0 => {}
            1 => inp[63] = *self.rng.pick(&[0u8, 1, 26, 27, 28, 29, 255]),
            2 => {
                let i = self.rng.range(32, 62) as usize;
                inp[i] = self.rng.range(1, 255) as u8;
            }
            3 => {
                // random message, r, s, v in {27,28}
                inp = self.rng.bytes(128);
                for b in &mut inp[32..63] {
                    *b = 0;
                }
                inp[63] = 27 + self.rng.below(2) as u8;
            }
            4 => {
                let w = *self.rng.pick(&[U256::ZERO, U256::from(1), n_order - U256::from(1), n_order, n_order + U256::from(1), U256::MAX]);
                let off = if self.rng.chance(1, 2) { 64 } else { 96 };
                inp[off..off + 32].copy_from_slice(&hex32(w));
            }
            5 => {
                let k = self.rng.below(128) as usize;
                inp.truncate(k);
            }
            6 => {
                let extra = self.rng.range(1, 70) as usize;
                let e = self.rng.bytes(extra);
                inp.extend(e);
            }
            7 => {
                let k = self.len_pick();
                inp = self.rng.bytes(k);
            }
            8 => {
                // high-s twin of the valid signature
                let s = U256::from_be_slice(&inp[96..128]);
                inp[96..128].copy_from_slice(&hex32(n_order - s));
                inp[63] = 27;
            }
            9 => {
                inp[63] = 27;
            }
            _ => {
                let i = self.rng.below(128) as usize;
                inp[i] ^= 1 << self.rng.below(8);
            }
        }
        let fork = self.fork();
        let o = match call_raw(fork_by_name(fork).unwrap(), 1, &inp, MAXG) {
            Some(Ok((_, out))) => format!("o={}", hxb(&out)),
            _ => "o=-".into(),
        };
        for g in self.gases(Some(3000), &[]) {
            self.emit("ecrecover", fork, g, &inp, &o);
        }
    }

    // ---- modexp ----
    fn modexp_header(bl: U256, el: U256, ml: U256) -> Vec<u8> {
        let mut v = hex32(bl);
        v.extend(hex32(el));
        v.extend(hex32(ml));
        v
    }
    fn modexp_emit(&mut self, fork: &str, inp: &[u8]) {
        let berlin = fork_by_name(fork).unwrap() >= PrecompileSpecId::BERLIN;
        // cost from the real gas function when the lengths fit; decide which gas limits are safe
        let (bl, el, ml) = (be_u256(inp, 0), be_u256(inp, 32), be_u256(inp, 64));
        let lim = U256::from(u64::MAX);
        if bl > lim || ml > lim || el > lim || (bl.is_zero() && ml.is_zero()) {
            for g in [0u64, 199, 200, MAXG] {
                if self.rng.chance(2, 3) {
                    self.emit("modexp", fork, g, inp, "");
                }
            }
            return;
        }
        // find the cost by asking the guard with ample gas
        let total = modexp_alloc(berlin, inp, MAXG).unwrap();
        let cost = {
            let data = inp.get(96..).unwrap_or_default();
            let d2 = data.get(bl.to::<u64>() as usize..).unwrap_or_default();
            let mut hp = [0u8; 32];
            let n = std::cmp::min(el.to::<u64>(), 32) as usize;
            for i in 0..n {
                hp[32 - n + i] = *d2.get(i).unwrap_or(&0);
            }
            let hp = U256::from_be_bytes(hp);
            if berlin {
                modexp::berlin_gas_calc(bl.to(), el.to(), ml.to(), &hp)
            } else {
                modexp::byzantium_gas_calc(bl.to(), el.to(), ml.to(), &hp)
            }
        };
        let runnable = total <= 4096 || total > isize::MAX as u64;
        let mut gs = vec![];
        if cost > 0 {
            gs.push(cost - 1);
        }
        if runnable {
            gs.push(cost);
            if self.rng.chance(1, 3) {
                gs.push(MAXG);
            }
            if self.rng.chance(1, 3) {
                gs.push(cost.saturating_add(self.rng.below(1000)));
            }
        }
        if self.rng.chance(1, 4) {
            gs.push(self.rng.below(cost.saturating_add(1)));
        }
        if self.rng.chance(1, 4) {
            gs.push(199);
            gs.push(200);
        }
        for g in gs {
            // never hand out a gas limit that reaches a dangerous allocation
            if g >= cost && !runnable {
                continue;
            }
            self.emit("modexp", fork, g, inp, "");
        }
    }
    fn modexp_valid(&mut self) {
        const L: [u64; 12] = [0, 1, 2, 3, 8, 31, 32, 33, 40, 64, 65, 100];
        let bl = *self.rng.pick(&L);
        let el = *self.rng.pick(&L);
        let ml = *self.rng.pick(&L);
        let mut inp = Self::modexp_header(U256::from(bl), U256::from(el), U256::from(ml));
        let mut body = self.rng.bytes((bl + el + ml) as usize);
        // exponent shapes: zero, leading zero bytes, small
        match self.rng.below(5) {
            0 => {
                for b in &mut body[bl as usize..(bl + el) as usize] {
                    *b = 0;
                }
            }
            1 => {
                let k = self.rng.below(el + 1) as usize;
                for b in &mut body[bl as usize..bl as usize + k] {
                    *b = 0;
                }
            }
            _ => {}
        }
        // modulus shapes: zero, one, even, power of two
        match self.rng.below(8) {
            0 => {
                for b in &mut body[(bl + el) as usize..] {
                    *b = 0;
                }
            }
            1 if ml > 0 => {
                for b in &mut body[(bl + el) as usize..] {
                    *b = 0;
                }
                *body.last_mut().unwrap() = self.rng.range(1, 4) as u8;
            }
            2 if ml > 0 => {
                *body.last_mut().unwrap() &= 0xfe;
            }
            3 if ml > 1 => {
                for b in &mut body[(bl + el) as usize..] {
                    *b = 0;
                }
                body[(bl + el) as usize] = 1 << self.rng.below(8);
            }
            _ => {}
        }
        inp.extend(body);
        // truncation / extension of the data part (right padding)
        match self.rng.below(5) {
            0 => {
                let k = self.rng.below(inp.len() as u64 + 1) as usize;
                inp.truncate(k);
            }
            1 => {
                let k = self.rng.range(1, 40) as usize;
                let e = self.rng.bytes(k);
                inp.extend(e);
            }
            _ => {}
        }
        let fork = self.fork_from(1);
        self.modexp_emit(fork, &inp);
    }
    fn modexp_boundary(&mut self) {
        let one = U256::from(1);
        let lens: Vec<U256> = vec![
            U256::ZERO, one, U256::from(32), U256::from(33), U256::from(63), U256::from(64), U256::from(65), U256::from(1023), U256::from(1024),
            U256::from(1025), U256::from(4096), U256::from(1u64 << 32), (one << 61) + U256::from(31), (one << 61) + U256::from(32),
            (one << 61) + U256::from(33), one << 62, (one << 63) - one, one << 63, U256::from(u64::MAX) - one, U256::from(u64::MAX),
            one << 64, (one << 64) + one, one << 128, U256::MAX,
        ];
        let bl = *self.rng.pick(&lens);
        let el = *self.rng.pick(&lens);
        let ml = *self.rng.pick(&lens);
        let (bl, el, ml) = match self.rng.below(4) {
            0 => (U256::from(self.rng.below(3)), el, U256::from(self.rng.below(3))),
            1 => (bl, U256::from(self.rng.below(40)), ml),
            _ => (bl, el, ml),
        };
        let mut inp = Self::modexp_header(bl, el, ml);
        let k = self.rng.below(70) as usize;
        let body = match self.rng.below(3) {
            0 => vec![0u8; k],
            _ => self.rng.bytes(k),
        };
        inp.extend(body);
        let fork = self.fork_from(1);
        self.modexp_emit(fork, &inp);
        // the gas functions directly
        let lim = U256::from(u64::MAX);
        if bl <= lim && el <= lim && ml <= lim {
            let hp = self.rng.word();
            let f = if self.rng.chance(1, 2) { "byzantium" } else { "berlin" };
            self.lines.push(format!("precompile fn modexp_gas {} {:x} {:x} {:x} {:x}", f, bl, el, ml, hp));
            self.lines.push(format!("precompile fn itercount {:x} {:x}", el, hp));
        }
    }
    fn modexp_malformed(&mut self) {
        let k = match self.rng.below(3) {
            0 => self.rng.below(97) as usize,
            _ => self.len_pick(),
        };
        let mut inp = self.rng.bytes(k);
        if self.rng.chance(1, 2) {
            // small lengths in a short header: the right padding turns them into huge numbers
            for b in inp.iter_mut() {
                if self.rng.chance(5, 6) {
                    *b = 0;
                }
            }
        }
        let fork = self.fork_from(1);
        self.modexp_emit(fork, &inp);
    }
    fn fn_misc(&mut self) {
        match self.rng.below(3) {
            0 => {
                let l = match self.rng.below(4) {
                    0 => self.rng.below(200),
                    1 => *self.rng.pick(&[0u64, 1, 31, 32, 33, 64, u32::MAX as u64, 1 << 56, (1 << 59) - 1, 1 << 59, u64::MAX - 31, u64::MAX - 30, u64::MAX]),
                    2 => self.rng.next() >> self.rng.below(64),
                    _ => self.rng.next(),
                };
                let (b, w) = *self.rng.pick(&[(15u64, 3u64), (60, 12), (600, 120)]);
                self.lines.push(format!("precompile fn lincost {:x} {:x} {:x}", l, b, w));
            }
            _ => {
                let n = self.rng.below(70) as usize;
                let k = self.rng.below(70) as usize;
                let d = self.rng.bytes(k);
                let f = if self.rng.chance(1, 2) { "rpad" } else { "lpad" };
                self.lines.push(format!("precompile fn {} {} {}", f, n, hxb(&d)));
            }
        }
    }

    // ---- bn128 ----
    fn bn_p() -> U256 {
        U256::from_str_radix("30644e72e131a029b85045b68181585d97816a916871ca8d3c208c16d87cfd47", 16).unwrap()
    }
    fn bn_r() -> U256 {
        U256::from_str_radix("30644e72e131a029b85045b68181585d2833e84879b9709143e1f593f0000001", 16).unwrap()
    }
    /// a valid G1 point: k * (1, 2) computed by the real precompile
    fn bn_point(&mut self) -> Vec<u8> {
        let mut inp = hex32(U256::from(1));
        inp.extend(hex32(U256::from(2)));
        let k = match self.rng.below(4) {
            0 => U256::from(1),
            1 => U256::from(self.rng.range(2, 9)),
            _ => self.rng.u256(),
        };
        inp.extend(hex32(k));
        call_raw(PrecompileSpecId::ISTANBUL, 7, &inp, MAXG).unwrap().unwrap().1
    }
    fn bn_any_point(&mut self) -> Vec<u8> {
        let p = Self::bn_p();
        match self.rng.below(12) {
            0 => vec![0u8; 64],
            1 => {
                // not on the curve
                let mut v = hex32(U256::from(1));
                v.extend(hex32(U256::from(3)));
                v
            }
            2 => {
                let mut v = self.bn_point();
                let w = *self.rng.pick(&[p, p + U256::from(1), U256::MAX]);
                let off = if self.rng.chance(1, 2) { 0 } else { 32 };
                v[off..off + 32].copy_from_slice(&hex32(w));
                v
            }
            3 => {
                // x + p, y : non-canonical encoding of a valid point
                let mut v = self.bn_point();
                let x = U256::from_be_slice(&v[0..32]);
                if let Some(x2) = x.checked_add(p) {
                    v[0..32].copy_from_slice(&hex32(x2));
                }
                v
            }
            4 => {
                let mut v = hex32(self.rng.u256() % p);
                v.extend(hex32(self.rng.u256() % p));
                v
            }
            5 => {
                // (0, y) and (x, 0)
                let mut v = self.bn_point();
                let off = if self.rng.chance(1, 2) { 0 } else { 32 };
                for b in &mut v[off..off + 32] {
                    *b = 0;
                }
                v
            }
            _ => self.bn_point(),
        }
    }
    fn bn_neg(pt: &[u8]) -> Vec<u8> {
        let y = U256::from_be_slice(&pt[32..64]);
        let mut v = pt[0..32].to_vec();
        v.extend(hex32(if y.is_zero() { y } else { Self::bn_p() - y }));
        v
    }
    fn shape(&mut self, mut inp: Vec<u8>) -> Vec<u8> {
        match self.rng.below(6) {
            0 => {
                let k = self.rng.below(inp.len() as u64 + 1) as usize;
                inp.truncate(k);
            }
            1 => {
                let k = self.rng.range(1, 40) as usize;
                let e = self.rng.bytes(k);
                inp.extend(e);
            }
            _ => {}
        }
        inp
    }
    fn bn_add(&mut self) {
        let a = self.bn_any_point();
        let b = match self.rng.below(5) {
            0 => a.clone(),
            1 => Self::bn_neg(&a),
            _ => self.bn_any_point(),
        };
        let mut inp = a;
        inp.extend(b);
        let inp = self.shape(inp);
        let fork = self.fork_from(1);
        for g in self.gases(None, &[150, 500]) {
            self.emit("bn_add", fork, g, &inp, "");
        }
    }
    fn bn_mul(&mut self) {
        let mut inp = self.bn_any_point();
        let r = Self::bn_r();
        let k = match self.rng.below(6) {
            0 => *self.rng.pick(&[U256::ZERO, U256::from(1), U256::from(2), r - U256::from(1), r, r + U256::from(1), U256::MAX]),
            1 => U256::from(self.rng.below(1000)),
            _ => self.rng.u256(),
        };
        inp.extend(hex32(k));
        let inp = self.shape(inp);
        let fork = self.fork_from(1);
        for g in self.gases(None, &[6000, 40000]) {
            self.emit("bn_mul", fork, g, &inp, "");
        }
    }
    fn bn_g2gen() -> Vec<u8> {
        parse_bytes(
            "198e9393920d483a7260bfb731fb5d25f1aa493335a9e71297e485b7aef312c2\
             1800deef121f1e76426a00665e5c4479674322d4f75edadd46debd5cd992f6ed\
             090689d0585ff075ec9e99ad690c3395bc4b313370b38ef355acdadcd122975b\
             12c85ea5db8c6deb4aab71808dcb408fe3d1e7690c43d37b4ce6cc0166fa7daa",
        )
        .unwrap()
    }
    fn bn_pair_vector() -> Vec<u8> {
        parse_bytes(
            "1c76476f4def4bb94541d57ebba1193381ffa7aa76ada664dd31c16024c43f59\
             3034dd2920f673e204fee2811c678745fc819b55d3e9d294e45c9b03a76aef41\
             209dd15ebff5d46c4bd888e51a93cf99a7329636c63514396b4a452003a35bf7\
             04bf11ca01483bfa8b34b43561848d28905960114c8ac04049af4b6315a41678\
             2bb8324af6cfc93537a2ad1a445cfd0ca2a71acd7ac41fadbf933c2a51be344d\
             120a2a4cf30c1bf9845f20c6fe39e07ea2cce61f0c9bb048165fe5e4de877550\
             111e129f1cf1097710d41c4ac70fcdfa5ba2023c6ff1cbeac322de49d1b6df7c\
             2032c61a830e3c17286de9462bf242fca2883585b93870a73853face6a6bf411\
             198e9393920d483a7260bfb731fb5d25f1aa493335a9e71297e485b7aef312c2\
             1800deef121f1e76426a00665e5c4479674322d4f75edadd46debd5cd992f6ed\
             090689d0585ff075ec9e99ad690c3395bc4b313370b38ef355acdadcd122975b\
             12c85ea5db8c6deb4aab71808dcb408fe3d1e7690c43d37b4ce6cc0166fa7daa",
        )
        .unwrap()
    }
    fn bn_pair(&mut self) {
        let p = Self::bn_p();
        let vec2 = Self::bn_pair_vector();
        let mut elems: Vec<Vec<u8>> = vec![];
        match self.rng.below(8) {
            0 => {}
            1 => {
                elems.push(vec2[..192].to_vec());
                elems.push(vec2[192..].to_vec());
            }
            2 => {
                // e(P, Q) * e(-P, Q) = 1
                let a = self.bn_point();
                let mut e1 = a.clone();
                e1.extend(Self::bn_g2gen());
                let mut e2 = Self::bn_neg(&a);
                e2.extend(Self::bn_g2gen());
                elems.push(e1);
                elems.push(e2);
            }
            _ => {
                let k = self.rng.range(1, 3);
                for _ in 0..k {
                    let mut e = match self.rng.below(3) {
                        0 => vec![0u8; 64],
                        _ => self.bn_any_point(),
                    };
                    let g2 = match self.rng.below(6) {
                        0 => vec![0u8; 128],
                        1 => {
                            let mut v = vec![];
                            for _ in 0..4 {
                                v.extend(hex32(self.rng.u256() % p));
                            }
                            v
                        }
                        2 => {
                            let mut v = Self::bn_g2gen();
                            let i = self.rng.below(4) as usize;
                            let w = *self.rng.pick(&[p, p + U256::from(1), U256::MAX, U256::ZERO]);
                            v[32 * i..32 * i + 32].copy_from_slice(&hex32(w));
                            v
                        }
                        3 => vec2[64..192].to_vec(),
                        _ => Self::bn_g2gen(),
                    };
                    e.extend(g2);
                    elems.push(e);
                }
            }
        }
        let mut inp: Vec<u8> = elems.concat();
        let mut n_el = elems.len();
        match self.rng.below(8) {
            0 => {
                let k = self.rng.below(inp.len() as u64 + 1) as usize;
                inp.truncate(k);
                n_el = k / 192;
            }
            1 => {
                let k = self.rng.range(1, 191) as usize;
                let e = self.rng.bytes(k);
                inp.extend(e);
            }
            _ => {}
        }
        // oracle: G2 validity of each complete element through a one-element call with G1 = infinity
        let mut bits = String::new();
        for i in 0..n_el.min(inp.len() / 192) {
            let mut probe = vec![0u8; 64];
            probe.extend(&inp[192 * i + 64..192 * i + 192]);
            let ok = matches!(call_raw(PrecompileSpecId::ISTANBUL, 8, &probe, MAXG), Some(Ok(_)));
            bits.push(if ok { '1' } else { '0' });
        }
        if bits.is_empty() {
            bits.push('-');
        }
        let fork = self.fork_from(1);
        let full = call_raw(fork_by_name(fork).unwrap(), 8, &inp, MAXG).unwrap();
        let pair = match &full {
            Ok((_, o)) => (o[31] == 1) as u8,
            _ => 0,
        };
        let cost = full.as_ref().ok().map(|x| x.0);
        let k = (inp.len() / 192) as u64;
        let o = format!("g2={} pair={}", bits, pair);
        for g in self.gases(cost, &[45000 + 34000 * k, 100000 + 80000 * k]) {
            self.emit("bn_pair", fork, g, &inp, &o);
        }
    }

    // ---- blake2f ----
    fn blake2f(&mut self) {
        let mut inp = self.rng.bytes(213);
        let rounds: u32 = match self.rng.below(6) {
            0 => *self.rng.pick(&[0u32, 1, 2, 9, 10, 11, 12, 13, 20, 21]),
            1 => self.rng.below(300) as u32,
            2 => 12,
            3 => self.rng.below(3000) as u32,
            4 => *self.rng.pick(&[u32::MAX, 1 << 31, 1 << 24, 0x0100_0000, 0x0001_0000]),
            _ => 12,
        };
        inp[..4].copy_from_slice(&rounds.to_be_bytes());
        inp[212] = match self.rng.below(6) {
            0 => 0,
            1 => 1,
            2 => *self.rng.pick(&[2u8, 3, 0x80, 0xff]),
            _ => self.rng.below(2) as u8,
        };
        if self.rng.chance(1, 6) {
            // the EIP-152 vector ("abc")
            inp = parse_bytes("0000000c48c9bdf267e6096a3ba7ca8485ae67bb2bf894fe72f36e3cf1361d5f3af54fa5d182e6ad7f520e511f6c3e2b8c68059b6bbd41fbabd9831f79217e1319cde05b616263").unwrap();
            inp.extend(vec![0u8; 125]);
            inp.push(3);
            inp.extend(vec![0u8; 15]);
            inp.push(1);
        }
        match self.rng.below(10) {
            0 => inp.truncate(self.rng.below(213) as usize),
            1 => inp.push(0),
            2 => inp = vec![],
            _ => {}
        }
        let rounds = rounds as u64;
        let fork = self.fork_from(2);
        let mut gs = vec![];
        if rounds > 0 {
            gs.push(rounds - 1);
        }
        if rounds <= 5000 {
            gs.push(rounds);
            if self.rng.chance(1, 3) {
                gs.push(MAXG);
            }
        }
        if self.rng.chance(1, 4) {
            gs.push(0);
        }
        for g in gs {
            if rounds > 5000 && g >= rounds && inp.len() == 213 {
                continue;
            }
            self.emit("blake2f", fork, g, &inp, "");
        }
    }

    // ---- kzg ----
    fn kzg(&mut self) {
        let commitment = parse_bytes("8f59a8d2a1a625a17f3fea0fe5eb8c896db3764f3185481bc22f91b4aaffcca25f26936857bc3a7c2539ea8ec3a952b7").unwrap();
        let z = parse_bytes("73eda753299d7d483339d80809a1d80553bda402fffe5bfeffffffff00000000").unwrap();
        let y = parse_bytes("1522a4a7f34e1ea350ae07c29c96c7e79655aa926122e95fe69fcbd932ca49e9").unwrap();
        let proof = parse_bytes("a62ad71d14c5719385c0686f1871430475bf3a00f0aa3f7b8dd99a9abc2160744faf0070725e00b60ad9a026a15b1a8c").unwrap();
        let (mut c, mut z, mut y, mut pr) = (commitment, z, y, proof);
        let mut fix_hash = true;
        let mut version = 1u8;
        match self.rng.below(12) {
            0 => {
                let i = self.rng.below(48) as usize;
                pr[i] ^= 1 << self.rng.below(8);
            }
            1 => {
                let i = self.rng.below(32) as usize;
                y[i] ^= 1 << self.rng.below(8);
            }
            2 => z = parse_bytes("73eda753299d7d483339d80809a1d80553bda402fffe5bfeffffffff00000001").unwrap(),
            3 => y = vec![0xff; 32],
            4 => {
                let i = self.rng.below(48) as usize;
                c[i] ^= 1 << self.rng.below(8);
            }
            5 => {
                let i = self.rng.below(48) as usize;
                c[i] ^= 1 << self.rng.below(8);
                fix_hash = false;
            }
            6 => version = *self.rng.pick(&[0u8, 2, 0xff]),
            7 => {
                c = self.rng.bytes(48);
            }
            _ => {}
        }
        let mut vh = call_raw(PrecompileSpecId::CANCUN, 2, &c, MAXG).unwrap().unwrap().1;
        vh[0] = version;
        if !fix_hash {
            let i = self.rng.range(1, 31) as usize;
            vh[i] ^= 0x10;
        }
        let mut inp = [vh, z, y, c, pr].concat();
        match self.rng.below(10) {
            0 => inp.truncate(self.rng.below(192) as usize),
            1 => inp.push(0),
            _ => {}
        }
        let fork = *self.rng.pick(&["cancun", "prague", "cancun", "prague", "berlin"]);
        let o = match call_raw(PrecompileSpecId::CANCUN, 10, &inp, MAXG) {
            Some(Ok(_)) => "o=1",
            _ => "o=0",
        };
        for g in self.gases(Some(50000), &[]) {
            self.emit("kzg", fork, g, &inp, o);
        }
    }

    // ---- BLS12-381 ----
    fn bls_fp(&mut self) -> Vec<u8> {
        // canonical field element (first byte < 0x1a), padded to 64 bytes
        let mut v = vec![0u8; 16];
        let mut f = self.rng.bytes(48);
        f[0] = self.rng.below(0x1a) as u8;
        v.extend(f);
        v
    }
    fn bls_g1(&mut self) -> Vec<u8> {
        let fp = self.bls_fp();
        call_raw(PrecompileSpecId::PRAGUE, 0x10, &fp, MAXG).unwrap().unwrap().1
    }
    fn bls_g2(&mut self) -> Vec<u8> {
        let mut fp = self.bls_fp();
        fp.extend(self.bls_fp());
        call_raw(PrecompileSpecId::PRAGUE, 0x11, &fp, MAXG).unwrap().unwrap().1
    }
    fn bls_r_minus_1() -> Vec<u8> {
        parse_bytes("73eda753299d7d483339d80809a1d80553bda402fffe5bfeffffffff00000000").unwrap()
    }
    fn bls_modulus() -> Vec<u8> {
        parse_bytes("1a0111ea397fe69a4b1ba7b6434bacd764774b84f38512bf6730d2a0f6b0f6241eabfffeb153ffffb9feffffffffaaab").unwrap()
    }
    /// corrupt one 64-byte padded field element of `v`
    fn bls_corrupt(&mut self, mut v: Vec<u8>) -> Vec<u8> {
        if v.is_empty() {
            return v;
        }
        let nfp = v.len() / 64;
        if nfp == 0 {
            return v;
        }
        let i = self.rng.below(nfp as u64) as usize * 64;
        match self.rng.below(5) {
            0 => v[i + self.rng.below(16) as usize] = self.rng.range(1, 255) as u8,
            1 => v[i + 16..i + 64].copy_from_slice(&Self::bls_modulus()),
            2 => {
                let mut m = Self::bls_modulus();
                m[47] = m[47].wrapping_sub(1);
                v[i + 16..i + 64].copy_from_slice(&m)
            }
            3 => {
                for b in &mut v[i + 16..i + 64] {
                    *b = 0xff;
                }
            }
            _ => {
                let j = self.rng.range(16, 63) as usize;
                v[i + j] ^= 1 << self.rng.below(8);
            }
        }
        v
    }
    fn bls_emit(&mut self, name: &str, inp: Vec<u8>, hints: &[u64]) {
        let addr = addr_by_name(name).unwrap();
        let fork = *self.rng.pick(&["prague", "prague", "prague", "cancun"]);
        let full = call_raw(PrecompileSpecId::PRAGUE, addr, &inp, MAXG).unwrap();
        let o = match &full {
            Ok((_, out)) => format!("o={}", hxb(out)),
            Err(_) => "o=fail".to_string(),
        };
        let cost = full.as_ref().ok().map(|x| x.0);
        for g in self.gases(cost, hints) {
            self.emit(name, fork, g, &inp, &o);
        }
    }
    fn bls_shape(&mut self, mut inp: Vec<u8>) -> Vec<u8> {
        match self.rng.below(10) {
            0 => {
                let k = self.rng.below(inp.len() as u64 + 1) as usize;
                inp.truncate(k);
            }
            1 => {
                let k = self.rng.range(1, 64) as usize;
                let e = self.rng.bytes(k);
                inp.extend(e);
            }
            2 => inp = self.bls_corrupt(inp),
            3 => inp = vec![],
            _ => {}
        }
        inp
    }
    fn bls(&mut self) {
        match self.rng.below(7) {
            0 => {
                let a = if self.rng.chance(1, 5) { vec![0u8; 128] } else { self.bls_g1() };
                let b = match self.rng.below(4) {
                    0 => a.clone(),
                    1 => vec![0u8; 128],
                    _ => self.bls_g1(),
                };
                let inp = self.bls_shape([a, b].concat());
                self.bls_emit("bls_g1add", inp, &[375]);
            }
            1 => {
                let a = if self.rng.chance(1, 5) { vec![0u8; 256] } else { self.bls_g2() };
                let b = match self.rng.below(4) {
                    0 => a.clone(),
                    1 => vec![0u8; 256],
                    _ => self.bls_g2(),
                };
                let inp = self.bls_shape([a, b].concat());
                self.bls_emit("bls_g2add", inp, &[600]);
            }
            2 | 3 => {
                let g1 = self.rng.chance(1, 2);
                let k = match self.rng.below(6) {
                    0 => *self.rng.pick(&[127usize, 128, 129, 130, 200]),
                    1 => self.rng.range(3, 20) as usize,
                    _ => self.rng.range(1, 3) as usize,
                };
                let base = if g1 { self.bls_g1() } else { self.bls_g2() };
                let zero = vec![0u8; base.len()];
                let mut inp = vec![];
                let all_zero = self.rng.chance(1, 8);
                for i in 0..k {
                    let p = if all_zero || self.rng.chance(1, 6) {
                        zero.clone()
                    } else if i < 3 && self.rng.chance(1, 2) {
                        if g1 { self.bls_g1() } else { self.bls_g2() }
                    } else {
                        base.clone()
                    };
                    inp.extend(p);
                    let s = match self.rng.below(4) {
                        0 => Self::bls_r_minus_1(),
                        1 => hex32(U256::from(self.rng.below(5))),
                        _ => self.rng.bytes(32),
                    };
                    inp.extend(s);
                }
                let inp = self.bls_shape(inp);
                self.bls_emit(if g1 { "bls_g1msm" } else { "bls_g2msm" }, inp, &[]);
            }
            4 => {
                let p = self.bls_g1();
                let q = self.bls_g2();
                let mut inp = vec![];
                match self.rng.below(4) {
                    0 => {
                        // e(P,Q) e(-P,Q) = 1
                        let mut m = p.clone();
                        m.extend(Self::bls_r_minus_1());
                        let np = call_raw(PrecompileSpecId::PRAGUE, 0x0c, &m, MAXG).unwrap().unwrap().1;
                        inp.extend(p.clone());
                        inp.extend(q.clone());
                        inp.extend(np);
                        inp.extend(q.clone());
                    }
                    1 => {
                        inp.extend(vec![0u8; 128]);
                        inp.extend(q.clone());
                        if self.rng.chance(1, 2) {
                            inp.extend(p.clone());
                            inp.extend(vec![0u8; 256]);
                        }
                    }
                    _ => {
                        let k = self.rng.range(1, 3);
                        for _ in 0..k {
                            inp.extend(p.clone());
                            inp.extend(q.clone());
                        }
                    }
                }
                let k = (inp.len() / 384) as u64;
                let inp = self.bls_shape(inp);
                self.bls_emit("bls_pairing", inp, &[32600 * k + 37700]);
            }
            5 => {
                let fp = self.bls_fp();
                let inp = self.bls_shape(fp);
                self.bls_emit("bls_mapfp", inp, &[5500]);
            }
            _ => {
                let mut fp = self.bls_fp();
                fp.extend(self.bls_fp());
                let inp = self.bls_shape(fp);
                self.bls_emit("bls_mapfp2", inp, &[23800]);
            }
        }
    }

    /// fixed witnesses: saturation corners of modexp, absent addresses, the panic witness
    fn fixed(&mut self) {
        let one = U256::from(1);
        // (1) exp_len = 2^63, mod_len = 1: iteration count saturates, then the allocation of
        // 2^63 + 1 bytes panics ("capacity overflow") when the (under-)charged gas is available
        for fork in ["byzantium", "berlin"] {
            let inp = Self::modexp_header(U256::ZERO, one << 63, one);
            self.modexp_emit(fork, &inp);
            let inp = Self::modexp_header(one << 63, U256::ZERO, one);
            self.modexp_emit(fork, &inp);
            let inp = Self::modexp_header(U256::ZERO, U256::from(u64::MAX), one);
            self.modexp_emit(fork, &inp);
        }
        // (2) every name in every fork with empty input and ample gas (absent / present)
        for (name, _) in NAMES {
            for (fork, _) in FORKS {
                if name.starts_with("bls") || name == "kzg" || name == "bn_pair" || name == "ecrecover" {
                    continue;
                }
                self.emit(name, fork, 10_000_000, &[], "");
            }
        }
        for (fork, _) in FORKS {
            self.emit("ecrecover", fork, 10_000_000, &[], "o=-");
            self.emit("bn_pair", fork, 10_000_000, &[], "g2=- pair=1");
            self.emit("kzg", fork, 10_000_000, &[], "o=0");
            for n in ["bls_g1add", "bls_g1msm", "bls_g2add", "bls_g2msm", "bls_pairing", "bls_mapfp", "bls_mapfp2"] {
                self.emit(n, fork, 10_000_000, &[], "o=fail");
            }
        }
    }
}

pub fn gen(seed: u64, n: usize) -> Vec<String> {
    let mut g = G { rng: Rng::new(seed ^ 0xC23), lines: vec![] };
    g.fixed();
    for i in 0..n {
        match i % 40 {
            0..=5 => g.hashes(),
            6..=9 => g.ecrecover(),
            10..=15 => g.modexp_valid(),
            16..=19 => g.modexp_boundary(),
            20..=21 => g.modexp_malformed(),
            22..=23 => g.fn_misc(),
            24..=26 => g.bn_add(),
            27 => g.bn_mul(),
            28..=29 => g.bn_pair(),
            30..=33 => g.blake2f(),
            34..=35 => g.kzg(),
            _ => g.bls(),
        }
    }
    g.lines
}

pub fn run(seed: u64, n: usize, replay: Option<Vec<String>>, out: &mut Out) {
    let lines = replay.unwrap_or_else(|| gen(seed, n));
    for l in lines {
        let r = exec_line(&l);
        let mut it = l.split(' ');
        let _ = it.next();
        let name = it.next().unwrap_or("?").to_string();
        let name = if name == "fn" { format!("fn-{}", it.next().unwrap_or("?")) } else { name };
        out.count(&format!("pc:{name}"));
        let class = r.split(' ').take(if r.starts_with("err") { 2 } else { 1 }).collect::<Vec<_>>().join(":");
        if !r.chars().next().map(|c| c.is_ascii_digit()).unwrap_or(false) && !name.starts_with("fn-") {
            out.count(&format!("reply:{class}"));
        }
        out.push(l, r);
    }
}
