//! C06 / C08 / C34 (operation level): the real `JournaledState` driven through its public API.
//! `begin journal <spec> <preloaded> <db> <storage> <delegations>` then `j <op> …`;
//! every reply is `<result> || <canonical dump>` (see lean/Driver/Journal.lean for the format).
//! The generator executes the real implementation while generating (feedback: which creates
//! succeeded, which checkpoints are open), but the executor is a pure function of the request lines.
use crate::*;
use revm::primitives::{
    db::Database, AccountInfo, Address, Bytecode, Bytes, HashMap, HashSet, Log, LogData, SpecId, B256, KECCAK_EMPTY, U256,
};
use revm::{JournalCheckpoint, JournaledState};
use std::convert::Infallible;

#[derive(Default, Clone)]
pub struct TestDb {
    pub accounts: HashMap<Address, AccountInfo>,
    pub storage: HashMap<(Address, U256), U256>,
    pub codes: HashMap<B256, Bytecode>,
}
impl Database for TestDb {
    type Error = Infallible;
    fn basic(&mut self, address: Address) -> Result<Option<AccountInfo>, Infallible> {
        Ok(self.accounts.get(&address).cloned())
    }
    fn code_by_hash(&mut self, h: B256) -> Result<Bytecode, Infallible> {
        Ok(self.codes.get(&h).cloned().unwrap_or_default())
    }
    fn storage(&mut self, a: Address, k: U256) -> Result<U256, Infallible> {
        Ok(self.storage.get(&(a, k)).copied().unwrap_or_default())
    }
    fn block_hash(&mut self, _n: u64) -> Result<B256, Infallible> {
        Ok(B256::ZERO)
    }
}

pub fn addr(i: u64) -> Address {
    Address::with_last_byte(i as u8)
}
fn addr_idx(a: &Address) -> u64 {
    a.0[19] as u64
}

/// the code table: index → bytecode (0 = empty)
pub fn code_table() -> Vec<Bytecode> {
    vec![
        Bytecode::default(),
        Bytecode::new_raw(Bytes::from_static(&[0x00])),
        Bytecode::new_raw(Bytes::from_static(&[0x60, 0x00, 0x55])),
        Bytecode::new_eip7702(addr(4)),
        Bytecode::new_eip7702(addr(7)),
    ]
}
fn h2w(h: B256) -> U256 {
    U256::from_be_bytes(h.0)
}
fn w2h(w: U256) -> B256 {
    B256::from(w.to_be_bytes::<32>())
}

pub fn dump(js: &JournaledState) -> String {
    let mut accs = vec![];
    for i in 1..=8u64 {
        if let Some(acc) = js.state.get(&addr(i)) {
            let mut slots = vec![];
            for k in 0..4u64 {
                if let Some(sl) = acc.storage.get(&U256::from(k)) {
                    slots.push(format!("{:x}:{},{},{}", k, hx(sl.original_value), hx(sl.present_value), b01(sl.is_cold)));
                }
            }
            let mut fl = String::new();
            if acc.is_created() { fl.push('C'); }
            if acc.is_selfdestructed() { fl.push('S'); }
            if acc.is_touched() { fl.push('T'); }
            if acc.is_loaded_as_not_existing() { fl.push('N'); }
            if acc.status.contains(revm::primitives::AccountStatus::Cold) { fl.push('K'); }
            accs.push(format!(
                "{:x}:{}/{:x}/{}/c{}/{}/[{}]",
                i, hx(acc.info.balance), acc.info.nonce, hx(h2w(acc.info.code_hash)), b01(acc.info.code.is_some()), fl, slots.join(";")
            ));
        }
    }
    let mut tr = vec![];
    for i in 1..=8u64 {
        for k in 0..4u64 {
            if let Some(v) = js.transient_storage.get(&(addr(i), U256::from(k))) {
                tr.push(format!("{:x}.{:x}={}", i, k, hx(*v)));
            }
        }
    }
    let logs: Vec<String> = js.logs.iter().map(|l| format!("{:x}", l.data.data.len())).collect();
    format!("d={} L={} T={} S={}", js.depth, logs.join(","), tr.join(","), accs.join("|"))
}

/// Observable state per DESIGN Appendix A.1 (the property's own oracle for C06): absent accounts and
/// slots read as the database says, cold unless tx-level pre-warmed; whether code is cached is dropped;
/// the touched mark of 0x03 is not observable from Spurious Dragon on.
pub fn abs_dump(js: &JournaledState, db: &TestDb) -> String {
    let sd = js.spec.is_enabled_in(SpecId::SPURIOUS_DRAGON);
    let mut accs = vec![];
    for i in 1..=8u64 {
        let a = addr(i);
        let acc = js.state.get(&a);
        let dbi = db.accounts.get(&a);
        let (bal, nonce, hash, fl, warm) = match acc {
            Some(acc) => {
                let mut fl = String::new();
                if acc.is_created() { fl.push('C'); }
                if acc.is_selfdestructed() { fl.push('S'); }
                if acc.is_touched() && !(sd && i == 3) { fl.push('T'); }
                if acc.is_loaded_as_not_existing() { fl.push('N'); }
                (acc.info.balance, acc.info.nonce, acc.info.code_hash, fl, !acc.status.contains(revm::primitives::AccountStatus::Cold))
            }
            None => match dbi {
                Some(i2) => (i2.balance, i2.nonce, i2.code_hash, String::new(), js.warm_preloaded_addresses.contains(&a)),
                None => (U256::ZERO, 0, KECCAK_EMPTY, "N".to_string(), js.warm_preloaded_addresses.contains(&a)),
            },
        };
        let mut slots = vec![];
        for k in 0..4u64 {
            let key = U256::from(k);
            let dbv = db.storage.get(&(a, key)).copied().unwrap_or_default();
            let (o, p, w) = match acc {
                Some(acc) => match acc.storage.get(&key) {
                    Some(sl) => (sl.original_value, sl.present_value, !sl.is_cold),
                    None => {
                        let v = if acc.is_created() { U256::ZERO } else { dbv };
                        (v, v, false)
                    }
                },
                None => (dbv, dbv, false),
            };
            slots.push(format!("{},{},{}", hx(o), hx(p), b01(w)));
        }
        accs.push(format!("{:x}:{}/{:x}/{}/{}/w{}/[{}]", i, hx(bal), nonce, hx(h2w(hash)), fl, b01(warm), slots.join(";")));
    }
    let mut tr = vec![];
    for i in 1..=8u64 {
        for k in 0..4u64 {
            let v = js.transient_storage.get(&(addr(i), U256::from(k))).copied().unwrap_or_default();
            if !v.is_zero() {
                tr.push(format!("{:x}.{:x}={}", i, k, hx(v)));
            }
        }
    }
    let logs: Vec<String> = js.logs.iter().map(|l| format!("{:x}", l.data.data.len())).collect();
    format!("L={} T={} A={}", logs.join(","), tr.join(","), accs.join("|"))
}

pub struct Exec {
    pub js: JournaledState,
    pub db: TestDb,
    pub cps: Vec<JournalCheckpoint>,
    pub snaps: Vec<String>,
    pub dead: bool,
}

fn px(s: &str) -> Option<U256> {
    U256::from_str_radix(s, 16).ok()
}
fn pa(s: &str) -> Option<Address> {
    let v = u64::from_str_radix(s, 16).ok()?;
    if v > 255 { return None; }
    Some(addr(v))
}
fn spec_of(n: u8) -> Option<SpecId> {
    SpecId::try_from_u8(n)
}
fn split_list<'a>(s: &'a str, sep: char) -> Vec<&'a str> {
    if s == "-" { vec![] } else { s.split(sep).collect() }
}

impl Exec {
    pub fn new() -> Self {
        Exec { js: JournaledState::new(SpecId::FRONTIER, HashSet::default()), db: TestDb::default(), cps: vec![], snaps: vec![], dead: true }
    }
    pub fn begin(&mut self, t: &[&str]) -> String {
        if t.len() != 5 {
            self.dead = true;
            return "bad-op".into();
        }
        let Some(spec) = t[0].parse::<u8>().ok().and_then(spec_of) else { self.dead = true; return "bad-op".into() };
        let mut pre = HashSet::default();
        for p in split_list(t[1], ',') {
            pre.insert(pa(p).unwrap());
        }
        let mut db = TestDb::default();
        for c in code_table() {
            db.codes.insert(c.hash_slow(), c);
        }
        for e in split_list(t[2], ';') {
            let f: Vec<&str> = e.split(':').collect();
            db.accounts.insert(
                pa(f[0]).unwrap(),
                AccountInfo { balance: px(f[1]).unwrap(), nonce: u64::from_str_radix(f[2], 16).unwrap(), code_hash: w2h(px(f[3]).unwrap()), code: None },
            );
        }
        for e in split_list(t[3], ';') {
            let (ak, v) = e.split_once('=').unwrap();
            let (a, k) = ak.split_once('.').unwrap();
            db.storage.insert((pa(a).unwrap(), px(k).unwrap()), px(v).unwrap());
        }
        self.js = JournaledState::new(spec, pre);
        self.db = db;
        self.cps.clear();
        self.snaps.clear();
        self.dead = false;
        format!("ok || {}", dump(&self.js))
    }

    /// returns None for a malformed request
    fn op(&mut self, t: &[&str]) -> Option<String> {
        let js = &mut self.js;
        let db = &mut self.db;
        let r = match t {
            ["load", a] => format!("cold={}", b01(js.load_account(pa(a)?, db).unwrap().is_cold)),
            ["loadcode", a] => format!("cold={}", b01(js.load_code(pa(a)?, db).unwrap().is_cold)),
            ["loaddel", a] => {
                let l = js.load_account_delegated(pa(a)?, db).unwrap();
                format!(
                    "empty={} cold={} dcold={}",
                    b01(l.is_empty),
                    b01(l.load.state_load.is_cold),
                    match l.load.is_delegate_account_cold { None => "-", Some(x) => b01(x) }
                )
            }
            ["initload", a, ks] => {
                let keys: Option<Vec<U256>> = split_list(ks, ',').into_iter().map(px).collect();
                js.initial_account_load(pa(a)?, keys?, db).unwrap();
                "ok".into()
            }
            ["touch", a] => {
                js.touch(&pa(a)?);
                "ok".into()
            }
            ["transfer", f, to, v] => match js.transfer(&pa(f)?, &pa(to)?, px(v)?, db).unwrap() {
                None => "ok".into(),
                Some(e) => format!("err {:?}", e),
            },
            ["incnonce", a] => match js.inc_nonce(pa(a)?) {
                Some(n) => format!("some {:x}", n),
                None => "none".into(),
            },
            ["setcode", a, h] => {
                let hash = w2h(px(h)?);
                let code = db.codes.get(&hash).cloned().unwrap_or_default();
                js.set_code_with_hash(pa(a)?, code, hash);
                "ok".into()
            }
            ["sload", a, k] => {
                let r = js.sload(pa(a)?, px(k)?, db).unwrap();
                format!("v={} cold={}", hx(r.data), b01(r.is_cold))
            }
            ["sstore", a, k, v] => {
                let r = js.sstore(pa(a)?, px(k)?, px(v)?, db).unwrap();
                format!("o={} p={} n={} cold={}", hx(r.data.original_value), hx(r.data.present_value), hx(r.data.new_value), b01(r.is_cold))
            }
            ["tload", a, k] => format!("v={}", hx(js.tload(pa(a)?, px(k)?))),
            ["tstore", a, k, v] => {
                js.tstore(pa(a)?, px(k)?, px(v)?);
                "ok".into()
            }
            ["log", l] => {
                let n = usize::from_str_radix(l, 16).ok()?;
                if n > 4096 { return None; }
                js.log(Log { address: Address::ZERO, data: LogData::new_unchecked(vec![], Bytes::from(vec![0u8; n])) });
                "ok".into()
            }
            ["selfdestruct", a, tg] => {
                let r = js.selfdestruct(pa(a)?, pa(tg)?, db).unwrap();
                format!("had={} exists={} prev={} cold={}", b01(r.data.had_value), b01(r.data.target_exists), b01(r.data.previously_destroyed), b01(r.is_cold))
            }
            ["create", c, a, hs, bal, spec] => {
                let hs = match *hs { "1" => true, "0" => false, _ => return None };
                let spec = spec.parse::<u8>().ok().and_then(spec_of)?;
                let snap = abs_dump(js, db);
                match js.create_account_checkpoint(pa(c)?, pa(a)?, hs, px(bal)?, spec) {
                    Ok(cp) => {
                        self.cps.push(cp);
                        self.snaps.push(snap);
                        format!("ok cp {}", self.cps.len() - 1)
                    }
                    Err(e) => format!("err {:?}", e),
                }
            }
            ["checkpoint"] => {
                let snap = abs_dump(js, db);
                let cp = js.checkpoint();
                self.cps.push(cp);
                self.snaps.push(snap);
                format!("cp {}", self.cps.len() - 1)
            }
            ["commit"] => {
                js.checkpoint_commit();
                "ok".into()
            }
            ["revert", i] => {
                let i: usize = i.parse().ok()?;
                let cp = *self.cps.get(i)?;
                js.checkpoint_revert(cp);
                format!("ok restored={}", b01(self.snaps[i] == abs_dump(js, db)))
            }
            _ => return None,
        };
        Some(r)
    }

    pub fn line(&mut self, line: &str) -> String {
        let t: Vec<&str> = line.split(' ').collect();
        if t.len() >= 2 && t[0] == "begin" && t[1] == "journal" {
            return self.begin(&t[2..]);
        }
        if t[0] != "j" {
            return "bad-op".into();
        }
        if self.dead {
            return "dead".into();
        }
        let res = std::panic::catch_unwind(std::panic::AssertUnwindSafe(|| self.op(&t[1..])));
        match res {
            Ok(Some(r)) => format!("{} || {}", r, dump(&self.js)),
            Ok(None) => "bad-op".into(),
            Err(_) => {
                self.dead = true;
                "panic".into()
            }
        }
    }
}

pub fn balances() -> Vec<U256> {
    vec![
        U256::ZERO, U256::from(1), U256::from(2), U256::from(1000), U256::from(1u64 << 40),
        U256::from(1) << 255, U256::MAX - U256::from(1), U256::MAX, U256::MAX - U256::from(1000),
    ]
}

/// one generated case; `mode`: 0 structured-valid, 1 boundary-heavy (huge balances), 2 malformed
fn gen_case(rng: &mut Rng, len: usize, mode: u8, lines: &mut Vec<String>, out: &mut Out) {
    let specs = [0u8, 2, 4, 5, 6, 11, 12, 16, 17, 18, 19];
    let spec = *rng.pick(&specs);
    let codes = code_table();
    let bals = balances();
    let bal = |rng: &mut Rng| -> U256 {
        if mode == 1 || rng.chance(1, 4) { *rng.pick(&bals) } else { U256::from(rng.below(5000)) }
    };
    // database
    let mut accs = vec![];
    for i in 1..=8u64 {
        if rng.chance(3, 5) {
            let c = if rng.chance(1, 3) { rng.below(codes.len() as u64) as usize } else { 0 };
            let nonce = match rng.below(6) { 0 => u64::MAX, 1 => u64::MAX - 1, 2 | 3 => 0, _ => rng.below(5) };
            let nonce = if c == 0 && rng.chance(1, 2) { 0 } else { nonce };
            accs.push(format!("{:x}:{}:{:x}:{}", i, hx(bal(rng)), nonce, hx(h2w(codes[c].hash_slow()))));
        }
    }
    let mut sto = vec![];
    for i in 1..=8u64 {
        for k in 0..4u64 {
            if rng.chance(1, 4) {
                sto.push(format!("{:x}.{:x}={}", i, k, hx(U256::from(rng.range(1, 9)))));
            }
        }
    }
    let mut pre = vec![];
    for i in 1..=8u64 {
        if rng.chance(1, 5) { pre.push(format!("{:x}", i)); }
    }
    let j = |v: &Vec<String>, sep: &str| if v.is_empty() { "-".to_string() } else { v.join(sep) };
    let del = format!("{}:4;{}:7", hx(h2w(codes[3].hash_slow())), hx(h2w(codes[4].hash_slow())));
    let mut ex = Exec::new();
    let first = format!("begin journal {} {} {} {} {}", spec, j(&pre, ","), j(&accs, ";"), j(&sto, ";"), del);
    let r = ex.line(&first);
    lines.push(first);
    let _ = r;
    let mut open: Vec<usize> = vec![]; // indices of open checkpoints (well-nested view)
    for _ in 0..len {
        if ex.dead { break; }
        let loaded: Vec<u64> = (1..=8u64).filter(|i| ex.js.state.contains_key(&addr(*i))).collect();
        let any = |rng: &mut Rng| rng.range(1, 8);
        let present = |rng: &mut Rng| -> u64 {
            if loaded.is_empty() || (mode == 2 && rng.chance(1, 6)) { rng.range(1, 8) } else { *rng.pick(&loaded) }
        };
        let mut w = rng.below(100);
        // operations that need a present account are preceded by a load unless the case is malformed
        if loaded.is_empty() && mode != 2 && matches!(w, 36..=62 | 73..=83) {
            w = 0;
        }
        let l = match w {
            0..=9 => format!("j load {:x}", any(rng)),
            10..=13 => format!("j loadcode {:x}", any(rng)),
            14..=17 => format!("j loaddel {:x}", any(rng)),
            18..=19 => {
                let ks: Vec<String> = (0..4u64).filter(|_| rng.chance(1, 2)).map(|k| format!("{:x}", k)).collect();
                format!("j initload {:x} {}", any(rng), j(&ks, ","))
            }
            20..=23 => format!("j touch {:x}", any(rng)),
            24..=35 => {
                let f = any(rng);
                let t = if rng.chance(1, 10) { f } else { any(rng) };
                let v = match rng.below(4) {
                    0 => U256::ZERO,
                    1 => ex.js.state.get(&addr(f)).map(|a| a.info.balance).unwrap_or_default(),
                    2 => bal(rng),
                    _ => U256::from(rng.below(50)),
                };
                format!("j transfer {:x} {:x} {}", f, t, hx(v))
            }
            36..=40 => format!("j incnonce {:x}", present(rng)),
            41..=44 => {
                let c = rng.below(codes.len() as u64) as usize;
                format!("j setcode {:x} {}", present(rng), hx(h2w(codes[c].hash_slow())))
            }
            45..=52 => format!("j sload {:x} {:x}", present(rng), rng.below(4)),
            53..=62 => {
                let v = if rng.chance(1, 3) { U256::ZERO } else { U256::from(rng.below(9)) };
                format!("j sstore {:x} {:x} {}", present(rng), rng.below(4), hx(v))
            }
            63..=64 => format!("j tload {:x} {:x}", any(rng), rng.below(4)),
            65..=69 => {
                let v = if rng.chance(1, 3) { U256::ZERO } else { U256::from(rng.below(5)) };
                format!("j tstore {:x} {:x} {}", any(rng), rng.below(4), hx(v))
            }
            70..=72 => format!("j log {:x}", rng.below(40)),
            73..=77 => {
                let a = present(rng);
                let t = if rng.chance(1, 4) { a } else { any(rng) };
                format!("j selfdestruct {:x} {:x}", a, t)
            }
            78..=83 => {
                let c = present(rng);
                let a = present(rng);
                // has_storage is passed faithfully (what the database would say) except in malformed mode
                let faithful = (0..4u64).any(|k| ex.db.storage.contains_key(&(addr(a), U256::from(k))));
                let hs = if mode == 2 && rng.chance(1, 3) { !faithful } else { faithful };
                let cbal = ex.js.state.get(&addr(c)).map(|x| x.info.balance).unwrap_or_default();
                let v = match rng.below(3) { 0 => U256::ZERO, 1 => cbal, _ => if cbal.is_zero() { U256::ZERO } else { U256::from(rng.below(50)).min(cbal) } };
                let v = if mode == 2 && rng.chance(1, 5) { bal(rng) } else { v };
                let sp = if rng.chance(1, 8) { *rng.pick(&specs) } else { spec };
                format!("j create {:x} {:x} {} {} {}", c, a, b01(hs), hx(v), sp)
            }
            84..=90 => "j checkpoint".to_string(),
            91..=94 => {
                if open.is_empty() && mode != 2 { "j checkpoint".to_string() } else { "j commit".to_string() }
            }
            _ => {
                if open.is_empty() {
                    "j checkpoint".to_string()
                } else if rng.chance(4, 5) {
                    format!("j revert {}", open[open.len() - 1])
                } else {
                    format!("j revert {}", *rng.pick(&open))
                }
            }
        };
        let before_cps = ex.cps.len();
        let r = ex.line(&l);
        out.count(&format!("op:{}", l.split(' ').nth(1).unwrap_or("?")));
        if r == "panic" { out.count("panics"); }
        if r.starts_with("err") { out.count(&format!("result:{}", r.split(" ||").next().unwrap())); }
        // bookkeeping of the open-checkpoint stack
        if ex.cps.len() > before_cps {
            open.push(ex.cps.len() - 1);
        } else if l == "j commit" {
            open.pop();
        } else if let Some(i) = l.strip_prefix("j revert ") {
            let i: usize = i.parse().unwrap();
            while let Some(top) = open.pop() {
                if top == i { break; }
            }
        }
        lines.push(l);
    }
    out.count(&format!("mode:{}", mode));
}

pub fn gen(seed: u64, n: usize, out: &mut Out) -> Vec<String> {
    let mut rng = Rng::new(seed ^ 0xC06);
    let mut lines = vec![];
    let mut scratch = Out::new();
    for _ in 0..n {
        let mode = match rng.below(10) { 0..=6 => 0, 7..=8 => 1, _ => 2 };
        let len = rng.range(5, 60) as usize;
        gen_case(&mut rng, len, mode, &mut lines, &mut scratch);
    }
    for (k, v) in scratch.dist {
        *out.dist.entry(k).or_insert(0) += v;
    }
    lines
}

pub fn run(seed: u64, n: usize, replay: Option<Vec<String>>, out: &mut Out) {
    let lines = replay.unwrap_or_else(|| gen(seed, n, out));
    let mut ex = Exec::new();
    for l in lines {
        let r = ex.line(&l);
        out.push(l, r);
    }
}
