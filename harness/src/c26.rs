//! C26: EOF container codec + validation, component `eof`.
//!
//! requests (all bytes lowercase hex, `-` = empty byte string):
//!   `eof decode <hex>`                       -> `ok <summary>` | `err <EofDecodeError>` | `panic`
//!   `eof dangling <hex>`                     -> `ok <summary> dangling=<hex>` | `err ..` | `panic`
//!   `eof build <types> <codes> <conts> <data>` (`EofBody::into_eof`; types `i.o.m;..`, lists
//!        comma separated, `_` = empty list) -> `raw=<hex> dec=ok same=<0|1>` | `raw=<hex> dec=err <kind>`
//!   `eof validate <rc|rs|none> <hex>`        -> `ok det=1` | `err <kind> det=1` | `panic`
//!        (`validate_raw_eof_inner` with first code type ReturnContract / ReturnOrStop / None;
//!         decode errors are `Decode.<kind>`; det = the second call returned the same verdict)
//!   `eof exec <rc|rs|none> <hex>`            -> `acc=<0|1> safe` | `acc=1 panic`
//!        (every container the real validator accepts is run through the real interpreter:
//!         OSAKA instruction table, DummyHost, bounded gas, dummy outcomes for calls/creates;
//!         a Rust panic anywhere is the reply `acc=1 panic`)
//! summary: `hs=<header size> bs=<body size> ts=.. cs=.. ks=.. ds=.. sc=.. sk=.. types=.. code=.. cont=..
//!           data=.. filled=<0|1> rt=<1 iff encode_slow() == input and raw == input>`
use crate::*;
use revm::interpreter::analysis::{validate_raw_eof_inner, CodeType, EofError};
use revm::interpreter::{
    opcode::make_instruction_table, CallOutcome, Contract, CreateOutcome, DummyHost, Gas,
    InstructionResult, Interpreter, InterpreterAction, InterpreterResult, SharedMemory,
};
use revm::primitives::{
    eof::{EofBody, TypesSection},
    Address, Bytecode, Bytes, Eof, OsakaSpec, U256,
};
use std::sync::Arc;

fn rb(rng: &mut Rng, below: u64) -> Vec<u8> {
    let n = rng.below(below) as usize;
    rng.bytes(n)
}

fn unhex(s: &str) -> Option<Vec<u8>> {
    if s == "-" {
        return Some(vec![]);
    }
    if s.len() % 2 != 0 {
        return None;
    }
    let b = s.as_bytes();
    let d = |c: u8| match c {
        b'0'..=b'9' => Some(c - b'0'),
        b'a'..=b'f' => Some(c - b'a' + 10),
        b'A'..=b'F' => Some(c - b'A' + 10),
        _ => None,
    };
    let mut v = Vec::with_capacity(b.len() / 2);
    for i in (0..b.len()).step_by(2) {
        v.push(d(b[i])? * 16 + d(b[i + 1])?);
    }
    Some(v)
}

fn list<T, F: Fn(&T) -> String>(xs: &[T], f: F) -> String {
    if xs.is_empty() {
        "_".into()
    } else {
        xs.iter().map(f).collect::<Vec<_>>().join(",")
    }
}

fn summary(e: &Eof, input: &[u8]) -> String {
    let h = &e.header;
    let b = &e.body;
    let rt = e.encode_slow().as_ref() == input && e.raw.as_ref() == input;
    format!(
        "hs={} bs={} ts={} cs={} ks={} ds={} sc={} sk={} types={} code={} cont={} data={} filled={} rt={}",
        h.size(),
        h.body_size(),
        h.types_size,
        list(&h.code_sizes, |x| x.to_string()),
        list(&h.container_sizes, |x| x.to_string()),
        h.data_size,
        h.sum_code_sizes,
        h.sum_container_sizes,
        list(&b.types_section, |t| format!("{}.{}.{}", t.inputs, t.outputs, t.max_stack_size)),
        list(&b.code_section, |c| hxb(c)),
        list(&b.container_section, |c| hxb(c)),
        hxb(&b.data_section),
        b01(b.is_data_filled),
        b01(rt)
    )
}

fn mode(s: &str) -> Option<Option<CodeType>> {
    match s {
        "rc" => Some(Some(CodeType::ReturnContract)),
        "rs" => Some(Some(CodeType::ReturnOrStop)),
        "none" => Some(None),
        _ => None,
    }
}

fn verdict(r: &Result<Eof, EofError>) -> String {
    match r {
        Ok(_) => "ok".into(),
        Err(EofError::Decode(e)) => format!("err Decode.{:?}", e),
        Err(EofError::Validation(e)) => format!("err {:?}", e),
    }
}

/// run an accepted container through the real interpreter
fn execute(eof: Eof, is_init: bool, seed: u64) -> String {
    let mut rng = Rng::new(seed);
    let input: Bytes = rb(&mut rng, 70).into();
    let contract = Contract::new(
        input,
        Bytecode::Eof(Arc::new(eof)),
        None,
        Address::with_last_byte(0xC0),
        None,
        Address::with_last_byte(0xCA),
        U256::from(rng.below(3)),
    );
    let mut interp = Interpreter::new(contract, 300_000, false);
    if is_init {
        interp.set_is_eof_init();
    }
    // a few words on the stack are NOT provided: section 0 has zero inputs.
    let mut host = DummyHost::default();
    let table = make_instruction_table::<DummyHost, OsakaSpec>();
    let mut mem = SharedMemory::new();
    let mut steps = 0;
    loop {
        steps += 1;
        let action = interp.run(mem, &table, &mut host);
        mem = interp.take_memory();
        match action {
            InterpreterAction::Return { result } => return format!("{:?}", result.result),
            InterpreterAction::None => return "none".into(),
            _ if steps > 40 => return "many-actions".into(),
            InterpreterAction::Call { inputs } => {
                let k = rng.below(3);
                let res = match k {
                    0 => InstructionResult::Return,
                    1 => InstructionResult::Revert,
                    _ => InstructionResult::OutOfGas,
                };
                let out: Bytes = rb(&mut rng, 40).into();
                let mut gas = Gas::new(inputs.gas_limit);
                let _ = gas.record_cost(inputs.gas_limit / 2);
                let outcome = CallOutcome::new(
                    InterpreterResult { result: res, output: out, gas },
                    inputs.return_memory_offset.clone(),
                );
                interp.insert_call_outcome(&mut mem, outcome);
            }
            InterpreterAction::EOFCreate { inputs } => {
                let ok = rng.chance(2, 3);
                let mut gas = Gas::new(inputs.gas_limit);
                let _ = gas.record_cost(inputs.gas_limit / 2);
                let outcome = CreateOutcome::new(
                    InterpreterResult {
                        result: if ok { InstructionResult::ReturnContract } else { InstructionResult::Revert },
                        output: Bytes::new(),
                        gas,
                    },
                    if ok { Some(Address::with_last_byte(0xEE)) } else { None },
                );
                interp.insert_eofcreate_outcome(outcome);
            }
            InterpreterAction::Create { inputs } => {
                let gas = Gas::new(inputs.gas_limit);
                let outcome = CreateOutcome::new(
                    InterpreterResult { result: InstructionResult::Revert, output: Bytes::new(), gas },
                    None,
                );
                interp.insert_create_outcome(outcome);
            }
        }
    }
}

fn parse_types(s: &str) -> Option<Vec<TypesSection>> {
    if s == "_" {
        return Some(vec![]);
    }
    let mut v = vec![];
    for t in s.split(',') {
        let p: Vec<&str> = t.split('.').collect();
        if p.len() != 3 {
            return None;
        }
        v.push(TypesSection::new(p[0].parse().ok()?, p[1].parse().ok()?, p[2].parse().ok()?));
    }
    Some(v)
}
fn parse_list(s: &str) -> Option<Vec<Bytes>> {
    if s == "_" {
        return Some(vec![]);
    }
    s.split(',').map(|x| unhex(x).map(Bytes::from)).collect()
}

pub fn exec_line(line: &str) -> String {
    let t: Vec<&str> = line.split(' ').collect();
    if t.len() < 3 || t[0] != "eof" {
        return "bad-op".into();
    }
    match (t[1], t.len()) {
        ("decode", 3) => {
            let Some(bs) = unhex(t[2]) else { return "bad-op".into() };
            guarded(move || match Eof::decode(Bytes::from(bs.clone())) {
                Ok(e) => format!("ok {}", summary(&e, &bs)),
                Err(e) => format!("err {:?}", e),
            })
        }
        ("dangling", 3) => {
            let Some(bs) = unhex(t[2]) else { return "bad-op".into() };
            guarded(move || match Eof::decode_dangling(Bytes::from(bs.clone())) {
                Ok((e, d)) => {
                    // the container part must re-encode to the prefix, the rest is `d`
                    let pre = &bs[..bs.len() - d.len()];
                    let joined = [e.encode_slow().as_ref(), d.as_ref()].concat() == bs;
                    format!("ok {} dangling={} joined={}", summary(&e, pre), hxb(&d), b01(joined))
                }
                Err(e) => format!("err {:?}", e),
            })
        }
        ("build", 6) => {
            let (Some(types), Some(codes), Some(conts), Some(data)) =
                (parse_types(t[2]), parse_list(t[3]), parse_list(t[4]), unhex(t[5]))
            else {
                return "bad-op".into();
            };
            guarded(move || {
                let body = EofBody {
                    types_section: types,
                    code_section: codes,
                    container_section: conts,
                    data_section: data.into(),
                    is_data_filled: true,
                };
                let eof = body.into_eof();
                let dec = match Eof::decode(eof.raw.clone()) {
                    Ok(d) => format!("ok same={}", b01(d == eof)),
                    Err(e) => format!("err {:?}", e),
                };
                format!("raw={} dec={}", hxb(&eof.raw), dec)
            })
        }
        ("validate", 4) => {
            let (Some(m), Some(bs)) = (mode(t[2]), unhex(t[3])) else { return "bad-op".into() };
            guarded(move || {
                let a = validate_raw_eof_inner(Bytes::from(bs.clone()), m);
                let b = validate_raw_eof_inner(Bytes::from(bs.clone()), m);
                format!("{} det={}", verdict(&a), b01(a == b))
            })
        }
        ("exec", 4) => {
            let (Some(m), Some(bs)) = (mode(t[2]), unhex(t[3])) else { return "bad-op".into() };
            let seed = bs.iter().fold(0xC26u64, |a, b| a.wrapping_mul(31).wrapping_add(*b as u64));
            let a = guarded(move || match validate_raw_eof_inner(Bytes::from(bs), m) {
                Ok(eof) => {
                    // a container is run as initcode iff it was validated as ReturnContract, or (mode
                    // none) both ways
                    let is_init = match m {
                        Some(CodeType::ReturnContract) => true,
                        Some(CodeType::ReturnOrStop) => false,
                        None => seed % 2 == 0,
                    };
                    let r = execute(eof, is_init, seed);
                    let _ = r;
                    "acc=1 safe".to_string()
                }
                Err(_) => "acc=0 safe".to_string(),
            });
            if a == "panic" { "acc=1 panic".into() } else { a }
        }
        _ => "bad-op".into(),
    }
}

// ------------------------------------------------------------------ generators

/// all `"code": "0x…"` strings of the shipped vectors (read at run time; empty files skipped)
pub fn suite_codes() -> Vec<Vec<u8>> {
    fn walk(p: &std::path::Path, out: &mut Vec<std::path::PathBuf>) {
        if let Ok(rd) = std::fs::read_dir(p) {
            let mut es: Vec<_> = rd.filter_map(|e| e.ok()).map(|e| e.path()).collect();
            es.sort();
            for e in es {
                if e.is_dir() {
                    walk(&e, out);
                } else if e.extension().map(|x| x == "json").unwrap_or(false) {
                    out.push(e);
                }
            }
        }
    }
    let mut files = vec![];
    walk(std::path::Path::new("/repo/tests/eof_suite"), &mut files);
    let mut seen = std::collections::BTreeSet::new();
    let mut codes = vec![];
    for f in files {
        let Ok(s) = std::fs::read_to_string(&f) else { continue };
        if s.trim().is_empty() {
            continue;
        }
        let pat = "\"code\"";
        let mut i = 0;
        while let Some(p) = s[i..].find(pat) {
            let j = i + p + pat.len();
            i = j;
            let rest = &s[j..];
            let Some(q) = rest.find('"') else { break };
            if rest[..q].trim() != ":" {
                continue;
            }
            let body = &rest[q + 1..];
            let Some(e) = body.find('"') else { break };
            let lit = &body[..e];
            let lit = lit.strip_prefix("0x").unwrap_or(lit);
            if let Some(b) = unhex(if lit.is_empty() { "-" } else { lit }) {
                if !b.is_empty() && seen.insert(b.clone()) {
                    codes.push(b);
                }
            }
        }
    }
    codes
}

struct SecSpec {
    inputs: u8,
    outputs: u8, // 0x80 = non returning
}

/// emit one code section whose stack heights are tracked exactly; returns (code, max_stack)
#[allow(clippy::too_many_arguments)]
fn gen_section(
    rng: &mut Rng,
    idx: usize,
    secs: &[SecSpec],
    maxes: &[u16], // max stack of already generated sections (higher indices are generated first)
    ncont: usize,
    data_size: usize,
    initcode: bool,
    sloppy: bool,
) -> (Vec<u8>, u16) {
    let me = &secs[idx];
    let mut c: Vec<u8> = vec![];
    let mut h: i32 = me.inputs as i32;
    let mut maxh = h;
    let push0 = |c: &mut Vec<u8>, h: &mut i32, maxh: &mut i32| {
        c.push(0x5f);
        *h += 1;
        if *h > *maxh {
            *maxh = *h;
        }
    };
    let nblocks = rng.below(9);
    let mut conts_left: Vec<usize> = (0..ncont).collect();
    for _ in 0..nblocks {
        if h > 900 {
            break;
        }
        match rng.below(22) {
            0 | 1 => push0(&mut c, &mut h, &mut maxh),
            2 => {
                let n = rng.range(1, 4) as usize;
                c.push(0x5f + n as u8);
                c.extend(rng.bytes(n));
                h += 1;
                maxh = maxh.max(h);
            }
            3 if h > 0 => {
                c.push(0x50);
                h -= 1;
            }
            4 if h >= 2 => {
                c.push(*rng.pick(&[0x01u8, 0x02, 0x03, 0x10, 0x16, 0x1b]));
                h -= 1;
            }
            5 if h >= 1 => {
                // DUPN
                let n = rng.below(h.min(256) as u64) as u8;
                c.extend([0xe6, n]);
                h += 1;
                maxh = maxh.max(h);
            }
            6 if h >= 2 => {
                let n = rng.below((h - 1).min(256) as u64) as u8;
                c.extend([0xe7, n]);
            }
            7 if h >= 3 => {
                // EXCHANGE n,m with n+m+1 <= h
                let n = rng.range(1, ((h - 2).min(16)) as u64) as u8;
                let mmax = (h - 1 - n as i32).min(16);
                if mmax >= 1 {
                    let m = rng.range(1, mmax as u64) as u8;
                    c.extend([0xe8, ((n - 1) << 4) | (m - 1)]);
                }
            }
            8 => {
                // forward conditional jump over a net-zero block
                push0(&mut c, &mut h, &mut maxh);
                let blk: &[u8] = match rng.below(3) {
                    0 => &[0x5b],
                    1 => &[0x5f, 0x50],
                    _ => &[0x5f, 0x5f, 0x01, 0x50],
                };
                c.extend([0xe1, 0, blk.len() as u8]);
                h -= 1;
                let extra = blk.iter().filter(|b| **b == 0x5f).count() as i32;
                maxh = maxh.max(h + extra.min(2));
                c.extend(blk);
            }
            9 => {
                // RJUMPV with all entries pointing at the join point (offset = distance)
                push0(&mut c, &mut h, &mut maxh);
                let n = rng.range(1, 4) as usize;
                c.extend([0xe2, (n - 1) as u8]);
                let blk: &[u8] = &[0x5b, 0x5b];
                for k in 0..n {
                    let off = if k % 2 == 0 { 0u16 } else { blk.len() as u16 };
                    c.extend(off.to_be_bytes());
                }
                h -= 1;
                c.extend(blk);
            }
            10 => {
                // backward loop: NOP ; PUSH0 ; RJUMPI back
                let p = c.len();
                c.push(0x5b);
                push0(&mut c, &mut h, &mut maxh);
                let here = c.len();
                let off = (p as i32) - (here as i32 + 3);
                c.push(0xe1);
                c.extend((off as i16).to_be_bytes());
                h -= 1;
            }
            11 => {
                // RJUMP +0
                c.extend([0xe0, 0, 0]);
            }
            12 => {
                // CALLF to a later returning section
                let cands: Vec<usize> = (idx + 1..secs.len())
                    .filter(|j| secs[*j].outputs != 0x80 && (secs[*j].inputs as i32) <= h)
                    .collect();
                if !cands.is_empty() {
                    let j = *rng.pick(&cands);
                    if h - secs[j].inputs as i32 + maxes[j] as i32 <= 1024 {
                        c.push(0xe3);
                        c.extend((j as u16).to_be_bytes());
                        h = h - secs[j].inputs as i32 + secs[j].outputs as i32;
                        maxh = maxh.max(h);
                    }
                }
            }
            13 if data_size >= 32 => {
                let i = rng.below((data_size - 32 + 1) as u64) as u16;
                c.push(0xd1);
                c.extend(i.to_be_bytes());
                h += 1;
                maxh = maxh.max(h);
            }
            14 => {
                c.push(*rng.pick(&[0xd2u8, 0x30, 0x33, 0x36, 0x3d, 0x59, 0x34]));
                h += 1;
                maxh = maxh.max(h);
            }
            15 if h >= 1 => {
                c.push(*rng.pick(&[0xd0u8, 0x35, 0x51, 0x54, 0x15, 0xf7, 0x31]));
            }
            16 if h >= 2 => {
                c.push(*rng.pick(&[0x52u8, 0x55, 0x53, 0xa0, 0x5d]));
                h -= 2;
            }
            17 if h >= 3 => {
                c.push(*rng.pick(&[0xd3u8, 0x37, 0x3e, 0x5e]));
                h -= 3;
            }
            18 => {
                // EXTCALL with zero args
                for _ in 0..4 {
                    push0(&mut c, &mut h, &mut maxh);
                }
                c.push(*rng.pick(&[0xf8u8, 0xf8, 0xf9, 0xfb]));
                let op = *c.last().unwrap();
                h -= if op == 0xf8 { 4 } else { 3 };
                h += 1;
                if op != 0xf8 {
                    c.push(0x50);
                    h -= 1;
                }
            }
            19 if !conts_left.is_empty() && !initcode => {
                // EOFCREATE
                let k = conts_left.remove(0);
                for _ in 0..4 {
                    push0(&mut c, &mut h, &mut maxh);
                }
                c.extend([0xec, k as u8]);
                h -= 3;
            }
            _ => {}
        }
        if sloppy && rng.chance(1, 6) {
            // deliberately unbalanced / odd byte
            c.push(rng.next() as u8);
        }
    }
    // sub-containers that are still unreferenced (runtime containers: EOFCREATE them)
    if idx == 0 && !initcode {
        for k in conts_left.drain(..) {
            for _ in 0..4 {
                push0(&mut c, &mut h, &mut maxh);
            }
            c.extend([0xec, k as u8, 0x50]);
            h -= 4;
        }
    }
    // make sure section idx+1 is reached: CALLF if it is returning, JUMPF (terminator) otherwise
    let next = idx + 1;
    let mut terminated = false;
    if next < secs.len() {
        let nx = &secs[next];
        while h < nx.inputs as i32 {
            push0(&mut c, &mut h, &mut maxh);
        }
        if nx.outputs != 0x80 {
            c.push(0xe3);
            c.extend((next as u16).to_be_bytes());
            h = h - nx.inputs as i32 + nx.outputs as i32;
            maxh = maxh.max(h);
        } else {
            c.push(0xe5);
            c.extend((next as u16).to_be_bytes());
            terminated = true;
        }
    }
    if !terminated {
        if me.outputs == 0x80 {
            // non-returning: STOP / RETURN / REVERT / INVALID / RETURNCONTRACT
            if initcode {
                if idx == 0 && ncont > 0 {
                    push0(&mut c, &mut h, &mut maxh);
                    push0(&mut c, &mut h, &mut maxh);
                    c.extend([0xee, rng.below(ncont as u64) as u8]);
                } else {
                    match rng.below(2) {
                        0 => c.push(0xfe),
                        _ => {
                            push0(&mut c, &mut h, &mut maxh);
                            push0(&mut c, &mut h, &mut maxh);
                            c.push(0xfd);
                        }
                    }
                }
            } else {
                match rng.below(4) {
                    0 => c.push(0x00),
                    1 => c.push(0xfe),
                    k => {
                        push0(&mut c, &mut h, &mut maxh);
                        push0(&mut c, &mut h, &mut maxh);
                        c.push(if k == 2 { 0xf3 } else { 0xfd });
                    }
                }
            }
        } else {
            // returning: bring the height to exactly `outputs`, RETF
            while h > me.outputs as i32 {
                c.push(0x50);
                h -= 1;
            }
            while h < me.outputs as i32 {
                push0(&mut c, &mut h, &mut maxh);
            }
            c.push(0xe4);
        }
    }
    (c, maxh.clamp(0, 1023) as u16)
}

/// structurally generated container; `initcode`: RETURNCONTRACT-style (needs a sub-container)
pub fn gen_container(rng: &mut Rng, initcode: bool, depth: u32, sloppy: bool) -> Vec<u8> {
    let nsec = if rng.chance(1, 2) { 1 } else { rng.range(2, 4) as usize };
    let mut secs = vec![SecSpec { inputs: 0, outputs: 0x80 }];
    for _ in 1..nsec {
        let nonret = rng.chance(1, 3);
        secs.push(SecSpec {
            inputs: rng.below(4) as u8,
            outputs: if nonret { 0x80 } else { rng.below(4) as u8 },
        });
    }
    let ncont = if initcode {
        1 + (rng.below(4) == 0) as usize
    } else if depth < 2 && rng.chance(1, 3) {
        rng.range(1, 2) as usize
    } else {
        0
    };
    let conts: Vec<Vec<u8>> = (0..ncont)
        .map(|_| { let sl = sloppy && rng.chance(1, 4); gen_container(rng, !initcode, depth + 1, sl) })
        .collect();
    let data_size = *rng.pick(&[0usize, 0, 1, 31, 32, 33, 64]);
    let data = rng.bytes(data_size);
    let mut codes = vec![vec![]; nsec];
    let mut maxes = vec![0u16; nsec];
    for idx in (0..nsec).rev() {
        let (c, m) = gen_section(rng, idx, &secs, &maxes, ncont, data_size, initcode, sloppy);
        codes[idx] = c;
        maxes[idx] = m;
    }
    // initcode containers must reference every sub-container by RETURNCONTRACT; section 0 does one,
    // extra ones stay unreferenced on purpose (SubContainerNotAccessed)
    let body = EofBody {
        types_section: secs
            .iter()
            .zip(&maxes)
            .map(|(s, m)| TypesSection::new(s.inputs, s.outputs, *m))
            .collect(),
        code_section: codes.into_iter().map(Bytes::from).collect(),
        container_section: conts.into_iter().map(Bytes::from).collect(),
        data_section: data.into(),
        is_data_filled: true,
    };
    body.into_eof().raw.to_vec()
}

fn mutate(rng: &mut Rng, mut b: Vec<u8>) -> Vec<u8> {
    if b.is_empty() {
        return b;
    }
    match rng.below(10) {
        0 => {
            let i = rng.below(b.len() as u64) as usize;
            b[i] ^= 1 << rng.below(8);
        }
        8 | 9 => {
            // nudge a byte by a small amount (relative-jump offsets, vtable sizes, section indices
            // move to the neighbouring value: jump into / just past an immediate)
            let i = rng.below(b.len() as u64) as usize;
            let d = *rng.pick(&[1u8, 2, 3, 4, 0xff, 0xfe, 0xfd, 0xfc]);
            b[i] = b[i].wrapping_add(d);
        }
        1 => {
            let i = rng.below(b.len() as u64) as usize;
            b[i] = rng.next() as u8;
        }
        2 => {
            let n = rng.below(b.len() as u64) as usize;
            b.truncate(n);
        }
        3 => {
            let n = rng.range(1, 5) as usize;
            b.extend(rng.bytes(n));
        }
        4 => {
            // hit the header (first 24 bytes) specifically
            let i = rng.below(b.len().min(24) as u64) as usize;
            b[i] = *rng.pick(&[0u8, 1, 2, 3, 4, 5, 0x7f, 0x80, 0xff]);
        }
        5 => {
            let i = rng.below(b.len() as u64) as usize;
            b.remove(i);
        }
        6 => {
            let i = rng.below(b.len() as u64) as usize;
            b.insert(i, rng.next() as u8);
        }
        _ => {
            // opcode-level: replace a byte with an interesting EOF opcode
            let i = rng.below(b.len() as u64) as usize;
            b[i] = *rng.pick(&[0xe0u8, 0xe1, 0xe2, 0xe3, 0xe4, 0xe5, 0xe6, 0xe7, 0xe8, 0xec, 0xee, 0xd1, 0x00, 0xf3, 0x56, 0x5b]);
        }
    }
    b
}

fn random_headerish(rng: &mut Rng) -> Vec<u8> {
    // a header-shaped prefix with random fields, followed by random bytes
    let mut v = vec![0xef, 0x00, 0x01, 0x01];
    let nsec = *rng.pick(&[0u16, 1, 1, 1, 2, 3, 1024, 1025]);
    let ts = if rng.chance(4, 5) { nsec.wrapping_mul(4) } else { rng.below(40) as u16 };
    v.extend(ts.to_be_bytes());
    v.push(0x02);
    v.extend(nsec.to_be_bytes());
    let shown = (nsec as usize).min(if rng.chance(1, 8) { 1100 } else { 6 });
    let mut sum = 0usize;
    for _ in 0..shown {
        let s = *rng.pick(&[0u16, 1, 1, 2, 3, 5]);
        sum += s as usize;
        v.extend(s.to_be_bytes());
    }
    let ncont = *rng.pick(&[0u16, 0, 0, 1, 2, 256, 257]);
    if ncont > 0 || rng.chance(1, 10) {
        v.push(0x03);
        v.extend(ncont.to_be_bytes());
        for _ in 0..(ncont as usize).min(if rng.chance(1, 4) { 300 } else { 3 }) {
            let s = *rng.pick(&[0u16, 1, 20, 21]);
            sum += s as usize;
            v.extend(s.to_be_bytes());
        }
    }
    v.push(if rng.chance(9, 10) { 0x04 } else { rng.next() as u8 });
    let ds = *rng.pick(&[0u16, 0, 1, 2, 32, 0xffff]);
    v.extend(ds.to_be_bytes());
    v.push(if rng.chance(9, 10) { 0 } else { rng.next() as u8 });
    let body = match rng.below(4) {
        0 => sum + ts as usize,
        1 => sum + ts as usize + ds as usize,
        2 => (sum + ts as usize + ds as usize).saturating_sub(1),
        _ => rng.below(40) as usize,
    };
    let mut bb = rng.bytes(body.min(5000));
    // make types plausible sometimes
    if rng.chance(1, 2) {
        for k in 0..(ts as usize / 4).min(bb.len() / 4) {
            bb[4 * k] = if k == 0 { 0 } else { rng.below(3) as u8 };
            bb[4 * k + 1] = if k == 0 { 0x80 } else { rng.below(3) as u8 };
            bb[4 * k + 2] = 0;
            bb[4 * k + 3] = rng.below(4) as u8;
        }
    }
    v.extend(bb);
    if rng.chance(1, 6) {
        let n = rng.below(v.len() as u64 + 1) as usize;
        v.truncate(n);
    }
    v
}

// ------------------------------------------------------------------ family "jump into immediates"
//
// Complete cross product, emitted on every run (independent of the budget):
//   target instruction T with immediates (PUSH1/2/4/32, DATALOADN, RJUMP, RJUMPI, RJUMPV incl. its
//     count byte and every table byte, CALLF, JUMPF, DUPN, SWAPN, EXCHANGE, EOFCREATE, RETURNCONTRACT;
//     plus "bait" variants whose immediate bytes decode as RETF when jumped to)
//   x jump source (RJUMP, RJUMPI, RJUMPV first entry, RJUMPV last entry; always TAKEN at run time)
//   x direction (source before T = forward into a LATER instruction, source after T = backward)
//   x (forward only) 0 / 1 filler instruction between source and T
//   x landing byte: T's first byte (valid), every immediate byte (first / middle / last for long
//     immediates), the byte right after T (valid).
// Everything else about the container is valid (types, max stack height, terminators, accessed
// sections / sub-containers), so the verdict hinges on the immediate bookkeeping alone:
// forward => JumpToImmediateBytes (found when T's immediates are marked), backward =>
// BackwardJumpToImmediateBytes, neighbours => ok (and the container is executed).

struct Asm {
    c: Vec<u8>,
    h: i32,
    peak: i32,
}
impl Asm {
    fn op(&mut self, bytes: &[u8], ins: i32, outs: i32) {
        assert!(self.h >= ins, "family: stack underflow in generator");
        self.c.extend_from_slice(bytes);
        self.h = self.h - ins + outs;
        self.peak = self.peak.max(self.h);
    }
    fn push0(&mut self, n: i32) {
        for _ in 0..n {
            self.op(&[0x5f], 0, 1);
        }
    }
}

#[derive(Clone, Copy, PartialEq)]
enum Aux {
    None,
    CallfSection,   // section 1 = RETF, types (0, 0, 0)
    JumpfSection,   // section 1 = STOP, types (0, 0x80, 0)
    InitSub,        // sub-container 0 = initcode container (EOFCREATE)
    RuntimeSub,     // sub-container 0 = runtime container; this container is initcode (RETURNCONTRACT)
}

#[derive(Clone)]
struct TSpec {
    bytes: Vec<u8>,
    ins: i32,
    outs: i32,
    terminating: bool,
    /// T makes the byte after itself a jump destination (RJUMP +0)
    self_access: bool,
    aux: Aux,
    data: usize,
    /// NOPs right after T (room for the RJUMPV bait entry +228)
    pad: usize,
}

fn t_specs() -> Vec<TSpec> {
    let t = |bytes: Vec<u8>, ins: i32, outs: i32| TSpec {
        bytes, ins, outs, terminating: false, self_access: false, aux: Aux::None, data: 0, pad: 0,
    };
    let mut push32 = vec![0x7fu8];
    push32.extend((1..=32).map(|k| k as u8));
    let mut push32_bait = vec![0x7fu8];
    push32_bait.extend([0xe4u8; 32]);
    vec![
        t(vec![0x60, 0x11], 0, 1),
        t(vec![0x60, 0xe4], 0, 1),
        t(vec![0x61, 0x11, 0x22], 0, 1),
        t(vec![0x61, 0xe4, 0xe4], 0, 1),
        t(vec![0x63, 0xe4, 0x5b, 0x00, 0xe4], 0, 1),
        t(push32, 0, 1),
        t(push32_bait, 0, 1),
        TSpec { data: 32, ..t(vec![0xd1, 0x00, 0x00], 0, 1) },
        TSpec { data: 260, ..t(vec![0xd1, 0x00, 0xe4], 0, 1) },
        TSpec { terminating: true, self_access: true, ..t(vec![0xe0, 0x00, 0x00], 0, 0) },
        t(vec![0xe1, 0x00, 0x00], 1, 0),
        t(vec![0xe2, 0x00, 0x00, 0x00], 1, 0),
        t(vec![0xe2, 0x01, 0x00, 0x00, 0x00, 0x00], 1, 0),
        // bait: entry 1 = +228 (0x00e4): its low byte is RETF, its high byte STOP
        TSpec { pad: 232, ..t(vec![0xe2, 0x01, 0x00, 0x00, 0x00, 0xe4], 1, 0) },
        TSpec { pad: 232, ..t(vec![0xe2, 0x02, 0x00, 0xe4, 0x00, 0x00, 0x00, 0xe4], 1, 0) },
        TSpec { aux: Aux::CallfSection, ..t(vec![0xe3, 0x00, 0x01], 0, 0) },
        TSpec { aux: Aux::JumpfSection, terminating: true, ..t(vec![0xe5, 0x00, 0x01], 0, 0) },
        t(vec![0xe6, 0x00], 1, 2),
        t(vec![0xe7, 0x00], 2, 2),
        t(vec![0xe8, 0x00], 3, 3),
        TSpec { aux: Aux::InitSub, ..t(vec![0xec, 0x00], 4, 1) },
        TSpec { aux: Aux::RuntimeSub, terminating: true, ..t(vec![0xee, 0x00], 2, 0) },
    ]
}

#[derive(Clone, Copy, PartialEq, Debug)]
enum Src {
    Rjump,
    Rjumpi,
    Rjumpv(u8), // which of the two table entries carries the jump under test
}

fn src_len(s: Src, forward: bool) -> usize {
    match (s, forward) {
        (Src::Rjump, true) => 7,
        (Src::Rjump, false) => 3,
        (Src::Rjumpi, _) => 5,
        (Src::Rjumpv(_), _) => 8,
    }
}

/// emit the jump source at the current position; `target` is the absolute landing offset
fn emit_src(a: &mut Asm, s: Src, forward: bool, target: usize) {
    let base = a.c.len() + src_len(s, forward);
    let off = ((target as i64 - base as i64) as i16).to_be_bytes();
    match (s, forward) {
        (Src::Rjump, true) => {
            // PUSH0 ; RJUMPI +3 (keeps the byte after the RJUMP reachable) ; RJUMP off
            a.op(&[0x5f], 0, 1);
            a.op(&[0xe1, 0x00, 0x03], 1, 0);
            a.op(&[0xe0, off[0], off[1]], 0, 0);
        }
        (Src::Rjump, false) => a.op(&[0xe0, off[0], off[1]], 0, 0),
        (Src::Rjumpi, _) => {
            a.op(&[0x60, 0x01], 0, 1);
            a.op(&[0xe1, off[0], off[1]], 1, 0);
        }
        (Src::Rjumpv(k), _) => {
            a.op(&[0x60, k], 0, 1);
            let (e0, e1) = if k == 0 { (off, [0, 0]) } else { ([0, 0], off) };
            a.op(&[0xe2, 0x01, e0[0], e0[1], e1[0], e1[1]], 1, 0);
        }
    }
}

fn runtime_stop_container() -> Vec<u8> {
    EofBody {
        types_section: vec![TypesSection::new(0, 0x80, 0)],
        code_section: vec![Bytes::from(vec![0x00u8])],
        container_section: vec![],
        data_section: Bytes::new(),
        is_data_filled: true,
    }
    .into_eof()
    .raw
    .to_vec()
}

fn initcode_container() -> Vec<u8> {
    EofBody {
        types_section: vec![TypesSection::new(0, 0x80, 2)],
        code_section: vec![Bytes::from(vec![0x5fu8, 0x5f, 0xee, 0x00])],
        container_section: vec![Bytes::from(runtime_stop_container())],
        data_section: Bytes::new(),
        is_data_filled: true,
    }
    .into_eof()
    .raw
    .to_vec()
}

/// one member of the family; `delta` = landing offset relative to T's first byte
fn family_container(t: &TSpec, s: Src, forward: bool, gap: usize, delta: usize) -> (&'static str, Vec<u8>) {
    let tlen = t.bytes.len();
    let mut a = Asm { c: vec![], h: 0, peak: 0 };
    a.push0(t.ins);
    let mut has_end = true;
    if forward {
        let tpos = a.c.len() + src_len(s, true) + gap;
        emit_src(&mut a, s, true, tpos + delta);
        for _ in 0..gap {
            a.op(&[0x5b], 0, 0);
        }
        assert_eq!(a.c.len(), tpos);
        a.op(&t.bytes, t.ins, t.outs);
        if t.terminating && !t.self_access && delta != tlen {
            // nothing reaches the byte after T: T is the last instruction
            has_end = false;
        } else {
            for _ in 0..t.pad {
                a.op(&[0x5b], 0, 0);
            }
        }
    } else {
        if t.terminating && !t.self_access {
            // keep the byte after T reachable: PUSH0 ; RJUMPI over T
            a.op(&[0x5f], 0, 1);
            a.op(&[0xe1, 0x00, tlen as u8], 1, 0);
        }
        let tpos = a.c.len();
        let h_before = a.h;
        a.op(&t.bytes, t.ins, t.outs);
        if t.terminating {
            a.h = h_before; // the byte after T is reached by the jump over T / by T's own RJUMP +0
        }
        for _ in 0..t.pad {
            a.op(&[0x5b], 0, 0);
        }
        if delta != tlen {
            // back to the height at T's first byte (a backward jump needs equal heights)
            while a.h > h_before {
                a.op(&[0x50], 1, 0);
            }
            while a.h < h_before {
                a.op(&[0x5f], 0, 1);
            }
        }
        emit_src(&mut a, s, false, tpos + delta);
        has_end = s != Src::Rjump;
    }
    let rc = t.aux == Aux::RuntimeSub;
    if has_end {
        a.op(&[if rc { 0xfe } else { 0x00 }], 0, 0);
    }
    let mut types = vec![TypesSection::new(0, 0x80, a.peak as u16)];
    let mut codes = vec![Bytes::from(a.c)];
    let mut conts = vec![];
    match t.aux {
        Aux::None => {}
        Aux::CallfSection => {
            types.push(TypesSection::new(0, 0, 0));
            codes.push(Bytes::from(vec![0xe4u8]));
        }
        Aux::JumpfSection => {
            types.push(TypesSection::new(0, 0x80, 0));
            codes.push(Bytes::from(vec![0x00u8]));
        }
        Aux::InitSub => conts.push(Bytes::from(initcode_container())),
        Aux::RuntimeSub => conts.push(Bytes::from(runtime_stop_container())),
    }
    let body = EofBody {
        types_section: types,
        code_section: codes,
        container_section: conts,
        data_section: Bytes::from((0..t.data).map(|k| k as u8).collect::<Vec<u8>>()),
        is_data_filled: true,
    };
    (if rc { "rc" } else { "rs" }, body.into_eof().raw.to_vec())
}

/// the request lines of the family (validate + exec per container), in a fixed order
pub fn family_lines() -> Vec<String> {
    let mut lines = vec![];
    for t in t_specs() {
        let imm = t.bytes.len() - 1;
        let mut deltas: Vec<usize> = if imm <= 7 {
            (0..=imm + 1).collect()
        } else {
            vec![0, 1, 2, imm / 2, imm - 1, imm, imm + 1]
        };
        deltas.dedup();
        for s in [Src::Rjump, Src::Rjumpi, Src::Rjumpv(0), Src::Rjumpv(1)] {
            for (forward, gap) in [(true, 0usize), (true, 1), (false, 0)] {
                for &d in &deltas {
                    let (m, b) = family_container(&t, s, forward, gap, d);
                    let h = hxb(&b);
                    lines.push(format!("eof validate {m} {h}"));
                    lines.push(format!("eof exec {m} {h}"));
                }
            }
        }
    }
    lines
}

const MODES: [&str; 3] = ["rc", "rs", "none"];

pub fn gen(seed: u64, n: usize) -> Vec<String> {
    let mut rng = Rng::new(seed ^ 0xC26);
    let mut lines: Vec<String> = vec![];
    let all = |lines: &mut Vec<String>, rng: &mut Rng, b: &[u8], every_mode: bool| {
        let h = hxb(b);
        lines.push(format!("eof decode {h}"));
        if every_mode {
            for m in MODES {
                lines.push(format!("eof validate {m} {h}"));
                lines.push(format!("eof exec {m} {h}"));
            }
        } else {
            let m = *rng.pick(&MODES);
            lines.push(format!("eof validate {m} {h}"));
            lines.push(format!("eof exec {m} {h}"));
        }
    };
    // fixed boundary cases
    for h in [
        "-", "ef", "ef00", "ef0001", "ef000101000402000100010400000000800000fe",
        "ef000101000402000100010400000000800000", "ef000101000402000100010400000000800000fe00",
        "ef00010100040200010001040002000080000000", "ef0001010004020001000104000200008000000011",
        "ef000101000402000100010400020000800000001122", "ef00010100040200010001040002000080000000112233",
        "ef0001010000028000", "ef0001010004020000", "ef000101000402000100000400000000800000",
    ] {
        let b = unhex(h).unwrap();
        all(&mut lines, &mut rng, &b, true);
        lines.push(format!("eof dangling {h}"));
    }
    // the complete "jump into immediates" family (every run)
    lines.extend(family_lines());
    // stack-limit boundary (CALLF / JUMPF with callee max_stack 1023): 1024 is fine, 1025 is StackOverflow
    for pushes in [1usize, 2] {
        for jumpf in [false, true] {
            let mut s0 = vec![0x5fu8; pushes];
            s0.extend(if jumpf { vec![0xe5, 0, 1] } else { vec![0xe3, 0, 1] });
            if !jumpf {
                s0.extend(vec![0x50u8; pushes]);
                s0.push(0x00);
            }
            let mut s1 = vec![0x5fu8; 1023];
            if jumpf {
                s1.push(0x00);
            } else {
                s1.extend(vec![0x50u8; 1023]);
                s1.push(0xe4);
            }
            let body = EofBody {
                types_section: vec![
                    TypesSection::new(0, 0x80, pushes as u16),
                    TypesSection::new(0, if jumpf { 0x80 } else { 0 }, 1023),
                ],
                code_section: vec![s0.into(), s1.into()],
                container_section: vec![],
                data_section: Bytes::new(),
                is_data_filled: true,
            };
            let b = body.into_eof().raw.to_vec();
            all(&mut lines, &mut rng, &b, true);
        }
    }
    // shipped vectors: quick = a deterministic sample, thorough (n >= 20000) = all of them
    let suite = suite_codes();
    let take = if n >= 20000 { suite.len() } else { (n / 2).min(suite.len()) };
    let stride = (suite.len() / take.max(1)).max(1);
    let mut pool: Vec<Vec<u8>> = vec![];
    for (k, b) in suite.iter().enumerate() {
        if k % stride == 0 {
            all(&mut lines, &mut rng, b, b.len() < 3000);
            if b.len() < 3000 {
                pool.push(b.clone());
            }
        }
    }
    for _ in 0..n {
        match rng.below(10) {
            0 => {
                // random bytes (short), sometimes with the magic
                let mut b = rb(&mut rng, 48);
                if rng.chance(1, 2) && b.len() >= 3 {
                    b[0] = 0xef;
                    b[1] = 0;
                    b[2] = 1;
                }
                all(&mut lines, &mut rng, &b, false);
                lines.push(format!("eof dangling {}", hxb(&b)));
            }
            1 | 2 => {
                let b = random_headerish(&mut rng);
                all(&mut lines, &mut rng, &b, false);
                if rng.chance(1, 2) {
                    lines.push(format!("eof dangling {}", hxb(&b)));
                }
            }
            3 | 4 | 5 => {
                let init = rng.chance(1, 3);
                let sl = rng.chance(1, 5);
                let b = gen_container(&mut rng, init, 0, sl);
                let h = hxb(&b);
                lines.push(format!("eof decode {h}"));
                for m in [if init { "rc" } else { "rs" }, "none"] {
                    lines.push(format!("eof validate {m} {h}"));
                    lines.push(format!("eof exec {m} {h}"));
                }
                if rng.chance(1, 4) {
                    let mut d = b.clone();
                    d.extend(rb(&mut rng, 6));
                    lines.push(format!("eof dangling {}", hxb(&d)));
                }
                if pool.len() < 4000 {
                    pool.push(b);
                }
            }
            6 | 7 | 8 => {
                // mutated valid container (generated or shipped)
                let src = if !pool.is_empty() && rng.chance(2, 3) {
                    rng.pick(&pool).clone()
                } else {
                    { let ic = rng.chance(1, 3); gen_container(&mut rng, ic, 0, false) }
                };
                let mut b = mutate(&mut rng, src);
                if rng.chance(1, 4) {
                    b = mutate(&mut rng, b);
                }
                all(&mut lines, &mut rng, &b, false);
                if rng.chance(1, 5) {
                    lines.push(format!("eof dangling {}", hxb(&b)));
                }
            }
            _ => {
                // EofBody::into_eof on random small bodies (incl. inconsistent ones)
                let nt = rng.below(4) as usize;
                let nc = if rng.chance(3, 4) { nt } else { rng.below(4) as usize };
                let types: Vec<String> = (0..nt)
                    .map(|_| {
                        format!(
                            "{}.{}.{}",
                            *rng.pick(&[0u32, 0, 1, 2, 0x7f, 0x80, 0xff]),
                            *rng.pick(&[0u32, 0x80, 0x80, 1, 0x81]),
                            *rng.pick(&[0u32, 1, 2, 0x3ff, 0x400])
                        )
                    })
                    .collect();
                let codes: Vec<String> = (0..nc).map(|_| hxb(&rb(&mut rng, 5))).collect();
                let nk = rng.below(3) as usize;
                let conts: Vec<String> = (0..nk).map(|_| hxb(&rb(&mut rng, 4))).collect();
                let j = |v: Vec<String>| if v.is_empty() { "_".to_string() } else { v.join(",") };
                lines.push(format!(
                    "eof build {} {} {} {}",
                    j(types),
                    j(codes),
                    j(conts),
                    hxb(&rb(&mut rng, 4))
                ));
            }
        }
    }
    lines
}

pub fn run(seed: u64, n: usize, replay: Option<Vec<String>>, out: &mut Out) {
    let fam: std::collections::HashSet<String> =
        if replay.is_none() { family_lines().into_iter().collect() } else { Default::default() };
    let lines = replay.unwrap_or_else(|| gen(seed, n));
    for l in lines {
        let r = exec_line(&l);
        if fam.contains(&l) {
            out.count(&format!("family:{}", r.split(" det=").next().unwrap_or("?")));
        }
        let mut it = l.split(' ');
        let _ = it.next();
        let op = it.next().unwrap_or("?").to_string();
        out.count(&format!("op:{op}"));
        let key = match op.as_str() {
            "decode" | "dangling" | "validate" => {
                let mut w = r.split(' ');
                let a = w.next().unwrap_or("");
                if a == "err" { format!("{op}:err:{}", w.next().unwrap_or("")) } else { format!("{op}:{a}") }
            }
            "exec" => format!("exec:{r}"),
            _ => format!("{op}:{}", r.split(" dec=").nth(1).unwrap_or("?").split(' ').take(2).collect::<Vec<_>>().join(" ")),
        };
        out.count(&key);
        out.push(l, r);
    }
}
