//! Shared helpers of the correspondence harness: PRNG, boundary values, output files.
use revm::primitives::U256;
use std::fmt::Write as _;
use std::io::Write as _;

/// splitmix64: every random choice of a run derives from one state.
#[derive(Clone)]
pub struct Rng(pub u64);
impl Rng {
    pub fn new(seed: u64) -> Self {
        Rng(seed.wrapping_mul(0x9E3779B97F4A7C15) ^ 0xD1B54A32D192ED03)
    }
    pub fn next(&mut self) -> u64 {
        self.0 = self.0.wrapping_add(0x9E3779B97F4A7C15);
        let mut z = self.0;
        z = (z ^ (z >> 30)).wrapping_mul(0xBF58476D1CE4E5B9);
        z = (z ^ (z >> 27)).wrapping_mul(0x94D049BB133111EB);
        z ^ (z >> 31)
    }
    pub fn below(&mut self, n: u64) -> u64 {
        if n == 0 { 0 } else { self.next() % n }
    }
    pub fn range(&mut self, lo: u64, hi: u64) -> u64 {
        lo + self.below(hi - lo + 1)
    }
    pub fn chance(&mut self, num: u64, den: u64) -> bool {
        self.below(den) < num
    }
    pub fn pick<'a, T>(&mut self, xs: &'a [T]) -> &'a T {
        &xs[self.below(xs.len() as u64) as usize]
    }
    pub fn u256(&mut self) -> U256 {
        U256::from_limbs([self.next(), self.next(), self.next(), self.next()])
    }
    pub fn bytes(&mut self, n: usize) -> Vec<u8> {
        (0..n).map(|_| self.next() as u8).collect()
    }
    /// a word biased to boundaries: 40% boundary, 20% small, 20% random width, 20% uniform
    pub fn word(&mut self) -> U256 {
        match self.below(10) {
            0..=3 => {
                let b = boundary_words();
                *self.pick(&b)
            }
            4..=5 => U256::from(self.below(300)),
            6..=7 => {
                let bits = self.range(1, 256) as usize;
                let w = self.u256();
                if bits == 256 { w } else { w >> (256 - bits) }
            }
            _ => self.u256(),
        }
    }
}

pub fn boundary_words() -> Vec<U256> {
    let one = U256::from(1);
    let mut v = vec![
        U256::ZERO,
        one,
        U256::from(2),
        U256::from(3),
        U256::from(7),
        U256::from(8),
        U256::from(15),
        U256::from(16),
        U256::from(30),
        U256::from(31),
        U256::from(32),
        U256::from(33),
        U256::from(63),
        U256::from(64),
        U256::from(127),
        U256::from(128),
        U256::from(255),
        U256::from(256),
        U256::from(257),
        U256::from(0x7fu64),
        U256::from(0x80u64),
        U256::from(0xffffu64),
        U256::from(u32::MAX),
        U256::from(u64::MAX),
        U256::from(u64::MAX) + one,
        U256::from(u128::MAX),
        U256::from(u128::MAX) + one,
        U256::MAX,
        U256::MAX - one,
        one << 255,
        (one << 255) - one,
        (one << 255) + one,
        one << 254,
        (one << 254) + one,
        U256::MAX >> 1,
        U256::MAX << 128,
        U256::MAX << 255,
        U256::MAX << 8,
        U256::MAX >> 8,
    ];
    for i in [8usize, 16, 24, 63, 64, 65, 127, 128, 129, 191, 192, 200, 248, 250] {
        v.push(one << i);
        v.push((one << i) - one);
    }
    v
}

pub fn hx(w: U256) -> String {
    format!("{:x}", w)
}
pub fn hxb(b: &[u8]) -> String {
    if b.is_empty() {
        return "-".into();
    }
    let mut s = String::with_capacity(b.len() * 2);
    for x in b {
        write!(s, "{:02x}", x).unwrap();
    }
    s
}
pub fn b01(b: bool) -> &'static str {
    if b { "1" } else { "0" }
}

/// Collects request lines and the implementation's reply lines (line-aligned).
pub struct Out {
    pub req: Vec<String>,
    pub imp: Vec<String>,
    /// free-form counters printed into the evidence (distribution of the generated inputs)
    pub dist: std::collections::BTreeMap<String, u64>,
}
impl Out {
    pub fn new() -> Self {
        Out { req: vec![], imp: vec![], dist: Default::default() }
    }
    pub fn push(&mut self, req: String, imp: String) {
        debug_assert!(!req.contains('\n') && !imp.contains('\n'));
        self.req.push(req);
        self.imp.push(imp);
    }
    pub fn count(&mut self, k: &str) {
        *self.dist.entry(k.to_string()).or_insert(0) += 1;
    }
    pub fn write(&self, dir: &str) {
        std::fs::create_dir_all(dir).unwrap();
        let mut f = std::io::BufWriter::new(std::fs::File::create(format!("{dir}/req.txt")).unwrap());
        for l in &self.req {
            writeln!(f, "{l}").unwrap();
        }
        let mut f = std::io::BufWriter::new(std::fs::File::create(format!("{dir}/impl.txt")).unwrap());
        for l in &self.imp {
            writeln!(f, "{l}").unwrap();
        }
        let mut f = std::fs::File::create(format!("{dir}/dist.json")).unwrap();
        let body: Vec<String> = self.dist.iter().map(|(k, v)| format!("\"{k}\": {v}")).collect();
        writeln!(f, "{{{}}}", body.join(", ")).unwrap();
    }
}

/// Run `f` catching a Rust panic; a panic is the reply `panic`.
pub fn guarded<F: FnOnce() -> String + std::panic::UnwindSafe>(f: F) -> String {
    match std::panic::catch_unwind(f) {
        Ok(s) => s,
        Err(_) => "panic".to_string(),
    }
}

pub mod act;
pub mod c03;
pub mod c05;
pub mod c06;
pub mod c13;
pub mod c27;
pub mod c32;
pub mod c04;
pub mod c12;
pub mod c11;
pub mod c14;
pub mod c23;
pub mod c24;
pub mod c26;
pub mod c20;
pub mod c21;
pub mod c15;
pub mod c19;
pub mod bundle;
pub mod cutil;
pub mod c25;
pub mod c01;
pub mod c01gen;
pub mod c01vec;
pub mod c01bnd;
pub mod c31;
pub mod c02;
pub mod c29;
pub mod c10;
pub mod c22;
pub mod c07;
pub mod c08;
pub mod c09;
pub mod c33;
pub mod c34;
pub mod c34tx;
pub mod c28;
