//! C11: call sequences on the real `revm::interpreter::SharedMemory` (+ `resize_memory`, `num_words`,
//! `memory_gas`), nesting depth up to 40 and beyond.
//!
//! requests (numbers decimal, bytes hex, `-` = empty):
//!   begin mem <gas>                    SharedMemory::new(), Gas::new(gas)
//!   mem newctx | freectx | resize <n> | rmem <new_size>
//!   mem set <off> <bytes> | setbyte <off> <b> | setword <off> <32 bytes> | setu256 <off> <word>
//!   mem setdata <moff> <doff> <len> <bytes> | copy <dst> <src> <len>
//!   mem slice <off> <size> | slicer <start> <end> | getbyte <off> | getword <off> | getu256 <off>
//!   mem ctx | len | dump
//!   mem words <len> | gas <words>      (stateless)
//! replies: state-changing calls `ok len=<len> ctx=<bytes>` (rmem: `ok|oog rem=<gas> len=.. ctx=..`),
//!   reads print the value, `dump` prints `buf=<bytes> cps=<c1,c2,..> last=<n>` (private fields, read
//!   through the derived `Hash` impl with a recording `Hasher`), `panic` = caught Rust panic,
//!   `ub` = the call would reach `debug_unreachable!` / break the contract of an unchecked access
//!   (undefined behaviour in a build without debug_assertions: such a call is NOT executed there; in a
//!   build with debug_assertions it is executed on a clone and must panic).
use crate::*;
use revm::interpreter::interpreter::resize_memory;
use revm::interpreter::{gas, num_words, Gas, SharedMemory};
use revm::primitives::{B256, U256};
use std::hash::{Hash, Hasher};

const P20: u64 = 1 << 20;
const HI: u64 = (1 << 63) + (1 << 21);

// ---------------------------------------------------------------- private fields via Hash
#[derive(Default)]
struct Rec {
    ev: Vec<Ev>,
}
enum Ev {
    U(usize),
    B(Vec<u8>),
}
impl Hasher for Rec {
    fn finish(&self) -> u64 {
        0
    }
    fn write(&mut self, bytes: &[u8]) {
        self.ev.push(Ev::B(bytes.to_vec()));
    }
    fn write_usize(&mut self, i: usize) {
        self.ev.push(Ev::U(i));
    }
}

/// (buffer, checkpoints in Vec order, last_checkpoint) of the real object.
/// `#[derive(Hash)]` feeds the fields in declaration order: Vec<u8> = length prefix + bytes,
/// Vec<usize> = length prefix + raw native-endian words, usize.
pub fn internals(m: &SharedMemory) -> (Vec<u8>, Vec<usize>, usize) {
    let mut r = Rec::default();
    m.hash(&mut r);
    let mut it = r.ev.into_iter().peekable();
    let mut take_vec = |unit: usize| -> Vec<u8> {
        let n = match it.next() {
            Some(Ev::U(n)) => n,
            _ => panic!("hash layout: length prefix expected"),
        };
        let mut bytes = Vec::new();
        while bytes.len() < n * unit {
            match it.peek() {
                Some(Ev::B(_)) => {
                    if let Some(Ev::B(b)) = it.next() {
                        bytes.extend_from_slice(&b);
                    }
                }
                _ => panic!("hash layout: bytes expected"),
            }
        }
        // an empty slice may or may not produce an empty write
        if n == 0 {
            if let Some(Ev::B(b)) = it.peek() {
                if b.is_empty() {
                    it.next();
                }
            }
        }
        assert_eq!(bytes.len(), n * unit, "hash layout: slice length");
        bytes
    };
    let buffer = take_vec(1);
    let cps_raw = take_vec(std::mem::size_of::<usize>());
    let cps: Vec<usize> = cps_raw
        .chunks(std::mem::size_of::<usize>())
        .map(|c| usize::from_ne_bytes(c.try_into().unwrap()))
        .collect();
    let last = match it.next() {
        Some(Ev::U(n)) => n,
        _ => panic!("hash layout: last_checkpoint expected"),
    };
    // further (newer) fields hashed after the three known ones are ignored: they are not observable state of the property
    (buffer, cps, last)
}

// ---------------------------------------------------------------- executor
pub struct St {
    pub mem: SharedMemory,
    pub gas: Gas,
}

fn dec(s: &str) -> Option<u64> {
    if s.is_empty() || !s.bytes().all(|c| c.is_ascii_digit()) {
        return None;
    }
    s.parse::<u64>().ok()
}
fn unhex(s: &str) -> Option<Vec<u8>> {
    if s == "-" {
        return Some(vec![]);
    }
    if s.len() % 2 != 0 || s.is_empty() {
        return None;
    }
    (0..s.len() / 2).map(|i| u8::from_str_radix(s.get(2 * i..2 * i + 2)?, 16).ok()).collect()
}

/// the context is addressable (`last_checkpoint <= buffer.len()`), else every access is UB
fn valid(m: &SharedMemory) -> bool {
    let (b, _, l) = internals(m);
    l <= b.len()
}
fn state_str(m: &SharedMemory) -> String {
    let (b, _, l) = internals(m);
    let len = b.len().wrapping_sub(l);
    debug_assert!(l > b.len() || len == m.len());
    if l <= b.len() {
        format!("len={} ctx={}", m.len(), hxb(m.context_memory()))
    } else {
        format!("len={} ctx=ub", len)
    }
}
/// contract of slice / slice_mut: `offset..offset+size` (wrapping) inside the context
fn range_ok(m: &SharedMemory, offset: u64, size: u64) -> bool {
    if !valid(m) {
        return false;
    }
    let end = offset.wrapping_add(size);
    offset <= end && end <= m.len() as u64
}

/// run a call whose contract (`pre`) may be violated: never execute UB
fn contract<F: FnOnce(&mut St) -> String>(st: &mut St, pre: bool, f: F) -> String {
    if pre {
        // contract holds: run in place on the one long-lived buffer (as run_the_loop does); a panic
        // is caught and reported, the state is whatever the real code left behind
        guarded(std::panic::AssertUnwindSafe(|| f(st)))
    } else if cfg!(debug_assertions) {
        // debug build: the violation is a real panic; execute on a clone and require the panic
        let mut tmp = St { mem: st.mem.clone(), gas: st.gas };
        let r = guarded(std::panic::AssertUnwindSafe(|| f(&mut tmp)));
        if r == "panic" {
            "ub".into()
        } else {
            format!("no-panic-on-contract-violation {r}")
        }
    } else {
        "ub".into()
    }
}

pub fn exec_stateless(t: &[&str]) -> Option<String> {
    match t {
        ["words", n] => dec(n).map(|n| num_words(n).to_string()),
        ["gas", w] => dec(w).map(|w| gas::memory_gas(w).to_string()),
        _ => None,
    }
}

pub fn exec_op(st: &mut St, t: &[&str], out: &mut Out) -> String {
    macro_rules! num {
        ($s:expr) => {
            match dec($s) {
                Some(v) => v,
                None => return "bad-op".into(),
            }
        };
    }
    macro_rules! bytes {
        ($s:expr) => {
            match unhex($s) {
                Some(v) => v,
                None => return "bad-op".into(),
            }
        };
    }
    let mut ub = |pre: bool| {
        if !pre {
            out.count(if cfg!(debug_assertions) { "contract-violation-executed" } else { "contract-violation-not-executed" });
        }
    };
    match t {
        ["newctx"] => contract(st, true, |s| {
            s.mem.new_context();
            format!("ok {}", state_str(&s.mem))
        }),
        ["freectx"] => {
            let (b, c, _) = internals(&st.mem);
            let pre = c.last().map_or(true, |&old| old <= b.len());
            ub(pre);
            contract(st, pre, |s| {
                s.mem.free_context();
                format!("ok {}", state_str(&s.mem))
            })
        }
        ["resize", n] => {
            let n = num!(n);
            if !(n <= P20 || n >= HI) {
                return "bad-op".into();
            }
            contract(st, true, move |s| {
                s.mem.resize(n as usize);
                format!("ok {}", state_str(&s.mem))
            })
        }
        ["rmem", n] => {
            let n = num!(n);
            if !(n <= P20 || st.gas.remaining() < P20 || n >= HI) {
                return "bad-op".into();
            }
            contract(st, true, move |s| {
                let ok = resize_memory(&mut s.mem, &mut s.gas, n as usize);
                format!("{} rem={} {}", if ok { "ok" } else { "oog" }, s.gas.remaining(), state_str(&s.mem))
            })
        }
        ["set", o, v] => {
            let (o, v) = (num!(o), bytes!(v));
            let pre = v.is_empty() || range_ok(&st.mem, o, v.len() as u64);
            ub(pre);
            contract(st, pre, move |s| {
                s.mem.set(o as usize, &v);
                format!("ok {}", state_str(&s.mem))
            })
        }
        ["setbyte", o, b] => {
            let (o, b) = (num!(o), num!(b));
            if b > 255 {
                return "bad-op".into();
            }
            let pre = range_ok(&st.mem, o, 1);
            ub(pre);
            contract(st, pre, move |s| {
                s.mem.set_byte(o as usize, b as u8);
                format!("ok {}", state_str(&s.mem))
            })
        }
        ["setword", o, v] => {
            let (o, v) = (num!(o), bytes!(v));
            if v.len() != 32 {
                return "bad-op".into();
            }
            let pre = range_ok(&st.mem, o, 32);
            ub(pre);
            contract(st, pre, move |s| {
                s.mem.set_word(o as usize, &B256::from_slice(&v));
                format!("ok {}", state_str(&s.mem))
            })
        }
        ["setu256", o, v] => {
            let o = num!(o);
            let Ok(v) = U256::from_str_radix(v, 16) else { return "bad-op".into() };
            let pre = range_ok(&st.mem, o, 32);
            ub(pre);
            contract(st, pre, move |s| {
                s.mem.set_u256(o as usize, v);
                format!("ok {}", state_str(&s.mem))
            })
        }
        ["setdata", a, b, c, d] => {
            let (a, b, c, d) = (num!(a), num!(b), num!(c), bytes!(d));
            if c > P20 {
                return "bad-op".into();
            }
            // contract: both slice_mut calls in range = memory_offset..memory_offset+len inside the
            // context (c <= 2^20 and data_offset < data.len() <= small: no wrap in data_offset + len)
            let pre = range_ok(&st.mem, a, c);
            ub(pre);
            contract(st, pre, move |s| {
                s.mem.set_data(a as usize, b as usize, c as usize, &d);
                format!("ok {}", state_str(&s.mem))
            })
        }
        ["copy", d, s_, l] => {
            let (d, s_, l) = (num!(d), num!(s_), num!(l));
            // copy_within checks its ranges itself (real panics); only the context must be addressable
            let pre = valid(&st.mem);
            ub(pre);
            contract(st, pre, move |s| {
                s.mem.copy(d as usize, s_ as usize, l as usize);
                format!("ok {}", state_str(&s.mem))
            })
        }
        ["slice", o, n] => {
            let (o, n) = (num!(o), num!(n));
            let pre = range_ok(&st.mem, o, n);
            ub(pre);
            contract(st, pre, move |s| hxb(s.mem.slice(o as usize, n as usize)))
        }
        ["slicer", a, b] => {
            let (a, b) = (num!(a), num!(b));
            let pre = valid(&st.mem) && a <= b && b <= st.mem.len() as u64;
            ub(pre);
            contract(st, pre, move |s| hxb(s.mem.slice_range(a as usize..b as usize)))
        }
        ["getbyte", o] => {
            let o = num!(o);
            let pre = range_ok(&st.mem, o, 1);
            ub(pre);
            contract(st, pre, move |s| s.mem.get_byte(o as usize).to_string())
        }
        ["getword", o] => {
            let o = num!(o);
            let pre = range_ok(&st.mem, o, 32);
            ub(pre);
            contract(st, pre, move |s| hxb(s.mem.get_word(o as usize).as_slice()))
        }
        ["getu256", o] => {
            let o = num!(o);
            let pre = range_ok(&st.mem, o, 32);
            ub(pre);
            contract(st, pre, move |s| hx(s.mem.get_u256(o as usize)))
        }
        ["ctx"] => {
            let pre = valid(&st.mem);
            ub(pre);
            contract(st, pre, |s| hxb(s.mem.context_memory()))
        }
        ["len"] => contract(st, true, |s| {
            format!(
                "{} empty={} cost={}",
                s.mem.len(),
                b01(s.mem.is_empty()),
                s.mem.current_expansion_cost()
            )
        }),
        ["dump"] => {
            let (b, c, l) = internals(&st.mem);
            let cps = if c.is_empty() {
                "-".to_string()
            } else {
                c.iter().map(|x| x.to_string()).collect::<Vec<_>>().join(",")
            };
            format!("buf={} cps={} last={}", hxb(&b), cps, l)
        }
        _ => "bad-op".into(),
    }
}

/// executes all lines (pure function of the lines)
pub fn exec_lines(lines: &[String], out: &mut Out) {
    let mut st: Option<St> = None;
    for l in lines {
        let t: Vec<&str> = l.split(' ').collect();
        let r = exec_one(&mut st, &t, out);
        out.push(l.clone(), r);
    }
}

pub fn exec_one(st: &mut Option<St>, t: &[&str], out: &mut Out) -> String {
    match t {
        ["begin", "mem", g] => match dec(g) {
            Some(g) => {
                let s = St { mem: SharedMemory::new(), gas: Gas::new(g) };
                let r = format!("ok {}", state_str(&s.mem));
                *st = Some(s);
                r
            }
            None => {
                *st = None;
                "bad-op".into()
            }
        },
        ["begin", "mem", ..] => {
            *st = None;
            "bad-op".into()
        }
        ["mem", rest @ ..] => {
            if let Some(r) = exec_stateless(rest) {
                return r;
            }
            if matches!(rest.first(), Some(&"words") | Some(&"gas")) {
                return "bad-op".into();
            }
            match st {
                Some(s) => {
                    out.count(&format!("op:{}", rest.first().copied().unwrap_or("?")));
                    let r = exec_op(s, rest, out);
                    if r == "panic" {
                        out.count("reply:panic");
                    } else if r == "ub" {
                        out.count("reply:ub");
                    }
                    r
                }
                None => "bad-op".into(),
            }
        }
        _ => "bad-op".into(),
    }
}

// ---------------------------------------------------------------- generator
struct Gen<'a> {
    rng: Rng,
    st: Option<St>,
    lines: Vec<String>,
    out: &'a mut Out,
    depth: usize,
    maxdepth: usize,
}
impl<'a> Gen<'a> {
    fn emit(&mut self, l: String) -> String {
        let t: Vec<&str> = l.split(' ').collect();
        let r = exec_one(&mut self.st, &t, self.out);
        self.out.push(l.clone(), r.clone());
        self.lines.push(l);
        r
    }
    fn len(&self) -> u64 {
        match &self.st {
            Some(s) if valid(&s.mem) => s.mem.len() as u64,
            _ => 0,
        }
    }
    /// an (offset, size) pair: mostly inside the context, sometimes just outside, rarely far away
    fn range(&mut self, maxsize: u64) -> (u64, u64) {
        let len = self.len();
        match self.rng.below(20) {
            0 => (self.rng.below(len + 40), self.rng.below(maxsize + 1)), // anywhere near
            1 => {
                // exactly one byte too far
                let size = self.rng.below(maxsize.min(len + 1) + 1);
                ((len + 1).saturating_sub(size), size)
            }
            2 => (*self.rng.pick(&[u64::MAX, u64::MAX - 1, u64::MAX - 31, 1 << 63, 1 << 32]), self.rng.below(maxsize + 1)),
            _ => {
                if len == 0 {
                    (0, 0)
                } else {
                    let size = self.rng.below(maxsize.min(len) + 1);
                    (self.rng.below(len - size + 1), size)
                }
            }
        }
    }
    fn data(&mut self, n: usize) -> String {
        // non-zero bytes mostly, so that zero-fill / isolation is visible
        let b: Vec<u8> = (0..n).map(|_| if self.rng.chance(1, 8) { 0 } else { self.rng.range(1, 255) as u8 }).collect();
        hxb(&b)
    }
    fn op(&mut self) {
        let k = self.rng.below(100);
        let len = self.len();
        match k {
            0..=9 => {
                if self.depth < self.maxdepth {
                    self.depth += 1;
                    self.emit("mem newctx".into());
                    // a new frame starts empty
                    if self.rng.chance(1, 3) {
                        self.emit("mem len".into());
                    }
                }
            }
            10..=16 => {
                if self.depth > 0 || self.rng.chance(1, 10) {
                    self.depth = self.depth.saturating_sub(1);
                    self.emit("mem freectx".into());
                }
            }
            17..=26 => {
                // plain resize: grow mostly, shrink sometimes
                let n = match self.rng.below(6) {
                    0 => self.rng.below(len + 1),
                    1 => 32 * self.rng.below(6),
                    _ => len + self.rng.below(70),
                };
                self.emit(format!("mem resize {n}"));
            }
            27..=38 => {
                // resize_memory the way the macro calls it (new_size > len) mostly
                let n = match self.rng.below(8) {
                    0 => self.rng.below(len + 1),
                    1 => len,
                    _ => len + 1 + self.rng.below(100),
                };
                self.emit(format!("mem rmem {n}"));
            }
            39..=50 => {
                let (o, s) = self.range(48);
                let d = self.data(s as usize);
                self.emit(format!("mem set {o} {d}"));
            }
            51..=54 => {
                let (o, _) = self.range(1);
                let b = self.rng.range(0, 255);
                self.emit(format!("mem setbyte {o} {b}"));
            }
            55..=58 => {
                let (mut o, _) = self.range(32);
                if len >= 32 && self.rng.chance(3, 4) {
                    o = self.rng.below(len - 31);
                }
                let d = self.data(32);
                self.emit(format!("mem setword {o} {d}"));
            }
            59..=62 => {
                let (mut o, _) = self.range(32);
                if len >= 32 && self.rng.chance(3, 4) {
                    o = self.rng.below(len - 31);
                }
                let w = self.rng.word();
                self.emit(format!("mem setu256 {o} {}", hx(w)));
            }
            63..=72 => {
                let (o, s) = self.range(64);
                let dl = self.rng.below(40) as usize;
                let d = self.data(dl);
                let doff = match self.rng.below(6) {
                    0 => dl as u64,
                    1 => dl as u64 + self.rng.below(5),
                    2 => *self.rng.pick(&[u64::MAX, u64::MAX - 1, 1 << 40]),
                    _ => self.rng.below(dl as u64 + 1),
                };
                self.emit(format!("mem setdata {o} {doff} {s} {d}"));
            }
            73..=82 => {
                let (s, l) = self.range(64);
                let d = match self.rng.below(8) {
                    0 => self.rng.below(len + 40),
                    1 => (len + 1).saturating_sub(l),
                    2 => *self.rng.pick(&[u64::MAX, u64::MAX - l.min(40), 1 << 63]),
                    _ => self.rng.below(len.saturating_sub(l) + 1),
                };
                self.emit(format!("mem copy {d} {s} {l}"));
            }
            83..=86 => {
                let (o, s) = self.range(64);
                self.emit(format!("mem slice {o} {s}"));
            }
            87..=88 => {
                let (o, s) = self.range(64);
                let (a, b) = if self.rng.chance(1, 10) { (o.wrapping_add(s), o) } else { (o, o.wrapping_add(s)) };
                self.emit(format!("mem slicer {a} {b}"));
            }
            89..=90 => {
                let (o, _) = self.range(1);
                self.emit(format!("mem getbyte {o}"));
            }
            91..=92 => {
                let (mut o, _) = self.range(32);
                if len >= 32 && self.rng.chance(3, 4) {
                    o = self.rng.below(len - 31);
                }
                self.emit(format!("mem getword {o}"));
            }
            93..=94 => {
                let (mut o, _) = self.range(32);
                if len >= 32 && self.rng.chance(3, 4) {
                    o = self.rng.below(len - 31);
                }
                self.emit(format!("mem getu256 {o}"));
            }
            95 => {
                self.emit("mem ctx".into());
            }
            96..=97 => {
                self.emit("mem len".into());
            }
            _ => {
                self.emit("mem dump".into());
            }
        }
    }
    fn begin(&mut self, gas: u64) {
        self.depth = 0;
        self.emit(format!("begin mem {gas}"));
    }
    fn gas(&mut self) -> u64 {
        match self.rng.below(6) {
            0 => self.rng.below(40),
            1 => self.rng.below(2000),
            2 => u64::MAX,
            _ => 100_000 + self.rng.below(1_000_000),
        }
    }
}

/// the way run_the_loop uses the buffer: parent writes, child frame (new_context) resizes and
/// writes, returns (free_context), the parent stores the return data window
fn call_round_trip(g: &mut Gen, depth: usize) {
    let n = 32 * g.rng.range(1, 4);
    g.emit(format!("mem rmem {n}"));
    let d = g.data(n as usize);
    g.emit(format!("mem set 0 {d}"));
    g.emit("mem newctx".into());
    g.emit("mem len".into());
    let c = 32 * g.rng.range(1, 3);
    g.emit(format!("mem rmem {c}"));
    let d = g.data(c as usize);
    g.emit(format!("mem set 0 {d}"));
    if depth > 0 && g.rng.chance(2, 3) {
        call_round_trip(g, depth - 1);
    }
    g.emit("mem freectx".into());
    // return-data window
    let ol = g.rng.below(n + 1);
    let oo = g.rng.below(n - ol + 1);
    let d = g.data(ol as usize);
    g.emit(format!("mem set {oo} {d}"));
    if g.rng.chance(1, 2) {
        g.emit("mem dump".into());
    }
}

pub fn gen(seed: u64, n: usize, out: &mut Out) -> Vec<String> {
    let mut g = Gen { rng: Rng::new(seed ^ 0xC11), st: None, lines: vec![], out, depth: 0, maxdepth: 40 };
    // stream 0: the pure functions, boundary values complete + random
    let mut vals: Vec<u64> = vec![];
    for b in [0u64, 1, 31, 32, 33, 63, 64, 65, 511, 512, 513, 1023, 1024, 724 * 32, 1 << 20, (1 << 32) - 1, 1 << 32, (1 << 32) + 1,
        (1 << 37) - 32, 1 << 37, 1 << 59, (1 << 59) - 1, 1 << 63, u64::MAX - 32, u64::MAX - 31, u64::MAX - 30, u64::MAX - 1, u64::MAX] {
        vals.push(b);
    }
    for _ in 0..(n / 4).max(50) {
        let bits = g.rng.range(1, 64);
        vals.push(g.rng.next() >> (64 - bits));
    }
    for v in &vals {
        g.emit(format!("mem words {v}"));
        g.emit(format!("mem gas {v}"));
    }
    // stream 1 (boundary): fixed scenarios
    // 1a. nesting to depth 40 with a write in every frame, then unwinding with a dump at every level
    g.begin(10_000_000);
    for i in 0..40u64 {
        g.emit("mem newctx".into());
        g.emit("mem len".into());
        let sz = 32 * (1 + i % 3);
        g.emit(format!("mem rmem {sz}"));
        let d = g.data(sz as usize);
        g.emit(format!("mem set 0 {d}"));
        if i % 8 == 7 {
            g.emit("mem dump".into());
        }
    }
    for i in 0..41u64 {
        g.emit("mem freectx".into());
        if i % 8 == 0 {
            g.emit("mem dump".into());
        }
        // stale bytes of the freed child must not show through a fresh growth
        if i % 5 == 0 {
            g.emit("mem newctx".into());
            g.emit("mem resize 40".into());
            g.emit("mem freectx".into());
        }
    }
    // 1b. witnesses kept as regression lines (see Props/C11.lean *_counterexample)
    for l in WITNESS_RESIZE_WRAP.iter().chain(WITNESS_SHRINK.iter()) {
        g.emit(l.to_string());
    }
    // 1c. complete small cross product for copy and set_data on a 6-byte context
    g.begin(1000);
    g.emit("mem newctx".into());
    g.emit("mem resize 6".into());
    g.emit("mem set 0 010203040506".into());
    for d in 0..8u64 {
        for s in 0..8u64 {
            for l in 0..8u64 {
                g.emit(format!("mem copy {d} {s} {l}"));
                if (d + s + l) % 5 == 0 {
                    g.emit("mem set 0 010203040506".into());
                }
            }
        }
    }
    for mo in 0..8u64 {
        for dof in 0..5u64 {
            for l in 0..8u64 {
                g.emit(format!("mem setdata {mo} {dof} {l} a1a2a3"));
                g.emit("mem set 0 010203040506".into());
            }
        }
    }
    // stream 2 (structured): random op sequences, nesting up to 40, and call round trips
    for case in 0..n {
        let gas = g.gas();
        g.begin(gas);
        if g.rng.chance(4, 5) {
            g.depth = 1;
            g.emit("mem newctx".into());
        }
        if case % 4 == 0 {
            let d = g.rng.range(0, 4) as usize;
            call_round_trip(&mut g, d);
        }
        let ops = if case % 10 == 3 { 120 } else { g.rng.range(5, 40) };
        // deep cases: bias towards opening frames
        g.maxdepth = if case % 10 == 3 { 60 } else { 40 };
        for _ in 0..ops {
            g.op();
        }
        g.emit("mem dump".into());
    }
    // stream 3 (malformed)
    g.begin(5);
    for l in ["mem", "mem set", "mem set x 00", "mem set 0 0", "mem set 0 zz", "mem resize -1", "mem resize 18446744073709551616",
        "mem resize 2097152", "mem setbyte 0 256", "mem setword 0 00", "mem copy 1 2", "mem frob", "begin mem", "mem newctx"] {
        g.emit(l.to_string());
    }
    g.lines
}

/// `resize` whose `last_checkpoint + new_size` wraps (release profile): the child's resize cuts the
/// shared buffer below its own checkpoint; the next growth then zeroes the parent's bytes.
pub const WITNESS_RESIZE_WRAP: &[&str] = &[
    "begin mem 1000",
    "mem newctx",
    "mem resize 32",
    "mem set 0 ffffffffffffffffffffffffffffffffffffffffffffffffffffffffffffffff",
    "mem newctx",
    "mem resize 18446744073709551584",
    "mem dump",
    "mem resize 64",
    "mem freectx",
    "mem ctx",
];
/// `resize_memory` called directly (without the macro's `new_size > len` guard) with a smaller size
/// and a full gas counter: the u64 subtraction wraps, the charge is accepted, memory shrinks.
pub const WITNESS_SHRINK: &[&str] = &[
    "begin mem 18446744073709551615",
    "mem newctx",
    "mem resize 64",
    "mem rmem 0",
];

pub fn run(seed: u64, n: usize, replay: Option<Vec<String>>, out: &mut Out) {
    match replay {
        Some(lines) => exec_lines(&lines, out),
        None => {
            let _ = gen(seed, n, out);
        }
    }
}
