//! C11: call sequences on the real `revm::interpreter::SharedMemory` (+ `resize_memory`, `num_words`,
//! `memory_gas`), nesting depth up to 40 and beyond.
//!
//! requests (numbers decimal, bytes hex, `-` = empty):
//!   begin mem <gas>                    SharedMemory::new(), Gas::new(gas)
//!   mem newctx | freectx | resize <n> | rmem <new_size>
//!   mem set <off> <bytes> | setbyte <off> <b> | setword <off> <32 bytes> | setu256 <off> <word>
//!   mem setdata <moff> <doff> <len> <bytes> | copy <dst> <src> <len>
//!   mem slice <off> <size> | slicer <start> <end> | getbyte <off> | getword <off> | getu256 <off>
//!   mem ctx | len | dump
//!   mem words <len> | gas <words>      (stateless)
//!   mem ico <kind> <result> <start> <end> <ret> <eof> <sl> <limit> <spent> <crem> <cref> <addr>
//!       the REAL `Interpreter::insert_call_outcome` (kind = call; `insert_create_outcome` for create,
//!       `insert_eofcreate_outcome` for eofcreate) of a fresh parent interpreter (is_eof = <eof>, <sl> stack
//!       items, Gas::new(limit) with `spent` recorded) on the stream's shared memory, for the child result
//!       (<result>, output <ret>, gas remaining <crem>, refunded <cref>, created address <addr> or `-`) and the
//!       return window <start>..<end>; reply `ok len=.. ctx=.. chg=<lo>..<hi>|- ir=<instruction_result>
//!       top=<stack top|-> sl=<stack len> rem=<gas remaining> ref=<refunded> rd=<return_data_buffer>`
//! replies: state-changing calls `ok len=<len> ctx=<bytes>` (rmem: `ok|oog rem=<gas> len=.. ctx=..`),
//!   reads print the value, `dump` prints `buf=<bytes> cps=<c1,c2,..> last=<n>` (private fields, read
//!   through the derived `Hash` impl with a recording `Hasher`), `panic` = caught Rust panic,
//!   `ub` = the call would reach `debug_unreachable!` / break the contract of an unchecked access
//!   (undefined behaviour in a build without debug_assertions: such a call is NOT executed there; in a
//!   build with debug_assertions it is executed on a clone and must panic).
use crate::*;
use revm::interpreter::interpreter::resize_memory;
use revm::interpreter::{
    gas, num_words, CallOutcome, Contract, CreateOutcome, Gas, InstructionResult, Interpreter, InterpreterResult,
    SharedMemory,
};
use revm::primitives::{Address, Bytecode, Bytes, B256, U256};
use std::hash::{Hash, Hasher};

const P20: u64 = 1 << 20;
const HI: u64 = (1 << 63) + (1 << 21);

// ---------------------------------------------------------------- private fields via Hash
#[derive(Default)]
struct Rec {
    ev: Vec<Ev>,
}
enum Ev {
    U(usize),
    B(Vec<u8>),
}
impl Hasher for Rec {
    fn finish(&self) -> u64 {
        0
    }
    fn write(&mut self, bytes: &[u8]) {
        self.ev.push(Ev::B(bytes.to_vec()));
    }
    fn write_usize(&mut self, i: usize) {
        self.ev.push(Ev::U(i));
    }
}

/// (buffer, checkpoints in Vec order, last_checkpoint) of the real object.
/// `#[derive(Hash)]` feeds the fields in declaration order: Vec<u8> = length prefix + bytes,
/// Vec<usize> = length prefix + raw native-endian words, usize.
pub fn internals(m: &SharedMemory) -> (Vec<u8>, Vec<usize>, usize) {
    let mut r = Rec::default();
    m.hash(&mut r);
    let mut it = r.ev.into_iter().peekable();
    let mut take_vec = |unit: usize| -> Vec<u8> {
        let n = match it.next() {
            Some(Ev::U(n)) => n,
            _ => panic!("hash layout: length prefix expected"),
        };
        let mut bytes = Vec::new();
        while bytes.len() < n * unit {
            match it.peek() {
                Some(Ev::B(_)) => {
                    if let Some(Ev::B(b)) = it.next() {
                        bytes.extend_from_slice(&b);
                    }
                }
                _ => panic!("hash layout: bytes expected"),
            }
        }
        // an empty slice may or may not produce an empty write
        if n == 0 {
            if let Some(Ev::B(b)) = it.peek() {
                if b.is_empty() {
                    it.next();
                }
            }
        }
        assert_eq!(bytes.len(), n * unit, "hash layout: slice length");
        bytes
    };
    let buffer = take_vec(1);
    let cps_raw = take_vec(std::mem::size_of::<usize>());
    let cps: Vec<usize> = cps_raw
        .chunks(std::mem::size_of::<usize>())
        .map(|c| usize::from_ne_bytes(c.try_into().unwrap()))
        .collect();
    let last = match it.next() {
        Some(Ev::U(n)) => n,
        _ => panic!("hash layout: last_checkpoint expected"),
    };
    // further (newer) fields hashed after the three known ones are ignored: they are not observable state of the property
    (buffer, cps, last)
}

// ---------------------------------------------------------------- executor
pub struct St {
    pub mem: SharedMemory,
    pub gas: Gas,
}

fn dec(s: &str) -> Option<u64> {
    if s.is_empty() || !s.bytes().all(|c| c.is_ascii_digit()) {
        return None;
    }
    s.parse::<u64>().ok()
}
fn unhex(s: &str) -> Option<Vec<u8>> {
    if s == "-" {
        return Some(vec![]);
    }
    if s.len() % 2 != 0 || s.is_empty() {
        return None;
    }
    (0..s.len() / 2).map(|i| u8::from_str_radix(s.get(2 * i..2 * i + 2)?, 16).ok()).collect()
}

fn dec_i64(s: &str) -> Option<i64> {
    let (neg, d) = match s.strip_prefix('-') {
        Some(r) => (true, r),
        None => (false, s),
    };
    if d.is_empty() || !d.bytes().all(|c| c.is_ascii_digit()) {
        return None;
    }
    let v = d.parse::<i128>().ok()?;
    let v = if neg { -v } else { v };
    // protocol domain: |refund| <= 2^62 (no i64 wrap in record_refund on a fresh counter)
    if v < -(1i128 << 62) || v > (1i128 << 62) {
        return None;
    }
    Some(v as i64)
}
pub const IRS: &[InstructionResult] = &[
    InstructionResult::Continue,
    InstructionResult::Stop,
    InstructionResult::Return,
    InstructionResult::SelfDestruct,
    InstructionResult::ReturnContract,
    InstructionResult::Revert,
    InstructionResult::CallTooDeep,
    InstructionResult::OutOfFunds,
    InstructionResult::CreateInitCodeStartingEF00,
    InstructionResult::InvalidEOFInitCode,
    InstructionResult::InvalidExtDelegateCallTarget,
    InstructionResult::CallOrCreate,
    InstructionResult::OutOfGas,
    InstructionResult::MemoryOOG,
    InstructionResult::MemoryLimitOOG,
    InstructionResult::PrecompileOOG,
    InstructionResult::InvalidOperandOOG,
    InstructionResult::OpcodeNotFound,
    InstructionResult::CallNotAllowedInsideStatic,
    InstructionResult::StateChangeDuringStaticCall,
    InstructionResult::InvalidFEOpcode,
    InstructionResult::InvalidJump,
    InstructionResult::NotActivated,
    InstructionResult::StackUnderflow,
    InstructionResult::StackOverflow,
    InstructionResult::OutOfOffset,
    InstructionResult::CreateCollision,
    InstructionResult::OverflowPayment,
    InstructionResult::PrecompileError,
    InstructionResult::NonceOverflow,
    InstructionResult::CreateContractSizeLimit,
    InstructionResult::CreateContractStartingWithEF,
    InstructionResult::CreateInitCodeSizeLimit,
    InstructionResult::FatalExternalError,
    InstructionResult::ReturnContractInNotInitEOF,
    InstructionResult::EOFOpcodeDisabledInLegacy,
    InstructionResult::EOFFunctionStackOverflow,
    InstructionResult::EofAuxDataOverflow,
    InstructionResult::EofAuxDataTooSmall,
    InstructionResult::InvalidEXTCALLTarget,
];
fn ir_by_name(s: &str) -> Option<InstructionResult> {
    IRS.iter().copied().find(|r| format!("{:?}", r) == s)
}
/// the `return_ok!()` / `return_revert!()` patterns, written out (the harness must know which arms touch
/// memory to decide whether a call is inside the contract of the unchecked `set`)
fn ok_class(r: InstructionResult) -> bool {
    use InstructionResult::*;
    matches!(r, Continue | Stop | Return | SelfDestruct | ReturnContract)
}
fn revert_class(r: InstructionResult) -> bool {
    use InstructionResult::*;
    matches!(
        r,
        Revert | CallTooDeep | OutOfFunds | CreateInitCodeStartingEF00 | InvalidEOFInitCode | InvalidExtDelegateCallTarget
    )
}
/// the byte range of the running context that differs between two snapshots
fn changed(before: &[u8], after: &[u8]) -> String {
    if before.len() != after.len() {
        return format!("len:{}->{}", before.len(), after.len());
    }
    let lo = (0..before.len()).find(|&i| before[i] != after[i]);
    match lo {
        None => "-".into(),
        Some(lo) => {
            let hi = (0..before.len()).rev().find(|&i| before[i] != after[i]).unwrap();
            format!("{}..{}", lo, hi + 1)
        }
    }
}

/// the context is addressable (`last_checkpoint <= buffer.len()`), else every access is UB
fn valid(m: &SharedMemory) -> bool {
    let (b, _, l) = internals(m);
    l <= b.len()
}
fn state_str(m: &SharedMemory) -> String {
    let (b, _, l) = internals(m);
    let len = b.len().wrapping_sub(l);
    debug_assert!(l > b.len() || len == m.len());
    if l <= b.len() {
        format!("len={} ctx={}", m.len(), hxb(m.context_memory()))
    } else {
        format!("len={} ctx=ub", len)
    }
}
/// contract of slice / slice_mut: `offset..offset+size` (wrapping) inside the context
fn range_ok(m: &SharedMemory, offset: u64, size: u64) -> bool {
    if !valid(m) {
        return false;
    }
    let end = offset.wrapping_add(size);
    offset <= end && end <= m.len() as u64
}

/// run a call whose contract (`pre`) may be violated: never execute UB
fn contract<F: FnOnce(&mut St) -> String>(st: &mut St, pre: bool, f: F) -> String {
    if pre {
        // contract holds: run in place on the one long-lived buffer (as run_the_loop does); a panic
        // is caught and reported, the state is whatever the real code left behind
        guarded(std::panic::AssertUnwindSafe(|| f(st)))
    } else if cfg!(debug_assertions) {
        // debug build: the violation is a real panic; execute on a clone and require the panic
        let mut tmp = St { mem: st.mem.clone(), gas: st.gas };
        let r = guarded(std::panic::AssertUnwindSafe(|| f(&mut tmp)));
        if r == "panic" {
            "ub".into()
        } else {
            format!("no-panic-on-contract-violation {r}")
        }
    } else {
        "ub".into()
    }
}

pub fn exec_stateless(t: &[&str]) -> Option<String> {
    match t {
        ["words", n] => dec(n).map(|n| num_words(n).to_string()),
        ["gas", w] => dec(w).map(|w| gas::memory_gas(w).to_string()),
        _ => None,
    }
}

pub fn exec_op(st: &mut St, t: &[&str], out: &mut Out) -> String {
    macro_rules! num {
        ($s:expr) => {
            match dec($s) {
                Some(v) => v,
                None => return "bad-op".into(),
            }
        };
    }
    macro_rules! bytes {
        ($s:expr) => {
            match unhex($s) {
                Some(v) => v,
                None => return "bad-op".into(),
            }
        };
    }
    let mut ub = |pre: bool| {
        if !pre {
            out.count(if cfg!(debug_assertions) { "contract-violation-executed" } else { "contract-violation-not-executed" });
        }
    };
    match t {
        ["newctx"] => contract(st, true, |s| {
            s.mem.new_context();
            format!("ok {}", state_str(&s.mem))
        }),
        ["freectx"] => {
            let (b, c, _) = internals(&st.mem);
            let pre = c.last().map_or(true, |&old| old <= b.len());
            ub(pre);
            contract(st, pre, |s| {
                s.mem.free_context();
                format!("ok {}", state_str(&s.mem))
            })
        }
        ["resize", n] => {
            let n = num!(n);
            if !(n <= P20 || n >= HI) {
                return "bad-op".into();
            }
            contract(st, true, move |s| {
                s.mem.resize(n as usize);
                format!("ok {}", state_str(&s.mem))
            })
        }
        ["rmem", n] => {
            let n = num!(n);
            if !(n <= P20 || st.gas.remaining() < P20 || n >= HI) {
                return "bad-op".into();
            }
            contract(st, true, move |s| {
                let ok = resize_memory(&mut s.mem, &mut s.gas, n as usize);
                format!("{} rem={} {}", if ok { "ok" } else { "oog" }, s.gas.remaining(), state_str(&s.mem))
            })
        }
        ["set", o, v] => {
            let (o, v) = (num!(o), bytes!(v));
            let pre = v.is_empty() || range_ok(&st.mem, o, v.len() as u64);
            ub(pre);
            contract(st, pre, move |s| {
                s.mem.set(o as usize, &v);
                format!("ok {}", state_str(&s.mem))
            })
        }
        ["setbyte", o, b] => {
            let (o, b) = (num!(o), num!(b));
            if b > 255 {
                return "bad-op".into();
            }
            let pre = range_ok(&st.mem, o, 1);
            ub(pre);
            contract(st, pre, move |s| {
                s.mem.set_byte(o as usize, b as u8);
                format!("ok {}", state_str(&s.mem))
            })
        }
        ["setword", o, v] => {
            let (o, v) = (num!(o), bytes!(v));
            if v.len() != 32 {
                return "bad-op".into();
            }
            let pre = range_ok(&st.mem, o, 32);
            ub(pre);
            contract(st, pre, move |s| {
                s.mem.set_word(o as usize, &B256::from_slice(&v));
                format!("ok {}", state_str(&s.mem))
            })
        }
        ["setu256", o, v] => {
            let o = num!(o);
            let Ok(v) = U256::from_str_radix(v, 16) else { return "bad-op".into() };
            let pre = range_ok(&st.mem, o, 32);
            ub(pre);
            contract(st, pre, move |s| {
                s.mem.set_u256(o as usize, v);
                format!("ok {}", state_str(&s.mem))
            })
        }
        ["setdata", a, b, c, d] => {
            let (a, b, c, d) = (num!(a), num!(b), num!(c), bytes!(d));
            if c > P20 {
                return "bad-op".into();
            }
            // contract: both slice_mut calls in range = memory_offset..memory_offset+len inside the
            // context (c <= 2^20 and data_offset < data.len() <= small: no wrap in data_offset + len)
            let pre = range_ok(&st.mem, a, c);
            ub(pre);
            contract(st, pre, move |s| {
                s.mem.set_data(a as usize, b as usize, c as usize, &d);
                format!("ok {}", state_str(&s.mem))
            })
        }
        ["copy", d, s_, l] => {
            let (d, s_, l) = (num!(d), num!(s_), num!(l));
            // copy_within checks its ranges itself (real panics); only the context must be addressable
            let pre = valid(&st.mem);
            ub(pre);
            contract(st, pre, move |s| {
                s.mem.copy(d as usize, s_ as usize, l as usize);
                format!("ok {}", state_str(&s.mem))
            })
        }
        ["slice", o, n] => {
            let (o, n) = (num!(o), num!(n));
            let pre = range_ok(&st.mem, o, n);
            ub(pre);
            contract(st, pre, move |s| hxb(s.mem.slice(o as usize, n as usize)))
        }
        ["slicer", a, b] => {
            let (a, b) = (num!(a), num!(b));
            let pre = valid(&st.mem) && a <= b && b <= st.mem.len() as u64;
            ub(pre);
            contract(st, pre, move |s| hxb(s.mem.slice_range(a as usize..b as usize)))
        }
        ["getbyte", o] => {
            let o = num!(o);
            let pre = range_ok(&st.mem, o, 1);
            ub(pre);
            contract(st, pre, move |s| s.mem.get_byte(o as usize).to_string())
        }
        ["getword", o] => {
            let o = num!(o);
            let pre = range_ok(&st.mem, o, 32);
            ub(pre);
            contract(st, pre, move |s| hxb(s.mem.get_word(o as usize).as_slice()))
        }
        ["getu256", o] => {
            let o = num!(o);
            let pre = range_ok(&st.mem, o, 32);
            ub(pre);
            contract(st, pre, move |s| hx(s.mem.get_u256(o as usize)))
        }
        ["ico", kind, res, a, b, ret, eof, sl, limit, spent, crem, cref, addr] => {
            let (a, b, ret, sl, limit, spent, crem) =
                (num!(a), num!(b), bytes!(ret), num!(sl), num!(limit), num!(spent), num!(crem));
            let Some(res) = ir_by_name(res) else { return "bad-op".into() };
            let eof = match *eof {
                "0" => false,
                "1" => true,
                _ => return "bad-op".into(),
            };
            let Some(cref) = dec_i64(cref) else { return "bad-op".into() };
            let addr = if *addr == "-" {
                None
            } else {
                match U256::from_str_radix(addr, 16) {
                    Ok(v) if v < (U256::from(1) << 160) => Some(Address::from_word(B256::from(v))),
                    _ => return "bad-op".into(),
                }
            };
            let kind = match *kind {
                "call" => 0u8,
                "create" => 1,
                "eofcreate" => 2,
                _ => return "bad-op".into(),
            };
            // protocol domain: no u64 / i64 wrap in the gas bookkeeping (debug builds panic there)
            if sl > 1024 || spent > limit || (limit - spent).checked_add(crem).is_none() {
                return "bad-op".into();
            }
            let out_len = if b > a { b - a } else { 0 };
            let target = out_len.min(ret.len() as u64);
            let writes = kind == 0 && (ok_class(res) || revert_class(res));
            let pre = !writes || target == 0 || range_ok(&st.mem, a, target);
            ub(pre);
            contract(st, pre, move |s| {
                let contract_ = Contract::new(
                    Bytes::new(),
                    Bytecode::new_raw(Bytes::from(vec![0u8])),
                    None,
                    Address::ZERO,
                    None,
                    Address::ZERO,
                    U256::ZERO,
                );
                let mut interp = Interpreter::new(contract_, limit, false);
                interp.is_eof = eof;
                interp.instruction_result = InstructionResult::CallOrCreate;
                for i in 0..sl {
                    let _ = interp.stack.push(U256::from(0xabc0 + i));
                }
                let _ = interp.gas.record_cost(spent);
                let mut cg = Gas::new(crem);
                cg.record_refund(cref);
                let before: Vec<u8> = if valid(&s.mem) { s.mem.context_memory().to_vec() } else { vec![] };
                let result = InterpreterResult { result: res, output: Bytes::from(ret), gas: cg };
                match kind {
                    0 => interp.insert_call_outcome(&mut s.mem, CallOutcome::new(result, a as usize..b as usize)),
                    1 => interp.insert_create_outcome(CreateOutcome::new(result, addr)),
                    _ => interp.insert_eofcreate_outcome(CreateOutcome::new(result, addr)),
                }
                let after: Vec<u8> = if valid(&s.mem) { s.mem.context_memory().to_vec() } else { vec![] };
                let top = match interp.stack.data().last() {
                    Some(w) => hx(*w),
                    None => "-".into(),
                };
                format!(
                    "ok {} chg={} ir={:?} top={} sl={} rem={} ref={} rd={}",
                    state_str(&s.mem),
                    changed(&before, &after),
                    interp.instruction_result,
                    top,
                    interp.stack.len(),
                    interp.gas.remaining(),
                    interp.gas.refunded(),
                    hxb(&interp.return_data_buffer)
                )
            })
        }
        ["ctx"] => {
            let pre = valid(&st.mem);
            ub(pre);
            contract(st, pre, |s| hxb(s.mem.context_memory()))
        }
        ["len"] => contract(st, true, |s| {
            format!(
                "{} empty={} cost={}",
                s.mem.len(),
                b01(s.mem.is_empty()),
                s.mem.current_expansion_cost()
            )
        }),
        ["dump"] => {
            let (b, c, l) = internals(&st.mem);
            let cps = if c.is_empty() {
                "-".to_string()
            } else {
                c.iter().map(|x| x.to_string()).collect::<Vec<_>>().join(",")
            };
            format!("buf={} cps={} last={}", hxb(&b), cps, l)
        }
        _ => "bad-op".into(),
    }
}

/// executes all lines (pure function of the lines)
pub fn exec_lines(lines: &[String], out: &mut Out) {
    let mut st: Option<St> = None;
    for l in lines {
        let t: Vec<&str> = l.split(' ').collect();
        let r = exec_one(&mut st, &t, out);
        out.push(l.clone(), r);
    }
}

pub fn exec_one(st: &mut Option<St>, t: &[&str], out: &mut Out) -> String {
    match t {
        ["begin", "mem", g] => match dec(g) {
            Some(g) => {
                let s = St { mem: SharedMemory::new(), gas: Gas::new(g) };
                let r = format!("ok {}", state_str(&s.mem));
                *st = Some(s);
                r
            }
            None => {
                *st = None;
                "bad-op".into()
            }
        },
        ["begin", "mem", ..] => {
            *st = None;
            "bad-op".into()
        }
        ["mem", rest @ ..] => {
            if let Some(r) = exec_stateless(rest) {
                return r;
            }
            if matches!(rest.first(), Some(&"words") | Some(&"gas")) {
                return "bad-op".into();
            }
            match st {
                Some(s) => {
                    out.count(&format!("op:{}", rest.first().copied().unwrap_or("?")));
                    let r = exec_op(s, rest, out);
                    if r == "panic" {
                        out.count("reply:panic");
                    } else if r == "ub" {
                        out.count("reply:ub");
                    }
                    r
                }
                None => "bad-op".into(),
            }
        }
        _ => "bad-op".into(),
    }
}

// ---------------------------------------------------------------- generator
struct Gen<'a> {
    rng: Rng,
    st: Option<St>,
    lines: Vec<String>,
    out: &'a mut Out,
    depth: usize,
    maxdepth: usize,
}
impl<'a> Gen<'a> {
    fn emit(&mut self, l: String) -> String {
        let t: Vec<&str> = l.split(' ').collect();
        let r = exec_one(&mut self.st, &t, self.out);
        self.out.push(l.clone(), r.clone());
        self.lines.push(l);
        r
    }
    fn len(&self) -> u64 {
        match &self.st {
            Some(s) if valid(&s.mem) => s.mem.len() as u64,
            _ => 0,
        }
    }
    /// an (offset, size) pair: mostly inside the context, sometimes just outside, rarely far away
    fn range(&mut self, maxsize: u64) -> (u64, u64) {
        let len = self.len();
        match self.rng.below(20) {
            0 => (self.rng.below(len + 40), self.rng.below(maxsize + 1)), // anywhere near
            1 => {
                // exactly one byte too far
                let size = self.rng.below(maxsize.min(len + 1) + 1);
                ((len + 1).saturating_sub(size), size)
            }
            2 => (*self.rng.pick(&[u64::MAX, u64::MAX - 1, u64::MAX - 31, 1 << 63, 1 << 32]), self.rng.below(maxsize + 1)),
            _ => {
                if len == 0 {
                    (0, 0)
                } else {
                    let size = self.rng.below(maxsize.min(len) + 1);
                    (self.rng.below(len - size + 1), size)
                }
            }
        }
    }
    fn data(&mut self, n: usize) -> String {
        // non-zero bytes mostly, so that zero-fill / isolation is visible
        let b: Vec<u8> = (0..n).map(|_| if self.rng.chance(1, 8) { 0 } else { self.rng.range(1, 255) as u8 }).collect();
        hxb(&b)
    }
    fn op(&mut self) {
        let k = self.rng.below(100);
        let len = self.len();
        match k {
            0..=9 => {
                if self.depth < self.maxdepth {
                    self.depth += 1;
                    self.emit("mem newctx".into());
                    // a new frame starts empty
                    if self.rng.chance(1, 3) {
                        self.emit("mem len".into());
                    }
                }
            }
            10..=16 => {
                if self.depth > 0 || self.rng.chance(1, 10) {
                    self.depth = self.depth.saturating_sub(1);
                    self.emit("mem freectx".into());
                }
            }
            17..=26 => {
                // plain resize: grow mostly, shrink sometimes
                let n = match self.rng.below(6) {
                    0 => self.rng.below(len + 1),
                    1 => 32 * self.rng.below(6),
                    _ => len + self.rng.below(70),
                };
                self.emit(format!("mem resize {n}"));
            }
            27..=38 => {
                // resize_memory the way the macro calls it (new_size > len) mostly
                let n = match self.rng.below(8) {
                    0 => self.rng.below(len + 1),
                    1 => len,
                    _ => len + 1 + self.rng.below(100),
                };
                self.emit(format!("mem rmem {n}"));
            }
            47..=50 => self.ico_random(),
            39..=46 => {
                let (o, s) = self.range(48);
                let d = self.data(s as usize);
                self.emit(format!("mem set {o} {d}"));
            }
            51..=54 => {
                let (o, _) = self.range(1);
                let b = self.rng.range(0, 255);
                self.emit(format!("mem setbyte {o} {b}"));
            }
            55..=58 => {
                let (mut o, _) = self.range(32);
                if len >= 32 && self.rng.chance(3, 4) {
                    o = self.rng.below(len - 31);
                }
                let d = self.data(32);
                self.emit(format!("mem setword {o} {d}"));
            }
            59..=62 => {
                let (mut o, _) = self.range(32);
                if len >= 32 && self.rng.chance(3, 4) {
                    o = self.rng.below(len - 31);
                }
                let w = self.rng.word();
                self.emit(format!("mem setu256 {o} {}", hx(w)));
            }
            63..=72 => {
                let (o, s) = self.range(64);
                let dl = self.rng.below(40) as usize;
                let d = self.data(dl);
                let doff = match self.rng.below(6) {
                    0 => dl as u64,
                    1 => dl as u64 + self.rng.below(5),
                    2 => *self.rng.pick(&[u64::MAX, u64::MAX - 1, 1 << 40]),
                    _ => self.rng.below(dl as u64 + 1),
                };
                self.emit(format!("mem setdata {o} {doff} {s} {d}"));
            }
            73..=82 => {
                let (s, l) = self.range(64);
                let d = match self.rng.below(8) {
                    0 => self.rng.below(len + 40),
                    1 => (len + 1).saturating_sub(l),
                    2 => *self.rng.pick(&[u64::MAX, u64::MAX - l.min(40), 1 << 63]),
                    _ => self.rng.below(len.saturating_sub(l) + 1),
                };
                self.emit(format!("mem copy {d} {s} {l}"));
            }
            83..=86 => {
                let (o, s) = self.range(64);
                self.emit(format!("mem slice {o} {s}"));
            }
            87..=88 => {
                let (o, s) = self.range(64);
                let (a, b) = if self.rng.chance(1, 10) { (o.wrapping_add(s), o) } else { (o, o.wrapping_add(s)) };
                self.emit(format!("mem slicer {a} {b}"));
            }
            89..=90 => {
                let (o, _) = self.range(1);
                self.emit(format!("mem getbyte {o}"));
            }
            91..=92 => {
                let (mut o, _) = self.range(32);
                if len >= 32 && self.rng.chance(3, 4) {
                    o = self.rng.below(len - 31);
                }
                self.emit(format!("mem getword {o}"));
            }
            93..=94 => {
                let (mut o, _) = self.range(32);
                if len >= 32 && self.rng.chance(3, 4) {
                    o = self.rng.below(len - 31);
                }
                self.emit(format!("mem getu256 {o}"));
            }
            95 => {
                self.emit("mem ctx".into());
            }
            96..=97 => {
                self.emit("mem len".into());
            }
            _ => {
                self.emit("mem dump".into());
            }
        }
    }
    /// bytes without a zero: a zero-fill or a skipped copy is always visible
    fn nzdata(&mut self, n: usize) -> String {
        let b: Vec<u8> = (0..n).map(|_| self.rng.range(1, 255) as u8).collect();
        hxb(&b)
    }
    /// one `insert_call_outcome` / `insert_create_outcome` / `insert_eofcreate_outcome` request
    fn ico(&mut self, kind: &str, res: InstructionResult, start: u64, end: u64, retlen: usize, eof: bool, sl: u64) -> String {
        let limit = 1_000_000 + self.rng.below(1000);
        let spent = self.rng.range(100_000, 900_000);
        let crem = match self.rng.below(4) {
            0 => 0,
            1 => spent,
            _ => self.rng.below(spent + 1),
        };
        let cref: i64 = match self.rng.below(5) {
            0 => 0,
            1 => -(self.rng.below(20_000) as i64),
            _ => self.rng.below(60_000) as i64,
        };
        let addr = match (kind, self.rng.below(8)) {
            ("call", _) => "-".to_string(),
            (_, 0) => "-".to_string(),
            _ => hx(self.rng.u256() >> 96usize),
        };
        let ret = self.nzdata(retlen);
        self.emit(format!(
            "mem ico {kind} {res:?} {start} {end} {ret} {} {sl} {limit} {spent} {crem} {cref} {addr}",
            b01(eof)
        ))
    }
    /// a random outcome re-entering the running frame the way the frame machine does it: the window was made
    /// addressable by the CALL (inside the context), the child returned anything
    fn ico_random(&mut self) {
        let len = self.len();
        let res = if self.rng.chance(3, 4) {
            *self.rng.pick(&[
                InstructionResult::Stop,
                InstructionResult::Return,
                InstructionResult::SelfDestruct,
                InstructionResult::Revert,
                InstructionResult::CallTooDeep,
                InstructionResult::OutOfFunds,
                InstructionResult::OutOfGas,
            ])
        } else {
            *self.rng.pick(IRS)
        };
        let kind = *self.rng.pick(&["call", "call", "call", "call", "call", "call", "create", "eofcreate"]);
        let out_len = match self.rng.below(6) {
            0 => 0,
            1 => *self.rng.pick(&[1u64, 31, 32, 33, 64]),
            _ => self.rng.below(70),
        }
        .min(len);
        let start = match self.rng.below(5) {
            0 => len - out_len, // the window ends with the memory
            1 => (32 * self.rng.below(4)).min(len - out_len),
            _ => self.rng.below(len - out_len + 1),
        };
        let (start, end) = match (out_len, self.rng.below(6)) {
            // an empty window may sit anywhere, also far outside, also reversed
            (0, 0) => (*self.rng.pick(&[u64::MAX, 1 << 40, len + 1]), self.rng.below(5)),
            (0, 1) => (len + self.rng.below(100), len + self.rng.below(3)),
            (0, _) => (start, start.saturating_sub(self.rng.below(2) * self.rng.below(10))),
            _ => (start, start + out_len),
        };
        let retlen = match self.rng.below(8) {
            0 => 0,
            1 => out_len.saturating_sub(1),
            2 => out_len,
            3 => out_len + 1,
            4 => 2 * out_len,
            5 => 1,
            _ => self.rng.below(2 * out_len + 40),
        } as usize;
        let sl = match self.rng.below(12) {
            0 => 1024,
            1 => 1023,
            2 => 0,
            _ => self.rng.below(12),
        };
        let eof = self.rng.chance(1, 4);
        self.ico(kind, res, start, end, retlen, eof, sl);
    }
    fn begin(&mut self, gas: u64) {
        self.depth = 0;
        self.emit(format!("begin mem {gas}"));
    }
    fn gas(&mut self) -> u64 {
        match self.rng.below(6) {
            0 => self.rng.below(40),
            1 => self.rng.below(2000),
            2 => u64::MAX,
            _ => 100_000 + self.rng.below(1_000_000),
        }
    }
}

/// the way run_the_loop uses the buffer: parent writes, child frame (new_context) resizes and
/// writes, returns (free_context), the parent stores the return data window
fn call_round_trip(g: &mut Gen, depth: usize) {
    let n = 32 * g.rng.range(1, 4);
    g.emit(format!("mem rmem {n}"));
    let d = g.data(n as usize);
    g.emit(format!("mem set 0 {d}"));
    g.emit("mem newctx".into());
    g.emit("mem len".into());
    let c = 32 * g.rng.range(1, 3);
    g.emit(format!("mem rmem {c}"));
    let d = g.data(c as usize);
    g.emit(format!("mem set 0 {d}"));
    if depth > 0 && g.rng.chance(2, 3) {
        call_round_trip(g, depth - 1);
    }
    g.emit("mem freectx".into());
    // return-data window
    let ol = g.rng.below(n + 1);
    let oo = g.rng.below(n - ol + 1);
    if g.rng.chance(1, 2) {
        let d = g.data(ol as usize);
        g.emit(format!("mem set {oo} {d}"));
    } else {
        // the real re-entry: the child returned fewer / as many / more bytes than the window
        let retlen = match g.rng.below(5) {
            0 => 0,
            1 => ol.saturating_sub(1),
            2 => ol,
            3 => ol + 1,
            _ => g.rng.below(2 * ol + 8),
        } as usize;
        let res = *g.rng.pick(&[InstructionResult::Return, InstructionResult::Stop, InstructionResult::Revert, InstructionResult::OutOfGas]);
        let sl = g.rng.below(8);
        g.ico("call", res, oo, oo + ol, retlen, false, sl);
    }
    if g.rng.chance(1, 2) {
        g.emit("mem dump".into());
    }
}

pub fn gen(seed: u64, n: usize, out: &mut Out) -> Vec<String> {
    let mut g = Gen { rng: Rng::new(seed ^ 0xC11), st: None, lines: vec![], out, depth: 0, maxdepth: 40 };
    // stream 0: the pure functions, boundary values complete + random
    let mut vals: Vec<u64> = vec![];
    for b in [0u64, 1, 31, 32, 33, 63, 64, 65, 511, 512, 513, 1023, 1024, 724 * 32, 1 << 20, (1 << 32) - 1, 1 << 32, (1 << 32) + 1,
        (1 << 37) - 32, 1 << 37, 1 << 59, (1 << 59) - 1, 1 << 63, u64::MAX - 32, u64::MAX - 31, u64::MAX - 30, u64::MAX - 1, u64::MAX] {
        vals.push(b);
    }
    for _ in 0..(n / 4).max(50) {
        let bits = g.rng.range(1, 64);
        vals.push(g.rng.next() >> (64 - bits));
    }
    for v in &vals {
        g.emit(format!("mem words {v}"));
        g.emit(format!("mem gas {v}"));
    }
    // stream 1 (boundary): fixed scenarios
    // 1a. nesting to depth 40 with a write in every frame, then unwinding with a dump at every level
    g.begin(10_000_000);
    for i in 0..40u64 {
        g.emit("mem newctx".into());
        g.emit("mem len".into());
        let sz = 32 * (1 + i % 3);
        g.emit(format!("mem rmem {sz}"));
        let d = g.data(sz as usize);
        g.emit(format!("mem set 0 {d}"));
        if i % 8 == 7 {
            g.emit("mem dump".into());
        }
    }
    for i in 0..41u64 {
        g.emit("mem freectx".into());
        if i % 8 == 0 {
            g.emit("mem dump".into());
        }
        // stale bytes of the freed child must not show through a fresh growth
        if i % 5 == 0 {
            g.emit("mem newctx".into());
            g.emit("mem resize 40".into());
            g.emit("mem freectx".into());
        }
    }
    // 1b. witnesses kept as regression lines (see Props/C11.lean *_counterexample)
    for l in WITNESS_RESIZE_WRAP.iter().chain(WITNESS_SHRINK.iter()) {
        g.emit(l.to_string());
    }
    // 1c. complete small cross product for copy and set_data on a 6-byte context
    g.begin(1000);
    g.emit("mem newctx".into());
    g.emit("mem resize 6".into());
    g.emit("mem set 0 010203040506".into());
    for d in 0..8u64 {
        for s in 0..8u64 {
            for l in 0..8u64 {
                g.emit(format!("mem copy {d} {s} {l}"));
                if (d + s + l) % 5 == 0 {
                    g.emit("mem set 0 010203040506".into());
                }
            }
        }
    }
    for mo in 0..8u64 {
        for dof in 0..5u64 {
            for l in 0..8u64 {
                g.emit(format!("mem setdata {mo} {dof} {l} a1a2a3"));
                g.emit("mem set 0 010203040506".into());
            }
        }
    }
    // 1d. the REAL Interpreter::insert_call_outcome (insert_create_outcome, insert_eofcreate_outcome): complete
    // cross product result class x window length x returned length x window position, on a parent frame
    // (two non-empty frames below it) whose 160 bytes are all non-zero; a buffer dump after every block
    g.begin(1_000_000);
    g.emit("mem resize 64".into());
    let d = g.nzdata(64);
    g.emit(format!("mem set 0 {d}"));
    g.emit("mem newctx".into());
    g.emit("mem resize 32".into());
    let d = g.nzdata(32);
    g.emit(format!("mem set 0 {d}"));
    g.emit("mem newctx".into());
    g.emit("mem resize 160".into());
    let d = g.nzdata(160);
    g.emit(format!("mem set 0 {d}"));
    const MEMLEN: u64 = 160;
    let classes = [
        InstructionResult::Stop,
        InstructionResult::Return,
        InstructionResult::SelfDestruct,
        InstructionResult::Revert,
        InstructionResult::CallTooDeep,
        InstructionResult::OutOfFunds,
        InstructionResult::OutOfGas,
        InstructionResult::PrecompileError,
        InstructionResult::FatalExternalError,
    ];
    let mut k = 0u64;
    for res in classes {
        for out_len in [0u64, 1, 31, 32, 33, 64] {
            let mut rets = vec![0, 1, out_len.saturating_sub(1), out_len, out_len + 1, 2 * out_len];
            rets.sort();
            rets.dedup();
            for retlen in rets {
                let mut offs = vec![0u64, 1, 31, 32, 33, 63, 64, 65, 95, 96, 97, MEMLEN - out_len, (MEMLEN - out_len).saturating_sub(1)];
                offs.sort();
                offs.dedup();
                for off in offs {
                    if off + out_len > MEMLEN {
                        continue;
                    }
                    k += 1;
                    g.ico("call", res, off, off + out_len, retlen as usize, k % 4 == 0, k % 7);
                }
            }
        }
        g.emit("mem dump".into());
    }
    // every InstructionResult x every kind x legacy / EOF parent, window 32 bytes, 20 returned
    for &res in IRS {
        for kind in ["call", "create", "eofcreate"] {
            for eof in [false, true] {
                g.ico(kind, res, 64, 96, 20, eof, 3);
            }
        }
    }
    // a full stack: the status word does not fit, the memory is written nevertheless
    for res in [InstructionResult::Return, InstructionResult::Revert, InstructionResult::OutOfGas] {
        for kind in ["call", "create", "eofcreate"] {
            for sl in [1023u64, 1024] {
                g.ico(kind, res, 32, 64, 40, false, sl);
            }
        }
    }
    // empty / reversed windows far outside the memory (nothing is touched), windows outside the memory (`ub`: not
    // executed in a release build), malformed
    for l in [
        "mem ico call Return 18446744073709551615 0 a1a2a3 0 2 1000 500 100 7 -",
        "mem ico call Return 1000 1000 a1a2a3 0 2 1000 500 100 7 -",
        "mem ico call Revert 200 100 a1a2a3 1 2 1000 500 100 -7 -",
        "mem ico call Return 159 161 a1a2 0 2 1000 500 100 7 -",
        "mem ico call Return 160 161 a1 0 2 1000 500 100 7 -",
        "mem ico call OutOfGas 160 161 a1 0 2 1000 500 100 7 -",
        "mem ico call Return 159 161 a1 0 2 1000 500 100 7 -",
        "mem ico call Return 0 1 a1 0 1025 1000 500 100 7 -",
        "mem ico call Return 0 1 a1 0 2 1000 1001 100 7 -",
        "mem ico call Return 0 1 a1 0 2 18446744073709551615 0 1 7 -",
        "mem ico call Return 0 1 a1 0 2 1000 500 100 4611686018427387905 -",
        "mem ico call Retur 0 1 a1 0 2 1000 500 100 7 -",
        "mem ico frob Return 0 1 a1 0 2 1000 500 100 7 -",
        "mem ico create Return 0 0 - 0 2 1000 500 100 7 10000000000000000000000000000000000000000",
        "mem ico eofcreate ReturnContract 0 0 - 1 2 1000 500 100 7 -",
        "mem ico call Return 0 1 a1 0 2 1000 500 100 7",
    ] {
        g.emit(l.to_string());
    }
    g.emit("mem dump".into());
    // stream 2 (structured): random op sequences, nesting up to 40, and call round trips
    for case in 0..n {
        let gas = g.gas();
        g.begin(gas);
        if g.rng.chance(4, 5) {
            g.depth = 1;
            g.emit("mem newctx".into());
        }
        if case % 4 == 0 {
            let d = g.rng.range(0, 4) as usize;
            call_round_trip(&mut g, d);
        }
        let ops = if case % 10 == 3 { 120 } else { g.rng.range(5, 40) };
        // deep cases: bias towards opening frames
        g.maxdepth = if case % 10 == 3 { 60 } else { 40 };
        for _ in 0..ops {
            g.op();
        }
        g.emit("mem dump".into());
    }
    // stream 3 (malformed)
    g.begin(5);
    for l in ["mem", "mem set", "mem set x 00", "mem set 0 0", "mem set 0 zz", "mem resize -1", "mem resize 18446744073709551616",
        "mem resize 2097152", "mem setbyte 0 256", "mem setword 0 00", "mem copy 1 2", "mem frob", "begin mem", "mem newctx"] {
        g.emit(l.to_string());
    }
    g.lines
}

/// `resize` whose `last_checkpoint + new_size` wraps (release profile): the child's resize cuts the
/// shared buffer below its own checkpoint; the next growth then zeroes the parent's bytes.
pub const WITNESS_RESIZE_WRAP: &[&str] = &[
    "begin mem 1000",
    "mem newctx",
    "mem resize 32",
    "mem set 0 ffffffffffffffffffffffffffffffffffffffffffffffffffffffffffffffff",
    "mem newctx",
    "mem resize 18446744073709551584",
    "mem dump",
    "mem resize 64",
    "mem freectx",
    "mem ctx",
];
/// `resize_memory` called directly (without the macro's `new_size > len` guard) with a smaller size
/// and a full gas counter: the u64 subtraction wraps, the charge is accepted, memory shrinks.
pub const WITNESS_SHRINK: &[&str] = &[
    "begin mem 18446744073709551615",
    "mem newctx",
    "mem resize 64",
    "mem rmem 0",
];

pub fn run(seed: u64, n: usize, replay: Option<Vec<String>>, out: &mut Out) {
    match replay {
        Some(lines) => exec_lines(&lines, out),
        None => {
            let _ = gen(seed, n, out);
        }
    }
}
