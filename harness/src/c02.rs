//! C02: transaction validation through a REAL `Evm` (`Evm::builder()…transact()` on an InMemoryDB).
//!
//! Stream (a), one line per case:
//! `txv <SpecName> <id> chain=<hex> lim=<n|hex> bs=<-|id:max,…> bgl=<hex> bf=<hex> pr=<0|1> bgp=<n|hex>
//!      gl=<hex> gp=<hex> prio=<n|hex> val=<hex> dz=<dec> dnz=<dec> to=<call|create> cid=<n|hex> nonce=<n|hex>
//!      acl=<-|k,k,…> blobs=<-|vv,vv,…> mfb=<n|hex> auth=<n|dec> bal=<hex> sn=<hex> code=<absent|empty|legacy|7702|eof>`
//!   cfg: chain id, limit_contract_code_size, blob schedule (SpecId as u8 : max count, vector order);
//!   block: gas limit, basefee, prevrandao set, blob gas price (n = blob_excess_gas_and_price None);
//!   tx: gas limit, gas price, priority fee, value, data = dz zero bytes ++ dnz bytes 0x01, kind, chain id,
//!       nonce, access list (number of keys per item), blob hashes (first byte of each), max fee per blob gas,
//!       authorization list length; sender: balance, nonce, code kind.
//!   reply: `ok` (transact returned Ok) or the `InvalidTransaction` / `InvalidHeader` variant name, `panic`.
//!
//! Stream (b), histories on ONE Evm + CacheDB (`begin noeff <SpecName> <id>` … `ne tx s=<i> <tx fields>` … `ne end`):
//!   evm A sees every transaction, twin evm B only those A accepted. After a transaction A rejected the
//!   observable database dump of A must equal the dump before; the canonicalised result of every accepted
//!   transaction and the final dumps must be equal in A and B. reply: `same` | `differs <what>`.
use crate::c14::{all_specs, spec_name};
use crate::*;
use revm::db::{CacheDB, EmptyDB, InMemoryDB};
use revm::interpreter::gas::calculate_initial_tx_gas;
use revm::primitives::{
    keccak256, AccessListItem, AccountInfo, Address, Authorization, AuthorizationList, BlobExcessGasAndPrice, Bytecode,
    Bytes, EVMError, Eof, ExecutionResult, RecoveredAuthority, RecoveredAuthorization, ResultAndState, SpecId, TxKind,
    B256, KECCAK_EMPTY, U256,
};
use revm::{DatabaseCommit, DatabaseRef, Evm};
use std::sync::Arc;

#[derive(Clone, Debug)]
pub struct Req {
    pub spec: SpecId,
    pub chain: u64,
    pub lim: Option<u64>,
    pub bs: Vec<(u8, u8)>,
    pub bgl: U256,
    pub bf: U256,
    pub pr: bool,
    pub bgp: Option<u128>,
    pub gl: u64,
    pub gp: U256,
    pub prio: Option<U256>,
    pub val: U256,
    pub dz: usize,
    pub dnz: usize,
    pub create: bool,
    pub cid: Option<u64>,
    pub nonce: Option<u64>,
    pub acl: Vec<usize>,
    pub blobs: Vec<u8>,
    pub mfb: Option<U256>,
    pub auth: Option<usize>,
    pub bal: U256,
    pub sn: u64,
    pub code: String,
}

const MAX_DATA: usize = 1 << 18;

fn sender_addr(i: u8) -> Address {
    Address::with_last_byte(0xA0 + i)
}
fn target_addr() -> Address {
    Address::with_last_byte(0x77)
}
fn counter_addr() -> Address {
    Address::with_last_byte(0xC7)
}

fn opt<T>(s: &str, f: impl Fn(&str) -> Option<T>) -> Option<Option<T>> {
    if s == "n" { Some(None) } else { f(s).map(Some) }
}
fn hu64(s: &str) -> Option<u64> {
    u64::from_str_radix(s, 16).ok()
}
fn hu128(s: &str) -> Option<u128> {
    u128::from_str_radix(s, 16).ok()
}
fn hw(s: &str) -> Option<U256> {
    if s.is_empty() || s.len() > 64 { return None; }
    U256::from_str_radix(s, 16).ok()
}
fn kv<'a>(tok: &'a str, key: &str) -> Option<&'a str> {
    let (k, v) = tok.split_once('=')?;
    if k == key { Some(v) } else { None }
}
fn plist<T>(s: &str, f: impl Fn(&str) -> Option<T>) -> Option<Vec<T>> {
    if s == "-" { return Some(vec![]); }
    s.split(',').map(|x| f(x)).collect()
}
fn spec_of(name: &str, id: &str) -> Option<SpecId> {
    let s = SpecId::try_from_u8(id.parse::<u8>().ok()?)?;
    if spec_name(s) == name { Some(s) } else { None }
}

/// tokens after the spec: cfg/block part (7 tokens)
fn parse_env(t: &[&str], r: &mut Req) -> Option<()> {
    r.chain = hu64(kv(t[0], "chain")?)?;
    r.lim = opt(kv(t[1], "lim")?, hu64)?;
    r.bs = plist(kv(t[2], "bs")?, |x| {
        let (a, b) = x.split_once(':')?;
        let id = a.parse::<u8>().ok()?;
        SpecId::try_from_u8(id)?;
        Some((id, b.parse::<u8>().ok()?))
    })?;
    r.bgl = hw(kv(t[3], "bgl")?)?;
    r.bf = hw(kv(t[4], "bf")?)?;
    r.pr = match kv(t[5], "pr")? { "0" => false, "1" => true, _ => return None };
    r.bgp = opt(kv(t[6], "bgp")?, hu128)?;
    Some(())
}
/// the 13 tx tokens
fn parse_tx(t: &[&str], r: &mut Req) -> Option<()> {
    r.gl = hu64(kv(t[0], "gl")?)?;
    r.gp = hw(kv(t[1], "gp")?)?;
    r.prio = opt(kv(t[2], "prio")?, hw)?;
    r.val = hw(kv(t[3], "val")?)?;
    r.dz = kv(t[4], "dz")?.parse().ok()?;
    r.dnz = kv(t[5], "dnz")?.parse().ok()?;
    if r.dz > MAX_DATA || r.dnz > MAX_DATA { return None; }
    r.create = match kv(t[6], "to")? { "call" => false, "create" => true, _ => return None };
    r.cid = opt(kv(t[7], "cid")?, hu64)?;
    r.nonce = opt(kv(t[8], "nonce")?, hu64)?;
    r.acl = plist(kv(t[9], "acl")?, |x| x.parse::<usize>().ok().filter(|k| *k <= 64))?;
    r.blobs = plist(kv(t[10], "blobs")?, |x| if x.len() == 2 { u8::from_str_radix(x, 16).ok() } else { None })?;
    r.mfb = opt(kv(t[11], "mfb")?, hw)?;
    r.auth = opt(kv(t[12], "auth")?, |x| x.parse::<usize>().ok().filter(|k| *k <= 64))?;
    if r.acl.len() > 64 || r.blobs.len() > 300 { return None; }
    Some(())
}
fn parse_sender(t: &[&str], r: &mut Req) -> Option<()> {
    r.bal = hw(kv(t[0], "bal")?)?;
    r.sn = hu64(kv(t[1], "sn")?)?;
    r.code = kv(t[2], "code")?.to_string();
    match r.code.as_str() {
        "absent" => if !r.bal.is_zero() || r.sn != 0 { return None; },
        "empty" | "legacy" | "7702" | "eof" => {}
        _ => return None,
    }
    Some(())
}

impl Req {
    pub fn base(spec: SpecId) -> Req {
        Req {
            spec, chain: 1, lim: None, bs: vec![(17, 6), (18, 9)], bgl: U256::from(30_000_000u64), bf: U256::from(7),
            pr: true, bgp: Some(1), gl: 100_000, gp: U256::from(10), prio: None, val: U256::from(5), dz: 0, dnz: 0,
            create: false, cid: Some(1), nonce: Some(3), acl: vec![], blobs: vec![], mfb: None, auth: None,
            bal: U256::from(10u64).pow(U256::from(24)), sn: 3, code: "empty".into(),
        }
    }
    fn o<T>(v: &Option<T>, f: impl Fn(&T) -> String) -> String {
        match v { None => "n".into(), Some(x) => f(x) }
    }
    fn l<T>(v: &[T], f: impl Fn(&T) -> String) -> String {
        if v.is_empty() { "-".into() } else { v.iter().map(f).collect::<Vec<_>>().join(",") }
    }
    pub fn env_part(&self) -> String {
        format!(
            "chain={:x} lim={} bs={} bgl={:x} bf={:x} pr={} bgp={}",
            self.chain, Self::o(&self.lim, |x| format!("{x:x}")), Self::l(&self.bs, |(a, b)| format!("{a}:{b}")),
            self.bgl, self.bf, b01(self.pr), Self::o(&self.bgp, |x| format!("{x:x}"))
        )
    }
    pub fn tx_part(&self) -> String {
        format!(
            "gl={:x} gp={:x} prio={} val={:x} dz={} dnz={} to={} cid={} nonce={} acl={} blobs={} mfb={} auth={}",
            self.gl, self.gp, Self::o(&self.prio, |x| format!("{x:x}")), self.val, self.dz, self.dnz,
            if self.create { "create" } else { "call" }, Self::o(&self.cid, |x| format!("{x:x}")),
            Self::o(&self.nonce, |x| format!("{x:x}")), Self::l(&self.acl, |k| format!("{k}")),
            Self::l(&self.blobs, |v| format!("{v:02x}")), Self::o(&self.mfb, |x| format!("{x:x}")),
            Self::o(&self.auth, |x| format!("{x}"))
        )
    }
    pub fn line(&self) -> String {
        format!(
            "txv {} {} {} {} bal={:x} sn={:x} code={}",
            spec_name(self.spec), self.spec as u8, self.env_part(), self.tx_part(), self.bal, self.sn, self.code
        )
    }
    pub fn parse(line: &str) -> Option<Req> {
        let t: Vec<&str> = line.split(' ').collect();
        if t.len() != 26 || t[0] != "txv" { return None; }
        let mut r = Req::base(spec_of(t[1], t[2])?);
        parse_env(&t[3..10], &mut r)?;
        parse_tx(&t[10..23], &mut r)?;
        parse_sender(&t[23..26], &mut r)?;
        Some(r)
    }
    fn data(&self) -> Vec<u8> {
        let mut d = vec![0u8; self.dz];
        d.extend(std::iter::repeat(1u8).take(self.dnz));
        d
    }
    fn access_list(&self) -> Vec<AccessListItem> {
        self.acl.iter().enumerate().map(|(i, k)| AccessListItem {
            address: Address::with_last_byte(0x30 + i as u8),
            storage_keys: (0..*k).map(|j| B256::from(U256::from(j))).collect(),
        }).collect()
    }
    /// (initial gas, floor gas) by the real function; used by the GENERATOR only, to aim at the boundaries
    pub fn intrinsic(&self) -> (u64, u64) {
        let g = calculate_initial_tx_gas(self.spec, &self.data(), self.create, &self.access_list(), self.auth.unwrap_or(0) as u64);
        (g.initial_gas, g.floor_gas)
    }
    fn sender_info(&self) -> Option<AccountInfo> {
        let (code_hash, code) = match self.code.as_str() {
            "absent" => return None,
            "empty" => (KECCAK_EMPTY, None),
            "legacy" => { let c = Bytecode::new_legacy(Bytes::from(vec![0x00u8])); (c.hash_slow(), Some(c)) }
            "7702" => { let c = Bytecode::new_eip7702(target_addr()); (c.hash_slow(), Some(c)) }
            _ => { let c = Bytecode::Eof(Arc::new(Eof::default())); (c.hash_slow(), Some(c)) }
        };
        Some(AccountInfo { balance: self.bal, nonce: self.sn, code_hash, code })
    }
    fn apply_cfg_block<EXT, DB: revm::Database>(&self, evm: &mut Evm<'_, EXT, DB>) {
        let env = &mut evm.context.evm.env;
        env.cfg.chain_id = self.chain;
        env.cfg.limit_contract_code_size = self.lim.map(|x| x as usize);
        env.cfg.blob_target_and_max_count = self.bs.iter().map(|(a, b)| (SpecId::try_from_u8(*a).unwrap(), 0u8, *b)).collect();
        env.block.gas_limit = self.bgl;
        env.block.basefee = self.bf;
        env.block.prevrandao = if self.pr { Some(B256::ZERO) } else { None };
        env.block.blob_excess_gas_and_price = self.bgp.map(|p| BlobExcessGasAndPrice { excess_blob_gas: 0, blob_gasprice: p });
        env.block.coinbase = Address::with_last_byte(0xCB);
    }
    fn apply_tx<EXT, DB: revm::Database>(&self, evm: &mut Evm<'_, EXT, DB>, caller: Address, to: Address) {
        let tx = &mut evm.context.evm.env.tx;
        tx.caller = caller;
        tx.gas_limit = self.gl;
        tx.gas_price = self.gp;
        tx.gas_priority_fee = self.prio;
        tx.value = self.val;
        tx.data = Bytes::from(self.data());
        tx.transact_to = if self.create { TxKind::Create } else { TxKind::Call(to) };
        tx.chain_id = self.cid;
        tx.nonce = self.nonce;
        tx.access_list = self.access_list();
        tx.blob_hashes = self.blobs.iter().enumerate().map(|(i, v)| {
            let mut h = [0u8; 32];
            h[0] = *v;
            h[31] = i as u8;
            h[1] = 0xbb;
            B256::from(h)
        }).collect();
        tx.max_fee_per_blob_gas = self.mfb;
        tx.authorization_list = self.auth.map(|n| {
            AuthorizationList::Recovered((0..n).map(|i| RecoveredAuthorization::new_unchecked(
                Authorization { chain_id: U256::from(1), address: Address::with_last_byte(0x50 + i as u8), nonce: i as u64 },
                RecoveredAuthority::Invalid,
            )).collect())
        });
    }
}

pub fn err_name<E: std::fmt::Debug>(e: &EVMError<E>) -> String {
    let s = match e {
        EVMError::Transaction(t) => format!("{t:?}"),
        EVMError::Header(h) => format!("{h:?}"),
        other => format!("other:{other:?}"),
    };
    s.split(|c: char| c == ' ' || c == '{' || c == '(').next().unwrap_or("").to_string()
}

pub fn exec_txv(line: &str) -> String {
    let Some(r) = Req::parse(line) else { return "bad-op".into() };
    guarded(move || {
        let mut db = InMemoryDB::default();
        if let Some(i) = r.sender_info() {
            db.insert_account_info(sender_addr(0), i);
        }
        let mut evm = Evm::builder().with_db(db).with_spec_id(r.spec).build();
        r.apply_cfg_block(&mut evm);
        r.apply_tx(&mut evm, sender_addr(0), target_addr());
        match evm.transact() {
            Ok(_) => "ok".into(),
            Err(e) => err_name(&e),
        }
    })
}

// ---------------------------------------------------------------- stream (b): no-effect histories

/// SLOAD(0)+1 -> SSTORE(0); LOG0 nothing; return the counter
fn counter_code() -> Vec<u8> {
    vec![0x60, 0x00, 0x54, 0x60, 0x01, 0x01, 0x80, 0x60, 0x00, 0x55, 0x60, 0x00, 0x52, 0x60, 0x20, 0x60, 0x00, 0xf3]
}
const N_SENDERS: u8 = 4;

fn history_db() -> InMemoryDB {
    let mut db = InMemoryDB::default();
    for i in 0..N_SENDERS {
        // sender 3 starts with a tiny balance, sender 2 is absent (added below only for i != 2)
        if i == 2 { continue; }
        let bal = if i == 3 { U256::from(3_000_000u64) } else { U256::from(10u64).pow(U256::from(21)) };
        db.insert_account_info(sender_addr(i), AccountInfo { balance: bal, nonce: i as u64, code_hash: KECCAK_EMPTY, code: None });
    }
    let c = Bytecode::new_legacy(Bytes::from(counter_code()));
    db.insert_account_info(counter_addr(), AccountInfo { balance: U256::from(1000), nonce: 1, code_hash: c.hash_slow(), code: Some(c) });
    db
}

pub fn dump_db(db: &CacheDB<EmptyDB>) -> String {
    let mut addrs: Vec<Address> = db.accounts.keys().cloned().collect();
    addrs.sort();
    let mut s = String::new();
    for a in addrs {
        let Ok(Some(info)) = db.basic_ref(a) else { continue };
        let acc = &db.accounts[&a];
        let mut slots: Vec<(U256, U256)> = acc.storage.iter().filter(|(_, v)| !v.is_zero()).map(|(k, v)| (*k, *v)).collect();
        slots.sort();
        if info.balance.is_zero() && info.nonce == 0 && info.code_hash == KECCAK_EMPTY && slots.is_empty() { continue; }
        s.push_str(&format!("{a:x}:{:x}:{}:{:x}:{:?};", info.balance, info.nonce, info.code_hash, slots));
    }
    format!("{:x}", keccak256(s.as_bytes()))
}

fn canon_result(r: &ResultAndState) -> String {
    let res = match &r.result {
        ExecutionResult::Success { reason, gas_used, gas_refunded, logs, output } =>
            format!("S:{reason:?}:{gas_used}:{gas_refunded}:{}:{:?}", logs.len(), output),
        ExecutionResult::Revert { gas_used, output } => format!("R:{gas_used}:{output:?}"),
        ExecutionResult::Halt { reason, gas_used } => format!("H:{reason:?}:{gas_used}"),
    };
    let mut st: Vec<String> = r.state.iter().map(|(a, acc)| {
        let mut slots: Vec<(U256, U256, U256)> = acc.storage.iter().map(|(k, v)| (*k, v.original_value, v.present_value)).collect();
        slots.sort();
        format!("{a:x}:{:x}:{}:{:x}:{:?}:{:?}", acc.info.balance, acc.info.nonce, acc.info.code_hash, acc.status, slots)
    }).collect();
    st.sort();
    format!("{res}|{}", st.join(";"))
}

pub struct History {
    a: Evm<'static, (), InMemoryDB>,
    b: Evm<'static, (), InMemoryDB>,
    spec: SpecId,
    pub rejected: Vec<String>,
    pub accepted: usize,
}
impl History {
    pub fn new(spec: SpecId) -> Self {
        let mk = || Evm::builder().with_db(history_db()).with_spec_id(spec).build();
        History { a: mk(), b: mk(), spec, rejected: vec![], accepted: 0 }
    }
    /// `ne tx s=<i> t=<call|counter> <env 7> <tx 13>`
    fn tx(&mut self, t: &[&str]) -> Option<String> {
        if t.len() != 22 { return None; }
        let si: u8 = kv(t[0], "s")?.parse().ok()?;
        if si > N_SENDERS { return None; }
        let to = match kv(t[1], "t")? { "call" => target_addr(), "counter" => counter_addr(), "sender" => sender_addr(1), _ => return None };
        let mut r = Req::base(self.spec);
        parse_env(&t[2..9], &mut r)?;
        parse_tx(&t[9..22], &mut r)?;
        // s=4: the counter contract as sender (RejectCallerWithCode)
        let caller = if si == N_SENDERS { counter_addr() } else { sender_addr(si) };
        let before = dump_db(self.a.db());
        r.apply_cfg_block(&mut self.a);
        r.apply_tx(&mut self.a, caller, to);
        match self.a.transact() {
            Err(e) => {
                self.rejected.push(err_name(&e));
                let after = dump_db(self.a.db());
                let journal_clean = self.a.context.evm.journaled_state.state.is_empty()
                    && self.a.context.evm.journaled_state.journal.len() <= 1
                    && self.a.context.evm.journaled_state.journal.iter().all(|j| j.is_empty())
                    && self.a.context.evm.journaled_state.logs.is_empty()
                    && self.a.context.evm.journaled_state.depth == 0
                    && self.a.context.evm.error.is_ok();
                if before != after { return Some("differs db-after-rejected".into()); }
                if !journal_clean { return Some("differs journal-not-cleared".into()); }
                Some("same".into())
            }
            Ok(ra) => {
                self.accepted += 1;
                r.apply_cfg_block(&mut self.b);
                r.apply_tx(&mut self.b, caller, to);
                let rb = match self.b.transact() {
                    Ok(rb) => rb,
                    Err(e) => return Some(format!("differs twin-rejected:{}", err_name(&e))),
                };
                let (ca, cb) = (canon_result(&ra), canon_result(&rb));
                self.a.db_mut().commit(ra.state);
                self.b.db_mut().commit(rb.state);
                if ca != cb { return Some("differs result".into()); }
                if dump_db(self.a.db()) != dump_db(self.b.db()) { return Some("differs db-after-accepted".into()); }
                Some("same".into())
            }
        }
    }
    fn end(&mut self) -> String {
        if dump_db(self.a.db()) == dump_db(self.b.db()) { "same".into() } else { "differs final-db".into() }
    }
}

// ---------------------------------------------------------------- generators

fn max_blobs(spec: SpecId) -> usize {
    if (spec as u8) >= (SpecId::PRAGUE as u8) { 9 } else { 6 }
}
fn ge(spec: SpecId, other: SpecId) -> bool {
    spec as u8 >= other as u8
}
fn cost(r: &Req) -> Option<U256> {
    let mut c = U256::from(r.gl).checked_mul(r.gp)?.checked_add(r.val)?;
    if let Some(m) = r.mfb {
        c = c.checked_add(m.checked_mul(U256::from(131072u64 * r.blobs.len() as u64))?)?;
    }
    Some(c)
}

/// a valid transaction of a given shape for the spec (shape features the spec lacks are left out)
fn valid_base(spec: SpecId, shape: u64) -> Req {
    let mut r = Req::base(spec);
    match shape % 6 {
        0 => {}
        1 => { r.create = true; r.dz = 3; r.dnz = 40; }
        2 => { if ge(spec, SpecId::BERLIN) { r.acl = vec![2, 0, 1]; } r.dnz = 100; r.dz = 7; }
        3 => { if ge(spec, SpecId::LONDON) { r.prio = Some(U256::from(2)); } r.dnz = 300; }
        4 => {
            if ge(spec, SpecId::CANCUN) { r.mfb = Some(U256::from(5)); r.blobs = vec![1, 1]; r.prio = Some(U256::from(1)); }
        }
        _ => {
            if ge(spec, SpecId::PRAGUE) { r.auth = Some(2); r.prio = Some(U256::from(1)); r.dnz = 20; }
        }
    }
    let (i, f) = r.intrinsic();
    r.gl = i.max(f) + 5000;
    r
}

/// the boundary mutations; `k` selects one; returns None when k is out of range
fn mutate(r: &mut Req, k: usize) -> Option<&'static str> {
    let one = U256::from(1);
    let (init, floor) = r.intrinsic();
    let spec = r.spec;
    let name = match k {
        0 => "valid",
        1 => { r.gl = init - 1; "gl=init-1" }
        2 => { r.gl = init; "gl=init" }
        3 => { r.dnz += 600; let (i, f) = r.intrinsic(); r.gl = i.max(f).saturating_sub(1); "gl=max(init,floor)-1" }
        4 => { r.dnz += 600; let (i, f) = r.intrinsic(); r.gl = i.max(f); "gl=max(init,floor)" }
        5 => { r.dnz += 600; let (i, _f) = r.intrinsic(); r.gl = i; "gl=init-bigdata" }
        6 => { r.bgl = U256::from(r.gl); "bgl=gl" }
        7 => { r.bgl = U256::from(r.gl - 1); "bgl=gl-1" }
        8 => { r.gl = u64::MAX; r.bgl = U256::from(u64::MAX); r.gp = U256::ZERO; r.bf = U256::ZERO; r.prio = r.prio.map(|_| U256::ZERO); "gl=u64max" }
        9 => { r.gl = u64::MAX; r.bgl = U256::from(u64::MAX) - one; "gl=u64max>bgl" }
        10 => { r.cid = None; "cid=none" }
        11 => { r.cid = Some(2); "cid!=chain" }
        12 => { r.chain = u64::MAX; r.cid = Some(u64::MAX); "cid=chain=max" }
        13 => { r.bf = r.gp; "bf=gp" }
        14 => { r.bf = r.gp + one; "bf=gp+1" }
        15 => { r.bf = r.gp - one; "bf=gp-1" }
        16 => { r.prio = Some(r.gp); "prio=gp" }
        17 => { r.prio = Some(r.gp + one); "prio=gp+1" }
        18 => { r.prio = Some(U256::ZERO); "prio=0" }
        19 => { r.prio = Some(U256::MAX); "prio=max" }
        20 => { r.prio = None; "prio=none" }
        // effective_gas_price wrap (DESIGN 9 #12): basefee + prio >= 2^256, gas price >= both
        21 => { r.gp = U256::MAX; r.bf = one << 255; r.prio = Some(one << 255); r.bal = U256::MAX; "fee-wrap" }
        22 => { r.gp = U256::MAX; r.bf = U256::MAX; r.prio = Some(one); r.bal = U256::MAX; "fee-wrap-1" }
        23 => { r.gp = U256::MAX; r.bf = U256::MAX - one; r.prio = Some(one); r.bal = U256::MAX; "fee-nowrap-max" }
        24 => { r.bal = cost(r)?; "bal=cost" }
        25 => { r.bal = cost(r)? - one; "bal=cost-1" }
        26 => { r.bal = cost(r)? + one; "bal=cost+1" }
        27 => { r.bal = U256::ZERO; r.code = "absent".into(); r.sn = 0; r.nonce = Some(0); "absent-sender" }
        28 => { r.bal = U256::ZERO; r.code = "absent".into(); r.sn = 0; r.nonce = Some(0); r.gp = U256::ZERO; r.bf = U256::ZERO; r.prio = r.prio.map(|_| U256::ZERO); r.val = U256::ZERO; r.mfb = r.mfb.map(|_| U256::ZERO); r.bgp = r.bgp.map(|_| 0); "absent-sender-free" }
        // gas_limit * gas_price around 2^256
        29 => { r.gp = U256::MAX / U256::from(r.gl); r.bf = U256::ZERO; r.prio = None; r.val = U256::ZERO; r.bal = U256::MAX; r.mfb = r.mfb.map(|_| U256::ZERO); r.bgp = r.bgp.map(|_| 0); "gl*gp<=max" }
        30 => { r.gp = U256::MAX / U256::from(r.gl) + one; r.bf = U256::ZERO; r.prio = None; r.bal = U256::MAX; "gl*gp>max" }
        31 => { r.gp = U256::MAX / U256::from(r.gl); r.bf = U256::ZERO; r.prio = None; r.val = U256::MAX - U256::from(r.gl) * r.gp; r.bal = U256::MAX; r.mfb = r.mfb.map(|_| U256::ZERO); r.bgp = r.bgp.map(|_| 0); "gl*gp+val=max" }
        32 => { r.gp = U256::MAX / U256::from(r.gl); r.bf = U256::ZERO; r.prio = None; r.val = U256::MAX - U256::from(r.gl) * r.gp + one; r.bal = U256::MAX; "gl*gp+val=max+1" }
        33 => { r.val = U256::MAX; r.bal = U256::MAX; "val=max" }
        34 => { r.val = U256::MAX; r.gp = U256::ZERO; r.bf = U256::ZERO; r.prio = r.prio.map(|_| U256::ZERO); r.bal = U256::MAX; r.mfb = r.mfb.map(|_| U256::ZERO); r.bgp = r.bgp.map(|_| 0); "val=max-free-gas" }
        35 => { r.nonce = None; "nonce=none" }
        36 => { r.nonce = Some(r.sn + 1); "nonce+1" }
        37 => { r.nonce = Some(r.sn - 1); "nonce-1" }
        38 => { r.sn = u64::MAX; r.nonce = Some(u64::MAX); "nonce=sn=u64max" }
        39 => { r.sn = u64::MAX - 1; r.nonce = Some(u64::MAX); "nonce=u64max>sn" }
        40 => { r.sn = u64::MAX - 1; r.nonce = Some(u64::MAX - 1); "nonce=sn=u64max-1" }
        41 => { r.sn = u64::MAX; r.nonce = None; "sn=u64max-nonce-none" }
        42 => { r.code = "legacy".into(); "code=legacy" }
        43 => { r.code = "7702".into(); "code=7702" }
        44 => { r.code = "eof".into(); "code=eof" }
        45 | 46 | 47 => {
            r.create = true; r.auth = None; r.mfb = None; r.blobs = vec![];
            r.dz = 49152 + k - 46; r.dnz = 0;
            let (i, f) = r.intrinsic(); r.gl = i.max(f) + 10;
            ["initcode=lim-1", "initcode=lim", "initcode=lim+1"][k - 45]
        }
        48 | 49 | 50 => {
            r.create = true; r.auth = None; r.mfb = None; r.blobs = vec![]; r.lim = Some(100);
            r.dz = 100; r.dnz = 100 + k - 49;
            let (i, f) = r.intrinsic(); r.gl = i.max(f) + 10;
            ["initcode=2*100-1", "initcode=2*100", "initcode=2*100+1"][k - 48]
        }
        51 => { r.create = true; r.auth = None; r.mfb = None; r.blobs = vec![]; r.lim = Some(u64::MAX); r.dz = 50000; let (i, f) = r.intrinsic(); r.gl = i.max(f); "initcode-lim-saturates" }
        52 => { r.create = true; r.auth = None; r.mfb = None; r.blobs = vec![]; r.lim = Some(0); r.dz = 0; r.dnz = 1; let (i, f) = r.intrinsic(); r.gl = i.max(f); "initcode-lim-0" }
        53 => { r.create = false; r.dz = 49153; let (i, f) = r.intrinsic(); r.gl = i.max(f); "call-data>lim" }
        54 => { r.acl = vec![0]; let (i, f) = r.intrinsic(); r.gl = i.max(f); "acl=[0]" }
        55 => { r.acl = vec![3, 1]; let (i, f) = r.intrinsic(); r.gl = i.max(f); "acl=[3,1]=gl" }
        56 => { r.acl = vec![3, 1]; let (i, f) = r.intrinsic(); r.gl = i.max(f) - 1; "acl=[3,1]>gl" }
        57 => { r.pr = false; "prevrandao-unset" }
        58 => { r.bgp = None; "blobprice-unset" }
        59 => { r.pr = false; r.bgp = None; r.cid = Some(9); "both-unset+cid" }
        // blob rules
        60 => { r.auth = None; r.create = false; r.mfb = Some(U256::from(3)); r.blobs = vec![1]; r.bgp = Some(3); "blob-1-price=max" }
        61 => { r.auth = None; r.create = false; r.mfb = Some(U256::from(3)); r.blobs = vec![1]; r.bgp = Some(4); "blob-price>max" }
        62 => { r.auth = None; r.create = false; r.mfb = Some(U256::from(3)); r.blobs = vec![]; "blob-0" }
        63 => { r.auth = None; r.create = false; r.mfb = Some(U256::from(3)); r.blobs = vec![1; max_blobs(spec)]; "blob-max" }
        64 => { r.auth = None; r.create = false; r.mfb = Some(U256::from(3)); r.blobs = vec![1; max_blobs(spec) + 1]; "blob-max+1" }
        65 => { r.auth = None; r.create = false; r.mfb = Some(U256::from(3)); r.blobs = vec![1, 2, 1]; "blob-version-mid" }
        66 => { r.auth = None; r.create = false; r.mfb = Some(U256::from(3)); r.blobs = vec![1, 1, 0]; "blob-version-last" }
        67 => { r.auth = None; r.mfb = Some(U256::from(3)); r.blobs = vec![1]; r.create = true; r.dz = 1; let (i, f) = r.intrinsic(); r.gl = i.max(f); "blob-create" }
        68 => { r.mfb = None; r.blobs = vec![1]; "blobs-without-maxfee" }
        69 => { r.auth = None; r.create = false; r.mfb = Some(U256::ZERO); r.blobs = vec![1]; r.bgp = Some(0); "blob-fee-0" }
        70 => { r.auth = None; r.create = false; r.mfb = Some(U256::from(u128::MAX)); r.blobs = vec![1]; r.bgp = Some(u128::MAX); r.bal = U256::MAX; "blob-price=u128max" }
        71 => { r.auth = None; r.create = false; r.mfb = Some(U256::from(3)); r.blobs = vec![1]; r.bal = cost(r)?; "blob-bal=cost" }
        72 => { r.auth = None; r.create = false; r.mfb = Some(U256::from(3)); r.blobs = vec![1]; r.bal = cost(r)? - one; "blob-bal=cost-1" }
        // saturating_mul in calc_max_data_fee
        73 => { r.auth = None; r.create = false; r.mfb = Some(U256::MAX); r.blobs = vec![1]; r.gp = U256::ZERO; r.bf = U256::ZERO; r.prio = None; r.val = U256::ZERO; r.bal = U256::MAX; "blob-fee-saturates-bal=max" }
        74 => { r.auth = None; r.create = false; r.mfb = Some(U256::MAX); r.blobs = vec![1]; r.gp = U256::ZERO; r.bf = U256::ZERO; r.prio = None; r.val = U256::ZERO; r.bal = U256::MAX - one; "blob-fee-saturates-bal=max-1" }
        75 => { r.auth = None; r.create = false; r.mfb = Some(U256::MAX); r.blobs = vec![1]; r.gp = U256::ZERO; r.bf = U256::ZERO; r.prio = None; r.val = one; r.bal = U256::MAX; "blob-fee-saturates-val=1" }
        76 => { r.auth = None; r.create = false; r.mfb = Some(U256::MAX / U256::from(131072)); r.blobs = vec![1]; r.gp = U256::ZERO; r.bf = U256::ZERO; r.prio = None; r.val = U256::ZERO; r.bal = U256::MAX; "blob-fee-just-fits" }
        // blob schedule
        77 => { r.auth = None; r.create = false; r.bs = vec![]; r.mfb = Some(U256::from(3)); r.blobs = vec![1; 7]; "bs=empty-7-blobs" }
        78 => { r.auth = None; r.create = false; r.bs = vec![]; r.mfb = Some(U256::from(3)); r.blobs = vec![1; 6]; "bs=empty-6-blobs" }
        79 => { r.auth = None; r.create = false; r.bs = vec![(18, 9), (17, 6)]; r.mfb = Some(U256::from(3)); r.blobs = vec![1; 7]; "bs=unsorted-7-blobs" }
        80 => { r.auth = None; r.create = false; r.bs = vec![(17, 2), (19, 255)]; r.mfb = Some(U256::from(3)); r.blobs = vec![1; 3]; "bs=custom-3-blobs" }
        81 => { r.auth = None; r.create = false; r.bs = vec![(0, 1)]; r.mfb = Some(U256::from(3)); r.blobs = vec![1; 2]; "bs=frontier:1-2-blobs" }
        82 => { r.auth = None; r.create = false; r.bs = vec![(17, 0)]; r.mfb = Some(U256::from(3)); r.blobs = vec![1]; "bs=max0" }
        // authorization list
        83 => { r.mfb = None; r.blobs = vec![]; r.create = false; r.auth = Some(0); "auth=0" }
        84 => { r.mfb = None; r.blobs = vec![]; r.create = false; r.auth = Some(1); let (i, f) = r.intrinsic(); r.gl = i.max(f); "auth=1-gl=exact" }
        85 => { r.mfb = None; r.blobs = vec![]; r.create = false; r.auth = Some(1); let (i, f) = r.intrinsic(); r.gl = i.max(f) - 1; "auth=1-gl=exact-1" }
        86 => { r.mfb = None; r.blobs = vec![]; r.create = true; r.auth = Some(1); r.dz = 1; let (i, f) = r.intrinsic(); r.gl = i.max(f); "auth-create" }
        87 => { r.create = false; r.auth = Some(1); r.mfb = Some(U256::from(3)); r.blobs = vec![1]; let (i, f) = r.intrinsic(); r.gl = i.max(f); "auth+blob" }
        88 => { r.create = false; r.auth = Some(1); r.mfb = None; r.blobs = vec![1]; let (i, f) = r.intrinsic(); r.gl = i.max(f); "auth+hashes" }
        89 => { r.create = false; r.auth = Some(0); r.mfb = Some(U256::from(3)); r.blobs = vec![1]; "auth=0+blob" }
        90 => { r.create = false; r.mfb = None; r.blobs = vec![]; r.auth = Some(3); r.code = "7702".into(); let (i, f) = r.intrinsic(); r.gl = i.max(f); "auth=3-sender-7702" }
        // data shapes against intrinsic / floor
        91 => { r.dz = 1000; r.dnz = 0; let (i, f) = r.intrinsic(); r.gl = i.max(f); "zeros-1000" }
        92 => { r.dz = 0; r.dnz = 1000; let (i, f) = r.intrinsic(); r.gl = i.max(f); "nonzeros-1000" }
        93 => { r.dz = 0; r.dnz = 1000; let (i, _) = r.intrinsic(); r.gl = i; "nonzeros-1000-gl=init" }
        94 => { r.dz = 0; r.dnz = 1000; r.gl = floor.max(init); "data-grew-gl-stale" }
        _ => return None,
    };
    Some(name)
}
pub const N_MUT: usize = 95;

fn rand_word_near(rng: &mut Rng, w: U256) -> U256 {
    match rng.below(4) {
        0 => w,
        1 => w.wrapping_add(U256::from(1)),
        2 => w.wrapping_sub(U256::from(1)),
        _ => rng.word(),
    }
}

pub fn gen_txv(seed: u64, n: usize, out: &mut Out) -> Vec<String> {
    let mut rng = Rng::new(seed ^ 0xC02);
    let specs = all_specs();
    let mut v = vec![];
    // boundary: every spec x every mutation (shape rotating so that every mutation meets every shape over the seeds)
    let mut rot = seed;
    for s in &specs {
        for k in 0..N_MUT {
            rot += 1;
            let mut r = valid_base(*s, rot);
            if let Some(name) = mutate(&mut r, k) {
                out.count(&format!("mut:{name}"));
                v.push(r.line());
            }
        }
    }
    // every spec x every shape, unmutated
    for s in &specs {
        for sh in 0..6 {
            v.push(valid_base(*s, sh).line());
        }
    }
    // random: 1..3 mutations stacked, plus random field noise
    let late: Vec<SpecId> = specs.iter().cloned().filter(|s| ge(*s, SpecId::LONDON)).collect();
    for _ in 0..n {
        // half of the random cases on London or later (where most rules live)
        let s = if rng.chance(1, 2) { *rng.pick(&late) } else { *rng.pick(&specs) };
        out.count(&format!("random-spec:{}", spec_name(s)));
        let mut r = valid_base(s, rng.next());
        let m = rng.range(1, 3);
        for _ in 0..m {
            let k = rng.below(N_MUT as u64) as usize;
            let mut r2 = r.clone();
            if std::panic::catch_unwind(std::panic::AssertUnwindSafe(|| mutate(&mut r2, k))).ok().flatten().is_some() {
                r = r2;
            }
        }
        if rng.chance(1, 4) {
            match rng.below(8) {
                0 => r.gp = rand_word_near(&mut rng, r.bf),
                1 => r.bf = rand_word_near(&mut rng, r.gp),
                2 => r.prio = Some(rand_word_near(&mut rng, r.gp)),
                3 => r.bal = rand_word_near(&mut rng, cost(&r).unwrap_or(U256::MAX)),
                4 => r.val = rng.word(),
                5 => r.bgl = rand_word_near(&mut rng, U256::from(r.gl)),
                6 => r.gl = { let (i, f) = r.intrinsic(); (i.max(f) + rng.below(3)).saturating_sub(1) },
                _ => r.mfb = Some(rng.word()),
            }
        }
        if r.code == "absent" && (!r.bal.is_zero() || r.sn != 0) { r.code = "empty".into(); }
        out.count("random");
        v.push(r.line());
    }
    // malformed
    v.push("txv Frontier 0".into());
    v.push("txv Frontier 1 chain=1".into());
    v.push(valid_base(SpecId::CANCUN, 0).line().replace("code=empty", "code=contract"));
    v.push(valid_base(SpecId::CANCUN, 0).line().replace("Cancun 17", "Cancun 18"));
    v
}

/// one history: `begin noeff …`, txs, `ne end`
pub fn gen_history(rng: &mut Rng, spec: SpecId, len: usize) -> Vec<String> {
    let mut v = vec![format!("begin noeff {} {}", spec_name(spec), spec as u8)];
    // nonces the generator expects (it need not be right: a wrong guess is one more rejected transaction)
    let mut nonces: Vec<u64> = (0..N_SENDERS as u64).collect();
    nonces[2] = 0;
    for _ in 0..len {
        let si = rng.below(N_SENDERS as u64) as usize;
        let mut r = valid_base(spec, rng.next());
        r.nonce = Some(nonces[si]);
        r.val = U256::from(rng.below(50));
        let mut s_tok = si;
        let t = *rng.pick(&["call", "counter", "counter", "sender"]);
        let reject = rng.chance(1, 2);
        if reject {
            // a mutation that (usually) invalidates; the harness observes what really happens
            let k = *rng.pick(&[1usize, 7, 11, 14, 17, 25, 33, 36, 37, 47, 57, 58, 61, 62, 64, 65, 67, 68, 83, 86, 87, 30, 32, 21]);
            let mut r2 = r.clone();
            if std::panic::catch_unwind(std::panic::AssertUnwindSafe(|| mutate(&mut r2, k))).ok().flatten().is_some() {
                // keep the history's own nonce / balance bookkeeping except for the nonce mutations
                if ![36, 37].contains(&k) { r2.nonce = r.nonce; } else { r2.nonce = Some(if k == 36 { nonces[si] + 1 } else { nonces[si].wrapping_sub(1) }); }
                r = r2;
            }
            if rng.chance(1, 8) { s_tok = N_SENDERS as usize; }
        } else if si != 2 && si != 3 {
            nonces[si] += 1;
        } else if si == 3 {
            // sender 3 is nearly broke: free gas so that it is sometimes accepted
            if rng.chance(1, 2) { r.gp = U256::ZERO; r.bf = U256::ZERO; r.prio = r.prio.map(|_| U256::ZERO); r.val = U256::from(1); nonces[si] += 1; }
        }
        v.push(format!("ne tx s={} t={} {} {}", s_tok, t, r.env_part(), r.tx_part()));
    }
    v.push("ne end".into());
    v
}

pub fn run(seed: u64, n: usize, replay: Option<Vec<String>>, out: &mut Out) {
    let lines = replay.unwrap_or_else(|| {
        let mut v = gen_txv(seed, n, out);
        let mut rng = Rng::new(seed ^ 0xC02B);
        let specs = all_specs();
        let nh = (n / 40).max(21);
        for i in 0..nh {
            let spec = specs[i % specs.len()];
            let len = rng.range(4, 24) as usize;
            v.extend(gen_history(&mut rng, spec, len));
        }
        v
    });
    let mut hist: Option<History> = None;
    for l in lines {
        let t: Vec<&str> = l.split(' ').collect();
        let reply = match t[0] {
            "txv" => {
                let r = exec_txv(&l);
                out.count(&format!("reply:{r}"));
                r
            }
            "begin" => {
                hist = None;
                if t.len() == 4 && t[1] == "noeff" {
                    match spec_of(t[2], t[3]) {
                        Some(s) => { hist = Some(History::new(s)); out.count("histories"); "ok".into() }
                        None => "bad-op".into(),
                    }
                } else { "bad-op".into() }
            }
            "ne" => match hist.as_mut() {
                None => "bad-op".into(),
                Some(h) => {
                    let h2 = std::panic::AssertUnwindSafe(h);
                    let tt: Vec<String> = t.iter().map(|s| s.to_string()).collect();
                    let r = guarded(move || {
                        let mut h2 = h2;
                        let t: Vec<&str> = tt.iter().map(|s| s.as_str()).collect();
                        if t.len() == 2 && t[1] == "end" { return h2.end(); }
                        if t.len() >= 2 && t[1] == "tx" {
                            return h2.tx(&t[2..]).unwrap_or_else(|| "bad-op".into());
                        }
                        "bad-op".into()
                    });
                    r
                }
            },
            _ => "bad-op".into(),
        };
        if t[0] == "ne" && t.len() == 2 {
            if let Some(h) = hist.as_ref() {
                for e in &h.rejected { out.count(&format!("hist-rejected:{e}")); }
                for _ in 0..h.accepted { out.count("hist-accepted"); }
            }
        }
        out.push(l, reply);
    }
}
