//! C14: dynamic gas cost formulas. Calls the real `pub` functions of `revm::interpreter::gas`
//! (gas/calc.rs, gas/constants.rs), `num_words`, `interpreter::resize_memory`, the `resize_memory!`
//! macro and `handler::mainnet::validate_initial_tx_gas`.
//!
//! request: `gascalc <fn> <args…>`; a hardfork is two tokens `<SpecName> <SpecId as u8>` (name = the
//! `Into<&'static str>` name without spaces); u64 / U256 arguments in hex, booleans 0/1,
//! an optional bool `n|0|1`, an access list as the comma-separated number of storage keys of each item
//! (`-` = empty), bytes in hex (`-` = empty).
//! reply: `some <dec>` | `none` for `Option<u64>`, `<dec>` for u64 / i64, see each arm for the rest.
use crate::*;
use revm::db::EmptyDB;
use revm::interpreter::gas;
use revm::interpreter::{
    AccountLoad, Contract, Eip7702CodeLoad, InstructionResult, Interpreter, SStoreResult,
    SelfDestructResult, SharedMemory, StateLoad,
};
use revm::primitives::{
    spec_to_generic, AccessListItem, Address, Authorization, AuthorizationList, Bytes, EVMError,
    Env, InvalidTransaction, RecoveredAuthority, RecoveredAuthorization, SpecId, TxKind, B256, U256,
};

pub fn all_specs() -> Vec<SpecId> {
    (0..=255u8).filter_map(SpecId::try_from_u8).collect()
}
pub fn spec_name(s: SpecId) -> String {
    let n: &'static str = s.into();
    n.replace(' ', "")
}
fn spec_by_name(name: &str) -> Option<SpecId> {
    all_specs().into_iter().find(|s| spec_name(*s) == name)
}

pub const CONSTS: &[(&str, i128)] = &[
    ("ZERO", gas::ZERO as i128),
    ("BASE", gas::BASE as i128),
    ("VERYLOW", gas::VERYLOW as i128),
    ("DATA_LOADN_GAS", gas::DATA_LOADN_GAS as i128),
    ("CONDITION_JUMP_GAS", gas::CONDITION_JUMP_GAS as i128),
    ("RETF_GAS", gas::RETF_GAS as i128),
    ("DATA_LOAD_GAS", gas::DATA_LOAD_GAS as i128),
    ("LOW", gas::LOW as i128),
    ("MID", gas::MID as i128),
    ("HIGH", gas::HIGH as i128),
    ("JUMPDEST", gas::JUMPDEST as i128),
    ("SELFDESTRUCT", gas::SELFDESTRUCT as i128),
    ("CREATE", gas::CREATE as i128),
    ("CALLVALUE", gas::CALLVALUE as i128),
    ("NEWACCOUNT", gas::NEWACCOUNT as i128),
    ("EXP", gas::EXP as i128),
    ("MEMORY", gas::MEMORY as i128),
    ("LOG", gas::LOG as i128),
    ("LOGDATA", gas::LOGDATA as i128),
    ("LOGTOPIC", gas::LOGTOPIC as i128),
    ("KECCAK256", gas::KECCAK256 as i128),
    ("KECCAK256WORD", gas::KECCAK256WORD as i128),
    ("COPY", gas::COPY as i128),
    ("BLOCKHASH", gas::BLOCKHASH as i128),
    ("CODEDEPOSIT", gas::CODEDEPOSIT as i128),
    ("INSTANBUL_SLOAD_GAS", gas::INSTANBUL_SLOAD_GAS as i128),
    ("SSTORE_SET", gas::SSTORE_SET as i128),
    ("SSTORE_RESET", gas::SSTORE_RESET as i128),
    ("REFUND_SSTORE_CLEARS", gas::REFUND_SSTORE_CLEARS as i128),
    ("STANDARD_TOKEN_COST", gas::STANDARD_TOKEN_COST as i128),
    ("NON_ZERO_BYTE_DATA_COST", gas::NON_ZERO_BYTE_DATA_COST as i128),
    ("NON_ZERO_BYTE_MULTIPLIER", gas::NON_ZERO_BYTE_MULTIPLIER as i128),
    ("NON_ZERO_BYTE_DATA_COST_ISTANBUL", gas::NON_ZERO_BYTE_DATA_COST_ISTANBUL as i128),
    ("NON_ZERO_BYTE_MULTIPLIER_ISTANBUL", gas::NON_ZERO_BYTE_MULTIPLIER_ISTANBUL as i128),
    ("TOTAL_COST_FLOOR_PER_TOKEN", gas::TOTAL_COST_FLOOR_PER_TOKEN as i128),
    ("EOF_CREATE_GAS", gas::EOF_CREATE_GAS as i128),
    ("ACCESS_LIST_ADDRESS", gas::ACCESS_LIST_ADDRESS as i128),
    ("ACCESS_LIST_STORAGE_KEY", gas::ACCESS_LIST_STORAGE_KEY as i128),
    ("COLD_SLOAD_COST", gas::COLD_SLOAD_COST as i128),
    ("COLD_ACCOUNT_ACCESS_COST", gas::COLD_ACCOUNT_ACCESS_COST as i128),
    ("WARM_STORAGE_READ_COST", gas::WARM_STORAGE_READ_COST as i128),
    ("WARM_SSTORE_RESET", gas::WARM_SSTORE_RESET as i128),
    ("INITCODE_WORD_COST", gas::INITCODE_WORD_COST as i128),
    ("CALL_STIPEND", gas::CALL_STIPEND as i128),
    ("MIN_CALLEE_GAS", gas::MIN_CALLEE_GAS as i128),
    ("PER_EMPTY_ACCOUNT_COST", revm::primitives::eip7702::PER_EMPTY_ACCOUNT_COST as i128),
    ("PER_AUTH_BASE_COST", revm::primitives::eip7702::PER_AUTH_BASE_COST as i128),
];

fn opt(v: Option<u64>) -> String {
    match v {
        Some(x) => format!("some {x}"),
        None => "none".into(),
    }
}
fn pu64(s: &str) -> Option<u64> {
    u64::from_str_radix(s, 16).ok()
}
fn pw(s: &str) -> Option<U256> {
    U256::from_str_radix(s, 16).ok()
}
fn pb(s: &str) -> Option<bool> {
    match s {
        "0" => Some(false),
        "1" => Some(true),
        _ => None,
    }
}
fn pob(s: &str) -> Option<Option<bool>> {
    match s {
        "n" => Some(None),
        "0" => Some(Some(false)),
        "1" => Some(Some(true)),
        _ => None,
    }
}
fn pbytes(s: &str) -> Option<Vec<u8>> {
    if s == "-" {
        return Some(vec![]);
    }
    if s.len() % 2 != 0 {
        return None;
    }
    (0..s.len() / 2).map(|i| u8::from_str_radix(s.get(2 * i..2 * i + 2)?, 16).ok()).collect()
}
fn pacl(s: &str) -> Option<Vec<AccessListItem>> {
    if s == "-" {
        return Some(vec![]);
    }
    s.split(',')
        .enumerate()
        .map(|(i, k)| {
            let k: usize = k.parse().ok()?;
            if k > 4096 {
                return None;
            }
            Some(AccessListItem {
                address: Address::with_last_byte(i as u8),
                storage_keys: (0..k).map(|j| B256::with_last_byte(j as u8)).collect(),
            })
        })
        .collect()
}
/// `<SpecName> <id>`: both must denote the same SpecId
fn pspec(name: &str, id: &str) -> Option<SpecId> {
    let s = spec_by_name(name)?;
    let id: u8 = id.parse().ok()?;
    if s as u8 == id { Some(s) } else { None }
}

/// allocation guard shared with the Lean driver: the call may succeed (and allocate) only for
/// small sizes; for large sizes the gas limit is far below the expansion cost
pub fn resize_allowed(cur: u64, new_size: u64, limit: u64) -> bool {
    cur <= (1 << 16) && (new_size <= (1 << 24) || limit < (1 << 20))
}

fn macro_resize(interp: &mut Interpreter, offset: usize, len: usize) {
    revm::interpreter::resize_memory!(interp, offset, len);
}

/// byte string of `z` zero bytes followed by `nz` non-zero bytes
pub fn synth_input(z: u64, nz: u64) -> Vec<u8> {
    let mut v = vec![0u8; z as usize];
    v.extend((0..nz).map(|i| (i % 255) as u8 + 1));
    v
}

fn exec(t: &[&str]) -> Option<String> {
    let f = *t.first()?;
    let a = &t[1..];
    let need = |n: usize| if a.len() == n { Some(()) } else { None };
    Some(match f {
        "const" => {
            need(1)?;
            let (_, v) = CONSTS.iter().find(|(n, _)| *n == a[0])?;
            format!("{v}")
        }
        "num_words" => {
            need(1)?;
            format!("{}", revm::interpreter::num_words(pu64(a[0])?))
        }
        "cost_per_word" => {
            need(2)?;
            opt(gas::cost_per_word(pu64(a[0])?, pu64(a[1])?))
        }
        "verylowcopy_cost" => {
            need(1)?;
            opt(gas::verylowcopy_cost(pu64(a[0])?))
        }
        "keccak256_cost" => {
            need(1)?;
            opt(gas::keccak256_cost(pu64(a[0])?))
        }
        "create2_cost" => {
            need(1)?;
            opt(gas::create2_cost(pu64(a[0])?))
        }
        "initcode_cost" => {
            need(1)?;
            format!("{}", gas::initcode_cost(pu64(a[0])?))
        }
        "log_cost" => {
            need(2)?;
            let n: u8 = a[0].parse().ok()?;
            opt(gas::log_cost(n, pu64(a[1])?))
        }
        "extcodecopy_cost" => {
            need(4)?;
            opt(gas::extcodecopy_cost(pspec(a[0], a[1])?, pu64(a[2])?, pb(a[3])?))
        }
        "exp_cost" => {
            need(3)?;
            opt(gas::exp_cost(pspec(a[0], a[1])?, pw(a[2])?))
        }
        "sload_cost" => {
            need(3)?;
            format!("{}", gas::sload_cost(pspec(a[0], a[1])?, pb(a[2])?))
        }
        "sstore_cost" => {
            need(7)?;
            let vals = SStoreResult {
                original_value: pw(a[2])?,
                present_value: pw(a[3])?,
                new_value: pw(a[4])?,
            };
            opt(gas::sstore_cost(pspec(a[0], a[1])?, &vals, pu64(a[5])?, pb(a[6])?))
        }
        "sstore_refund" => {
            need(5)?;
            let vals = SStoreResult {
                original_value: pw(a[2])?,
                present_value: pw(a[3])?,
                new_value: pw(a[4])?,
            };
            format!("{}", gas::sstore_refund(pspec(a[0], a[1])?, &vals))
        }
        "selfdestruct_cost" => {
            need(6)?;
            let res = StateLoad {
                data: SelfDestructResult {
                    had_value: pb(a[2])?,
                    target_exists: pb(a[3])?,
                    previously_destroyed: pb(a[4])?,
                },
                is_cold: pb(a[5])?,
            };
            format!("{}", gas::selfdestruct_cost(pspec(a[0], a[1])?, res))
        }
        "call_cost" => {
            need(6)?;
            let load = AccountLoad {
                load: Eip7702CodeLoad {
                    state_load: StateLoad { data: (), is_cold: pb(a[3])? },
                    is_delegate_account_cold: pob(a[4])?,
                },
                is_empty: pb(a[5])?,
            };
            format!("{}", gas::call_cost(pspec(a[0], a[1])?, pb(a[2])?, load))
        }
        "warm_cold_cost" => {
            need(1)?;
            format!("{}", gas::warm_cold_cost(pb(a[0])?))
        }
        "warm_cold_cost_with_delegation" => {
            need(2)?;
            let load = Eip7702CodeLoad {
                state_load: StateLoad { data: (), is_cold: pb(a[0])? },
                is_delegate_account_cold: pob(a[1])?,
            };
            format!("{}", gas::warm_cold_cost_with_delegation(load))
        }
        "memory_gas" => {
            need(1)?;
            format!("{}", gas::memory_gas(pu64(a[0])?))
        }
        "memory_gas_for_len" => {
            need(1)?;
            format!("{}", gas::memory_gas_for_len(pu64(a[0])? as usize))
        }
        // resize_memory <cur len> <gas limit> <new size>  ->  ok=<0|1> rem=<remaining> len=<memory len>
        "resize_memory" => {
            need(3)?;
            let (cur, limit, new_size) = (pu64(a[0])?, pu64(a[1])?, pu64(a[2])?);
            if !resize_allowed(cur, new_size, limit) {
                return None;
            }
            let mut mem = SharedMemory::new();
            mem.resize(cur as usize);
            let mut g = gas::Gas::new(limit);
            let ok = revm::interpreter::interpreter::resize_memory(&mut mem, &mut g, new_size as usize);
            format!("ok={} rem={} len={}", b01(ok), g.remaining(), mem.len())
        }
        // resize_macro <cur len> <gas limit> <offset> <len>  ->  ok|oog rem=<remaining> len=<memory len>
        "resize_macro" => {
            need(4)?;
            let (cur, limit, off, len) = (pu64(a[0])?, pu64(a[1])?, pu64(a[2])?, pu64(a[3])?);
            if !resize_allowed(cur, off.saturating_add(len), limit) {
                return None;
            }
            let mut interp = Interpreter::new(Contract::default(), limit, false);
            interp.shared_memory = SharedMemory::new();
            interp.shared_memory.resize(cur as usize);
            macro_resize(&mut interp, off as usize, len as usize);
            let r = match interp.instruction_result {
                InstructionResult::Continue => "ok".to_string(),
                InstructionResult::MemoryOOG => "oog".to_string(),
                other => format!("{other:?}"),
            };
            format!("{r} rem={} len={}", interp.gas.remaining(), interp.shared_memory.len())
        }
        "tokens" => {
            need(2)?;
            format!("{}", gas::get_tokens_in_calldata(&pbytes(a[1])?, pb(a[0])?))
        }
        "floor_cost" => {
            need(1)?;
            format!("{}", gas::calc_tx_floor_cost(pu64(a[0])?))
        }
        // txgas <Spec> <id> <create> <auth num hex> <acl> <bytes> -> init=<> floor=<>
        "txgas" | "txgasn" => {
            let (spec, create, auth, acl) = (pspec(a.first()?, a.get(1)?)?, pb(a.get(2)?)?, pu64(a.get(3)?)?, pacl(a.get(4)?)?);
            let input = if f == "txgas" {
                need(6)?;
                pbytes(a[5])?
            } else {
                need(7)?;
                let (z, nz) = (pu64(a[5])?, pu64(a[6])?);
                if z > (1 << 21) || nz > (1 << 21) {
                    return None;
                }
                synth_input(z, nz)
            };
            let g = gas::calculate_initial_tx_gas(spec, &input, create, &acl, auth);
            format!("init={} floor={}", g.initial_gas, g.floor_gas)
        }
        // txvalidate <Spec> <id> <create> <auth list len dec> <acl> <gas limit hex> <bytes>
        "txvalidate" => {
            need(7)?;
            let (spec, create, acl, limit, input) = (pspec(a[0], a[1])?, pb(a[2])?, pacl(a[4])?, pu64(a[5])?, pbytes(a[6])?);
            let nauth: usize = a[3].parse().ok()?;
            if nauth > 10000 {
                return None;
            }
            let mut env = Env::default();
            env.tx.data = Bytes::from(input);
            env.tx.transact_to = if create { TxKind::Create } else { TxKind::Call(Address::with_last_byte(9)) };
            env.tx.access_list = acl;
            env.tx.gas_limit = limit;
            if nauth > 0 {
                let v: Vec<RecoveredAuthorization> = (0..nauth)
                    .map(|i| {
                        RecoveredAuthorization::new_unchecked(
                            Authorization { chain_id: U256::from(1), address: Address::with_last_byte(i as u8), nonce: i as u64 },
                            RecoveredAuthority::Invalid,
                        )
                    })
                    .collect();
                env.tx.authorization_list = Some(AuthorizationList::Recovered(v));
            }
            let r = spec_to_generic!(spec, revm::handler::mainnet::validate_initial_tx_gas::<SPEC, EmptyDB>(&env));
            match r {
                Ok(g) => format!("ok init={} floor={}", g.initial_gas, g.floor_gas),
                Err(EVMError::Transaction(InvalidTransaction::CallGasCostMoreThanGasLimit)) => "err CallGasCostMoreThanGasLimit".into(),
                Err(EVMError::Transaction(InvalidTransaction::GasFloorMoreThanGasLimit)) => "err GasFloorMoreThanGasLimit".into(),
                Err(e) => format!("err other {e:?}").replace(' ', "_"),
            }
        }
        _ => return None,
    })
}

pub fn exec_line(line: &str) -> String {
    let t: Vec<String> = line.split(' ').map(|s| s.to_string()).collect();
    if t.len() < 2 || t[0] != "gascalc" {
        return "bad-op".into();
    }
    guarded(move || {
        let tt: Vec<&str> = t[1..].iter().map(|s| s.as_str()).collect();
        exec(&tt).unwrap_or_else(|| "bad-op".into())
    })
}

/// boundary lengths of the property text plus the overflow thresholds of each formula
pub fn boundary_lens() -> Vec<u64> {
    let mut v: Vec<u64> = vec![
        0, 1, 2, 31, 32, 33, 63, 64, 65, 95, 96, 97, 1023, 1024, 1025, 0xffff, 0x10000, 0xc000, 49152, 49153,
        (1 << 32) - 1, 1 << 32, (1 << 32) + 1, (1 << 37) - 1, 1 << 37, (1 << 37) + 1, (1 << 37) - 32, (1 << 37) - 31,
        1 << 42, 1 << 59, (1 << 59) - 1, (1 << 59) + 1, (1 << 61) - 48, (1 << 61) - 47, (1 << 61) - 1, 1 << 61, (1 << 61) + 1,
        1 << 62, 1 << 63, (1 << 63) - 1, (1 << 63) + 1, u64::MAX / 3, u64::MAX / 3 + 1, u64::MAX / 6, u64::MAX / 6 + 1,
        u64::MAX / 8, u64::MAX / 8 + 1,
    ];
    for d in 0..=33u64 {
        v.push(u64::MAX - d);
    }
    v
}
/// word counts around the saturation points of `memory_gas`
pub fn boundary_words_u64() -> Vec<u64> {
    let mut v = boundary_lens();
    v.extend([
        (1u64 << 32) - 2, (1 << 33), (1 << 33) + 1, (1 << 36), 3037000499, 3037000500, 6074000999, 6074001000,
        97174000000, 97175000000, (1 << 36) + (1 << 35), 0xb504f333f9de6484 >> 27, (0xb504f333f9de6484 >> 27) + 1,
        (1 << 59) - 2, 6148914691236517205, 6148914691236517206,
    ]);
    v
}

fn spec_tok(s: SpecId) -> String {
    format!("{} {}", spec_name(s), s as u8)
}
fn rand_len(rng: &mut Rng) -> u64 {
    match rng.below(6) {
        0 => *rng.pick(&boundary_lens()),
        1 => rng.below(4096),
        2 => {
            let bits = rng.range(1, 64);
            if bits == 64 { rng.next() } else { rng.next() >> (64 - bits) }
        }
        3 => u64::MAX - rng.below(200),
        4 => (1u64 << rng.range(5, 63)).wrapping_add(rng.below(65)).wrapping_sub(32),
        _ => rng.next(),
    }
}
fn rand_bytes(rng: &mut Rng) -> Vec<u8> {
    let n = match rng.below(5) {
        0 => 0,
        1 => rng.below(8),
        2 => rng.below(70),
        3 => *rng.pick(&[31u64, 32, 33, 63, 64, 65, 255, 256, 257]),
        _ => rng.below(600),
    } as usize;
    let zero_pct = *rng.pick(&[0u64, 10, 50, 90, 100]);
    (0..n).map(|_| if rng.below(100) < zero_pct { 0 } else { (rng.next() % 255) as u8 + 1 }).collect()
}
fn rand_acl(rng: &mut Rng) -> String {
    let n = *rng.pick(&[0u64, 0, 1, 2, 3, 7]);
    if n == 0 {
        return "-".into();
    }
    (0..n).map(|_| format!("{}", *rng.pick(&[0u64, 0, 1, 2, 5, 33]))).collect::<Vec<_>>().join(",")
}
const SVALS: [&str; 4] = ["0", "1", "2", "ffffffffffffffffffffffffffffffffffffffffffffffffffffffffffffffff"];
const OB: [&str; 3] = ["n", "0", "1"];
/// authorization counts around the u64 wrap of `n * 25000`
const AUTHS: [u64; 9] = [0, 1, 2, 1000, 737869762948382, 737869762948383, 1 << 50, u64::MAX / 2, u64::MAX];

pub fn gen(seed: u64, n: usize) -> Vec<String> {
    let mut rng = Rng::new(seed ^ 0xC14);
    let mut l: Vec<String> = Vec::new();
    let specs = all_specs();
    let lens = boundary_lens();
    let words = boundary_words_u64();
    // ---- stream 1: complete enumeration of the discrete arguments x boundary lengths x every SpecId
    for (name, _) in CONSTS {
        l.push(format!("gascalc const {name}"));
    }
    for &x in &lens {
        for f in ["num_words", "verylowcopy_cost", "keccak256_cost", "create2_cost", "initcode_cost", "memory_gas_for_len"] {
            l.push(format!("gascalc {f} {x:x}"));
        }
        for m in [0u64, 1, 2, 3, 6, 8, 32, 33, 1 << 5, (1 << 5) + 1, 1 << 32, u64::MAX] {
            l.push(format!("gascalc cost_per_word {x:x} {m:x}"));
        }
        for k in [0u8, 1, 2, 3, 4, 255] {
            l.push(format!("gascalc log_cost {k} {x:x}"));
        }
        for &s in &specs {
            for c in 0..2 {
                l.push(format!("gascalc extcodecopy_cost {} {x:x} {c}", spec_tok(s)));
            }
        }
    }
    for &w in &words {
        l.push(format!("gascalc memory_gas {w:x}"));
        l.push(format!("gascalc floor_cost {w:x}"));
    }
    let bw = boundary_words();
    for &s in &specs {
        for p in &bw {
            l.push(format!("gascalc exp_cost {} {}", spec_tok(s), hx(*p)));
        }
        for c in 0..2 {
            l.push(format!("gascalc sload_cost {} {c}", spec_tok(s)));
        }
        for o in SVALS {
            for p in SVALS {
                for nv in SVALS {
                    l.push(format!("gascalc sstore_refund {} {o} {p} {nv}", spec_tok(s)));
                    for g in [0u64, 1, 2299, 2300, 2301, 1_000_000, u64::MAX] {
                        for c in 0..2 {
                            l.push(format!("gascalc sstore_cost {} {o} {p} {nv} {g:x} {c}", spec_tok(s)));
                        }
                    }
                }
            }
        }
        for bits in 0..16u32 {
            let b = |i: u32| (bits >> i) & 1;
            l.push(format!("gascalc selfdestruct_cost {} {} {} {} {}", spec_tok(s), b(0), b(1), b(2), b(3)));
        }
        for bits in 0..8u32 {
            let b = |i: u32| (bits >> i) & 1;
            for d in OB {
                l.push(format!("gascalc call_cost {} {} {} {d} {}", spec_tok(s), b(0), b(1), b(2)));
            }
        }
        // intrinsic gas: create x authorizations x access lists x calldata mixes
        for create in 0..2 {
            for auth in AUTHS {
                for acl in ["-", "0", "1", "3,0,2"] {
                    for data in ["-", "00", "01", "0001", "ff00ff0000", "000000000000000000000000000000000000000000000000000000000000000001", "0102030405060708090a0b0c0d0e0f101112131415161718191a1b1c1d1e1f2021"] {
                        l.push(format!("gascalc txgas {} {create} {auth:x} {acl} {data}", spec_tok(s)));
                    }
                }
            }
            for (z, nz) in [(0u64, 0u64), (1, 0), (0, 1), (31, 1), (16, 16), (0, 32), (33, 0), (1000, 24), (0, 49152), (49153, 0), (100000, 100000)] {
                l.push(format!("gascalc txgasn {} {create} 1 2,1 {z:x} {nz:x}", spec_tok(s)));
            }
            // validation: limits around the intrinsic gas and the floor
            for data in ["-", "0001", "0102030405060708090a0b0c0d0e0f101112131415161718191a1b1c1d1e1f2021"] {
                for nauth in [0usize, 1, 3] {
                    for acl in ["-", "2,0"] {
                        let input = pbytes(data).unwrap();
                        let g = gas::calculate_initial_tx_gas(s, &input, create == 1, &pacl(acl).unwrap(), nauth as u64);
                        for lim in [0u64, g.initial_gas.wrapping_sub(1), g.initial_gas, g.initial_gas + 1, g.floor_gas.wrapping_sub(1), g.floor_gas, g.floor_gas + 1, 30_000_000, u64::MAX] {
                            l.push(format!("gascalc txvalidate {} {create} {nauth} {acl} {lim:x} {data}", spec_tok(s)));
                        }
                    }
                }
            }
        }
    }
    for c in 0..2 {
        l.push(format!("gascalc warm_cold_cost {c}"));
        for d in OB {
            l.push(format!("gascalc warm_cold_cost_with_delegation {c} {d}"));
        }
    }
    for ist in 0..2 {
        for data in ["-", "00", "01", "0000", "0100", "ffff", "00ff00ff00"] {
            l.push(format!("gascalc tokens {ist} {data}"));
        }
    }
    // memory expansion: sizes around word boundaries x limits around the exact cost
    for cur in [0u64, 32, 64, 96, 1024, 4096, 65536, 33, 1] {
        for new_size in [0u64, 1, 31, 32, 33, 64, 65, 96, 1000, 1024, 1025, 4096, 4097, 65536, 65537, 724 * 32, 725 * 32, 1 << 20, (1 << 24) - 31, 1 << 24] {
            let cost = gas::memory_gas_for_len(new_size as usize).wrapping_sub(gas::memory_gas_for_len(cur as usize));
            for lim in [0u64, cost.wrapping_sub(1), cost, cost.wrapping_add(1), 1_000_000, u64::MAX] {
                l.push(format!("gascalc resize_memory {cur:x} {lim:x} {new_size:x}"));
                l.push(format!("gascalc resize_macro {cur:x} {lim:x} {:x} {:x}", new_size / 2, new_size - new_size / 2));
            }
        }
        for &big in &lens {
            for lim in [0u64, 1000, (1 << 20) - 1] {
                l.push(format!("gascalc resize_memory {cur:x} {lim:x} {big:x}"));
                l.push(format!("gascalc resize_macro {cur:x} {lim:x} {big:x} {:x}", *rng.pick(&lens)));
            }
        }
    }
    // ---- stream 2: structured random
    const FNS: [&str; 20] = [
        "num_words", "cost_per_word", "verylowcopy_cost", "keccak256_cost", "create2_cost", "initcode_cost", "log_cost",
        "extcodecopy_cost", "exp_cost", "sstore_cost", "sstore_refund", "memory_gas", "memory_gas_for_len", "resize_memory",
        "resize_macro", "tokens", "floor_cost", "txgas", "txvalidate", "txgasn",
    ];
    for _ in 0..n {
        let f = *rng.pick(&FNS);
        let s = *rng.pick(&specs);
        let line = match f {
            "num_words" | "verylowcopy_cost" | "keccak256_cost" | "create2_cost" | "initcode_cost" | "memory_gas" | "memory_gas_for_len" | "floor_cost" => {
                format!("gascalc {f} {:x}", rand_len(&mut rng))
            }
            "cost_per_word" => format!("gascalc {f} {:x} {:x}", rand_len(&mut rng), if rng.chance(1, 2) { rng.below(64) } else { rand_len(&mut rng) }),
            "log_cost" => format!("gascalc {f} {} {:x}", rng.below(256), rand_len(&mut rng)),
            "extcodecopy_cost" => format!("gascalc {f} {} {:x} {}", spec_tok(s), rand_len(&mut rng), rng.below(2)),
            "exp_cost" => format!("gascalc {f} {} {}", spec_tok(s), hx(rng.word())),
            "sstore_cost" | "sstore_refund" => {
                // relation-driven triples: values drawn from a pool of 3 so that equalities are frequent
                let pool = [U256::ZERO, rng.word(), rng.word()];
                let (o, p, nv) = (*rng.pick(&pool), *rng.pick(&pool), *rng.pick(&pool));
                if f == "sstore_refund" {
                    format!("gascalc {f} {} {} {} {}", spec_tok(s), hx(o), hx(p), hx(nv))
                } else {
                    let g = match rng.below(3) {
                        0 => rng.range(2290, 2310),
                        1 => rand_len(&mut rng),
                        _ => rng.below(100000),
                    };
                    format!("gascalc {f} {} {} {} {} {g:x} {}", spec_tok(s), hx(o), hx(p), hx(nv), rng.below(2))
                }
            }
            "resize_memory" | "resize_macro" => {
                let cur = if rng.chance(3, 4) { rng.below(2049) * 32 } else { rng.below(65537) };
                let sh = rng.range(1, 24);
                let new_size = if rng.chance(3, 4) { rng.below(1 << sh) } else { rand_len(&mut rng) };
                let cost = gas::memory_gas_for_len(new_size as usize).wrapping_sub(gas::memory_gas_for_len(cur as usize));
                let mut lim = match rng.below(4) {
                    0 => cost.wrapping_add(rng.below(3)).wrapping_sub(1),
                    1 => rng.below(1 << 20),
                    2 => rand_len(&mut rng),
                    _ => cost.wrapping_add(rng.below(100000)),
                };
                if !resize_allowed(cur, new_size, lim) {
                    lim %= 1 << 20;
                }
                if f == "resize_memory" {
                    format!("gascalc {f} {cur:x} {lim:x} {new_size:x}")
                } else {
                    let off = if new_size == 0 { 0 } else { rng.below(new_size) };
                    let off = if rng.chance(1, 8) { new_size } else { off };
                    format!("gascalc {f} {cur:x} {lim:x} {off:x} {:x}", new_size - off)
                }
            }
            "tokens" => format!("gascalc {f} {} {}", rng.below(2), hxb(&rand_bytes(&mut rng))),
            "txgas" => {
                let auth = match rng.below(4) {
                    0 => 0,
                    1 => rng.below(300),
                    2 => *rng.pick(&AUTHS),
                    _ => rand_len(&mut rng),
                };
                format!("gascalc {f} {} {} {auth:x} {} {}", spec_tok(s), rng.below(2), rand_acl(&mut rng), hxb(&rand_bytes(&mut rng)))
            }
            "txgasn" => {
                let (s1, s2) = (rng.range(1, 14), rng.range(1, 14));
                let (z, nz) = (rng.below(1 << s1), rng.below(1 << s2));
                format!("gascalc {f} {} {} {:x} {} {z:x} {nz:x}", spec_tok(s), rng.below(2), rng.below(5), rand_acl(&mut rng))
            }
            _ => {
                // txvalidate: gas limit around the true intrinsic / floor values
                let data = rand_bytes(&mut rng);
                let acl = rand_acl(&mut rng);
                let nauth = *rng.pick(&[0u64, 0, 1, 2, 9]);
                let create = rng.below(2);
                let g = gas::calculate_initial_tx_gas(s, &data, create == 1, &pacl(&acl).unwrap(), nauth);
                let lim = match rng.below(5) {
                    0 => g.initial_gas.wrapping_add(rng.below(3)).wrapping_sub(1),
                    1 => g.floor_gas.wrapping_add(rng.below(3)).wrapping_sub(1),
                    2 => rng.below(200000),
                    3 => rand_len(&mut rng),
                    _ => g.initial_gas.max(g.floor_gas) + rng.below(1000),
                };
                format!("gascalc txvalidate {} {create} {nauth} {acl} {lim:x} {}", spec_tok(s), hxb(&data))
            }
        };
        l.push(line);
    }
    // ---- stream 3: malformed
    for _ in 0..(n / 50).max(8) {
        let line = match rng.below(6) {
            0 => "gascalc".to_string(),
            1 => format!("gascalc nosuchfn {:x}", rng.next()),
            2 => format!("gascalc sload_cost Berlin {} 1", rng.below(30)), // name / id mismatch unless 11
            3 => format!("gascalc sload_cost NoSuchFork 11 {}", rng.below(2)),
            4 => format!("gascalc keccak256_cost {:x}{:x}", rng.next() | (1 << 63), rng.next()), // > u64
            _ => format!("gascalc log_cost {} 20", 256 + rng.below(100)),
        };
        l.push(line);
    }
    l
}

pub fn run(seed: u64, n: usize, replay: Option<Vec<String>>, out: &mut Out) {
    let lines = replay.unwrap_or_else(|| gen(seed, n));
    for l in lines {
        let r = exec_line(&l);
        let mut it = l.split(' ');
        let _ = it.next();
        let f = it.next().unwrap_or("?").to_string();
        out.count(&format!("fn:{f}"));
        if r == "none" || r.starts_with("err") || r.starts_with("oog") || r.starts_with("ok=0") {
            out.count("failure-replies");
        }
        if r == "bad-op" {
            out.count("bad-op");
        }
        if r == "panic" {
            out.count("panic");
        }
        if let Some(pos) = l.find(|c: char| c.is_ascii_uppercase()) {
            if !matches!(f.as_str(), "const") {
                let name = l[pos..].split(' ').next().unwrap_or("?");
                out.count(&format!("spec:{name}"));
            }
        }
        out.push(l, r);
    }
}
