import Revm.Util.Hex
import Revm.Model.Bundle
import Revm.Spec.Bundle
/-! Line-protocol driver of component `bundle` (C16, C17, C18). See harness/src/bundle.rs for the grammar.
Two modelled `State`s are fed the same history: `mono` (its bundle is never taken) and `split`
(subject to `take` / `fresh`); taken bundles live on a stash where `extend` / `prepend` combine them.
Oracle lines (`check`, `revert`, `taken`, `prepend`) carry a Spec column in reach mode (`r`): the value
the property demands. -/
namespace Driver.Bundle
open Revm Revm.Hex Revm.Model.Bundle Revm.Spec.Bundle

def hx (n : Nat) : String := toHex n
def b01 (b : Bool) : String := if b then "1" else "0"
def sortK {α : Type} (l : List (Nat × α)) : List (Nat × α) := l.mergeSort (fun a b => a.1 ≤ b.1)
def joinOr (l : List String) (sep : String) (empty : String) : String :=
  if l.isEmpty then empty else sep.intercalate l

def fmtInfo : Option Info → String
  | none => "-"
  | some i => s!"{hx i.balance}.{hx i.nonce}.{hx i.codeHash}"
def fmtStatus : Status → String
  | .loadedNotExisting => "LNE" | .loaded => "L" | .loadedEmptyEIP161 => "LE" | .inMemoryChange => "IMC"
  | .changed => "C" | .destroyed => "D" | .destroyedChanged => "DC" | .destroyedAgain => "DA"
def fmtSlots (m : BMap Slot) : String :=
  joinOr ((sortK m).map fun e => s!"{hx e.1}:{hx e.2.orig}>{hx e.2.present}") "," ""
def fmtRevSlots (m : List (Nat × RevSlot)) : String :=
  joinOr ((sortK m).map fun e => match e.2 with
    | .some v => s!"{hx e.1}:{hx v}" | .destroyed => s!"{hx e.1}:X") "," ""
def fmtT (e : Nat × Transition) : String :=
  let t := e.2
  s!"{hx e.1}[{fmtStatus t.prevStatus}>{fmtStatus t.status} {fmtInfo t.prevInfo}>{fmtInfo t.info} d={b01 t.wasDestroyed} s={fmtSlots t.storage}]"
def fmtTs (ts : BMap Transition) : String := joinOr ((sortK ts).map fmtT) " " "-"
def fmtBAcct (e : Nat × BAcct) : String :=
  s!"{hx e.1}[{fmtStatus e.2.status} {fmtInfo e.2.origInfo}>{fmtInfo e.2.info} s={fmtSlots e.2.storage}]"
def fmtRev (e : Nat × ARevert) : String :=
  let a := match e.2.account with | .doNothing => "N" | .deleteIt => "D" | .revertTo i => "R" ++ fmtInfo (some i)
  s!"{hx e.1}[{a} {fmtStatus e.2.prevStatus} w={b01 e.2.wipe} s={fmtRevSlots e.2.storage}]"
def fmtBlock (blk : BMap ARevert) : String := joinOr ((sortK blk).map fmtRev) " " "-"
def fmtReverts (r : List (BMap ARevert)) : String := joinOr (r.map fmtBlock) " / " "none"
def fmtNats (l : List Nat) : String := joinOr ((l.mergeSort (· ≤ ·)).map hx) "," "-"
def fmtBundle (b : BState) : String :=
  s!"A {joinOr ((sortK b.state).map fmtBAcct) " " "-"} C {fmtNats b.contracts} R{b.reverts.length} {match b.reverts.getLast? with | some blk => fmtBlock blk | none => "none"}"
def fmtChangeset (c : Changeset) : String :=
  let acc := joinOr ((sortK c.accounts).map fun e => s!"{hx e.1}={fmtInfo e.2}") "," "-"
  let st := joinOr ((sortK c.storage).map fun e =>
    s!"{hx e.1}:{b01 e.2.1}:[{joinOr ((sortK e.2.2).map fun s => s!"{hx s.1}={hx s.2}") "," ""}]") " " "-"
  s!"acc {acc} st {st} co {fmtNats c.contracts}"
def fmtPlainRevBlock (b : PlainRevertBlock) : String :=
  let acc := joinOr ((sortK b.accounts).map fun e => s!"{hx e.1}={fmtInfo e.2}") "," "-"
  let st := joinOr ((sortK b.storage).map fun e => s!"{hx e.1}:{b01 e.2.1}:[{fmtRevSlots e.2.2}]") " " "-"
  s!"acc {acc} st {st}"

/-- canonical text of a plain state: existing accounts and non-zero slots, sorted -/
def canon (p : Plain) : String :=
  let as := ((p.accts.map (·.1)).eraseDups).mergeSort (· ≤ ·)
  let accs := as.filterMap fun a => (p.acct a).map fun i => s!"{hx a}={fmtInfo (some i)}"
  let ks := ((p.stor.map fun e => (e.1, e.2.1)).eraseDups).mergeSort
    (fun x y => x.1 < y.1 || (x.1 == y.1 && x.2 ≤ y.2))
  let sl := ks.filterMap fun (a, k) => let v := p.slot a k; if v = 0 then none else some s!"{hx a}.{hx k}={hx v}"
  ",".intercalate accs ++ " | " ++ ",".intercalate sl

structure Stashed where
  b : BState
  snaps : List Plain
  valid : Bool
  /-- built on a cache that already held destroyed statuses when the bundle was started
  (`take_bundle` on a continuing `State`): outside the region where the property is claimed -/
  taint : Bool := false
  /-- result of `extend` / `prepend` -/
  ext : Bool := false
  /-- for the result of one `extend(a, b)` of two non-extended bundles: `(a, b)` -/
  parts : Option (BState × BState) := none

structure St where
  active : Bool := false
  dead : Bool := false
  reach : Bool := true
  mono : SState := {}
  split : SState := {}
  ref : Plain := {}
  monoSnaps : List Plain := []
  splitSnaps : List Plain := []
  monoValid : Bool := true
  splitValid : Bool := true
  splitTaint : Bool := false
  monoHist : List BState := []
  stash : List Stashed := []

def St.init : St := {}

/-! ### token parser -/
abbrev P := StateT (List String) Option
def tok : P String := fun s => match s with | [] => none | t :: r => some (t, r)
def nat : P Nat := do let t ← tok; match parseHex? t with | some n => pure n | none => failure
def bool : P Bool := do let n ← nat; pure (n != 0)
def rep {α : Type} (p : P α) : Nat → P (List α)
  | 0 => pure []
  | n + 1 => do let x ← p; let xs ← rep p n; pure (x :: xs)
def counted {α : Type} (p : P α) : P (List α) := do let n ← nat; rep p n
def finish : P Unit := fun s => if s.isEmpty then some ((), s) else none

def pDbAcct : P (Nat × Info × List (Nat × Nat)) := do
  let a ← nat; let b ← nat; let n ← nat; let c ← nat
  let sl ← counted (do let k ← nat; let v ← nat; pure (k, v))
  pure (a, ⟨b, n, c, false⟩, sl)
def pEvmAcct : P (Nat × EvmAcct) := do
  let a ← nat; let fl ← nat; let b ← nat; let n ← nat; let c ← nat; let hc ← bool
  let sl ← counted (do let k ← nat; let o ← nat; let p ← nat; pure (k, (⟨o, p⟩ : Slot)))
  pure (a, { info := ⟨b, n, c, hc⟩, created := fl % 2 == 1, selfdestructed := fl / 2 % 2 == 1,
             touched := fl / 4 % 2 == 1, storage := sl })

def specCol (st : St) (model spec : String) : String :=
  if st.reach then s!"{model} | spec={spec}" else model

def target (st : St) (t : String) : Option Stashed :=
  match t with
  | "m" => some ⟨st.mono.bundle, st.monoSnaps, st.monoValid, false, false, none⟩
  | "s" => some ⟨st.split.bundle, st.splitSnaps, st.splitValid, st.splitTaint, false, none⟩
  | "t" => st.stash.head?
  | _ => none

def c16 (s : Stashed) (known : Bool) : Bool :=
  match s.snaps.head?, s.snaps.getLast? with
  | some p0, some pn => canon (applyChangeset (toPlainState s.b known) p0) == canon pn
  | _, _ => false

/-- no account of the bundle is in a destroyed status and no revert wipes storage -/
def destroyFree (b : BState) : Bool :=
  !b.state.any (fun e => e.2.status.wasDestroyed) && !b.reverts.any (fun blk => blk.any (fun e => e.2.wipe))

/-- region in which per-block pre-values (database reading) are claimed for a bundle: not tainted; for the result of
`extend(a, b)` the hypothesis `Spec.Bundle.extendOk a b` of `Props.C18.extend_assoc_partial` (outside finding F4),
for other extended bundles (nested `extend`, no theorem) destroy-freeness -/
def preRegion (s : Stashed) : Bool :=
  !s.taint && (!s.ext || (match s.parts with | some (a, b) => extendOk a b | none => destroyFree s.b))

/-- region in which `revert(j)` = prefix state is claimed: not tainted and, for a bundle built by one `State`, the
hypothesis `Spec.Bundle.revertOk` of `Props.C17.revert_j_equals_prefix_partial` (outside findings F2a / F2b); for
`extend(a, b)` the hypothesis `Spec.Bundle.extRevertOk` of `Props.C18.extend_revert_partial` (outside finding F5), or
destroy-freeness (no theorem) -/
def revertRegion (s : Stashed) (j : Nat) : Bool :=
  !s.taint && revertOk s.b j &&
  (!s.ext || destroyFree s.b || (match s.parts with | some (a, b) => extRevertOk a b j | none => false))

def revsUsable (s : Stashed) : Bool := s.valid && s.b.reverts.length + 1 == s.snaps.length

/-- C17 oracle: block k of the plain reverts maps R_k to R_{k-1}, for every k -/
def c17 (dbr : Bool) (s : Stashed) : String :=
  if !revsUsable s then "na" else
  match s.snaps.head? with
  | none => "na"
  | some p0 =>
    let blocks := toPlainStateReverts s.b
    let idx := List.range blocks.length
    b01 (idx.all fun k =>
      match blocks[k]?, s.snaps[k]?, s.snaps[k+1]? with
      | some blk, some before, some after => canon (applyRevertBlock dbr p0 blk after) == canon before
      | _, _, _ => false)

def tsReply (st : St) : String :=
  let a := fmtTs st.mono.ts
  let b := fmtTs st.split.ts
  s!"ts {a} ts2 {if a == b then "=" else b}"

def die (st : St) : St × String := ({ st with dead := true }, "panic")

def handleOp (st : St) (toks : List String) : St × String :=
  match toks with
  | "commit" :: r =>
    (match (do let l ← counted pEvmAcct; finish; pure l).run r with
     | some (l, _) =>
       (match st.mono.commit l, st.split.commit l with
        | some m, some s =>
          let st := { st with mono := m, split := s, ref := applyCommit st.mono.sc st.ref l }
          (st, tsReply st)
        | _, _ => die st)
     | none => (st, "bad-op"))
  | "incr" :: r =>
    (match (do let l ← counted (do let a ← nat; let v ← nat; pure (a, v)); finish; pure l).run r with
     | some (l, _) =>
       let st := { st with mono := st.mono.incrementBalances l, split := st.split.incrementBalances l,
                           ref := applyIncrement st.ref l }
       (st, tsReply st)
     | none => (st, "bad-op"))
  | "drain" :: r =>
    (match (do let l ← counted nat; finish; pure l).run r with
     | some (l, _) =>
       (match st.mono.drainBalances l, st.split.drainBalances l with
        | some (m, bals), some (s, _) =>
          let st := { st with mono := m, split := s, ref := applyDrain st.ref l }
          (st, s!"bal {joinOr (bals.map hx) "," "-"} {tsReply st}")
        | _, _ => die st)
     | none => (st, "bad-op"))
  | ["merge", r] =>
    let inc := r == "1"
    (match st.mono.merge inc, st.split.merge inc with
     | some m, some s =>
       let st := { st with mono := m, split := s,
                           monoSnaps := st.monoSnaps ++ [st.ref], splitSnaps := st.splitSnaps ++ [st.ref],
                           monoValid := st.monoValid && inc, splitValid := st.splitValid && inc,
                           monoHist := st.monoHist ++ [m.bundle] }
       let a := fmtBundle m.bundle
       let b := fmtBundle s.bundle
       (st, s!"b {a} b2 {if a == b then "=" else b}")
     | _, _ => die st)
  | ["take"] =>
    let e : Stashed := ⟨st.split.bundle, st.splitSnaps, st.splitValid, st.splitTaint, false, none⟩
    let st := { st with stash := e :: st.stash, split := { st.split with bundle := {} },
                        splitTaint := st.split.cache.any (fun c => c.2.status.wasDestroyed),
                        splitSnaps := (match st.splitSnaps.getLast? with | some p => [p] | none => []),
                        splitValid := true }
    (st, s!"stash={st.stash.length}")
  | ["fresh"] =>
    let as := ((st.ref.accts.map (·.1)).eraseDups).mergeSort (· ≤ ·)
    let db : BMap Info := as.filterMap fun a => (st.ref.acct a).map fun i => (a, i.withoutCode)
    let st := { st with split := { db := db, sc := st.mono.sc }, splitSnaps := [st.ref], splitValid := true,
                        splitTaint := false }
    (st, "ok")
  | ["extend"] =>
    (match st.stash with
     | b :: a :: rest =>
       let e : Stashed := ⟨extend a.b b.b, a.snaps ++ b.snaps.drop 1, a.valid && b.valid, a.taint || b.taint, true,
                           if a.ext || b.ext then none else some (a.b, b.b)⟩
       ({ st with stash := e :: rest }, fmtBundle e.b)
     | _ => (st, "bad-op"))
  | ["prepend"] =>
    (match st.stash with
     | b :: a :: rest =>
       let res := prependState b.b a.b
       let nov := b.b.state.all fun e =>
         match res.state.get e.1 with
         | none => false
         | some ra => optSame ra.info e.2.info &&
             e.2.storage.all (fun s => match ra.storage.get s.1 with
               | some rs => rs.present == s.2.present | none => false)
       let e : Stashed := ⟨res, a.snaps ++ b.snaps.drop 1, false, a.taint || b.taint, true, none⟩
       ({ st with stash := e :: rest }, specCol st s!"nov={b01 nov} {fmtBundle res}" s!"nov=1 {fmtBundle res}")
     | _ => (st, "bad-op"))
  | ["plain", t, k] =>
    (match target st t with
     | some s => (st, fmtChangeset (toPlainState s.b (k == "1")))
     | none => (st, "bad-op"))
  | ["reverts", t] =>
    (match target st t with
     | some s => (st, joinOr ((toPlainStateReverts s.b).map fmtPlainRevBlock) " / " "none")
     | none => (st, "bad-op"))
  | ["check", t] =>
    (match target st t with
     | some s =>
       let r17 := c17 false s
       let r17d := c17 true s
       let y := b01 (c16 s true)
       let n := b01 (c16 s false)
       -- literal reading claimed only where no wiped revert lists a `Destroyed` slot: hypothesis
       -- `Spec.Bundle.literalOk` of `Props.C17.revert_k_correct_literal_partial`, for every block
       let litRegion := s.b.reverts.all literalOk
       let dem (region : Bool) (x : String) := if x == "na" || !region then x else "1"
       (st, specCol st s!"c16y={y} c16n={n} c17={r17} c17d={r17d}"
                       s!"c16y={dem (!s.taint) y} c16n={dem (!s.taint) n} c17={dem (preRegion s && litRegion) r17} c17d={dem (preRegion s) r17d}")
     | none => (st, "bad-op"))
  | ["revert", t, j] =>
    (match target st t, parseHex? j with
     | some s, some j =>
       let b' := revertN s.b j
       let j' := min j s.b.reverts.length
       let n := s.b.reverts.length
       let (ry, rn) := if revsUsable s then
           match s.snaps.head?, s.snaps[n - j']? with
           | some p0, some tgt =>
             (b01 (canon (applyChangeset (toPlainState b' true) p0) == canon tgt),
              b01 (canon (applyChangeset (toPlainState b' false) p0) == canon tgt))
           | _, _ => ("na", "na")
         else ("na", "na")
       let lit := if t == "m" && revsUsable s then
           (if n - j' == 0 then b01 (fmtChangeset (toPlainState b' true) == fmtChangeset (toPlainState {} true))
            else match st.monoHist[n - j' - 1]? with
             | some h => b01 (fmtChangeset (toPlainState b' true) == fmtChangeset (toPlainState h true))
             | none => "na")
         else "na"
       -- claimed exactly in the region of `Props.C17.revert_j_equals_prefix_partial` (`Spec.Bundle.revertOk`:
       -- every storage-wiping revert met lists no slot and meets an account without slot entries)
       let region := revertRegion s j
       let one (x : String) := if x == "na" || !region then x else "1"
       let d := fmtBundle b'
       (st, specCol st s!"ry={ry} rn={rn} lit={lit} {d}" s!"ry={one ry} rn={one rn} lit={lit} {d}")
     | _, _ => (st, "bad-op"))
  | ["taken", t, n] =>
    (match target st t, parseHex? n with
     | some s, some n =>
       let (det, rest) := takeNReverts s.b n
       let ok := fmtReverts (det ++ rest.reverts) == fmtReverts s.b.reverts
                 && det.length == min n s.b.reverts.length
                 && det.length + rest.reverts.length == s.b.reverts.length
       let d := s!"T{det.length} {fmtReverts det} R{rest.reverts.length} {fmtReverts rest.reverts}"
       (st, specCol st s!"ok={b01 ok} {d}" s!"ok=1 {d}")
     | _, _ => (st, "bad-op"))
  | _ => (st, "bad-op")

/-- `begin bundle <mode r|w> <sc> <nacc> {addr bal nonce code nslots {k v}}` -/
def handleBegin (toks : List String) : St × String :=
  match toks with
  | mode :: r =>
    (match (do let sc ← bool; let l ← counted pDbAcct; finish; pure (sc, l)).run r with
     | some ((sc, l), _) =>
       let db : BMap Info := l.map fun e => (e.1, e.2.1)
       let p0 : Plain := l.foldl (fun p e => (p.setSlots e.1 e.2.2).setAcct e.1 (some e.2.1)) {}
       let s : SState := { db := db, sc := sc }
       ({ active := true, reach := mode == "r", mono := s, split := s, ref := p0,
          monoSnaps := [p0], splitSnaps := [p0] }, "ok")
     | none => ({}, "bad-op"))
  | _ => ({}, "bad-op")

/-- lines `bundle <op> …` -/
def handle (st : St) (toks : List String) : St × String :=
  if !st.active then (st, "bad-op")
  else if st.dead then (st, "dead")
  else handleOp st toks

end Driver.Bundle
