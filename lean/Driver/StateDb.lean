import Revm.Util.Hex
import Revm.Model.StateDb
import Revm.Spec.StateDb
/-! Line-protocol driver of the `statedb` (C15) component; shared parsing / printing helpers are
reused by `Driver.Prestate` (C19). Request and reply formats: see `harness/src/c15.rs`. -/
namespace Driver.StateDb
open Revm Revm.Hex Revm.Model.StateDb

/-! ## token parsing (a tiny state monad over the token list) -/
abbrev P := StateT (List String) Option

def tok : P String := do
  match (← get) with
  | [] => failure
  | t :: r => set r; pure t
def hexTok : P Nat := do
  let t ← tok
  if t.length > 64 then failure
  match parseHex? t with
  | some n => pure n
  | none => failure
def numTok : P Nat := do
  let n ← hexTok
  if n > 100000 then failure else pure n
def expectTok (w : String) : P Unit := do
  let t ← tok
  if t == w then pure () else failure
def rep {α} : Nat → P α → P (List α)
  | 0, _ => pure []
  | n+1, p => do let x ← p; let r ← rep n p; pure (x :: r)
def codeOptOf (s : String) : Option (Option Code) :=
  if s == "none" then some none else (parseBytes? s).map some
def infoP : P Info := do
  let bal ← hexTok
  let nonce ← hexTok
  if nonce ≥ U64 then failure
  let h ← hexTok
  let c ← tok
  match codeOptOf c with
  | some c => pure ⟨bal, nonce, h, c⟩
  | none => failure

structure World where
  uniA : List Addr
  uniS : List Slot
  accts : List (Addr × Info × List (Slot × Word))
  codes : List (Nat × Code)

def worldP : P World := do
  expectTok "U"; let n ← numTok; let ua ← rep n hexTok
  expectTok "S"; let n ← numTok; let us ← rep n hexTok
  expectTok "DB"; let n ← numTok
  let accts ← rep n (do
    let a ← hexTok; let i ← infoP; let m ← numTok
    let st ← rep m (do let k ← hexTok; let v ← hexTok; pure (k, v))
    pure (a, i, st))
  expectTok "CODES"; let n ← numTok
  let codes ← rep n (do
    let h ← hexTok; let b ← tok
    match parseBytes? b with
    | some b => pure (h, b)
    | none => failure)
  pure ⟨ua, us, accts, codes⟩

def lookup {β} (l : List (Nat × β)) (k : Nat) : Option β :=
  match l with
  | [] => none
  | (k', v) :: r => if k' = k then some v else lookup r k

/-- last binding wins (a `BTreeMap::insert` sequence) -/
def lookupLast {β} (l : List (Nat × β)) (k : Nat) : Option β := lookup l.reverse k

def World.db (w : World) : Db :=
  { basic := fun a => (lookupLast w.accts a).map (·.1),
    storage := fun a k => match lookupLast w.accts a with
      | some (_, st) => (lookupLast st k).getD 0
      | none => 0,
    code := fun h => (lookupLast w.codes h).getD [] }

def commitP : P (List CommitAcct) := do
  let n ← numTok
  rep n (do
    let a ← hexTok; let flags ← numTok
    if flags > 7 then failure
    let i ← infoP; let m ← numTok
    let st ← rep m (do let k ← hexTok; let o ← hexTok; let p ← hexTok; pure (k, o, p))
    pure { addr := a, info := i, storage := st, touched := flags % 2 == 1,
           created := flags / 2 % 2 == 1, selfdestructed := flags / 4 % 2 == 1 })

def hasDup : List Nat → Bool
  | [] => false
  | x :: r => r.contains x || hasDup r

/-! ## printing -/
def codeOptStr : Option Code → String
  | none => "none"
  | some c => bytesToHex c
def viewStr : Option View → String
  | none => "none"
  | some v => s!"some {toHex v.balance} {toHex v.nonce} {toHex v.codeHash} {bytesToHex v.code}"
def infoOptStr : Option Info → String
  | none => "none"
  | some i => s!"i:{toHex i.balance}:{toHex i.nonce}:{toHex i.codeHash}:{codeOptStr i.code}"
def statusStr : Status → String
  | .LoadedNotExisting => "LNE" | .Loaded => "L" | .LoadedEmptyEIP161 => "LE"
  | .InMemoryChange => "IMC" | .Changed => "C" | .Destroyed => "D"
  | .DestroyedChanged => "DC" | .DestroyedAgain => "DA"
def statusOf : String → Option Status
  | "LNE" => some .LoadedNotExisting | "L" => some .Loaded | "LE" => some .LoadedEmptyEIP161
  | "IMC" => some .InMemoryChange | "C" => some .Changed | "D" => some .Destroyed
  | "DC" => some .DestroyedChanged | "DA" => some .DestroyedAgain
  | _ => none

def insertBy {α} (key : α → Nat) (x : α) : List α → List α
  | [] => [x]
  | y :: r => if key x ≤ key y then x :: y :: r else y :: insertBy key x r
def sortBy {α} (key : α → Nat) (l : List α) : List α := l.foldl (fun acc x => insertBy key x acc) []

/-- slots of a transition sorted by key, one entry per key (the first = the map's binding) -/
def dedupSlots (l : Changes) : Changes :=
  l.foldl (fun acc e => if acc.any (fun x => x.1 == e.1) then acc else acc ++ [e]) []

def transitionsStr (l : List (Addr × Transition)) : String :=
  let l := sortBy (·.1) l
  let parts := l.map (fun (a, t) =>
    let slots := sortBy (·.1) (dedupSlots t.storage)
    let ss := slots.foldl (fun acc (k, o, p) => acc ++ s!" {toHex k} {toHex o} {toHex p}") ""
    s!" {toHex a} {statusStr t.previousStatus} {statusStr t.status} {infoOptStr t.previousInfo} {infoOptStr t.info} {boolStr t.storageWasDestroyed} {toHex slots.length}{ss}")
  s!"T {toHex l.length}" ++ String.join parts

/-! ## decidable versions of the hypotheses (they only gate the Spec column) -/
open Revm.Spec.StateDb in
def wfInfoB (i : Info) : Bool :=
  i.codeHash != 0 && (i.codeHash != KECCAK_EMPTY || i.code == none || i.code == some [])
def World.hypB (w : World) : Bool :=
  w.accts.all (fun (_, i, st) => wfInfoB i && (!i.hasNoCodeAndNonce || st.all (fun (_, v) => v == 0)))
  && !hasDup (w.accts.map (·.1))

open Revm.Spec.StateDb in
def isEmptyRefB (ra : Option (Info × (Slot → Word))) : Bool :=
  match ra with
  | none => true
  | some p => p.1.isEmpty

open Revm.Spec.StateDb in
/-- `ReachCommit` and `ExclAcct` along a commit -/
def reachCommitB (sc : Bool) (s : St) : List CommitAcct → Bool
  | [] => true
  | a :: rest =>
    let ok :=
      if a.touched then
        s.loaded a.addr && wfInfoB a.info &&
        (a.selfdestructed || a.created || !a.info.isEmpty || (isEmptyRefB (s.ref a.addr) && a.changed.isEmpty)) &&
        (sc || a.selfdestructed || !a.created || !a.info.isEmpty ||
          a.changed.all (fun e => over a.changed zeroStorage e.1 == 0))
      else true
    ok && reachCommitB sc (s.set a.addr (applyAcct sc (s.ref a.addr) a)) rest

open Revm.Spec.StateDb in
def reachIncB (s : St) : List (Addr × Nat) → Bool
  | [] => true
  | (a, amount) :: rest =>
    if amount = 0 then reachIncB s rest
    else decide (balanceOf (s.ref a) + amount < W) && reachIncB ((s.load a).set a (incAcct (s.ref a) amount)) rest

open Revm.Spec.StateDb in
def reachDrainB (s : St) : List Addr → Bool
  | [] => true
  | a :: rest =>
    decide (balanceOf (s.ref a) < U128) &&
    (match s.ref a with
      | some p => p.1.isEmpty || !({ p.1 with balance := 0 } : Info).isEmpty
      | none => true) &&
    reachDrainB ((s.load a).set a (drainAcct (s.ref a))) rest

open Revm.Spec.StateDb in
def reachOpB (sc : Bool) (s : St) : Op → Bool
  | .basic _ => true
  | .storage a _ => s.loaded a
  | .code _ => true
  | .commit accts => reachCommitB sc s accts
  | .inc l => reachIncB s l
  | .drain l => reachDrainB s l

/-! ## the component state -/
structure St where
  model : Option State := none      -- `none`: no case open, or the case died in a panic
  spec : Spec.StateDb.St := ⟨fun _ => none, fun _ => false⟩
  dbCode : Nat → Code := fun _ => []
  sc : Bool := true
  bu : Bool := false
  uniA : List Addr := []
  uniS : List Slot := []
  /-- all hypotheses of `state_reads_ref` hold for the prefix executed so far -/
  inRegion : Bool := false
  /-- 0 = no case open, 1 = running, 2 = died in a panic -/
  phase : Nat := 0

def St.init : St := {}

def replyStr : Reply → String
  | .info v => viewStr v
  | .word w => toHex w
  | .code c => bytesToHex c
  | .done => "ok"
  | .drained l => (l.foldl (fun acc b => acc ++ " " ++ toHex b) "ok")

def withSpec (m : String) (show_ : Bool) (s : String) : String :=
  if show_ then s!"{m} | spec={s}" else m

/-- read the whole universe on a copy of the state -/
def probeModel (s : State) (uniA : List Addr) (uniS : List Slot) : Option String :=
  let rec go (s : State) : List Addr → Option (List String)
    | [] => some []
    | a :: rest =>
      let r := s.basicView a
      let b := (viewStr r.2).replace " " ","
      let rec slots (s : State) : List Slot → Option (State × List String)
        | [] => some (s, [])
        | k :: ks => match s.storage a k with
          | .error _ => none
          | .ok (s', v) => match slots s' ks with
            | some (s'', vs) => some (s'', toHex v :: vs)
            | none => none
      match slots r.1 uniS with
      | none => none
      | some (s', vs) => match go s' rest with
        | none => none
        | some parts => some (s!"{toHex a}={b}[{",".intercalate vs}]" :: parts)
  (go s uniA).map (fun parts => " ".intercalate parts)

def probeSpec (dbCode : Nat → Code) (t : Spec.StateDb.St) (uniA : List Addr) (uniS : List Slot) : String :=
  " ".intercalate (uniA.map (fun a =>
    let b := (viewStr ((t.ref a).map (fun p => p.1.view dbCode))).replace " " ","
    let vs := uniS.map (fun k => toHex (Spec.StateDb.storageOf (t.ref a) k))
    s!"{toHex a}={b}[{",".intercalate vs}]"))

/-- run one model operation and the reference; reply with the Spec column where the hypotheses hold -/
def runOp (st : St) (s : State) (op : Op) (extra : State → String) : St × String :=
  let inR := st.inRegion && reachOpB st.sc st.spec op
  let sp := Spec.StateDb.step st.dbCode st.sc st.spec op
  match s.step op with
  | .error _ => ({ st with model := none, phase := 2, inRegion := false }, "panic")
  | .ok (s', r) =>
    let m := replyStr r ++ extra s
    let showSpec := inR && (match op with | .commit _ => false | .inc _ => false | _ => true)
    ({ st with model := some s', spec := sp.1, inRegion := inR }, withSpec m showSpec (replyStr sp.2))

def beginCase (toks : List String) : St × String :=
  let p : P (Bool × Bool × World) := do
    let sc ← hexTok; let bu ← hexTok; let _region ← tok; let w ← worldP
    pure (sc == 1, bu == 1, w)
  match p.run toks with
  | some ((sc, bu, w), []) =>
    let db := w.db
    ({ model := some (State.build db sc bu none), spec := Spec.StateDb.St.init db, dbCode := db.code,
       sc := sc, bu := bu, uniA := w.uniA, uniS := w.uniS, inRegion := w.hypB, phase := 1 }, "ok")
  | _ => ({}, "bad-op")

def handle (st : St) (toks : List String) : St × String :=
  match toks with
  | "begin" :: "statedb" :: r => beginCase r
  | op :: r =>
    match st.model with
    | none => (st, if st.phase == 2 && op != "begin" then "dead" else "bad-op")
    | some s =>
      match op with
      | "basic" => match (hexTok).run r with
        | some (a, []) => runOp st s (.basic a) (fun _ => "")
        | _ => (st, "bad-op")
      | "storage" => match (do let a ← hexTok; let k ← hexTok; pure (a, k) : P _).run r with
        | some ((a, k), []) => runOp st s (.storage a k) (fun _ => "")
        | _ => (st, "bad-op")
      | "code" => match (hexTok).run r with
        | some (h, []) => runOp st s (.code h) (fun _ => "")
        | _ => (st, "bad-op")
      | "probe" =>
        if r != [] then (st, "bad-op") else
        match probeModel s st.uniA st.uniS with
        | none => ({ st with model := none, phase := 2 }, "panic")
        | some m => (st, withSpec m st.inRegion (probeSpec st.dbCode st.spec st.uniA st.uniS))
      | "commit" => match commitP.run r with
        | some (accts, []) =>
          if hasDup (accts.map (·.addr)) then (st, "bad-op") else
          -- the transitions the commit emits (logged on a copy with bundle update switched on)
          let trs := match ({ s with transitions := some [] } : State).commit accts with
            | .ok s' => transitionsStr (s'.transitions.getD [])
            | .error _ => ""
          runOp st s (.commit accts) (fun _ => s!" ts={boolStr st.bu} {trs}")
        | _ => (st, "bad-op")
      | "inc" => match (do let n ← numTok; rep n (do let a ← hexTok; let v ← hexTok; pure (a, v)) : P _).run r with
        | some (l, []) => if l.any (fun x => x.2 ≥ U128) then (st, "bad-op") else runOp st s (.inc l) (fun _ => "")
        | _ => (st, "bad-op")
      | "drain" => match (do let n ← numTok; rep n hexTok : P _).run r with
        | some (l, []) => runOp st s (.drain l) (fun _ => "")
        | _ => (st, "bad-op")
      | "tx" => (st, "cachedb=eq")
      | _ => (st, "bad-op")
  | [] => (st, "bad-op")

end Driver.StateDb
