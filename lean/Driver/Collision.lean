import Revm.Util.Hex
import Revm.Model.Collision
/-! `collision <kind> <spec_u8> <layer> <code 0|1> <nonce hex> <storage 0|1> <balance hex>`
→ `<class> allgas=<0|1> changed=<0|1>`; the harness transfers value 1 and probes slot 1. -/
namespace Driver.Collision
open Revm Revm.Hex Revm.Model.Db Revm.Model.Collision

def targetAddr : Nat := 0x7a
/-- hash of the one-byte code `00` the harness gives a target "with code" (any value ≠ KECCAK_EMPTY) -/
def someCodeHash : Nat := 0xbc36789e7a1e281436464229828f817d6612f7b477d66591ff96a9e064bcc98a

def mkBase (info : Option Info) (storage : Bool) : Base :=
  { basic := fun a => if a = targetAddr then info else none,
    storage := fun a k => if a = targetAddr ∧ k = 1 ∧ storage then 1 else 0,
    code := fun _ => Code.empty,
    blockHash := fun _ => 0,
    hasStorage := fun a => a == targetAddr && storage }

def mkDb (layer : String) (info : Option Info) (storage : Bool) : Option Db :=
  let b := Db.base (mkBase info storage)
  match layer with
  | "direct" => some b
  | "wrapref" => some (.wrapRef b)
  | "box" => some (.fwd b)
  | "mutref" => some (.fwd b)
  | "components" => some (.components b)
  | "cache" => some (.cache b CacheDB.new)
  | "state" => some (.state b StateDb.new)
  | "statecache" => some (.state (.cache b CacheDB.new) StateDb.new)
  | "inserted" =>
    let e : Data := (Base.emptyDB (fun _ => 0)).toData
    let c0 := match info with | some i => CacheDB.new.insertAccountInfo targetAddr i | none => CacheDB.new
    let c1 := if storage then c0.insertAccountStorage e targetAddr 1 1 else c0
    some (.cache (.empty (fun _ => 0)) c1)
  | _ => none

def handle (toks : List String) : String :=
  match toks with
  | [kind, spec, layer, code, nonce, storage, bal] =>
    match spec.toNat?, parseBool? code, parseHex? nonce, parseBool? storage, parseHex? bal with
    | some spec, some code, some nonce, some storage, some bal =>
      if !(kind = "tx" || kind = "create" || kind = "create2") then "bad-op" else
      if spec > 19 && spec != 255 then "bad-op" else
      if kind = "create2" && spec < 7 then "bad-op" else
      if nonce ≥ U64 || bal ≥ W then "bad-op" else
      let info : Option Info :=
        if !code && nonce = 0 && !storage && bal = 0 then none
        else some ⟨bal, nonce, if code then someCodeHash else KECCAK_EMPTY, none⟩
      match mkDb layer info storage with
      | none => "bad-op"
      | some db =>
        -- the journal loads the target through the same database
        let loaded : Target := match (db.query (.basic targetAddr)).2 with
          | .info (some i) => { codeHash := i.codeHash, nonce := i.nonce, balance := i.balance }
          | _ => { codeHash := KECCAK_EMPTY, nonce := 0, balance := 0 }
        let o := makeCreateFrame db targetAddr loaded 1 1000000 (spec ≥ 5)
        let cls := match o.result with
          | .collision => "collision" | .overflowPayment => "other:OverflowPayment" | .frame => "created"
        s!"{cls} allgas={boolStr (o.gasLost == some 1000000)} changed={boolStr (o.target != loaded)}"
    | _, _, _, _, _ => "bad-op"
  | _ => "bad-op"
end Driver.Collision
