import Revm.Util.Hex
import Revm.Model.Collision
/-! `collision <kind> <spec_u8> <layer> <code 0|1> <nonce hex> <storage 0|1> <balance hex> [<warmth>]`
→ `<class> allgas=<0|1> changed=<0|1>`; the harness transfers value 1 and probes slot 1.
`warmth` (default `cold`) = how the harness makes the target warm before the creation reaches it.
An optional 10th token (after `cold`) is the history of the target within the transaction. -/
namespace Driver.Collision
open Revm Revm.Hex Revm.Model.Db Revm.Model.Collision

def targetAddr : Nat := 0x7a
/-- hash of the one-byte code `00` the harness gives a target "with code" (any value ≠ KECCAK_EMPTY) -/
def someCodeHash : Nat := 0xbc36789e7a1e281436464229828f817d6612f7b477d66591ff96a9e064bcc98a

def mkBase (info : Option Info) (storage : Bool) : Base :=
  { basic := fun a => if a = targetAddr then info else none,
    storage := fun a k => if a = targetAddr ∧ k = 1 ∧ storage then 1 else 0,
    code := fun _ => Code.empty,
    blockHash := fun _ => 0,
    hasStorage := fun a => a == targetAddr && storage }

def mkDb (layer : String) (info : Option Info) (storage : Bool) : Option Db :=
  let b := Db.base (mkBase info storage)
  match layer with
  | "direct" => some b
  | "wrapref" => some (.wrapRef b)
  | "box" => some (.fwd b)
  | "mutref" => some (.fwd b)
  | "components" => some (.components b)
  | "cache" => some (.cache b CacheDB.new)
  | "state" => some (.state b StateDb.new)
  | "statecache" => some (.state (.cache b CacheDB.new) StateDb.new)
  | "inserted" =>
    let e : Data := (Base.emptyDB (fun _ => 0)).toData
    let c0 := match info with | some i => CacheDB.new.insertAccountInfo targetAddr i | none => CacheDB.new
    let c1 := if storage then c0.insertAccountStorage e targetAddr 1 1 else c0
    some (.cache (.empty (fun _ => 0)) c1)
  | _ => none

/-- the harness' ways of making the target warm: access-list key 1 is the stored slot, key 2 a zero one -/
def parseWarmth? : String → Option Warmth
  | "cold" => some .coldFirstTouch
  | "al" => some (.accessList [])
  | "alkey" => some (.accessList [1])
  | "alkey0" => some (.accessList [2])
  | "balance" => some .opcodeLoad
  | "extcodesize" => some .opcodeLoad
  | "call" => some .called
  | "subrevert" => some .revertedCold
  | "retry" => some .retried
  | _ => none

/-- opcodes need a creator contract; the same CREATE2 address twice needs CREATE2 -/
def warmthApplies (kind w : String) : Bool :=
  if w = "cold" || w = "al" || w = "alkey" || w = "alkey0" then true
  else if w = "retry" then kind = "create2"
  else kind != "tx"

def handleW (toks : List String) (warmth : String) : String :=
  match toks with
  | [kind, spec, layer, code, nonce, storage, bal] =>
    match spec.toNat?, parseBool? code, parseHex? nonce, parseBool? storage, parseHex? bal with
    | some spec, some code, some nonce, some storage, some bal =>
      if !(kind = "tx" || kind = "create" || kind = "create2") then "bad-op" else
      if spec > 19 && spec != 255 then "bad-op" else
      if kind = "create2" && spec < 7 then "bad-op" else
      if nonce ≥ U64 || bal ≥ W then "bad-op" else
      match parseWarmth? warmth with
      | none => "bad-op"
      | some w =>
      if !warmthApplies kind warmth then "bad-op" else
      -- a transaction with an access list is rejected before Berlin (`AccessListNotSupported`)
      if (warmth = "al" || warmth = "alkey" || warmth = "alkey0") && spec < 11 && (mkDb layer none false).isSome then "evm-error" else
      let info : Option Info :=
        if !code && nonce = 0 && !storage && bal = 0 then none
        else some ⟨bal, nonce, if code then someCodeHash else KECCAK_EMPTY, none⟩
      match mkDb layer info storage with
      | none => "bad-op"
      | some db =>
        -- the journal loads the target through the same database, in the way `warmth` says
        let loaded : Target := loadedTarget db targetAddr w
        let o := makeCreateFrameW db targetAddr w 1 1000000 (spec ≥ 5)
        match o.result, warmth with
        -- `retry`: the harness' init code is INVALID, so a frame that is made fails, takes all gas and is reverted
        | .frame, "retry" => "other:InvalidFEOpcode allgas=1 changed=0"
        | _, _ =>
        let cls := match o.result with
          | .collision => "collision" | .overflowPayment => "other:OverflowPayment" | .frame => "created"
        s!"{cls} allgas={boolStr (o.gasLost == some 1000000)} changed={boolStr (o.target != loaded)}"
    | _, _, _, _, _ => "bad-op"
  | _ => "bad-op"

/-- hash of the runtime code the harness' init code deploys for `created` (`00`) / `destroyed` (`33ff`):
any value ≠ KECCAK_EMPTY, the collision is decided by the nonce -/
def deployedHash (h : String) : Nat := if h = "destroyed" then 0x33ff else someCodeHash

/-- 10-token lines: `… cold <history>`, history = untouched | created | destroyed | funded | hsonly -/
def handleH (toks : List String) (history : String) : String :=
  match toks with
  | [kind, spec, layer, code, nonce, storage, bal] =>
    if history = "untouched" then handleW toks "cold" else
    match spec.toNat?, parseBool? code, parseHex? nonce, parseBool? storage, parseHex? bal with
    | some spec, some code, some nonce, some storage, some bal =>
      if !(kind = "tx" || kind = "create" || kind = "create2") then "bad-op" else
      if spec > 19 && spec != 255 then "bad-op" else
      if kind = "create2" && spec < 7 then "bad-op" else
      if nonce ≥ U64 || bal ≥ W then "bad-op" else
      if !(history = "created" || history = "destroyed" || history = "funded" || history = "hsonly") then "bad-op" else
      if (history = "created" || history = "destroyed") && kind != "create2" then "bad-op" else
      if history = "funded" && (kind = "tx" || bal ≥ 2^255) then "bad-op" else
      if history = "hsonly" && !(!code && nonce = 0 && storage && bal = 0) then "bad-op" else
      let info : Option Info :=
        if history = "hsonly" then none   -- the database reports storage for an address whose `basic` is `None`
        else if !code && nonce = 0 && !storage && bal = 0 then none
        else some ⟨bal, nonce, if code then someCodeHash else KECCAK_EMPTY, none⟩
      match mkDb layer info storage with
      | none => "bad-op"
      | some db =>
        let h : History := match history with
          | "created" => .createdAlive (deployedHash history)
          | "destroyed" => .createdDestroyed (deployedHash history)
          | "funded" => .funded 1
          | _ => .untouched
        let r := makeCreateFrameH db targetAddr h 1 1000000 (spec ≥ 5)
        let clsOf (x : Result) : String := match x with
          | .collision => "collision" | .overflowPayment => "other:OverflowPayment" | .frame => "created"
        match r.first with
        | some .collision => "other:first-collision"
        | some .overflowPayment => "other:first-other:OverflowPayment"
        | _ =>
          let o := r.outcome
          s!"{clsOf o.result} allgas={boolStr (o.gasLost == some 1000000)} changed={boolStr (o.target != r.entry.target)}"
    | _, _, _, _, _ => "bad-op"
  | _ => "bad-op"

def handle (toks : List String) : String :=
  match toks with
  | [kind, spec, layer, code, nonce, storage, bal, "cold", history] =>
    handleH [kind, spec, layer, code, nonce, storage, bal] history
  | [kind, spec, layer, code, nonce, storage, bal] => handleW [kind, spec, layer, code, nonce, storage, bal] "cold"
  | [kind, spec, layer, code, nonce, storage, bal, warmth] => handleW [kind, spec, layer, code, nonce, storage, bal] warmth
  | _ => "bad-op"
end Driver.Collision
