import Revm.Util.Hex
import Revm.Util.Keccak
/-! `util keccak <bytes>` | `util create <addr> <nonce>` | `util create2 <addr> <salt> <inithash>`:
the trusted definitions of Util/Keccak.lean, answered for the correspondence with the real
`keccak256`, `Address::create`, `Address::create2`. -/
namespace Driver.Util
open Revm.Hex Revm.Keccak

def handle (toks : List String) : String :=
  match toks with
  | ["keccak", b] => match parseBytes? b with
    | some bs => toHex (keccak256w bs)
    | none => "bad-op"
  | ["create", a, n] => match parseHex? a, parseHex? n with
    | some a, some n => toHex (createAddress a n)
    | _, _ => "bad-op"
  | ["create2", a, s, h] => match parseHex? a, parseHex? s, parseHex? h with
    | some a, some s, some h => toHex (create2Address a s h)
    | _, _, _ => "bad-op"
  | _ => "bad-op"

end Driver.Util
