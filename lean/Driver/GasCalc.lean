import Revm.Util.Hex
import Revm.Model.GasCalc
import Revm.Spec.GasCalc
/-! Line-protocol driver of component `gascalc` (C14). Request formats: see `harness/src/c14.rs`.
Reply: `<model reply> | spec=<spec reply>`; the Spec column is the EIP formula over unbounded `Nat`,
rendered the way the property demands (`none` exactly when the true value is `≥ 2^64`). -/
namespace Driver.GasCalc
open Revm Revm.Hex
open Revm.Model.GasCalc (enabled)
open Revm.Spec.GasCalc (Fork)

def optStr : Option Nat → String | none => "none" | some n => s!"some {n}"
/-- the property's reading of a `Nat` specification value for an `Option<u64>` function -/
def fit (v : Nat) : Option Nat := if v < U64 then some v else none
/-- for u64-returning (saturating) functions: the true value, or `overflow` when it does not fit -/
def fitStr (v : Nat) : String := if v < U64 then toString v else "overflow"
/-- for `memory_gas` (u64 result, failure = saturation to `u64::MAX`): the true value clamped -/
def satStr (v : Nat) : String := toString (min v (U64 - 1))

def u64? (s : String) : Option Nat := match parseHex? s with
  | some v => if v < U64 then some v else none
  | none => none
def word? (s : String) : Option Nat := match parseHex? s with
  | some v => if v < W then some v else none
  | none => none
def optBool? (s : String) : Option (Option Bool) :=
  if s = "n" then some none else (parseBool? s).map some
/-- `<SpecName> <id>` must denote the same fork in the Spec's table -/
def fork? (name id : String) : Option Fork :=
  match Fork.ofName name, id.toNat? with
  | some f, some i => if f.id = i then some f else none
  | _, _ => none
def acl? (s : String) : Option (List Nat) :=
  if s = "-" then some [] else
  (s.splitOn ",").foldr (fun t acc => match t.toNat?, acc with
    | some k, some l => if k ≤ 4096 then some (k :: l) else none
    | _, _ => none) (some [])

def both (m s : String) : String := s!"{m} | spec={s}"

def resizeAllowed (cur newSize limit : Nat) : Bool :=
  cur ≤ 2^16 && (newSize ≤ 2^24 || limit < 2^20)

def synthInput (z nz : Nat) : List Nat :=
  List.replicate z 0 ++ (List.range nz).map (fun i => i % 255 + 1)

def txStr (r : Option (Nat × Nat)) : String := match r with
  | some (i, f) => s!"init={i} floor={f}"
  | none => "panic"

def handle (toks : List String) : String :=
  open Revm.Model.GasCalc in
  match toks with
  | ["const", name] => (match constByName name with
      | some v => toString v
      | none => "bad-op")
  | ["num_words", l] => (match u64? l with
      | some l => both (toString (numWords l)) (toString (Spec.GasCalc.ceil32 l))
      | none => "bad-op")
  | ["cost_per_word", l, m] => (match u64? l, u64? m with
      | some l, some m => both (optStr (costPerWord l m)) (optStr (fit (Spec.GasCalc.wordCost l m)))
      | _, _ => "bad-op")
  | ["verylowcopy_cost", l] => (match u64? l with
      | some l => both (optStr (verylowcopyCost l)) (optStr (fit (Spec.GasCalc.copyCost l)))
      | none => "bad-op")
  | ["keccak256_cost", l] => (match u64? l with
      | some l => both (optStr (keccak256Cost l)) (optStr (fit (Spec.GasCalc.keccak256Cost l)))
      | none => "bad-op")
  | ["create2_cost", l] => (match u64? l with
      | some l => both (optStr (create2Cost l)) (optStr (fit (Spec.GasCalc.create2Cost l)))
      | none => "bad-op")
  | ["initcode_cost", l] => (match u64? l with
      | some l => both (match initcodeCost l with | some v => toString v | none => "panic")
                       (fitStr (Spec.GasCalc.initcodeCost l))
      | none => "bad-op")
  | ["log_cost", n, l] => (match n.toNat?, u64? l with
      | some n, some l => if n < 256 then both (optStr (logCost n l)) (optStr (fit (Spec.GasCalc.logCost n l))) else "bad-op"
      | _, _ => "bad-op")
  | ["extcodecopy_cost", sn, si, l, c] => (match fork? sn si, u64? l, parseBool? c with
      | some f, some l, some c => both (optStr (extcodecopyCost f.id l c)) (optStr (fit (Spec.GasCalc.extcodecopyCost f l c)))
      | _, _, _ => "bad-op")
  | ["exp_cost", sn, si, p] => (match fork? sn si, word? p with
      | some f, some p => both (optStr (expCost f.id p)) (optStr (fit (Spec.GasCalc.expCost f p)))
      | _, _ => "bad-op")
  | ["sload_cost", sn, si, c] => (match fork? sn si, parseBool? c with
      | some f, some c => both (toString (sloadCost f.id c)) (toString (Spec.GasCalc.sloadCost f c))
      | _, _ => "bad-op")
  | ["sstore_cost", sn, si, o, p, n, g, c] => (match fork? sn si, word? o, word? p, word? n, u64? g, parseBool? c with
      | some f, some o, some p, some n, some g, some c =>
        both (optStr (sstoreCost f.id o p n g c)) (optStr (Spec.GasCalc.sstoreCost f (Spec.GasCalc.classify o p n) g c))
      | _, _, _, _, _, _ => "bad-op")
  | ["sstore_refund", sn, si, o, p, n] => (match fork? sn si, word? o, word? p, word? n with
      | some f, some o, some p, some n =>
        both (toString (sstoreRefund f.id o p n)) (toString (Spec.GasCalc.sstoreRefund f (Spec.GasCalc.classify o p n)))
      | _, _, _, _ => "bad-op")
  | ["selfdestruct_cost", sn, si, hv, te, pd, c] => (match fork? sn si, parseBool? hv, parseBool? te, parseBool? pd, parseBool? c with
      | some f, some hv, some te, some _, some c =>
        both (toString (selfdestructCost f.id hv te c)) (toString (Spec.GasCalc.selfdestructCost f hv te c))
      | _, _, _, _, _ => "bad-op")
  | ["call_cost", sn, si, tv, c, d, e] => (match fork? sn si, parseBool? tv, parseBool? c, optBool? d, parseBool? e with
      | some f, some tv, some c, some d, some e =>
        both (toString (callCost f.id tv c d e)) (toString (Spec.GasCalc.callCost f tv c d e))
      | _, _, _, _, _ => "bad-op")
  | ["warm_cold_cost", c] => (match parseBool? c with
      | some c => both (toString (warmColdCost c)) (toString (Spec.GasCalc.accountAccess .berlin 0 c))
      | none => "bad-op")
  | ["warm_cold_cost_with_delegation", c, d] => (match parseBool? c, optBool? d with
      | some c, some d => both (toString (warmColdCostWithDelegation c d)) (toString (Spec.GasCalc.callCost .berlin false c d false))
      | _, _ => "bad-op")
  | ["memory_gas", w] => (match u64? w with
      | some w => both (toString (memoryGas w)) (satStr (Spec.GasCalc.memCost w))
      | none => "bad-op")
  | ["memory_gas_for_len", l] => (match u64? l with
      | some l => both (toString (memoryGasForLen l)) (satStr (Spec.GasCalc.memCost (Spec.GasCalc.ceil32 l)))
      | none => "bad-op")
  | ["resize_memory", cur, lim, ns] => (match u64? cur, u64? lim, u64? ns with
      | some cur, some lim, some ns =>
        if !resizeAllowed cur ns lim then "bad-op" else
        let r := resizeMemory cur lim ns
        let m := s!"ok={boolStr r.1} rem={r.2.1} len={r.2.2}"
        -- Spec column only for a genuine expansion (the code is only reached with new > current)
        if cur < ns then
          let c := Spec.GasCalc.memExpansion cur ns
          both m (if c ≤ lim then s!"ok=1 rem={lim - c} len={32 * Spec.GasCalc.ceil32 ns}" else s!"ok=0 rem={lim} len={cur}")
        else m
      | _, _, _ => "bad-op")
  | ["resize_macro", cur, lim, off, len] => (match u64? cur, u64? lim, u64? off, u64? len with
      | some cur, some lim, some off, some len =>
        if !resizeAllowed cur (U64ops.saturatingAdd off len) lim then "bad-op" else
        let m := match resizeMemoryMacro cur lim off len with
          | some (rem, l) => s!"ok rem={rem} len={l}"
          | none => s!"oog rem={lim} len={cur}"
        let ns := off + len
        let s := if ns ≤ cur then s!"ok rem={lim} len={cur}" else
          let c := Spec.GasCalc.memExpansion cur ns
          if c ≤ lim then s!"ok rem={lim - c} len={32 * Spec.GasCalc.ceil32 ns}" else s!"oog rem={lim} len={cur}"
        both m s
      | _, _, _, _ => "bad-op")
  | ["tokens", ist, bs] => (match parseBool? ist, parseBytes? bs with
      | some ist, some bs => both (toString (getTokensInCalldata bs ist))
          (toString (Spec.GasCalc.zeroBytes bs + (if ist then 4 else 17) * Spec.GasCalc.nonZeroBytes bs))
      | _, _ => "bad-op")
  | ["floor_cost", t] => (match u64? t with
      | some t => both (toString (calcTxFloorCost t)) (fitStr (21000 + 10 * t))
      | none => "bad-op")
  | ["txgas", sn, si, cr, au, acl, bs] => (match fork? sn si, parseBool? cr, u64? au, acl? acl, parseBytes? bs with
      | some f, some cr, some au, some acl, some bs =>
        both (txStr (calculateInitialTxGas f.id bs cr acl au))
             s!"init={fitStr (Spec.GasCalc.intrinsicGas f bs cr acl au)} floor={fitStr (Spec.GasCalc.floorGas f bs)}"
      | _, _, _, _, _ => "bad-op")
  | ["txgasn", sn, si, cr, au, acl, z, nz] => (match fork? sn si, parseBool? cr, u64? au, acl? acl, u64? z, u64? nz with
      | some f, some cr, some au, some acl, some z, some nz =>
        if z > 2^21 ∨ nz > 2^21 then "bad-op" else
        let bs := synthInput z nz
        both (txStr (calculateInitialTxGas f.id bs cr acl au))
             s!"init={fitStr (Spec.GasCalc.intrinsicGas f bs cr acl au)} floor={fitStr (Spec.GasCalc.floorGas f bs)}"
      | _, _, _, _, _, _ => "bad-op")
  | ["txvalidate", sn, si, cr, na, acl, lim, bs] => (match fork? sn si, parseBool? cr, na.toNat?, acl? acl, u64? lim, parseBytes? bs with
      | some f, some cr, some na, some acl, some lim, some bs =>
        if na > 10000 then "bad-op" else
        let m := match validateInitialTxGas f.id bs cr acl na lim with
          | .ok i fl => s!"ok init={i} floor={fl}"
          | .callGasCostMoreThanGasLimit => "err CallGasCostMoreThanGasLimit"
          | .gasFloorMoreThanGasLimit => "err GasFloorMoreThanGasLimit"
          | .panic => "panic"
        let ig := Spec.GasCalc.intrinsicGas f bs cr acl na
        let fg := Spec.GasCalc.floorGas f bs
        let s := if ig > lim then "err CallGasCostMoreThanGasLimit"
          else if fg > lim then "err GasFloorMoreThanGasLimit" else s!"ok init={ig} floor={fg}"
        both m s
      | _, _, _, _, _, _ => "bad-op")
  | _ => "bad-op"

end Driver.GasCalc
