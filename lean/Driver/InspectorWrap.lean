import Revm.Util.Hex
import Revm.Model.InspectorWrap
/-! Line-protocol driver of component `inspwrap` (C28). Request / reply formats: see `harness/src/c28.rs`.

The abstract model is instantiated at a small concrete machine signature `T0` (stack = list of words,
memory = list of bytes of the current context) so that the transcriptions of `insert_*_outcome`,
`last_frame_return`, the `*_end` callbacks of the three inspectors and the refund tail can be executed and
compared with the real functions.

`inspwrap tx …`: the four-way comparison is `same` by theorem (`Props.C28`); from the recorded first-frame
outcome (`rec=`) the driver additionally predicts `gas_used` / `gas_refunded` by running
`GasInspector::call_end`'s transformation, `last_frame_return`, `refund` and the EIP-7623 floor on it. -/
namespace Driver.InspectorWrap
open Revm Revm.Hex Revm.Model.InspectorWrap

structure Rest0 where
  stack : List Nat
  returnData : List Nat
  isEof : Bool

structure Env0 where
  depth : Nat
  txGasLimit : Nat

def T0 : Ty :=
  { E := Env0, Rest := Rest0, Mem := List Nat, CallIn := Unit, CreateIn := Unit, EofIn := Unit,
    FrameData := Unit, Err := Unit, Log := Unit, SD := Unit }

def ops0 : EnvOps T0 :=
  { logs := fun _ => [], journalLastLen := fun _ => 0, sdInfo := fun _ _ _ => (),
    depth := fun (e : Env0) => e.depth, txGasLimit := fun (e : Env0) => e.txGasLimit }

def io0 : InterpOps T0 where
  push st x :=
    let r : Rest0 := st.rest
    if r.stack.length < 1024 then { st with rest := ({ r with stack := x :: r.stack } : Rest0) }
    else { st with instructionResult := .StackOverflow }
  setReturnData st d :=
    let r : Rest0 := st.rest
    { st with rest := ({ r with returnData := d } : Rest0) }
  isEof st := (st.rest : Rest0).isEof
  memSet m off data :=
    let m : List Nat := m
    if data.isEmpty then m else m.take off ++ data ++ m.drop (off + data.length)

def parseU64? (s : String) : Option Nat :=
  match parseHex? s with
  | some n => if n < U64 then some n else none
  | none => none

def parseI64? (s : String) : Option Int :=
  let (neg, ds) : Bool × List Char := match s.toList with
    | '-' :: r => (true, r)
    | r => (false, r)
  if ds.isEmpty then none else
  match ds.foldl (fun acc c => match acc with
      | some a => if '0' ≤ c ∧ c ≤ '9' then some (a * 10 + (c.toNat - '0'.toNat)) else none
      | none => none) (some 0) with
  | some n =>
    let v : Int := if neg then -(n : Int) else (n : Int)
    if Model.Gas.I64MIN ≤ v ∧ v ≤ Model.Gas.I64MAX then some v else none
  | none => none

/-- `mk_gas` of the harness: `Gas::new(l)`, `record_cost(l - r)`, `record_refund(f)`; needs `r ≤ l` -/
def mkGas? (l r : Nat) (f : Int) : Option Gas :=
  if r ≤ l then some { limit := l, remaining := r, refunded := f } else none

def gasStr (g : Gas) : String := s!"l={toHex g.limit} r={toHex g.remaining} f={g.refunded}"

def kind? (s : String) : Option Kind :=
  if s = "call" then some .call else if s = "create" then some .create
  else if s = "eofcreate" then some .eofcreate else none

def frameResult (k : Kind) (r : InterpreterResult) : FrameResult :=
  match k with
  | .call => .call { result := r, memoryOffset := (0, 0) }
  | .create => .create { result := r, address := none }
  | .eofcreate => .eofcreate { result := r, address := none }

/-- the `*_end` callback of `obs` for the given kind, on a context at `depth` -/
def endWith {S : Type} (obs : Observer T0 S) (s : S) (k : Kind) (r : InterpreterResult) (depth : Nat) :
    InterpreterResult :=
  let e : Env0 := { depth := depth, txGasLimit := U64 - 1 }
  match k with
  | .call => (obs.callEnd s e () { result := r, memoryOffset := (0, 0) }).2.2.result
  | .create => (obs.createEnd s e () { result := r, address := none }).2.2.result
  | .eofcreate => (obs.eofcreateEnd s e () { result := r, address := none }).2.2.result

def handleCls : List String → String
  | [n] => match IR.ofName? n with
    | some r => s!"ok={boolStr r.isOk} revert={boolStr r.isRevert} error={boolStr r.isError}"
    | none => "bad-op"
  | _ => "bad-op"

def handleEnd : List String → String
  | [insp, k, n, l, r, f, d] =>
    match kind? k, IR.ofName? n, parseU64? l, parseU64? r, parseI64? f, parseU64? d with
    | some k, some ir, some l, some r, some f, some d =>
      match mkGas? l r f with
      | none => "bad-op"
      | some g =>
        if d > 1 then "bad-op" else
        let res : InterpreterResult := { result := ir, output := [0xab], gas := g }
        let out : Option InterpreterResult :=
          if insp = "noop" then some (endWith (noop T0) () k res d)
          else if insp = "gas" then some (endWith (gasInspector T0) GasInsp.default k res d)
          else if insp = "tracer" then some (endWith (tracer3155 T0 ops0) Tracer.new k res d)
          else none
        match out with
        | some o => s!"{o.result.name} {gasStr o.gas} out={bytesToHex o.output}"
        | none => "bad-op"
    | _, _, _, _, _, _ => "bad-op"
  | _ => "bad-op"

def handleLfr : List String → String
  | [k, n, l, r, f, tg] =>
    match kind? k, IR.ofName? n, parseU64? l, parseU64? r, parseI64? f, parseU64? tg with
    | some k, some ir, some l, some r, some f, some tg =>
      match mkGas? l r f with
      | none => "bad-op"
      | some g =>
        let fr := lastFrameReturn tg (frameResult k { result := ir, output := [], gas := g })
        s!"{fr.interpreterResult.result.name} {gasStr fr.interpreterResult.gas}"
    | _, _, _, _, _, _ => "bad-op"
  | _ => "bad-op"

def handleLfrOp : List String → String
  | [k, n, l, r, f, tg, dep, sys, reg] =>
    match kind? k, IR.ofName? n, parseU64? l, parseU64? r, parseI64? f, parseU64? tg with
    | some k, some ir, some l, some r, some f, some tg =>
      match mkGas? l r f with
      | none => "bad-op"
      | some g =>
        let sysv : Option Bool := if sys = "-" then none else if sys = "1" then some true else some false
        let fr := lastFrameReturnOp tg (dep == "1") sysv (reg == "1")
          (frameResult k { result := ir, output := [], gas := g })
        s!"{fr.interpreterResult.result.name} {gasStr fr.interpreterResult.gas}"
    | _, _, _, _, _, _ => "bad-op"
  | _ => "bad-op"

/-- the interpreter the harness prepares: `stack` items `7, 8, …` (top = `stack + 6`) -/
def mkInterp (pg : Gas) (eof : Bool) (stack : Nat) (mem : List Nat) : IState T0 :=
  { ip := 0, instructionResult := .CallOrCreate, gas := pg, mem := mem, nextAction := .none,
    rest := ({ stack := (List.range stack).reverse.map (· + 7), returnData := [], isEof := eof } : Rest0) }

def interpStr (st : IState T0) : String :=
  let r : Rest0 := st.rest
  let top := match r.stack with | [] => "-" | x :: _ => toHex x
  s!"res={st.instructionResult.name} gas={toHex st.gas.limit},{toHex st.gas.remaining},{st.gas.refunded} n={r.stack.length} top={top} rd={bytesToHex r.returnData}"

def handleIco : List String → String
  | [n, cl, cr, cf, pl, pr, pf, eof, stack, memlen, start, stop, output] =>
    match IR.ofName? n, parseU64? cl, parseU64? cr, parseI64? cf, parseU64? pl, parseU64? pr, parseI64? pf with
    | some ir, some cl, some cr, some cf, some pl, some pr, some pf =>
      match parseBool? eof, parseU64? stack, parseU64? memlen, parseU64? start, parseU64? stop, parseBytes? output with
      | some eof, some stack, some memlen, some start, some stop, some output =>
        if memlen > 4096 ∨ start > stop ∨ stop > memlen ∨ output.length > 4096 ∨ stack > 1024 then "bad-op" else
        match mkGas? cl cr cf, mkGas? pl pr pf with
        | some cg, some pg =>
          let mem : List Nat := List.replicate memlen 0xaa
          let st := mkInterp pg eof stack []
          match insertCallOutcome io0 st mem
              { result := { result := ir, output := output, gas := cg }, memoryOffset := (start, stop) } with
          | none => "panic"
          | some (st, mem) => s!"{interpStr st} mem={bytesToHex mem}"
        | _, _ => "bad-op"
      | _, _, _, _, _, _ => "bad-op"
    | _, _, _, _, _, _, _ => "bad-op"
  | _ => "bad-op"

def handleIcr (eofc : Bool) : List String → String
  | [n, cl, cr, cf, pl, pr, pf, stack, addr, output] =>
    match IR.ofName? n, parseU64? cl, parseU64? cr, parseI64? cf, parseU64? pl, parseU64? pr, parseI64? pf with
    | some ir, some cl, some cr, some cf, some pl, some pr, some pf =>
      match parseU64? stack, parseBytes? output with
      | some stack, some output =>
        let addr? : Option (Option Nat) := if addr = "-" then some none else (parseU64? addr).map some
        match addr?, mkGas? cl cr cf, mkGas? pl pr pf with
        | some a, some cg, some pg =>
          if stack > 1024 then "bad-op" else
          let st := mkInterp pg false stack []
          let o : CreateOutcome := { result := { result := ir, output := output, gas := cg }, address := a }
          match (if eofc then insertEofcreateOutcome io0 st o else insertCreateOutcome io0 st o) with
          | none => "panic"
          | some st => interpStr st
        | _, _, _ => "bad-op"
      | _, _ => "bad-op"
    | _, _, _, _, _, _, _ => "bad-op"
  | _ => "bad-op"

/-- GasInspector end callback (if `insp`) → last_frame_return → refund → floor → (gas_used, gas_refunded) -/
def pipe (insp : Bool) (london : Bool) (txgas : Nat) (k : Kind) (ir : IR) (g : Gas) (r77 : Int) (floor : Nat) :
    Nat × Nat :=
  let r0 : InterpreterResult := { result := ir, output := [], gas := g }
  let r1 := if insp then endWith (gasInspector T0) GasInsp.default k r0 0 else r0
  let fr := lastFrameReturn txgas (frameResult k r1)
  let g2 := refundAndFloor london r77 floor fr.interpreterResult.gas
  (finalGasUsed g2, Model.Gas.i64AsU64 g2.refunded)

def handlePipe : List String → String
  | [london, tg, k, n, l, r, f, r77, floor] =>
    match parseBool? london, parseU64? tg, kind? k, IR.ofName? n, parseU64? l, parseU64? r with
    | some london, some tg, some k, some ir, some l, some r =>
      match parseI64? f, parseI64? r77, parseU64? floor with
      | some f, some r77, some floor =>
        if l > tg ∨ r77 < 0 then "bad-op" else
        match mkGas? l r f with
        | none => "bad-op"
        | some g =>
          let a := pipe true london tg k ir g r77 floor
          let b := pipe false london tg k ir g r77 floor
          s!"used={toHex a.1} refunded={toHex a.2} | spec=used={toHex b.1} refunded={toHex b.2}"
      | _, _, _ => "bad-op"
    | _, _, _, _, _, _ => "bad-op"
  | _ => "bad-op"

def txKeys : List String :=
  ["spec", "ty", "gas", "price", "tip", "basefee", "value", "to", "data", "acl", "auth", "col", "tr", "a", "b", "c", "rec"]

def keyOf (tok : String) : Option (String × String) :=
  match tok.splitOn "=" with
  | [k, v] => some (k, v)
  | _ => none

/-- prediction from `rec=<kind>,<IR>,<l>,<r>,<f>,<refund7702>,<floor>,<txgas>,<london>` -/
def predict (rec : String) : Option String :=
  match rec.splitOn "," with
  | [k, n, l, r, f, r77, floor, tg, london] =>
    match kind? k, IR.ofName? n, parseU64? l, parseU64? r, parseI64? f, parseI64? r77 with
    | some k, some ir, some l, some r, some f, some r77 =>
      match parseU64? floor, parseU64? tg, parseBool? london with
      | some floor, some tg, some london =>
        match mkGas? l r f with
        | none => none
        | some g =>
          let a := pipe true london tg k ir g r77 floor
          let b := pipe false london tg k ir g r77 floor
          let rf (x : Nat) : String := if ir.isOk then toHex x else "-"
          some s!"same used={toHex a.1} refunded={rf a.2} | spec=same used={toHex b.1} refunded={rf b.2}"
      | _, _, _ => none
    | _, _, _, _, _, _ => none
  | _ => none

def handleTx (toks : List String) : String :=
  match toks.mapM keyOf with
  | none => "bad-op"
  | some kvs =>
    if kvs.map (·.1) ≠ txKeys then "bad-op" else
    match kvs.getLast? with
    | some (_, rec) =>
      if rec = "-" then "same" else
      match predict rec with
      | some s => s
      | none => "bad-op"
    | none => "bad-op"

def handle : List String → String
  | "cls" :: r => handleCls r
  | "end" :: r => handleEnd r
  | "lfr" :: r => handleLfr r
  | "lfrop" :: r => handleLfrOp r
  | "ico" :: r => handleIco r
  | "icr" :: r => handleIcr false r
  | "ieo" :: r => handleIcr true r
  | "pipe" :: r => handlePipe r
  | "tx" :: r => handleTx r
  | _ => "bad-op"

end Driver.InspectorWrap
