import Revm.Spec.Activation
namespace Driver.Activation
open Revm.Spec.Activation
def b (x : Bool) : String := if x then "1" else "0"
/-- replies with the *Spec*'s answer (hand-written EIP tables) -/
def handle (toks : List String) : String :=
  match toks with
  | ["op", s, o] => match s.toNat?, o.toNat? with
    | some s, some o => if o < 256 then
        s!"undefined={b (undefinedIn s o)} tx_undefined={b (undefinedIn s o)} allgas=1" else "bad-op"
    | _, _ => "bad-op"
  | ["pre", s, a] => match s.toNat?, a.toNat? with
    | some s, some a =>
        s!"direct={b (isPrecompileIn s a)} handler={b (isPrecompileIn s a)} empty={b (!isPrecompileIn s a)}"
    | _, _ => "bad-op"
  -- one Evm reused across an in-place hardfork switch must behave like a fresh one (the activation
  -- tables are a function of the current hardfork only)
  | ["reusepre", sa, sb, a, _] => match sa.toNat?, sb.toNat?, a.toNat? with
    | some _, some _, some _ => "same=1"
    | _, _, _ => "bad-op"
  -- an Evm whose precompile set was extended by one custom address behaves like a plain one on every built-in address
  | ["extpre", s, a] => match s.toNat?, a.toNat? with
    | some _, some _ => "same=1"
    | _, _ => "bad-op"
  | ["reuseop", sa, sb, o, _] => match sa.toNat?, sb.toNat?, o.toNat? with
    | some _, some _, some o => if o < 256 then "same=1" else "bad-op"
    | _, _, _ => "bad-op"
  | _ => "bad-op"
end Driver.Activation
