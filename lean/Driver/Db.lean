import Revm.Util.Hex
import Revm.Model.Db
/-! Line protocol of component `db` (C20). A case is `begin db base|empty`, then lines:
`base-acct a bal nonce codehash code` / `base-slot a k v` / `base-code h bytes khash` / `base-bh n h`
(only while the top is the generated map), `wrap cache|state|wrapref|box|mutref|components`,
`q|r basic a` / `q|r storage a k` / `q|r code h` / `q|r bh n hint` / `q|r hs a` (`q` = `Database`,
`r` = `DatabaseRef`; `paths …` = the same read through every access path, see `pathAnswers`), and on a `CacheDB` top (or `&mut` of one for `commit`):
`ins-info a bal nonce codehash code khash`, `ins-slot a k v`, `rep-storage a k:v/k:v`, `load a`,
`commit chg chg …` with `chg = addr,flags,bal,nonce,codehash,code,khash,k:v/k:v`. -/
namespace Driver.Db
open Revm Revm.Hex Revm.Model.Db

structure St where
  db : Option Db := none
  accts : List (Nat × Info) := []
  slots : List ((Nat × Nat) × Nat) := []
  codes : List (Nat × Code) := []
  bhs : List (Nat × Nat) := []
  oracle : List (Nat × Nat) := []
  raw : Bool := false          -- top is still the generated map

def St.init : St := {}

def alook {α : Type} (l : List (Nat × α)) (k : Nat) : Option α :=
  match l with
  | [] => none
  | (k', v) :: r => if k = k' then some v else alook r k

def mkBase (s : St) : Base :=
  { basic := fun a => alook s.accts a,
    storage := fun a k => match s.slots.find? (fun e => e.1 == (a, k)) with | some e => e.2 | none => 0,
    code := fun h => match alook s.codes h with | some c => c | none => Code.empty,
    blockHash := fun n => match alook s.bhs n with | some h => h | none => 0,
    -- the generated database's `has_storage`: some listed slot of the address is non-zero
    hasStorage := fun a => s.slots.any (fun e => e.1.1 == a
      && (match s.slots.find? (fun e' => e'.1 == e.1) with | some e' => e'.2 != 0 | none => false)) }

def setOracle (k : Nat → Nat) : Db → Db
  | .base b => .base b
  | .empty _ => .empty k
  | .cache i c => .cache (setOracle k i) c
  | .state i s => .state (setOracle k i) s
  | .wrapRef i => .wrapRef (setOracle k i)
  | .fwd i => .fwd (setOracle k i)
  | .components i => .components (setOracle k i)

/-- which tops the harness can hand on as a `DatabaseRef` -/
def canRef : Db → Bool
  | .base _ => true | .empty _ => true | .cache _ _ => true | .components _ => true | _ => false

/-- which values the harness can borrow as a `DatabaseRef` for `r` / `paths`: as `canRef`, plus
`Box<CacheDB>` and the `CacheDB` behind a `&mut` -/
def refView : Db → Bool
  | .fwd (.cache _ _) => true
  | d => canRef d

def codeStr (c : Code) : String := bytesToHex c.bytes
def optCodeStr : Option Code → String | none => "none" | some c => codeStr c
def infoStr (i : Info) : String :=
  s!"{toHex i.balance} {toHex i.nonce} {toHex i.codeHash} {optCodeStr i.code}"
def replyStr : Reply → String
  | .info none => "none"
  | .info (some i) => s!"some {infoStr i}"
  | .word v => toHex v
  | .code c => codeStr c
  | .flag b => boolStr b
  | .panic => "panic"

def parseCode? (s kh : String) : Option (Option Code) :=
  if s = "none" then some none else
  match parseBytes? s, parseHex? kh with
  | some bs, some k => some (some ⟨bs, k⟩)
  | _, _ => none

def parseInfo? (bal nonce ch code kh : String) : Option Info :=
  match parseHex? bal, parseHex? nonce, parseHex? ch, parseCode? code kh with
  | some b, some n, some h, some c => some ⟨b, n, h, c⟩
  | _, _, _, _ => none

def parseSlots? (s : String) : Option (List (Nat × Nat)) :=
  if s = "-" then some [] else
  (s.splitOn "/").foldr (fun t acc => match acc, t.splitOn ":" with
    | some l, [k, v] => (match parseHex? k, parseHex? v with
      | some k, some v => some ((k, v) :: l) | _, _ => none)
    | _, _ => none) (some [])

def parseChange? (t : String) : Option Change :=
  match t.splitOn "," with
  | [a, fl, bal, nonce, ch, code, kh, sl] =>
    match parseHex? a, parseInfo? bal nonce ch code kh, parseSlots? sl with
    | some a, some i, some m =>
      some { addr := a, info := i, touched := fl.contains 't', selfdestructed := fl.contains 's',
             created := fl.contains 'c', storage := m }
    | _, _, _ => none
  | _ => none

def parseQuery? : List String → Option Query
  | ["basic", a] => (parseHex? a).map .basic
  | ["storage", a, k] => match parseHex? a, parseHex? k with | some a, some k => some (.storage a k) | _, _ => none
  | ["code", h] => (parseHex? h).map .code
  | ["bh", n, _] => (parseHex? n).map .blockHash
  | ["hs", a] => (parseHex? a).map .hasStorage
  | _ => none

/-- `paths`: the same read through every access path the harness builds around a borrowed
`DatabaseRef` of the current value `d` (which is not written) -/
def pathAnswers (d : Db) (q : Query) : List (String × Reply) :=
  let v := d.view.answer q
  let n1 := Db.cache d CacheDB.new
  let n2 := Db.cache n1 CacheDB.new
  let st0 := Db.state (.wrapRef d) StateDb.new
  let st := match q with | .storage a _ => (st0.query (.basic a)).1 | _ => st0
  [("ref", v), ("amp", v), ("ampamp", v), ("boxref", v), ("arc", v), ("rc", v),
   ("wrap", ((Db.wrapRef d).query q).2),
   ("wrapmut", ((Db.fwd (.wrapRef d)).query q).2),
   ("wrapbox", ((Db.fwd (.wrapRef d)).query q).2),
   ("nested", (n1.query q).2), ("nestedref", n1.view.answer q), ("nestedagain", ((n1.query q).1.query q).2),
   ("nested2", (n2.query q).2), ("nested2ref", n2.view.answer q),
   ("state", (st.query q).2),
   ("comp", ((Db.components (.wrapRef d)).query q).2), ("compref", (Db.components d).view.answer q)]

def stateStr : AccState → String
  | .notExisting => "notexisting" | .touched => "touched" | .storageCleared => "cleared" | .none => "none"

/-- ops on a `CacheDB` top -/
def cacheOp (i : Db) (c : CacheDB) : List String → Option (CacheDB × String)
  | ["ins-info", a, bal, nonce, ch, code, kh] =>
    match parseHex? a, parseInfo? bal nonce ch code kh with
    | some a, some info => some (c.insertAccountInfo a info, "ok")
    | _, _ => none
  | ["ins-slot", a, k, v] =>
    match parseHex? a, parseHex? k, parseHex? v with
    | some a, some k, some v => some (c.insertAccountStorage i.view.toData a k v, "ok")
    | _, _, _ => none
  | ["rep-storage", a, m] =>
    match parseHex? a, parseSlots? m with
    | some a, some m => some (c.replaceAccountStorage i.view.toData a m, "ok")
    | _, _ => none
  | ["load", a] =>
    match parseHex? a with
    | some a => let r := c.loadAccount i.view.toData a; some (r.1, s!"{stateStr r.2.state} {infoStr r.2.info}")
    | none => none
  | "commit" :: chs =>
    match chs.foldr (fun t acc => match acc, parseChange? t with
        | some l, some ch => some (ch :: l) | _, _ => none) (some []) with
    | some l => some (c.commit l, "ok")
    | none => none
  | _ => none

def oracleFn (o : List (Nat × Nat)) : Nat → Nat := fun n => match alook o n with | some h => h | none => 0

def handle (s : St) (toks : List String) : St × String :=
  match toks with
  | ["begin", "db", "base"] => let s' : St := { raw := true }; ({ s' with db := some (.base (mkBase s')) }, "ok")
  | ["begin", "db", "empty"] => ({ db := some (.empty (fun _ => 0)) }, "ok")
  | _ =>
  match s.db with
  | none => (s, "bad-op")
  | some db =>
    let rebase (s' : St) : St × String := ({ s' with db := some (.base (mkBase s')) }, "ok")
    match toks with
    | ["base-acct", a, bal, nonce, ch, code, kh] =>
      if !s.raw then (s, "bad-op") else
      (match parseHex? a, parseInfo? bal nonce ch code kh with
       | some a, some i => rebase { s with accts := (a, i) :: s.accts }
       | _, _ => (s, "bad-op"))
    | ["base-slot", a, k, v] =>
      if !s.raw then (s, "bad-op") else
      (match parseHex? a, parseHex? k, parseHex? v with
       | some a, some k, some v => rebase { s with slots := ((a, k), v) :: s.slots }
       | _, _, _ => (s, "bad-op"))
    | ["base-code", h, bytes, kh] =>
      if !s.raw then (s, "bad-op") else
      (match parseHex? h, parseBytes? bytes, parseHex? kh with
       | some h, some bs, some k => rebase { s with codes := (h, ⟨bs, k⟩) :: s.codes }
       | _, _, _ => (s, "bad-op"))
    | ["base-bh", n, h] =>
      if !s.raw then (s, "bad-op") else
      (match parseHex? n, parseHex? h with
       | some n, some h => rebase { s with bhs := (n, h) :: s.bhs }
       | _, _ => (s, "bad-op"))
    | ["wrap", layer] =>
      let ok (d : Db) : St × String := ({ s with db := some d, raw := false }, "ok")
      (match layer with
       | "cache" => if canRef db then ok (.cache db CacheDB.new) else (s, "bad-op")
       | "wrapref" => if canRef db then ok (.wrapRef db) else (s, "bad-op")
       | "state" => ok (.state db StateDb.new)
       | "box" => ok (.fwd db)
       | "mutref" => ok (.fwd db)
       | "components" => if s.raw then ok (.components db) else (s, "bad-op")
       | _ => (s, "bad-op"))
    | "q" :: rest =>
      (match parseQuery? rest with
       | none => (s, "bad-op")
       | some q =>
         let (s1, db1) := match rest with
           | ["bh", n, hint] => (match parseHex? n, parseHex? hint with
             | some n, some h => let o := (n, h) :: s.oracle; ({ s with oracle := o }, setOracle (oracleFn o) db)
             | _, _ => (s, db))
           | _ => (s, db)
         let r := db1.query q
         ({ s1 with db := some r.1 }, replyStr r.2))
    | "paths" :: rest =>
      if !refView db then (s, "bad-op") else
      (match parseQuery? rest with
       | none => (s, "bad-op")
       | some q =>
         let (s1, db1) := match rest with
           | ["bh", n, hint] => (match parseHex? n, parseHex? hint with
             | some n, some h => let o := (n, h) :: s.oracle; ({ s with oracle := o }, setOracle (oracleFn o) db)
             | _, _ => (s, db))
           | _ => (s, db)
         ({ s1 with db := some db1 },
          ";".intercalate ((pathAnswers db1 q).map (fun p => s!"{p.1}={replyStr p.2}"))))
    | "r" :: rest =>
      if !refView db then (s, "bad-op") else
      (match parseQuery? rest with
       | none => (s, "bad-op")
       | some q =>
         let (s1, db1) := match rest with
           | ["bh", n, hint] => (match parseHex? n, parseHex? hint with
             | some n, some h => let o := (n, h) :: s.oracle; ({ s with oracle := o }, setOracle (oracleFn o) db)
             | _, _ => (s, db))
           | _ => (s, db)
         ({ s1 with db := some db1 }, replyStr (db1.view.answer q)))
    | _ =>
      match db with
      | .cache i c =>
        (match cacheOp i c toks with
         | some (c', out) => ({ s with db := some (.cache i c') }, out)
         | none => (s, "bad-op"))
      | .fwd (.cache i c) =>
        (match toks with
         | "commit" :: _ =>
           (match cacheOp i c toks with
            | some (c', out) => ({ s with db := some (.fwd (.cache i c')) }, out)
            | none => (s, "bad-op"))
         | _ => (s, "bad-op"))
      | _ => (s, "bad-op")

end Driver.Db
