import Revm.Util.Hex
import Revm.Model.Jump
import Revm.Spec.Jump
/-! Line-protocol driver of component `jump` (C04).

* `jump table <once|twice|contract> <code>` → `valid=<ascending decimal positions, comma separated | ->`
  all positions `0 .. len+39` and the probes `len+33, len+34, 2^31, 2^32, 2^63, 2^64-1` for which
  `JumpTable::is_valid` (`contract`: `Contract::is_valid_jump`) holds; Spec column: `validDests code`.
* `jump pad <once|twice> <code>` → `len=<original_len> blen=<bytecode len> bits=<table bits> tail0=<0|1> orig=<0|1>`
* `jump exec <jump|jumpi> <push|pre> <gas> <body> <stack>` — `stack` = comma separated hex words, top first, or `-`.
  `pre`: program `[op] ++ body`, the words are put on the stack before running.
  `push`: program `PUSH32 w_k … PUSH32 w_1 op ++ body` (gas must cover the pushes, else `bad-op`).
  reply = state right after the JUMP/JUMPI instruction:
  `pc=<dec> g=<gas remaining> n=<stack len> final=<Stop|OutOfGas|?>` or `halt <Result> g=.. n=.. final=<Result>`;
  `final` is the frame's end result when it is determined by the next byte(s): STOP, or JUMPDEST then STOP. -/
namespace Driver.Jump
open Revm Revm.Hex Revm.Model.Jump

def natList (xs : List Nat) : String :=
  if xs.isEmpty then "-" else ",".intercalate (xs.map toString)

def probes (len : Nat) : List Nat := [len + 33, len + 34, 2^31, 2^32, 2^63, 2^64 - 1]

def mkBytecode (mode : String) (code : List Nat) : Option Bytecode :=
  match mode with
  | "once" => some (toAnalysed (.legacyRaw code))
  | "twice" => some (toAnalysed (toAnalysed (.legacyRaw code)))
  | "contract" => some (contractNew (.legacyRaw code))
  | _ => none

def isBytes (code : List Nat) : Bool := code.all (· < 256)

def table (mode codeHex : String) : String :=
  match parseBytes? codeHex with
  | none => "bad-op"
  | some code =>
    match mkBytecode mode code with
    | none => "bad-op"
    | some bc =>
      let pos := List.range (code.length + 40) ++ probes code.length
      let valid := pos.filter fun t =>
        if mode = "contract" then isValidJump bc t
        else match bc.legacyJumpTable with
          | some jt => isValid jt t
          | none => false
      s!"valid={natList valid} | spec=valid={natList (Spec.Jump.validDests code)}"

def padInfo (mode codeHex : String) : String :=
  match parseBytes? codeHex with
  | none => "bad-op"
  | some code =>
    match mkBytecode mode code with
    | some (.legacyAnalyzed a) =>
      let tail0 := (a.bytecode.drop a.originalLen).all (· == 0)
      let orig := a.bytecode.take a.originalLen == code
      s!"len={a.originalLen} blen={a.bytecode.length} bits={a.jumpTable.length} tail0={boolStr tail0} orig={boolStr orig}"
    | _ => "bad-op"

def parseWords (s : String) : Option (List Nat) :=
  if s = "-" then some [] else
  (s.splitOn ",").foldr (fun tok acc => match parseHex? tok, acc with
    | some w, some l => if w < W then some (w :: l) else none
    | _, _ => none) (some [])

/-- big-endian 32 bytes of a word -/
def be32 (w : Nat) : List Nat := (List.range 32).map fun i => w / 256 ^ (31 - i) % 256

/-- `PUSH32 w_k … PUSH32 w_1` for a stack `w_1 :: … :: w_k` (top first) -/
def pushHeader (ws : List Nat) : List Nat := ws.reverse.flatMap fun w => 0x7f :: be32 w

def finalOf (padded : List Nat) (s : Interp) : String :=
  if s.result ≠ .Continue then s.result.name else
  match padded[s.pc]? with
  | some 0 => "Stop"
  | some 0x5b =>
    if s.gas = 0 then "OutOfGas"
    else if padded[s.pc + 1]? = some 0 then "Stop" else "?"
  | some _ => "?"
  | none => "oob"

def fmt (padded : List Nat) (s : Interp) : String :=
  let head := if s.result = .Continue then s!"pc={s.pc}" else s!"halt {s.result.name}"
  s!"{head} g={s.gas} n={s.stack.length} final={finalOf padded s}"

def exec (op mode gasS bodyHex stackS : String) : String :=
  match parseBytes? bodyHex, parseWords stackS, gasS.toNat? with
  | some body, some ws, some gas =>
    let opc? : Option Nat := if op = "jump" then some 0x56 else if op = "jumpi" then some 0x57 else none
    match opc? with
    | none => "bad-op"
    | some opc =>
      let hdr? : Option (List Nat × Nat) :=
        if mode = "pre" then some ([opc], gas)
        else if mode = "push" then
          (if 3 * ws.length ≤ gas ∧ ws.length ≤ 3 then some (pushHeader ws ++ [opc], gas - 3 * ws.length) else none)
        else none
      match hdr? with
      | none => "bad-op"
      | some (hdr, gas0) =>
        let prog := hdr ++ body
        let bc := contractNew (.legacyRaw prog)
        let s0 : Interp := ⟨bc, hdr.length, ws, gas0, .Continue⟩
        let s1 := if opc = 0x56 then jump s0 else jumpi s0
        let padded := pad prog
        let m := fmt padded s1
        -- Spec column: only where gas and stack suffice (the decision is then the property's)
        let cost := if opc = 0x56 then MID else HIGH
        let need := if opc = 0x56 then 1 else 2
        if cost ≤ gas0 ∧ need ≤ ws.length then
          let target := ws.headD 0
          let taken := opc = 0x56 ∨ (ws.drop 1).headD 0 ≠ 0
          let base : Interp := { s0 with gas := gas0 - cost, stack := ws.drop need }
          let sp : Interp :=
            if taken then
              (if Spec.Jump.validDestB prog target then { base with pc := target }
               else { base with result := .InvalidJump })
            else base
          s!"{m} | spec={fmt padded sp}"
        else m
  | _, _, _ => "bad-op"

def handle (toks : List String) : String :=
  match toks with
  | ["table", mode, code] => table mode code
  | ["pad", mode, code] => padInfo mode code
  | ["exec", op, mode, gas, body, stack] => exec op mode gas body stack
  | _ => "bad-op"

end Driver.Jump
