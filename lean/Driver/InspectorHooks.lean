import Revm.Util.Hex
import Revm.Model.InspectorHooks
import Revm.Spec.InspectorHooks
import Revm.Model.SelfdestructNotify
/-! Driver of component `hooks` (C29 / C30).

`begin hooks <spec> <mode> <inspector seed> <accounts>` resets the three input stacks (a new `Evm`);
`hk tx <to|create> <value> <gas> <data> <dbfail> | <script>` runs `Model.InspectorHooks.runTx` on the
script (the oracle recorded by the harness' probes below the inspector's wrappers) with the stacks left
by the previous transactions of the block, and prints the callback word the model predicts, the verdicts
of the property checkers on it, and for every executed SELFDESTRUCT what `Model.SelfdestructNotify.wrapped`
predicts (result, gas, balances, the journal entries `Model.Journal.selfdestruct` appends; its callback goes
into the word). The Spec column is the same line with
the word of the one-stack reference machine. -/
namespace Driver.InspectorHooks
open Revm Revm.Hex Revm.Model.InspectorHooks Revm.Spec.InspectorHooks
open Revm.Model.Journal Revm.Model.SelfdestructNotify

structure St where
  spec : Nat := 0
  mode : String := "obs"
  stk : Stacks := {}
  dead : Bool := true

def St.init : St := {}

def kindOf? (c : Char) : Option Kind :=
  if c = 'c' then some .call else if c = 'r' then some .create else if c = 'e' then some .eofcreate else none
def kindCh : Kind → Char
  | .call => 'c'
  | .create => 'r'
  | .eofcreate => 'e'

/-! ### SELFDESTRUCT tokens -/

structure SdOut where
  note : Option (Nat × Nat × Nat)
  text : String
  expect : Option (Nat × Nat × Nat)

def mkInfo (bal nonce : Nat) (codeEmpty : Bool) : Info :=
  { balance := bal, nonce := nonce, codeHash := if codeEmpty then KECCAK_EMPTY else 1,
    code := some (if codeEmpty then KECCAK_EMPTY else 1) }

def parseA (s : String) : Option Acct :=
  match s.splitOn "/" with
  | [bal, nonce, ce, cr, sd, to, ne, co] => do
    some { info := mkInfo (← parseHex? bal) (← parseHex? nonce) (← parseBool? ce), storage := fun _ => none,
           created := ← parseBool? cr, selfdestructed := ← parseBool? sd, touched := ← parseBool? to,
           notExisting := ← parseBool? ne, cold := ← parseBool? co }
  | _ => none

/-- target: in the journal (`some acc`), or not (`none`) with the database's answer and the preloaded bit -/
def parseT (s : String) : Option (Option Acct × Option Info × Bool) :=
  if s.startsWith "p" then
    match (s.drop 1).toString.splitOn "/" with
    | [bal, nonce, ce, to, co, ne] => do
      some (some { info := mkInfo (← parseHex? bal) (← parseHex? nonce) (← parseBool? ce), storage := fun _ => none,
                   touched := ← parseBool? to, cold := ← parseBool? co, notExisting := ← parseBool? ne }, none, false)
    | _ => none
  else if s.startsWith "n" then
    match (s.drop 1).toString.splitOn "/" with
    | [pre, "N"] => do some (none, none, ← parseBool? pre)
    | [pre, ib, nonce, ce] =>
      if ib.startsWith "I" then do
        some (none, some (mkInfo (← parseHex? (ib.drop 1).toString) (← parseHex? nonce) (← parseBool? ce)), ← parseBool? pre)
      else none
    | _ => none
  else none

def resName : IRes → String
  | .selfDestruct => "sd"
  | .stateChangeDuringStaticCall => "static"
  | .stackUnderflow => "uf"
  | .outOfGas => "oog"
  | .fatalExternalError => "fatal"
  | _ => "other"

/-- journal entries as the harness prints them (`entry_text`) -/
def entryText : Entry → String
  | .accountWarmed a => s!"W{toHex a}"
  | .accountTouched a => s!"T{toHex a}"
  | .accountDestroyed a t wd had => s!"D{toHex a}.{toHex t}.{boolStr wd}.{toHex had}"
  | .balanceTransfer f t v => s!"B{toHex f}.{toHex t}.{toHex v}"
  | _ => "?"

/-- the entries appended to the innermost level since it had `prevLen` entries, oldest first -/
def newEntriesText (prevLen : Nat) (s : JState) : String :=
  match s.journal with
  | [] => "-"
  | l :: _ =>
    match (l.take (l.length - prevLen)).reverse with
    | [] => "-"
    | es => "+".intercalate (es.map entryText)

def parseNote (s : String) : Option (Option (Nat × Nat × Nat)) :=
  if s = "-" then some none else
  match s.splitOn "/" with
  | [a, t, v] => do some (some ((← parseHex? a), (← parseHex? t), (← parseHex? v)))
  | _ => none

/-- `D<static>:<top|->:<gas>:<a>:<a state>:<t state>:<prevLen>:<newest note|->:<dbfail>` -/
def runSd (spec : Nat) (tok : String) : Option SdOut :=
  match tok.splitOn ":" with
  | [st, top, gas, a, astate, tstate, prevLen, lastNote, dbf] => do
    let isStatic ← parseBool? st
    let top ← (if top = "-" then some none else (parseHex? top).map some)
    let gas ← parseHex? gas
    let a ← parseHex? a
    let accA ← parseA astate
    let prevLen ← parseHex? prevLen
    let lastNote ← parseNote lastNote
    let dbFails ← parseBool? dbf
    let t := top.map (· % ADDR)
    let (tAcc, tDb, tPre) ← (if tstate = "-" ∨ tstate = "=" then some (none, none, false) else parseT tstate)
    let lvl : List Entry :=
      match prevLen with
      | 0 => []
      | n + 1 => (match lastNote with
          | some (x, y, v) => Entry.balanceTransfer x y v
          | none => Entry.accountWarmed 0) :: List.replicate n (Entry.accountWarmed 0)
    let s : JState :=
      { state := fun x => if x = a then some accA else if some x = t then tAcc else none,
        transient := fun _ _ => none, logs := [], depth := 1, journal := [lvl], spec := spec,
        preloaded := fun x => decide (some x = t) && tPre }
    let db : Db := { basic := fun x => if some x = t then tDb else none, storage := fun _ _ => 0, delegate := fun _ => none }
    let it : Interp := { isStatic := isStatic, stack := top.toList, gas := gas, contract := a }
    match wrapped db dbFails {} it s with
    | none => none
    | some (it', s', note) =>
      let abal' := balanceOf s' a
      let tbal := match t with
        | none => "-"
        | some t => match s'.state t with
          | some acc => toHex acc.info.balance
          | none => "-"
      let expect := if it'.result = .selfDestruct then
          some (a, t.getD 0, accA.info.balance - abal') else none
      some { note := note, text := s!"{resName it'.result}/{toHex it'.gas}/{toHex abal'}/{tbal}/{newEntriesText prevLen s'}", expect := expect }
  | _ => none

/-! ### script -/

structure Parsed where
  first : Spawn
  turns : List Turn
  sds : List SdOut

def parseSpawn (body : String) : Option (Spawn × Bool) :=
  match body.splitOn ":" with
  | [k, i, insp, h, ie] => do
    let k ← (match k.toList with | [c] => kindOf? c | _ => none)
    let i ← parseHex? i
    let insp ← (if insp = "-" then some none else (parseHex? insp).map some)
    let ie ← parseBool? ie
    let h ← (if h = "f" then some HandlerRes.frame
      else if h = "x" then some HandlerRes.err
      else if h.startsWith "o" then (parseHex? (h.drop 1).toString).map HandlerRes.result
      else if h = "-" ∧ insp.isSome then some HandlerRes.frame
      else none)
    some ({ k := k, i := i, insp := insp, h := h }, ie)
  | _ => none

def haltInsn (op : Nat) : Insn :=
  if 0xa0 ≤ op ∧ op ≤ 0xa4 then .logOp 0 []
  else if op = 0xff then .sdOp none
  else .plain

/-- tokens after the first spawn; `ins` (reversed) and `halt` belong to the turn being collected -/
def parseTurns (spec : Nat) : List String → List Insn → Option Insn → List Turn → List SdOut → Option (List Turn × List SdOut)
  | [], ins, halt, acc, sds => if ins.isEmpty ∧ halt.isNone then some (acc.reverse, sds.reverse) else none
  | tok :: rest, ins, halt, acc, sds =>
    let body := (tok.drop 1).toString
    if tok.startsWith "P" then
      match parseHex? body, halt with
      | some n, none => parseTurns spec rest (List.replicate n Insn.plain ++ ins) halt acc sds
      | _, _ => none
    else if tok.startsWith "L" then
      match body.splitOn ":", halt with
      | [b, a, h], none =>
        match parseHex? b, parseHex? a, parseHex? h with
        | some b, some a, some h =>
          let after := match a with
            | 0 => []
            | n + 1 => List.replicate n 0 ++ [h]
          parseTurns spec rest (Insn.logOp b after :: ins) halt acc sds
        | _, _, _ => none
      | _, _ => none
    else if tok.startsWith "D" then
      match runSd spec body, halt with
      | some o, none => parseTurns spec rest (Insn.sdOp o.note :: ins) halt acc (o :: sds)
      | _, _ => none
    else if tok.startsWith "H" then
      match parseHex? body, halt with
      | some op, none => parseTurns spec rest ins (some (haltInsn op)) acc sds
      | _, _ => none
    else if tok = "F" then
      parseTurns spec rest [] none ({ ins := ins.reverse, halt := halt, next := .fatal } :: acc) sds
    else if tok = "Rx" then
      parseTurns spec rest [] none ({ ins := ins.reverse, halt := halt, next := .ret none false } :: acc) sds
    else if tok.startsWith "R" then
      match body.splitOn ":" with
      | [o, ie] =>
        match parseHex? o, parseBool? ie with
        | some o, some ie => parseTurns spec rest [] none ({ ins := ins.reverse, halt := halt, next := .ret (some o) ie } :: acc) sds
        | _, _ => none
      | _ => none
    else if tok.startsWith "S" then
      match parseSpawn body with
      | some (s, ie) => parseTurns spec rest [] none ({ ins := ins.reverse, halt := halt, next := .spawn s ie } :: acc) sds
      | none => none
    else none

def parseScript (spec : Nat) (toks : List String) : Option Parsed :=
  match toks with
  | tok :: rest =>
    if tok.startsWith "S" then
      match parseSpawn (tok.drop 1).toString, parseTurns spec rest [] none [] [] with
      | some (s, _), some (turns, sds) => some { first := s, turns := turns, sds := sds }
      | _, _ => none
    else none
  | [] => none

/-! ### word text -/

def evText : Ev → String
  | .opn k i => s!"{kindCh k}{toHex i}"
  | .cls k i o => s!"{(kindCh k).toUpper}{toHex i}:{toHex o}"
  | .initInterp => "i"
  | .step => "s"
  | .stepEnd => "e"
  | .log l => s!"l{toHex l}"
  | .selfdestruct a t v => s!"d{toHex a}:{toHex t}:{toHex v}"

/-- run-length encoding of adjacent `step · step_end` pairs as `p<n>` (same as the harness) -/
def wordToks : List Ev → Nat → List String → List String
  | .step :: .stepEnd :: w, n, acc => wordToks w (n + 1) acc
  | e :: w, n, acc =>
    let acc := if n > 0 then s!"p{toHex n}" :: acc else acc
    wordToks w 0 (evText e :: acc)
  | [], n, acc => (if n > 0 then s!"p{toHex n}" :: acc else acc).reverse

def wordText (w : List Ev) : String :=
  match wordToks w 0 [] with
  | [] => "-"
  | l => ",".intercalate l

def statusText : Status → String
  | .finished => "finished"
  | .aborted => "aborted"
  | .running => "incomplete"
  | .panicked => "panic"

def scriptLogs (turns : List Turn) : List Nat := turns.flatMap fun t => (turnInsns t).filterMap insnLog

def line (mode : String) (status : Status) (w : List Ev) (p : Parsed) (used : Nat) : String :=
  if status = .panicked then "panic" else
  let st := if mode = "halt" then "-" else boolStr (stepsPaired w)
  let lg := decide (logsOf w = scriptLogs (p.turns.take used))
  let sdok := decide (sdsOf w = p.sds.filterMap (·.expect))
  let sd := if p.sds.isEmpty then "-" else ";".intercalate (p.sds.map (·.text))
  s!"{statusText status} w={wordText w} bal={boolStr (check w)} st={st} lg={boolStr lg} sdok={boolStr sdok} sd={sd}"

def splitBar (toks : List String) : Option (List String × List String) :=
  match toks.span (· ≠ "|") with
  | (a, _ :: b) => some (a, b)
  | _ => none

def validMode (m : String) : Bool := m = "obs" ∨ m = "sc" ∨ m = "halt" ∨ m = "mut"

def validAccounts (s : String) : Bool :=
  s = "-" ∨ (s.splitOn ",").all fun e =>
    match e.splitOn ":" with
    | [a, b, n, c] => (parseHex? a).isSome ∧ (parseHex? b).isSome ∧ (parseHex? n).isSome ∧ (parseBytes? c).isSome
    | _ => false

def begin (toks : List String) : St × String :=
  match toks with
  | [spec, mode, iseed, accts] =>
    match spec.toNat?, parseHex? iseed with
    | some sp, some _ =>
      if (sp ≤ 19 ∨ sp = 255) ∧ validMode mode ∧ validAccounts accts then
        ({ spec := sp, mode := mode, stk := {}, dead := false }, "ok")
      else ({}, "bad-op")
    | _, _ => ({}, "bad-op")
  | _ => ({}, "bad-op")

def handle (st : St) (toks : List String) : St × String :=
  if st.dead then (st, "bad-op") else
  match toks with
  | "tx" :: rest =>
    match splitBar rest with
    | some ([to, value, gas, data, dbf], script) =>
      if ((to = "create" ∨ (parseHex? to).isSome) ∧ (parseHex? value).isSome ∧ (parseHex? gas).isSome ∧
          (parseBytes? data).isSome ∧ dbf.toNat?.isSome) = false then ({ st with dead := true }, "bad-op") else
      if script = ["-"] then (st, "nocall w=- bal=1 st=" ++ (if st.mode = "halt" then "-" else "1") ++ " lg=1 sdok=1 sd=-")
      else
      match parseScript st.spec script with
      | none => (st, "bad-script")
      | some p =>
        let r := runTx st.stk p.first p.turns
        let used := usedTx st.stk p.first p.turns
        let ra := aRunTx p.first p.turns
        let model := line st.mode r.1 r.2.word p used
        let spec := line st.mode ra.1 ra.2.word p used
        ({ st with stk := r.2.stk }, s!"{model} | spec={spec}")
    | _ => ({ st with dead := true }, "bad-op")
  | _ => ({ st with dead := true }, "bad-op")

end Driver.InspectorHooks
