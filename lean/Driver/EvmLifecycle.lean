import Revm.Util.Hex
import Revm.Model.EvmLifecycle
/-! Driver of the context life-cycle model (C31).
`begin lc <variant> <probe> <spec> …` / `lc spec <s> modify|rebuild` / `lc call <entry> <stage>:<kind> cb=.. from=.. to=.. …`
The real stage at which a call ended is part of the request (observed by the harness); the driver
runs the entry point of `Model.EvmLifecycle` with the scripted handler and prints the summary of the
context it leaves behind, the journal between `finalize` and `clear` (`mid`), and the verdict
`same=1` (by `Props.C31.sequence_on_one_instance_eq_fresh_instances`). -/
namespace Driver.EvmLifecycle
open Revm Revm.Hex Revm.Model.Journal Revm.Model.EvmLifecycle Revm.Model.EvmLifecycle.Script

abbrev SCtx := Ctx Nat SEnv String (List Addr) Empty

structure St where
  ctx : Option SCtx := none
  spec : Nat := 0
  variant : String := ""
  probe : Bool := false

def St.init : St := {}

def env0 : SEnv := { coinbase := 0, caller := 0, target := 0, stage := "ok", kind := "unit" }

def validSpec (s : Nat) : Bool := s ≤ 19 || s = 255

/-- insertion sort (ascending, no duplicates) -/
def insertSorted (x : Nat) : List Nat → List Nat
  | [] => [x]
  | y :: ys => if x < y then x :: y :: ys else if x = y then y :: ys else y :: insertSorted x ys
def sortNat (l : List Nat) : List Nat := l.foldr insertSorted []

def csv (l : List Nat) : String := if l.isEmpty then "-" else ",".intercalate (l.map toHex)

/-- the addresses the scripted handler can touch / preload -/
def probeAddrs (env : SEnv) : List Nat :=
  sortNat ([env.coinbase, env.caller, env.target, 0xa1, BLOCKHASH_STORAGE_ADDRESS] ++ (List.range 18).tail ++ [0x100])

def jsum (env : SEnv) (j : JState) (listWarm : Bool) : String :=
  let u := probeAddrs env
  let st := (u.filter fun a => (j.state a).isSome).length
  let tr := (u.filter fun a => (j.transient a 1).isSome).length
  let entries := (j.journal.map List.length).foldl (· + ·) 0
  let warmL := u.filter j.preloaded
  let sep := if listWarm then "," else " "
  let warm := if listWarm then csv warmL else toString warmL.length
  s!"st={st}{sep}tr={tr}{sep}lg={j.logs.length}{sep}d={j.depth}{sep}j={j.journal.length}/{entries}{sep}warm={warm}"

def summary (c : SCtx) : String :=
  s!"{jsum c.env c.js false} err={if c.error.isNone then "ok" else "set"} jspec={c.js.spec} pre={csv (sortNat c.precompiles)}"

def getTok (toks : List String) (key : String) : Option String :=
  toks.findSome? fun t => if t.startsWith key then some (t.drop key.length).toString else none

def parseEntry : String → Option EntryPoint
  | "transact" => some .transact
  | "commit" => some .transactCommit
  | "preverified" => some .transactPreverified
  | "preverify" => some .preverify
  | _ => none

/-- the journal seen by `post_execution.end` when the output is `Ok` (after `finalize`, before `clear`) -/
def midOf (h : Handler Nat SEnv String (List Addr) Empty Nat Nat Nat Nat String) (e : EntryPoint) (c : SCtx) : String :=
  let afterInner (g : Nat) (c : SCtx) : String :=
    match inner h 10 g c with
    | some (.ok _, c') => jsum c'.env c'.js true
    | _ => "-"
  match e with
  | .preverify => "-"
  | .transactPreverified =>
    match h.initialTxGas c.env with
    | .ok g => afterInner g c
    | .error _ => "-"
  | _ =>
    match preverifyInner h c with
    | (.ok g, c1) => afterInner g c1
    | _ => "-"

def begin (r : List String) : St × String :=
  match r with
  | variant :: probe :: spec :: _ =>
    match parseBool? probe, spec.toNat? with
    | some probe, some spec =>
      if !(variant = "plain" || variant = "noop" || variant = "rec") || !validSpec spec then ({}, "bad-op") else
      let c : SCtx := Ctx.build 0 env0 spec []
      ({ ctx := some c, spec := spec, variant := variant, probe := probe }, s!"ok {summary c}")
    | _, _ => ({}, "bad-op")
  | _ => ({}, "bad-op")

def handle (st : St) (r : List String) : St × String :=
  match st.ctx with
  | none => (st, "bad-op")
  | some c =>
  match r with
  | ["spec", s, how] =>
    match s.toNat? with
    | none => (st, "bad-op")
    | some s =>
      if !validSpec s then (st, "bad-op") else
      if how = "modify" then
        -- `Handler::modify_spec_id`: the handler only
        ({ st with spec := s }, s!"ok {summary c}")
      else if how = "rebuild" then
        -- `Evm::new` copies `cfg.spec_id` into the journal
        let c := { c with js := setSpecId c.js s }
        ({ st with spec := s, ctx := some c }, s!"ok {summary c}")
      else (st, "bad-op")
  | "call" :: entry :: label :: toks =>
    if label = "panic" then ({ st with ctx := none }, "panic") else
    match parseEntry entry, (getTok toks "cb=").bind parseHex?, (getTok toks "from=").bind parseHex?,
          getTok toks "to=", label.splitOn ":" with
    | some e, some cb, some from_, some to, [stage, kind] =>
      if toks.length != 11 then (st, "bad-op") else
      let target := if to = "create" then 0xcccc else (parseHex? to).getD 0
      let env : SEnv := { coinbase := cb, caller := from_, target := target, stage := stage, kind := kind }
      let h := handler st.spec
      let c0 := { c with env := env }
      match call h commitDb e 10 c0 with
      | none => (st, "diverged")
      | some (_, c') =>
        let mid := if st.probe then midOf h e c0 else "-"
        let insp := if st.variant = "rec" then "ok" else "-"
        ({ st with ctx := some c' }, s!"{label} {summary c'} mid={mid} same=1 insp={insp}")
    | _, _, _, _, _ => (st, "bad-op")
  | _ => (st, "bad-op")

end Driver.EvmLifecycle
