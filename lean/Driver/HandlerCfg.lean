import Revm.Util.Hex
import Revm.Model.HandlerCfg
/-! Stateful component `hcfg` (C22). A case keeps TWO handlers: the one under test and its twin, built
the same way but with rewards enabled; every operation is applied to both.

```
begin hcfg <build: default|optimism> <flavor: mainnet|optimism> <SPEC> <reward 0|1> <coinbase balance hex>
hcfg-build <default|optimism>                                  (first line of a request file)
hcfg spec <SPEC> | hspec <SPEC> | bspec <SPEC> | app <reg> | bapp <reg> | pop | generic <SPEC> | gendrop <SPEC> | rebuild
hcfg reset | new | resetdb | boptimism                       (explicit resets)
hcfg tx <xfer|tocb|self|call> <gas_limit> <gas_price> <prio|-> <basefee> <value> <used> <l1|->
```
registers: `noop` `insp` `itab` (neutral), `opt0` `opt1` (optimism build), `setm` `clr` `tgl` (user registers
that assign / clear / toggle the reward slot). State reply: `spec=<SPEC> opt=<b> regs=<n> rw=<b> trw=<b>`. -/
namespace Driver.HandlerCfg
open Revm Revm.Hex Revm.Model.HandlerCfg

structure St where
  /-- which binary answers this request file (`hcfg-build` line): `some true` = optimism build -/
  binary : Option Bool := none
  active : Bool := false
  optBuild : Bool := false
  h : Handler := mainnetWithSpec .LATEST true
  t : Handler := mainnetWithSpec .LATEST true
  cb0 : Nat := 0

def St.init : St := {}

/-- specs that exist in the default build -/
def inDefaultBuild (s : Spec) : Bool :=
  match s with
  | .BEDROCK | .REGOLITH | .CANYON | .ECOTONE | .FJORD | .GRANITE | .HOLOCENE | .ISTHMUS => false
  | _ => true

def parseSpec (optBuild : Bool) (s : String) : Option Spec :=
  match Spec.parse? s with
  | some x => if optBuild || inDefaultBuild x then some x else none
  | none => none

def parseReg (optBuild : Bool) (s : String) : Option Register :=
  match s with
  | "noop" => some (.neutral 0)
  | "insp" => some (.neutral 1)
  | "itab" => some (.neutral 2)
  | "opt0" => if optBuild then some (.optimism false) else none
  | "opt1" => if optBuild then some (.optimism true) else none
  | "setm" => some (.generic 0 (fun _ => some .mainnet))
  | "clr" => some (.generic 1 (fun _ => none))
  | "tgl" => some (.generic 2 (fun r => if r.isSome then none else some .mainnet))
  | _ => none

def stateLine (st : St) : String :=
  s!"spec={st.h.spec.name} opt={boolStr st.h.isOptimism} regs={st.h.registers.length} rw={boolStr st.h.reward.isSome} trw={boolStr st.t.reward.isSome}"

def both (st : St) (op : Op) : St × String :=
  let st' := { st with h := step st.h op, t := step st.t op }
  (st', stateLine st')

/-- `hcfg-build <default|optimism>`: the first such line names the answering binary -/
def buildLine (st : St) (toks : List String) : St × String :=
  let b? : Option Bool := match toks with
    | ["default"] => some false | ["optimism"] => some true | _ => none
  match st.binary, b? with
  | none, some b => ({ st with binary := some b }, "ok")
  | some cur, some b => (st, if cur == b then "ok" else "other-binary")
  | _, none => (st, "other-binary")

def beginCase (toks : List String) : St × String :=
  match toks with
  | [build, flavor, spec, rw, cb0] =>
    match (if build = "default" then some false else if build = "optimism" then some true else none),
          parseBool? rw, parseHex? cb0 with
    | some optBuild, some rw, some cb0 =>
      match parseSpec optBuild spec with
      | none => ({}, "bad-op")
      | some s =>
        if cb0 ≥ W then ({}, "bad-op") else
        if flavor = "mainnet" then
          let st : St := { active := true, optBuild, h := mainnetWithSpec s rw, t := mainnetWithSpec s true, cb0 }
          (st, stateLine st)
        else if flavor = "optimism" && optBuild then
          let st : St := { active := true, optBuild, h := optimismWithSpec s rw, t := optimismWithSpec s true, cb0 }
          (st, stateLine st)
        else ({}, "bad-op")
    | _, _, _ => ({}, "bad-op")
  | _ => ({}, "bad-op")

/-- a case tagged `optimism` cannot be executed by the default binary -/
def begin (old : St) (toks : List String) : St × String :=
  let (st, out) := beginCase toks
  let st := { st with binary := old.binary }
  if st.active && st.optBuild && old.binary == some false then ({ binary := old.binary }, "wrong-build")
  else (st, out)

def db (st : St) : Db := fun a =>
  if a = CALLER then ⟨10 ^ 30, 0, false⟩
  else if a = RECIP then ⟨5, 0, false⟩
  else if a = CONTRACT then ⟨3, 1, false⟩
  else if a = COINBASE then ⟨st.cb0, 0, false⟩
  else ⟨0, 0, false⟩

def acctStr (st : JState) (a : Addr) : String :=
  match st a with
  | none => "-"
  | some v => s!"{toHex v.bal}:{boolStr v.touched}"

def resStr : TxResult → String
  | .ok => "ok"
  | .halt r => s!"halt:{r}"
  | .err e => s!"err:{e}"

def feeStr (r : TxResult × Nat × JState) (cb : Addr) : String :=
  match r.1 with
  | .err e => s!"err:{e}"
  | res =>
    s!"{resStr res} gas={r.2.1} cb={acctStr r.2.2 cb} v={acctStr r.2.2 L1_FEE_RECIPIENT},{acctStr r.2.2 BASE_FEE_RECIPIENT},{acctStr r.2.2 OPERATOR_FEE_RECIPIENT}"

def addrUniverse : List Addr := [CALLER, RECIP, CONTRACT, COINBASE, L1_FEE_RECIPIENT, BASE_FEE_RECIPIENT, OPERATOR_FEE_RECIPIENT]

/-- the harness's comparison of the two runs: result, gas and every account that is not the block's
coinbase or a vault -/
def sameOther (a b : TxResult × Nat × JState) (cb : Addr) : Bool :=
  a.1 == b.1 && a.2.1 == b.2.1 &&
  addrUniverse.all (fun x =>
    x == cb || x == L1_FEE_RECIPIENT || x == BASE_FEE_RECIPIENT || x == OPERATOR_FEE_RECIPIENT ||
      a.2.2 x == b.2.2 x)

def parseOpt (s : String) : Option (Option Nat) :=
  if s = "-" then some none else (parseHex? s).map some

def txLine (st : St) (toks : List String) : String :=
  match toks with
  | [kind, gl, gp, prio, bf, value, used, l1] =>
    let kind? : Option TxKind := match kind with
      | "xfer" => some .xfer | "tocb" => some .tocb | "self" => some .self | "call" => some .call | _ => none
    match kind?, parseHex? gl, parseHex? gp, parseOpt prio, parseHex? bf, parseHex? value, parseHex? used, parseOpt l1 with
    | some kind, some gl, some gp, some prio, some bf, some value, some used, some l1 =>
      if gl ≥ U64 || gp ≥ U64 || bf ≥ U64 || value ≥ U64 || used > gl || (prio.getD 0) ≥ U64 || (l1.getD 0) ≥ U128
        || gl < 21000 || (l1.isSome != st.optBuild) then "bad-op" else
      let tx : Tx := { kind, gasLimit := gl, gasPrice := gp, prio, basefee := bf, value, used, l1 }
      let r := transact st.h (db st) tx
      let t := transact st.t (db st) tx
      let other := match r.1 with
        | .err _ => ""
        | _ => s!" caller={acctStr r.2.2 CALLER},{((r.2.2 CALLER).map Acct.nonce).getD 0} to={acctStr r.2.2 tx.target}"
      s!"{feeStr r tx.coinbase}{other} twin: {feeStr t tx.coinbase} same={boolStr (sameOther r t tx.coinbase)}"
    | _, _, _, _, _, _, _, _ => "bad-op"
  | _ => "bad-op"

def handle (st : St) (toks : List String) : St × String :=
  if !st.active then (st, "bad-op") else
  match toks with
  | ["spec", s] => match parseSpec st.optBuild s with
    | some s => both st (.modifySpecId s) | none => (st, "bad-op")
  | ["hspec", s] => match parseSpec st.optBuild s with
    | some s => both st (.modifySpecId s) | none => (st, "bad-op")
  | ["bspec", s] => match parseSpec st.optBuild s with
    | some s => both st (.builderSpecId s) | none => (st, "bad-op")
  | ["app", r] => match parseReg st.optBuild r with
    | some r => both st (.append r) | none => (st, "bad-op")
  | ["bapp", r] => match parseReg st.optBuild r with
    | some r => both st (.builderAppend r) | none => (st, "bad-op")
  | ["pop"] =>
    let popped := !st.h.registers.isEmpty
    let (st', s) := both st .pop
    (st', s!"popped={boolStr popped} {s}")
  | ["generic", s] => match parseSpec st.optBuild s with
    | some s => both st (.createGeneric s) | none => (st, "bad-op")
  | ["gendrop", s] => match parseSpec st.optBuild s with
    | some s => both st (.createGenericDrop s) | none => (st, "bad-op")
  | ["rebuild"] => both st .rebuild
  | ["reset"] => both st .resetHandler
  | ["new"] => both st .resetHandler
  | ["resetdb"] => both st .resetHandler
  | ["boptimism"] => if st.optBuild then both st .builderOptimism else (st, "bad-op")
  | "tx" :: r => (st, txLine st r)
  | _ => (st, "bad-op")

end Driver.HandlerCfg
