import Revm.Util.Hex
import Revm.Model.Evm
import Revm.Spec.Evm
import Revm.Spec.EvmStrict
/-! Line-protocol driver of component `evm` (C01): whole transactions on `Revm.Model.Evm.transact`.

* `begin evm <spec> <hs> <chainid> <number> <coinbase> <timestamp> <gaslimit> <basefee> <difficulty> <prevrandao|-> <blobgasprice|-> <limit|->`
  → `ok` (`spec` decimal SpecId; `hs` = 1 when the database implements `has_storage`; the rest hex)
* `evm acct <addr> <balance> <nonce> <code|-> <k=v,k=v|->` → `ok`   (one database account)
* `evm pc <addr> <gaslimit> <input|-> <class> <gasused> <output|->` → `ok`  (recorded answer of a precompile with a
  non-executable core; class 0 ok, 1 out of gas, 2 error, 3 fatal)
* `evm tx <caller> <gaslimit> <gasprice> <to|-> <value> <data|-> <nonce|-> <chainid|-> <prio|-> <blobhashes h,h|-> <maxblobfee|-> <accesslist a:k,k;a:|-> <authlist -|e|chain:addr:nonce:authority|x;…>`
  → `reject` | `<class> gas=<used> refund=<refunded> out=<hex|-> created=<addr|-> logs=<…> ;; <post-state>` | `panic` …,
  followed by ` | spec=<the same line computed by Spec.Evm.transact>` (state kept by snapshots instead of a journal).
  The hypothesis of the refinement theorem (Props/C01 `transact_refines_spec_partial`: the run is admissible, i.e. the
  strict journal machine `Spec.Evm.transactStrict` gives the same reply) is evaluated on every generated / boundary
  transaction and on every third reference-vector replay; should it ever fail, the model's reply carries the mark ` !inadmissible-run` and the line is a mismatch.
  `logs`: `<n>[<addr>:<topic,topic|->:<data|->]…` when short, else `<n>#<keccak of the canonical encoding>`;
  post-state: the touched accounts sorted by address, `<addr>:<c?s?>:<balance>:<nonce>:<codehash>:<k=v,…|->` (changed slots).
* `evm vector <relative path> <unit index> <fork> <post index>` → `pass`: the expectation that the implementation
  passes this shipped reference vector (post-state root and logs hash as the vector says); the harness answers from a
  real run. -/
namespace Driver.Evm
open Revm Revm.Hex Revm.Model Revm.Model.Evm

structure St where
  spec : Nat := 0
  env : Evm.Env := {}
  dbHasStorage : Bool := true
  pre : List PreAcct := []
  pcs : List PcAnswer := []
  /-- the unit index of the reference vector being replayed (`none`: a generated / boundary case) -/
  vec : Option Nat := none

def St.init : St := {}

def parseOptHex (s : String) : Option (Option Nat) :=
  if s = "-" then some none else (parseHex? s).map some

def parseList {α} (sep : String) (f : String → Option α) (s : String) : Option (List α) :=
  if s = "-" then some [] else
  (s.splitOn sep).foldr (fun t acc => match f t, acc with
    | some x, some l => some (x :: l)
    | _, _ => none) (some [])

def parseKV (s : String) : Option (Nat × Nat) :=
  match s.splitOn "=" with
  | [k, v] => match parseHex? k, parseHex? v with
    | some k, some v => some (k, v)
    | _, _ => none
  | _ => none

def begin (toks : List String) : St × String :=
  match toks with
  | [spec, hs, chain, num, cb, ts, gl, bf, diff, rand, blob, lim] =>
    match spec.toNat?, parseBool? hs, parseHex? chain, parseHex? num, parseHex? cb, parseHex? ts, parseHex? gl,
          parseHex? bf, parseHex? diff, parseOptHex rand, parseOptHex blob, parseOptHex lim with
    | some spec, some hs, some chain, some num, some cb, some ts, some gl, some bf, some diff, some rand, some blob,
      some lim =>
      ({ spec := spec, dbHasStorage := hs,
         env := { cfg := { chainId := chain, limitContractCodeSize := lim },
                  block := { number := num, coinbase := cb, timestamp := ts, gasLimit := gl, basefee := bf,
                             difficulty := diff, prevrandao := rand, blobGasPrice := blob } } }, "ok")
    | _, _, _, _, _, _, _, _, _, _, _, _ => ({}, "bad-op")
  | _ => ({}, "bad-op")

def parseAccess (s : String) : Option AccessItem :=
  match s.splitOn ":" with
  | [a, ks] => match parseHex? a, (if ks = "" then some [] else parseList "," parseHex? ks) with
    | some a, some ks => some { addr := a, keys := ks }
    | _, _ => none
  | _ => none

def parseAuth (s : String) : Option Auth :=
  match s.splitOn ":" with
  | [c, a, n, au] => match parseHex? c, parseHex? a, parseHex? n, (if au = "x" then some none else (parseHex? au).map some) with
    | some c, some a, some n, some au => some { chainId := c, address := a, nonce := n, authority := au }
    | _, _, _, _ => none
  | _ => none

def parseTx (toks : List String) : Option Tx :=
  match toks with
  | [caller, gl, gp, to, value, data, nonce, chain, prio, blobs, maxblob, al, auth] =>
    match parseHex? caller, parseHex? gl, parseHex? gp, parseOptHex to, parseHex? value, parseBytes? data,
          parseOptHex nonce, parseOptHex chain, parseOptHex prio, parseList "," parseHex? blobs, parseOptHex maxblob,
          parseList ";" parseAccess al,
          (if auth = "-" then some none else if auth = "e" then some (some []) else (parseList ";" parseAuth auth).map some) with
    | some caller, some gl, some gp, some to, some value, some data, some nonce, some chain, some prio, some blobs,
      some maxblob, some al, some auth =>
      some { caller := caller, gasLimit := gl, gasPrice := gp, to := to, value := value, data := data, nonce := nonce,
             chainId := chain, accessList := al, priorityFee := prio, blobHashes := blobs, maxFeePerBlobGas := maxblob,
             authList := auth }
    | _, _, _, _, _, _, _, _, _, _, _, _, _ => none
  | _ => none

/-- insertion sort on a key (lists are short) -/
def sortBy {α} (key : α → Nat) (l : List α) : List α :=
  l.foldl (fun acc x =>
    let (lo, hi) := acc.span (fun y => key y ≤ key x)
    lo ++ x :: hi) []

def be (n w : Nat) : List Nat := Keccak.beBytes n w

/-- canonical encoding of the logs for the digest -/
def encodeLogs (ls : List LogRec) : List Nat :=
  ls.flatMap fun l => be 20 l.addr ++ [l.topics.length] ++ l.topics.flatMap (be 32) ++ be 8 l.data.length ++ l.data

def logStr (l : LogRec) : String :=
  let ts := if l.topics.isEmpty then "-" else ",".intercalate (l.topics.map toHex)
  s!"[{toHex l.addr}:{ts}:{bytesToHex l.data}]"

def logsStr (ls : List LogRec) : String :=
  let full := String.join (ls.map logStr)
  if full.length ≤ 600 then s!"{ls.length}{full}"
  else s!"{ls.length}#{toHex (Keccak.keccak256w (encodeLogs ls))}"

def outStr (bs : List Nat) : String :=
  if bs.length ≤ 300 then bytesToHex bs else s!"{bs.length}#{toHex (Keccak.keccak256w bs)}"

def acctStr (w : World) (a : Nat) (acc : Journal.Acct) : String :=
  let keys := (w.slots.filter (fun p => p.1 == a)).map (·.2)
  let changed := keys.filterMap fun k => match acc.storage k with
    | some sl => if sl.present ≠ sl.orig then some (k, sl.present) else none
    | none => none
  let changed := sortBy (·.1) changed
  let slots := if changed.isEmpty then "-" else ",".intercalate (changed.map fun kv => s!"{toHex kv.1}={toHex kv.2}")
  let flags := (if acc.created then "c" else "") ++ (if acc.selfdestructed then "s" else "")
  s!"{toHex a}:{flags}:{toHex acc.info.balance}:{toHex acc.info.nonce}:{toHex acc.info.codeHash}:{slots}"

def stateStr (w : World) : String :=
  let touched := w.addrs.filterMap fun a => match w.js.state a with
    | some acc => if acc.touched then some (a, acc) else none
    | none => none
  let touched := sortBy (·.1) touched
  " ".intercalate (touched.map fun p => acctStr w p.1 p.2)

def errStr : Err → String
  | .panic _ => "panic"
  | .fatal m => s!"fatal:{m}"
  | .oracleMiss _ => "oracle-miss"
  | .outOfFuel => "out-of-fuel"

def FUEL : Nat := 100000000

def replyOf : R (Outcome × World) → String
  | .error e => errStr e
  | .ok (.rejected, _) => "reject"
  | .ok (.executed r, w) =>
    let created := match r.created with | some a => toHex a | none => "-"
    s!"{r.cls.name} gas={r.gasUsed} refund={r.gasRefunded} out={outStr r.output} created={created} logs={logsStr r.logs} ;; {stateStr w}"

/-- the model's reply and, as the Spec column, the reply of the snapshot-discipline specification `Spec.Evm.transact` -/
def runTx (st : St) (tx : Tx) : String :=
  let w := Spec.Evm.freshWorld st.spec st.pre st.dbHasStorage st.pcs
  let e := { st.env with tx := tx }
  let m := replyOf (transact FUEL w e st.spec)
  let sp := replyOf (Spec.Evm.transact FUEL w e st.spec)
  -- the admissibility hypothesis of the refinement theorem, checked on this very run
  -- (every generated / boundary transaction; of the reference-vector replays, which dominate the run time, one in three)
  let doStrict := match st.vec with | none => true | some i => i % 3 == 0
  let m := if !doStrict || replyOf (Spec.Evm.transactStrict FUEL w e st.spec) == m then m else m ++ " !inadmissible-run"
  s!"{m} | spec={sp}"

def handle (st : St) (toks : List String) : St × String :=
  match toks with
  | ["acct", a, bal, nonce, code, storage] =>
    match parseHex? a, parseHex? bal, parseHex? nonce, parseBytes? code, parseList "," parseKV storage with
    | some a, some bal, some nonce, some code, some storage =>
      let h := if code.isEmpty then KECCAK_EMPTY else Keccak.keccak256w code
      ({ st with pre := st.pre ++ [{ addr := a, balance := bal, nonce := nonce, code := code, codeHash := h,
                                     storage := storage }] }, "ok")
    | _, _, _, _, _ => (st, "bad-op")
  | ["pc", a, gl, input, cls, used, out] =>
    match parseHex? a, parseHex? gl, parseBytes? input, cls.toNat?, parseHex? used, parseBytes? out with
    | some a, some gl, some input, some cls, some used, some out =>
      ({ st with pcs := { addr := a, gasLimit := gl, input := input, cls := cls, gasUsed := used, out := out } :: st.pcs },
       "ok")
    | _, _, _, _, _, _ => (st, "bad-op")
  -- a reference vector: the expectation is that the implementation passes it
  | ["vector", _, idx, _, _] => ({ st with vec := some (idx.toNat?.getD 0) }, "pass")
  | "tx" :: rest =>
    match parseTx rest with
    | some tx => (st, runTx st tx)
    | none => (st, "bad-op")
  | _ => (st, "bad-op")

end Driver.Evm
