import Revm.Util.Hex
import Revm.Model.TxValidate
import Revm.Spec.TxValid
/-! Line-protocol driver of component C02 (`txv` lines and `noeff` histories); request formats in
`harness/src/c02.rs`.

`txv`: reply `<model reply> | spec=<spec reply>`. The property speaks about *whether* a transaction
is rejected, not about which variant reports it, so the Spec column is `ok` when `Spec.ValidTx`
holds, the model's own variant when both reject, and `invalid:<first violated rule>` when the Spec
rejects a transaction the model accepts.

`ne …` (no-effect histories): the oracle is evaluated by the harness on the real `Evm`; the model
answers `same` by theorem (`Props/C02.lean`: `rejected_no_effect`, `history_skip_rejected`). -/
namespace Driver.TxValidate
open Revm Revm.Hex
open Revm.Model.TxValidate
open Revm.Spec.GasCalc (Fork)

def kv? (tok key : String) : Option String :=
  match tok.splitOn "=" with
  | [k, v] => if k = key then some v else none
  | _ => none

def hexBelow? (bound : Nat) (s : String) : Option Nat :=
  if s.length = 0 ∨ s.length > 64 then none else
  match parseHex? s with
  | some v => if v < bound then some v else none
  | none => none

def optOf (f : String → Option Nat) (s : String) : Option (Option Nat) :=
  if s = "n" then some none else (f s).map some

def listOf {α : Type} (f : String → Option α) (s : String) : Option (List α) :=
  if s = "-" then some [] else
  (s.splitOn ",").foldr (fun t acc => match f t, acc with
    | some k, some l => some (k :: l)
    | _, _ => none) (some [])

def decBelow? (bound : Nat) (s : String) : Option Nat :=
  match s.toNat? with
  | some v => if v < bound then some v else none
  | none => none

def fork? (name id : String) : Option Fork :=
  match Fork.ofName name, id.toNat? with
  | some f, some i => if f.id = i then some f else none
  | _, _ => none

def schedEntry? (s : String) : Option (Nat × Nat) :=
  match s.splitOn ":" with
  | [a, b] =>
    match decBelow? 256 a, decBelow? 256 b with
    | some i, some m => if (Fork.all.any (fun f => f.id == i)) then some (i, m) else none
    | _, _ => none
  | _ => none

def blobByte? (s : String) : Option Nat := if s.length = 2 then hexBelow? 256 s else none

/-- the 7 cfg / block tokens -/
def parseEnv? (t : List String) : Option (Cfg × Block) :=
  match t with
  | [a, b, c, d, e, f, g] =>
    match (kv? a "chain").bind (hexBelow? U64), (kv? b "lim").bind (optOf (hexBelow? U64)),
          (kv? c "bs").bind (listOf schedEntry?), (kv? d "bgl").bind (hexBelow? W),
          (kv? e "bf").bind (hexBelow? W), (kv? f "pr").bind parseBool?,
          (kv? g "bgp").bind (optOf (hexBelow? U128)) with
    | some chain, some lim, some bs, some bgl, some bf, some pr, some bgp =>
      some ({ chainId := chain, limitContractCodeSize := lim, blobSchedule := bs },
            { gasLimit := bgl, basefee := bf, prevrandaoSet := pr, blobGasPrice := bgp })
    | _, _, _, _, _, _, _ => none
  | _ => none

def maxData : Nat := 262144

/-- the 13 tx tokens -/
def parseTx? (t : List String) : Option Tx :=
  match t with
  | [a, b, c, d, e, f, g, h, i, j, k, l, m] =>
    match (kv? a "gl").bind (hexBelow? U64), (kv? b "gp").bind (hexBelow? W),
          (kv? c "prio").bind (optOf (hexBelow? W)), (kv? d "val").bind (hexBelow? W),
          (kv? e "dz").bind (decBelow? (maxData + 1)), (kv? f "dnz").bind (decBelow? (maxData + 1)) with
    | some gl, some gp, some prio, some val, some dz, some dnz =>
      match kv? g "to", (kv? h "cid").bind (optOf (hexBelow? U64)), (kv? i "nonce").bind (optOf (hexBelow? U64)),
            (kv? j "acl").bind (listOf (decBelow? 65)), (kv? k "blobs").bind (listOf blobByte?),
            (kv? l "mfb").bind (optOf (hexBelow? W)), (kv? m "auth").bind (optOf (decBelow? 65)) with
      | some to, some cid, some nonce, some acl, some blobs, some mfb, some auth =>
        if (to = "call" ∨ to = "create") ∧ acl.length ≤ 64 ∧ blobs.length ≤ 300 then
          some { gasLimit := gl, gasPrice := gp, priorityFee := prio, value := val,
                 data := List.replicate dz 0 ++ List.replicate dnz 1, isCreate := to = "create",
                 chainId := cid, nonce := nonce, accessList := acl, blobHashes := blobs,
                 maxFeePerBlobGas := mfb, authList := auth }
        else none
      | _, _, _, _, _, _, _ => none
    | _, _, _, _, _, _ => none
  | _ => none

def parseSender? (t : List String) : Option Sender :=
  match t with
  | [a, b, c] =>
    match (kv? a "bal").bind (hexBelow? W), (kv? b "sn").bind (hexBelow? U64), kv? c "code" with
    | some bal, some sn, some code =>
      if code = "absent" then (if bal = 0 ∧ sn = 0 then some {} else none)
      else if code = "empty" then some { balance := bal, nonce := sn, code := .empty }
      else if code = "7702" then some { balance := bal, nonce := sn, code := .eip7702 }
      else if code = "legacy" ∨ code = "eof" then some { balance := bal, nonce := sn, code := .other }
      else none
    | _, _, _ => none
  | _ => none

def specColumn (f : Fork) (cfg : Cfg) (blk : Block) (tx : Tx) (snd : Sender) (m : Res) : String :=
  if decide (Spec.TxValid.ValidTx f cfg blk tx snd) then "ok"
  else match m with
    | .ok =>
      match Spec.TxValid.firstViolated (Spec.TxValid.rules f cfg blk tx snd) with
      | some e => s!"invalid:{e.name}"
      | none => "invalid:TypeNotInFork"
    | r => r.toString

def handle (toks : List String) : String :=
  match toks with
  | sn :: si :: rest =>
    if rest.length ≠ 23 then "bad-op" else
    match fork? sn si, parseEnv? (rest.take 7), parseTx? ((rest.drop 7).take 13), parseSender? (rest.drop 20) with
    | some f, some (cfg, blk), some tx, some snd =>
      let m := validate f.id cfg blk tx snd
      s!"{m.toString} | spec={specColumn f cfg blk tx snd m}"
    | _, _, _, _ => "bad-op"
  | _ => "bad-op"

/-- state of a `noeff` history: only whether one is open -/
structure St where
  opened : Bool := false

def handleBegin (toks : List String) : St × String :=
  match toks with
  | [sn, si] => (match fork? sn si with
      | some _ => ({ opened := true }, "ok")
      | none => ({}, "bad-op"))
  | _ => ({}, "bad-op")

/-- `ne tx s=<i> t=<kind> <env 7> <tx 13>` / `ne end` -/
def handleNe (st : St) (toks : List String) : St × String :=
  if !st.opened then (st, "bad-op") else
  match toks with
  | ["end"] => (st, "same")
  | "tx" :: s :: t :: rest =>
    if rest.length ≠ 20 then (st, "bad-op") else
    match (kv? s "s").bind (decBelow? 5), kv? t "t", parseEnv? (rest.take 7), parseTx? (rest.drop 7) with
    | some _, some k, some _, some _ =>
      if k = "call" ∨ k = "counter" ∨ k = "sender" then (st, "same") else (st, "bad-op")
    | _, _, _, _ => (st, "bad-op")
  | _ => (st, "bad-op")

end Driver.TxValidate
