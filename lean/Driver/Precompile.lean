import Revm.Util.Hex
import Revm.Model.Precompile
import Revm.Spec.Precompile
/-! Driver of component `precompile` (C23).

request: `precompile <name> <fork> <gas_limit hex> <input hex> [oracle tokens]`
reply:   `ok <gas_used dec> <output hex>` | `err <PrecompileError variant>` | `panic` | `absent`
         | `unsafe-alloc` | `unsafe-rounds` (guards shared with the harness, see harness/src/c23.rs)
         optionally followed by ` | spec=<reply predicted by Spec/Precompile.lean>`
request: `precompile fn lincost|itercount|modexp_gas|rpad|lpad …` (see harness/src/c23.rs)

Oracle tokens instantiate the *parameters* of the model (the cryptographic cores) with the answers of
the real libraries: `o=<hex|->` (ecrecover), `g2=<bits> pair=<0|1>` (BN254 pairing), `o=<0|1>` (KZG),
`o=<hex|fail>` (BLS12-381: with `fail` every curve / subgroup check of the core answers false, otherwise
they answer true and the group operation returns the coordinates decoded from the given output). -/
namespace Driver.Precompile
open Revm Revm.Hex Revm.Model.Precompile Revm.Model.PrecompileHash

def errName : Err → String
  | .OutOfGas => "OutOfGas" | .Blake2WrongLength => "Blake2WrongLength"
  | .Blake2WrongFinalIndicatorFlag => "Blake2WrongFinalIndicatorFlag"
  | .ModexpExpOverflow => "ModexpExpOverflow" | .ModexpBaseOverflow => "ModexpBaseOverflow"
  | .ModexpModOverflow => "ModexpModOverflow"
  | .Bn128FieldPointNotAMember => "Bn128FieldPointNotAMember"
  | .Bn128AffineGFailedToCreate => "Bn128AffineGFailedToCreate" | .Bn128PairLength => "Bn128PairLength"
  | .BlobInvalidInputLength => "BlobInvalidInputLength" | .BlobMismatchedVersion => "BlobMismatchedVersion"
  | .BlobVerifyKzgProofFailed => "BlobVerifyKzgProofFailed" | .Other => "Other"

def render : Option Res → String
  | none => "absent"
  | some (.ok g out) => s!"ok {g} {bytesToHex out}"
  | some (.err e) => s!"err {errName e}"
  | some .panic => "panic"

def forkOf : String → Option Fork
  | "homestead" => some .homestead | "byzantium" => some .byzantium | "istanbul" => some .istanbul
  | "berlin" => some .berlin | "cancun" => some .cancun | "prague" => some .prague | _ => none

def addrOf : String → Option Nat
  | "ecrecover" => some 1 | "sha256" => some 2 | "ripemd160" => some 3 | "identity" => some 4
  | "modexp" => some 5 | "bn_add" => some 6 | "bn_mul" => some 7 | "bn_pair" => some 8
  | "blake2f" => some 9 | "kzg" => some 10 | "bls_g1add" => some 11 | "bls_g1msm" => some 12
  | "bls_g2add" => some 13 | "bls_g2msm" => some 14 | "bls_pairing" => some 15
  | "bls_mapfp" => some 16 | "bls_mapfp2" => some 17 | _ => none

/-- value of the oracle token `key=` -/
def tok (key : String) (ts : List String) : Option String :=
  ts.findSome? (fun t => if t.startsWith (key ++ "=") then some ((t.drop (key.length + 1)).toString) else none)

def blsFail : BlsCore where
  g1OnCurve := fun _ _ => false
  g1InSubgroup := fun _ _ => false
  g2OnCurve := fun _ _ _ _ => false
  g2InSubgroup := fun _ _ _ _ => false
  g1Add := fun _ _ => []
  g2Add := fun _ _ => []
  g1Msm := fun _ => []
  g2Msm := fun _ => []
  pairingIsOne := fun _ => false
  mapFp := fun _ => []
  mapFp2 := fun _ _ => []

/-- split a padded result into its 48-byte field elements -/
def decodeFps : Nat → Bytes → List Bytes
  | 0, _ => []
  | n+1, b => if b.isEmpty then [] else ((b.take 64).drop 16) :: decodeFps n (b.drop 64)

def blsOk (out : Bytes) : BlsCore :=
  let fps := decodeFps 4 out
  { g1OnCurve := fun _ _ => true
    g1InSubgroup := fun _ _ => true
    g2OnCurve := fun _ _ _ _ => true
    g2InSubgroup := fun _ _ _ _ => true
    g1Add := fun _ _ => fps
    g2Add := fun _ _ => fps
    g1Msm := fun _ => fps
    g2Msm := fun _ => fps
    pairingIsOne := fun _ => out == boolBytes32 true
    mapFp := fun _ => fps
    mapFp2 := fun _ _ => fps }

def defaultCores : Cores where
  recover := fun _ _ _ => none
  bnPair := { g2Valid := fun _ _ => false, pairingIsOne := fun _ => false }
  kzgVerify := fun _ _ _ _ => false
  bls := blsFail

/-- build the parameters from the oracle tokens; `none` = malformed oracle -/
def coresOf (name : String) (ts : List String) : Option Cores :=
  match name with
  | "ecrecover" =>
    match (tok "o" ts).bind parseBytes? with
    | some [] => some defaultCores
    | some out =>
      if out.length = 32 ∧ (out.take 12).all (· == 0) then
        some { defaultCores with recover := fun _ _ _ => some out }
      else none
    | none => none
  | "bn_pair" =>
    match tok "g2" ts, tok "pair" ts with
    | some bits, some p =>
      let bl := bits.toList
      some { defaultCores with
        bnPair := { g2Valid := fun i _ => bl[i]? == some '1', pairingIsOne := fun _ => p == "1" } }
    | _, _ => none
  | "kzg" =>
    match tok "o" ts with
    | some v => some { defaultCores with kzgVerify := fun _ _ _ _ => v == "1" }
    | none => none
  | _ =>
    if name.startsWith "bls_" then
      match tok "o" ts with
      | some "fail" => some defaultCores
      | some h => (parseBytes? h).map (fun out => { defaultCores with bls := blsOk out })
      | none => none
    else some defaultCores

def u64? (s : String) : Option Nat := (parseHex? s).bind (fun n => if n < U64 then some n else none)

def handleFn : List String → String
  | ["lincost", l, b, w] =>
    match u64? l, u64? b, u64? w with
    | some l, some b, some w =>
      let m := calcLinearCost l b w
      if Spec.Precompile.linearCost l b w < U64 then s!"{m} | spec={Spec.Precompile.linearCost l b w}" else s!"{m}"
    | _, _, _ => "bad-op"
  | ["itercount", l, h] =>
    match u64? l, parseHex? h with
    | some l, some h => if h < W then s!"{calculateIterationCount l h}" else "bad-op"
    | _, _ => "bad-op"
  | ["modexp_gas", f, bl, el, ml, hp] =>
    match u64? bl, u64? el, u64? ml, parseHex? hp with
    | some bl, some el, some ml, some hp =>
      if hp ≥ W then "bad-op" else
      -- Spec column where the theorem `*_gas_eq` applies (no saturation of the iteration count)
      let inRegion := el ≤ 2^60
      match f with
      | "byzantium" =>
        let m := byzantiumGasCalc bl el ml hp
        if inRegion then s!"{m} | spec={min (Spec.Precompile.eip198Gas bl el ml hp) (U64 - 1)}" else s!"{m}"
      | "berlin" =>
        let m := berlinGasCalc bl el ml hp
        if inRegion then s!"{m} | spec={min (Spec.Precompile.eip2565Gas bl el ml hp) (U64 - 1)}" else s!"{m}"
      | _ => "bad-op"
    | _, _, _, _ => "bad-op"
  | ["rpad", n, d] =>
    match n.toNat?, parseBytes? d with
    | some n, some d => if n > 65536 then "bad-op" else bytesToHex (rightPad n d)
    | _, _ => "bad-op"
  | ["lpad", n, d] =>
    match n.toNat?, parseBytes? d with
    | some n, some d => if n > 65536 then "bad-op" else bytesToHex (leftPad n d)
    | _, _ => "bad-op"
  | _ => "bad-op"

/-- the Spec's prediction for the fully specified precompiles, where it is computable -/
def specReply (name : String) (fork : Fork) (input : Bytes) (gas : Nat) : Option String :=
  match name with
  | "identity" => some (render (some (Spec.Precompile.identity input gas)))
  | "sha256" => some (render (some (Spec.Precompile.sha256 input gas)))
  | "ripemd160" => some (render (some (Spec.Precompile.ripemd160 input gas)))
  | "modexp" =>
    if fork.idx < 1 then none else
    match Spec.Precompile.modexp (decide (fork.idx ≥ 3)) input gas with
    | some r => some (render (some r))
    | none => none
  | _ => none

def unsafeAlloc (berlin : Bool) (input : Bytes) (gas : Nat) : Bool :=
  match modexpAllocLen berlin input gas with
  | some total => decide (total > 2^20) && decide (total ≤ isizeMax)
  | none => false

def handle (toks : List String) : String :=
  match toks with
  | "fn" :: r => handleFn r
  | name :: fork :: gas :: input :: oracle =>
    match addrOf name, forkOf fork, u64? gas, parseBytes? input with
    | some addr, some fork, some gas, some input =>
      match coresOf name oracle with
      | none => "bad-oracle"
      | some cores =>
        let present := (call defaultCores fork addr [] 0).isSome
        if present && name == "modexp" && unsafeAlloc (decide (fork.idx ≥ 3)) input gas then "unsafe-alloc"
        else if present && name == "blake2f" && decide (input.length = 213) && decide (beNat (input.take 4) > 2^20) &&
            decide (gas ≥ beNat (input.take 4)) then "unsafe-rounds"
        else
          let m := render (call cores fork addr input gas)
          match specReply name fork input gas with
          | some s => s!"{m} | spec={s}"
          | none => m
    | _, _, _, _ => "bad-op"
  | _ => "bad-op"

end Driver.Precompile
