import Driver.StateDb
import Revm.Spec.Prestate
/-! Line-protocol driver of the `prestate` (C19) component: the same operations as `statedb`, run on
two model States — left: over `D` with the preloaded bundle; right: over `merged D B` — and on the
reference started from `merged D B`. Formats: see `harness/src/c19.rs`. -/
namespace Driver.Prestate
open Revm Revm.Hex Revm.Model.StateDb Revm.Spec.Prestate Driver.StateDb

structure BAcct where
  addr : Addr
  status : Status
  info : Option Info
  orig : Option Info
  slots : List (Slot × Word × Word)

def infoOptOf (s : String) : Option (Option Info) :=
  if s == "none" then some none else
  match s.splitOn ":" with
  | ["i", b, n, h, c] =>
    match parseHex? b, parseHex? n, parseHex? h, codeOptOf c with
    | some b, some n, some h, some c => if n < U64 then some (some ⟨b, n, h, c⟩) else none
    | _, _, _, _ => none
  | _ => none

def bundleP : P (List BAcct × List (Nat × Code)) := do
  expectTok "BUNDLE"; let n ← numTok
  let accts ← rep n (do
    let a ← hexTok
    let st ← tok
    let i ← tok
    let o ← tok
    let m ← numTok
    let slots ← rep m (do let k ← hexTok; let o ← hexTok; let p ← hexTok; pure (k, o, p))
    match statusOf st, infoOptOf i, infoOptOf o with
    | some st, some i, some o => pure (⟨a, st, i, o, slots⟩ : BAcct)
    | _, _, _ => failure)
  expectTok "BCODES"; let n ← numTok
  let codes ← rep n (do
    let h ← hexTok; let b ← tok
    match parseBytes? b with
    | some b => pure (h, b)
    | none => failure)
  pure (accts, codes)

def bundleFn (l : List BAcct) : Addr → Option BundleAccount := fun a =>
  match l.reverse.find? (fun b => b.addr == a) with
  | none => none
  | some b => some { info := b.info, originalInfo := b.orig,
                     storage := fun k => lookupLast (b.slots.map (fun (k, o, p) => (k, (o, p)))) k,
                     status := b.status }

/-! decidable well-formedness checks over the finite data (gate of the Spec column only) -/
def infoOptEqB := Revm.Spec.Prestate.infoOptEq

def bundleAcctWfB (D E : Db) (known : Bool) (slotsOf : Addr → List Slot) (b : BAcct) : Bool :=
  let slotFn : Slot → Option (Word × Word) := fun k => lookupLast (b.slots.map (fun (k, o, p) => (k, (o, p)))) k
  let origOk := !(known && infoOptEqB b.info b.orig) || infoOptEqB b.info (D.basic b.addr)
  let shapeOk := match b.info with
    | none => b.status == .Destroyed || b.status == .DestroyedAgain || b.status == .LoadedNotExisting
    | some i =>
      let codeOk := match E.basic b.addr with
        | some j => resolveCode E.code i == resolveCode E.code j
        | none => true
      let listedOk := b.slots.all (fun e => match slotFn e.1 with
        | some (o, p) => !(known && o == p) || D.storage b.addr e.1 == p
        | none => true)
      -- InMemoryStorageZero over every slot the database lists for the address
      let imcOk := b.status != .InMemoryChange ||
        (slotsOf b.addr).all (fun k => (slotFn k).isSome || D.storage b.addr k == 0)
      wfInfoB i &&
      (b.status == .InMemoryChange || b.status == .Changed || b.status == .DestroyedChanged) &&
      (b.status != .Changed || !i.isEmpty) && codeOk &&
      (b.status.wasDestroyed || (listedOk && imcOk))
  origOk && shapeOk

def bundleWfB (D E : Db) (known : Bool) (accts : List BAcct) (slotsOf : Addr → List Slot) : Bool :=
  accts.all (bundleAcctWfB D E known slotsOf)

def dbOkB (E : Db) (addrs : List Addr) (slotsOf : Addr → List Slot) : Bool :=
  addrs.all (fun a => match E.basic a with
    | none => true
    | some i => wfInfoB i && (!i.hasNoCodeAndNonce || (slotsOf a).all (fun k => E.storage a k == 0)))

structure St where
  left : Option State := none
  right : Option State := none
  spec : Spec.StateDb.St := ⟨fun _ => none, fun _ => false⟩
  dbCode : Nat → Code := fun _ => []
  sc : Bool := true
  bu : Bool := false
  uniA : List Addr := []
  uniS : List Slot := []
  inRegion : Bool := false
  phase : Nat := 0
  region : String := ""

def St.init : St := {}

def beginCase (toks : List String) : St × String :=
  let p : P (Bool × Bool × Bool × String × World × List BAcct × List (Nat × Code)) := do
    let sc ← hexTok; let bu ← hexTok; let known ← hexTok; let region ← tok
    let w ← worldP; let b ← bundleP
    pure (sc == 1, bu == 1, known == 1, region, w, b.1, b.2)
  match p.run toks with
  | some ((sc, bu, known, region, w, baccts, bcodes), []) =>
    let D := w.db
    let B := bundleFn baccts
    let BC : Nat → Option Code := fun h => lookupLast bcodes h
    let E := merged D B BC known
    let addrs := w.accts.map (·.1) ++ baccts.map (·.addr)
    let slotsOf : Addr → List Slot := fun a =>
      w.uniS ++ ((w.accts.filter (fun x => x.1 == a)).flatMap (fun x => x.2.2.map (·.1))) ++
        ((baccts.filter (fun x => x.addr == a)).flatMap (fun x => x.slots.map (·.1)))
    let ok := w.hypB && !hasDup (baccts.map (·.addr)) && bundleWfB D E known baccts slotsOf &&
      dbOkB E addrs slotsOf &&
      bcodes.all (fun (h, c) => h != KECCAK_EMPTY || D.code h == c)
    ({ left := some (State.build D sc bu (some (B, BC))), right := some (State.build E sc bu none),
       spec := Spec.StateDb.St.init E, dbCode := E.code, sc := sc, bu := bu, uniA := w.uniA,
       uniS := w.uniS, inRegion := ok, phase := 1, region := region }, "ok")
  | _ => ({}, "bad-op")

/-- one side: reply string and new state (`none` after a panic) -/
def sideOp (s : State) (op : Op) (extra : String) : Option State × String :=
  match s.step op with
  | .error _ => (none, "panic")
  | .ok (s', r) => (some s', replyStr r ++ extra)

def commitExtra (s : State) (bu : Bool) (accts : List CommitAcct) : String :=
  let trs := match ({ s with transitions := some [] } : State).commit accts with
    | .ok s' => transitionsStr (s'.transitions.getD [])
    | .error _ => ""
  s!" ts={boolStr bu} {trs}"

def runBoth (st : St) (l r : State) (op : Op) (el er : String) (showSpecFor : Bool) : St × String :=
  let inR := st.inRegion && reachOpB st.sc st.spec op
  let sp := Spec.StateDb.step st.dbCode st.sc st.spec op
  let (l', ls) := sideOp l op el
  let (r', rs) := sideOp r op er
  let dead := l'.isNone || r'.isNone
  let m := s!"{ls} ~ {rs}"
  let specS := replyStr sp.2
  let out := if inR && showSpecFor && !dead then s!"{m} | spec={specS} ~ {specS}" else m
  ({ st with left := if dead then none else l', right := if dead then none else r', spec := sp.1,
             inRegion := inR && !dead, phase := if dead then 2 else 1 }, out)

def handle (st : St) (toks : List String) : St × String :=
  match toks with
  | "begin" :: "prestate" :: r => beginCase r
  | op :: r =>
    match st.left, st.right with
    | some l, some rt =>
      match op with
      | "basic" => match (hexTok).run r with
        | some (a, []) => runBoth st l rt (.basic a) "" "" true
        | _ => (st, "bad-op")
      | "storage" => match (do let a ← hexTok; let k ← hexTok; pure (a, k) : P _).run r with
        | some ((a, k), []) => runBoth st l rt (.storage a k) "" "" true
        | _ => (st, "bad-op")
      | "code" => match (hexTok).run r with
        | some (h, []) => runBoth st l rt (.code h) "" "" true
        | _ => (st, "bad-op")
      | "probe" =>
        if r != [] then (st, "bad-op") else
        match probeModel l st.uniA st.uniS, probeModel rt st.uniA st.uniS with
        | some a, some b =>
          let m := s!"{a} ~ {b}"
          let sp := probeSpec st.dbCode st.spec st.uniA st.uniS
          (st, if st.inRegion then s!"{m} | spec={sp} ~ {sp}" else m)
        | _, _ => ({ st with left := none, right := none, phase := 2 }, "panic")
      | "commit" => match commitP.run r with
        | some (accts, []) =>
          if hasDup (accts.map (·.addr)) then (st, "bad-op") else
          runBoth st l rt (.commit accts) (commitExtra l st.bu accts) (commitExtra rt st.bu accts) false
        | _ => (st, "bad-op")
      | "inc" => match (do let n ← numTok; rep n (do let a ← hexTok; let v ← hexTok; pure (a, v)) : P _).run r with
        | some (l', []) => if l'.any (fun x => x.2 ≥ U128) then (st, "bad-op") else runBoth st l rt (.inc l') "" "" false
        | _ => (st, "bad-op")
      | "drain" => match (do let n ← numTok; rep n hexTok : P _).run r with
        | some (l', []) => runBoth st l rt (.drain l') "" "" true
        | _ => (st, "bad-op")
      | "post" =>
        if r != [] then (st, "bad-op") else
        ({ st with left := none, right := none, phase := 2 },
          if st.region != "valid" then "post=skip" else if st.bu then "post=eq" else "post=na")
      | _ => (st, "bad-op")
    | _, _ => (st, if st.phase == 2 && op != "begin" then "dead" else "bad-op")
  | [] => (st, "bad-op")

end Driver.Prestate
