import Revm.Util.Hex
import Revm.Model.Frame
/-! Stateful driver for the frame machine model (C07): replays the event trace that the harness recorded
on the real EVM. Every request carries the observations the model cannot compute by itself (it is not a
whole EVM): balances / nonces / code class of the accounts the action looks at, the precompile lookup and
result class, the interpreter's result class. The driver writes those observations into its journal state
(`sync`, not journaled), runs `makeCallFrame` / `makeCreateFrame` / `makeEofCreateFrame` / the matching
`*Return` of `Revm.Model.Frame` on its own `Loop` state (own checkpoints, own journal, own depth), and replies
with the path taken and the depth before / after, exactly the format of the harness. -/
namespace Driver.Frame
open Revm Revm.Hex Revm.Model.Journal Revm.Model.Frame

structure St where
  l : Loop
  spec : Nat
  /-- addresses present in the journal state (to tabulate the state function) -/
  keys : List Addr
  /-- depth at the begin event of every open frame, innermost first -/
  begins : List Nat
  dead : Bool

def St.init : St :=
  { l := { js := JState.new 0 (fun _ => false), stack := [] }, spec := 0, keys := [], begins := [], dead := true }

def resName : IRes → String
  | .stop => "Stop" | .ret => "Return" | .returnContract => "ReturnContract"
  | .revert => "Revert" | .callTooDeep => "CallTooDeep" | .outOfFunds => "OutOfFunds"
  | .createInitCodeStartingEF00 => "CreateInitCodeStartingEF00" | .invalidEOFInitCode => "InvalidEOFInitCode"
  | .invalidExtDelegateCallTarget => "InvalidExtDelegateCallTarget"
  | .outOfGas => "OutOfGas" | .precompileOOG => "PrecompileOOG" | .precompileError => "PrecompileError"
  | .overflowPayment => "OverflowPayment" | .createCollision => "CreateCollision"
  | .createContractSizeLimit => "CreateContractSizeLimit" | .createContractStartingWithEF => "CreateContractStartingWithEF"
  | .otherOk => "ok" | .otherRevert => "revert" | .otherHalt => "halt"

/-- the outcome classes the property speaks about (the exact error kind is not compared) -/
def resClass : IRes → String
  | .stop | .ret | .returnContract | .otherOk => "ok"
  | .callTooDeep => "toodeep"
  | .outOfFunds | .overflowPayment => "valuefail"
  | .precompileOOG | .precompileError => "precompilefail"
  | .createCollision => "collision"
  | .invalidExtDelegateCallTarget | .createInitCodeStartingEF00 | .invalidEOFInitCode => "rejected"
  | _ => "other"

def mkDb (deleg : Option Addr) : Db :=
  { basic := fun _ => none, storage := fun _ _ => 0, delegate := fun _ => deleg }

/-- rebuild the state map as a table over the known addresses (keeps look-ups short; extensionally equal) -/
def tabulate (keys : List Addr) (js : JState) : JState :=
  let tbl := keys.filterMap fun a => (js.state a).map fun acc => (a, acc)
  { js with state := fun x => (tbl.find? (·.1 = x)).map (·.2) }

/-- write an observed balance / nonce / code hash into the journal state (not journaled) -/
def sync (st : St) (a : Addr) (bal : Nat) (nonce : Option Nat) (codeHash : Option Nat) : St :=
  let js := st.l.js
  let acc : Acct := match js.state a with
    | some acc => acc
    | none => Acct.ofInfo { balance := 0, nonce := 0, codeHash := KECCAK_EMPTY, code := none }
  let info := { acc.info with balance := bal, nonce := nonce.getD acc.info.nonce,
                              codeHash := codeHash.getD acc.info.codeHash }
  let js := setAcct js a { acc with info := info }
  let keys := if st.keys.contains a then st.keys else a :: st.keys
  { st with l := { st.l with js := js }, keys := keys }

def addKeys (st : St) (as : List Addr) : St :=
  { st with keys := as.foldl (fun ks a => if ks.contains a then ks else a :: ks) st.keys }

def fin (st : St) (l : Loop) : St := { st with l := { l with js := tabulate st.keys l.js } }

def kill (st : St) (msg : String) : St × String := ({ st with dead := true }, msg)

/-- after a `make_*_frame`: push the frame or keep the stack; reply -/
def afterMake (st : St) (d0 : Nat) (s : JState) (r : FrameOrResult) (mk : Checkpoint → Frame) : St × String :=
  match r with
  | .result res => (fin st { js := s, stack := st.l.stack }, s!"res {resClass res} d={d0}>{s.depth}")
  | .frame cp => (fin { st with begins := d0 :: st.begins } { js := s, stack := mk cp :: st.l.stack }, s!"frame d={d0}>{s.depth}")
  | .fatal => kill st "fatal"

def validSpec (n : Nat) : Bool := n ≤ 19 ∨ n = 255

def begin (toks : List String) : St × String :=
  match toks with
  | [spec, kind, seed, nscen, launch] =>
    match spec.toNat?, seed.toNat?, nscen.toNat?, launch.toNat? with
    | some spec, some _, some nscen, some launch =>
      if validSpec spec ∧ ["call", "create", "eoftx", "eofbad"].contains kind ∧ (!(kind.startsWith "eof") ∨ spec ≥ 19)
          ∧ nscen ≤ 400 ∧ launch ≤ 64 then
        ({ l := { js := JState.new spec (fun _ => false), stack := [] }, spec := spec, keys := [], begins := [], dead := false }, "ok")
      else (St.init, "bad-op")
    | _, _, _, _ => (St.init, "bad-op")
  | _ => (St.init, "bad-op")

/-- how deep the self-calling probe gets when it is launched by a frame `launch` levels below the
transaction frame: open the transaction frame and the forwarders, then nest until refused -/
def probeAnswer (spec launch : Nat) : Option Nat :=
  let db := mkDb none
  let inp : CallInputs := { caller := 1, target := 2, bytecodeAddr := 2, value := .transfer 0, isExtDelegate := false }
  let o : CallOracle := { precompile := none, codeIsEof := false, codeIsEmpty := false }
  let rec openN : Nat → JState → Option JState
    | 0, s => some s
    | n + 1, s => match makeCallFrame db s inp o with
      | some (s', .frame _) => openN n (tabulate [1, 2] s')
      | _ => none
  match openN (launch + 1) (JState.new spec (fun _ => false)) with
  | none => none
  | some s => nestUntilRefused db inp o 3000 s 0

def handle (st : St) (toks : List String) : St × String :=
  if st.dead then (st, "dead") else
  let nat := parseHex?
  match toks with
  | ["call", ext, vk, v, caller, target, baddr, cb, tb, pc, cc, deleg] =>
    match parseBool? ext, nat v, nat caller, nat target, nat baddr, nat cb, nat tb with
    | some ext, some v, some caller, some target, some baddr, some cb, some tb =>
      let value? : Option CallValue := if vk = "t" then some (.transfer v) else if vk = "a" then some (.apparent v) else none
      let pc? : Option (Option PrecompileOutcome) := match pc with
        | "n" => some none | "ok" => some (some .ok) | "oog" => some (some .errOog) | "err" => some (some .errOther) | _ => none
      let cc? : Option (Bool × Bool) := match cc with
        | "e" => some (false, true) | "f" => some (true, false) | "l" => some (false, false) | _ => none
      let deleg? : Option (Option Addr) := if deleg = "-" then some none else (nat deleg).map some
      match value?, pc?, cc?, deleg? with
      | some value, some pc, some (isEof, isEmpty), some deleg =>
        let st := sync st caller cb none none
        let st := sync st target tb none none
        let st := addKeys st ([baddr] ++ deleg.toList)
        let inp : CallInputs := { caller := caller, target := target, bytecodeAddr := baddr, value := value, isExtDelegate := ext }
        let o : CallOracle := { precompile := pc, codeIsEof := isEof, codeIsEmpty := isEmpty }
        let d0 := st.l.js.depth
        match makeCallFrame (mkDb deleg) st.l.js inp o with
        | none => kill st "panic"
        | some (s, r) => afterMake st d0 s r Frame.call
      | _, _, _, _ => (st, "bad-op")
    | _, _, _, _, _, _, _ => (st, "bad-op")
  | ["create", v, caller, cb, cn, ef00, created, ispc, hs, tb, tn, th] =>
    match nat v, nat caller, nat cb, nat cn, parseBool? ef00, nat created, parseBool? ispc, parseBool? hs, nat tb, nat tn, nat th with
    | some v, some caller, some cb, some cn, some ef00, some created, some ispc, some hs, some tb, some tn, some th =>
      let st := sync st created tb (some tn) (some th)
      let st := sync st caller cb (some cn) none
      let inp : CreateInputs := { caller := caller, value := v }
      let o : CreateOracle := { initStartsEF00 := ef00, createdAddr := fun _ => created, isPrecompile := fun _ => ispc, hasStorage := fun _ => hs }
      let d0 := st.l.js.depth
      match makeCreateFrame (mkDb none) st.l.js st.spec inp o with
      | none => kill st "panic"
      | some (s, r, a) => afterMake st d0 s r (Frame.create · a)
    | _, _, _, _, _, _, _, _, _, _, _ => (st, "bad-op")
  | ["eofcreate", kind, dec, val, v, caller, cb, cn, created, ispc, hs, tb, tn, th] =>
    match parseBool? dec, parseBool? val, nat v, nat caller, nat cb, nat cn, nat created, parseBool? ispc, parseBool? hs, nat tb, nat tn, nat th with
    | some dec, some val, some v, some caller, some cb, some cn, some created, some ispc, some hs, some tb, some tn, some th =>
      let kind? : Option EofCreateKind :=
        if kind = "o" then some (.opcode created) else if kind = "t" then some (.tx dec val (some created)) else none
      match kind? with
      | some kind =>
        let st := sync st created tb (some tn) (some th)
        let st := sync st caller cb (some cn) none
        let inp : CreateInputs := { caller := caller, value := v }
        let o : CreateOracle := { initStartsEF00 := false, createdAddr := fun _ => created, isPrecompile := fun _ => ispc, hasStorage := fun _ => hs }
        let d0 := st.l.js.depth
        match makeEofCreateFrame (mkDb none) st.l.js st.spec inp kind o with
        | none => kill st "panic"
        | some (s, r, a) => afterMake st d0 s r (Frame.eofcreate · a)
      | none => (st, "bad-op")
    | _, _, _, _, _, _, _, _, _, _, _, _ => (st, "bad-op")
  | ["ret", ok, ef, over, dep, rc, ch] =>
    match parseBool? ok, parseBool? ef, parseBool? over, parseBool? dep, parseBool? rc, nat ch with
    | some ok, some ef, some over, some dep, some rc, some ch =>
      match st.l.stack, st.begins with
      | f :: rest, b0 :: brest =>
        let d0 := st.l.js.depth
        let out : Option (JState × String × String) := match f with
          | .call cp => (callReturn st.l.js cp ok).map fun s => (s, "c", if ok then "ok" else "fail")
          | .create cp a =>
            (createReturn st.l.js st.spec cp a { resultOk := ok, firstByteEF := ef, lenOverMax := over, depositOk := dep, codeHash := ch }).map
              fun (s, r) => (s, "k", if r.isOk then "ok" else "fail")
          | .eofcreate cp a =>
            (eofcreateReturn st.l.js cp a { isReturnContract := rc, lenOverMax := over, depositOk := dep, decodes := true, codeHash := ch }).map
              fun (s, r) => (s, "e", if r.isOk then "ok" else "fail")
        match out with
        | none => kill st "panic"
        | some (s, k, cls) =>
          (fin { st with begins := brest } { js := s, stack := rest },
           s!"ret {k} {cls} d={d0}>{s.depth} neutral={boolStr (s.depth == b0)}")
      | _, _ => kill st "panic"
    | _, _, _, _, _, _ => (st, "bad-op")
  | ["probe", launch] =>
    match launch.toNat? with
    | some launch => if launch ≤ 64 then
        match probeAnswer st.spec launch with
        | some n => (st, toString n)
        | none => (st, "panic")
      else (st, "bad-op")
    | none => (st, "bad-op")
  | ["end"] => (st, s!"depth={st.l.js.depth} open={st.l.stack.length}")
  | _ => (st, "bad-op")

end Driver.Frame
