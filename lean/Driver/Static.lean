import Revm.Util.Hex
import Revm.Model.Static
/-! Component `static` (C10).

`static instr <spec> <eof> <op> <gas> <stack top-first csv | ->` → `<result> mut=<0|1> act=<…>`
   one instruction in an interpreter with `is_static = true` (`Model.Static.stepStatic`).

`static tx <spec> <entry> <schemes csv | -> <lvl> <op> <prefixes>` → `out=<word> open=0 fr=<frames>`
(`static etx …`: the same with EOF containers and EXT*CALL, OSAKA on)
   the harness runs a transaction entry → L1 → … → Lk (`entry` = static | call, then one scheme per deeper
   level) in which level `lvl` attempts `op`; frames are listed in `call_end` order as
   `scheme:is_static:result:state`. The expected reply is computed from the model: `childIsStatic` gives every
   frame's flag, `guardResult` / `stepStatic` the result of the attempt, and every static frame is predicted
   `e` (world state at `call_end` = world state at `call`: `Props.C10.static_frame_state_equal`). The benign
   prefixes only exercise warm/cold status and touch marks; the model does not look at them. -/
namespace Driver.Static
open Revm Revm.Hex Revm.Model.Static

def validSpec (s : Nat) : Bool := s ≤ 19 || s = 255

def instrOps : List Nat :=
  [0x55, 0x5d, 0xa0, 0xa1, 0xa2, 0xa3, 0xa4, 0xf0, 0xf5, 0xff, 0xec, 0xf1, 0xf2, 0xf4, 0xfa, 0xf8, 0xf9, 0xfb]

def small (w : Nat) : Bool := w ≤ 4096

/-- mirror of `instr_in_domain` in harness/src/c10.rs -/
def inDomain (op : Nat) (eof : Bool) (gas : Nat) (st : List Nat) : Bool :=
  if op = 0xf1 ∨ op = 0xf2 then
    if st.length < 3 then true
    else if op = 0xf1 ∧ st.getD 2 0 ≠ 0 then true
    else decide (st.length ≥ 7) && decide (gas ≥ 1000000) && decide (st.getD 0 0 ≤ 10000) && ((st.drop 3).take 4).all small
  else if op = 0xf4 ∨ op = 0xfa then
    decide (st.length ≥ 6) && decide (gas ≥ 1000000) && decide (st.getD 0 0 ≤ 10000) && ((st.drop 2).take 4).all small
  else if op = 0xf8 then
    if !eof || st.isEmpty then true
    else if st.getD 0 0 ≥ 2 ^ 160 then true
    else if st.length < 3 then true
    else if !(small (st.getD 1 0) && small (st.getD 2 0)) then false
    else if st.length < 4 then true
    else decide (st.getD 3 0 ≠ 0) || decide (gas ≥ 1000000)
  else if op = 0xf9 ∨ op = 0xfb then
    if !eof || st.isEmpty then true
    else if st.getD 0 0 ≥ 2 ^ 160 then true
    else decide (st.length ≥ 3) && small (st.getD 1 0) && small (st.getD 2 0) && decide (gas ≥ 1000000)
  else true

def parseWords (s : String) : Option (List Nat) :=
  if s = "-" then some [] else
  (s.splitOn ",").foldr (fun x acc => match parseHex? x, acc with
    | some w, some l => if w < W then some (w :: l) else none
    | _, _ => none) (some [])

def actStr : Option Act → String
  | none => "none"
  | some a => s!"call:{a.scheme.name}:static={boolStr a.childStatic}:value0={boolStr a.valueZero}"

def handleInstr (t : List String) : String :=
  match t with
  | [spec, eof, op, gas, stack] =>
    match spec.toNat?, parseBool? eof, op.toNat?, gas.toNat?, parseWords stack with
    | some spec, some eof, some op, some gas, some st =>
      if !validSpec spec || gas ≥ U64 || !instrOps.contains op || st.length > 20 then "bad-op" else
      if !inDomain op eof gas st then "out-of-domain" else
      match stepStatic spec eof op gas st with
      | none => "unmodelled"
      | some o =>
        -- `mut=` is the host record: the model has no static-mode branch that reaches a mutating host call
        s!"{o.res.name} mut=0 act={actStr o.act}"
    | _, _, _, _, _ => "bad-op"
  | _ => "bad-op"

/-! ### transactions -/

def schemeToks : List String := ["call", "callcode0", "callcodev", "delegate", "static"]
def opToks : List String :=
  ["none", "sstore", "sstoresame", "tstore", "log0", "log1", "log2", "log3", "log4", "create", "create2",
   "selfdestruct", "callvalue", "sload", "balance", "call0", "callpre", "callcodev", "tload", "extcodehash"]

def xschemeToks : List String := ["xcall", "xdelegate", "xstatic"]
def xopToks : List String :=
  ["none", "sstore", "sstoresame", "tstore", "log0", "log1", "log2", "log3", "log4", "eofcreate", "xcallvalue",
   "sload", "tload", "balance", "xcall0", "xcallpre"]

def schemeOfTok (s : String) : Scheme :=
  if s = "call" then .call else if s = "callcode0" ∨ s = "callcodev" then .callCode
  else if s = "delegate" then .delegateCall else if s = "xcall" then .extCall
  else if s = "xdelegate" then .extDelegateCall else if s = "xstatic" then .extStaticCall else .staticCall

def frameStr (name : String) (st : Bool) (res : String) (changed : Bool) : String :=
  s!"{name}:{boolStr st}:{res}:{if st then "e" else if changed then "c" else "u"}"

inductive Att
  | halt (res : String)
  | selfdestruct
  | cont (extra : List String) (changed : Bool)

/-- opcode of a guarded attempt -/
def guardedOpcode (op : String) : Option Nat :=
  if op = "sstore" ∨ op = "sstoresame" then some 0x55 else if op = "tstore" then some 0x5d
  else if op = "log0" then some 0xa0 else if op = "log1" then some 0xa1 else if op = "log2" then some 0xa2
  else if op = "log3" then some 0xa3 else if op = "log4" then some 0xa4
  else if op = "create" then some 0xf0 else if op = "create2" then some 0xf5
  else if op = "selfdestruct" then some 0xff else if op = "eofcreate" then some 0xec else none

/-- what the attempted operation does to its frame: in a static frame the model's guard decides; in a
non-static frame the operation is performed (`changed` = it changes the world state) -/
def attempt (spec : Nat) (eof : Bool) (st : Bool) (op : String) : Att :=
  match guardedOpcode op with
  | some opc =>
    if st then .halt (guardResult spec eof opc).name
    else if op = "tstore" ∧ !enabled spec CANCUN then .halt "NotActivated"
    else if op = "create2" ∧ !enabled spec PETERSBURG then .halt "NotActivated"
    else if op = "selfdestruct" then .selfdestruct
    else if op = "create" ∨ op = "create2" then .cont ["Create:0:Return:c"] true
    else if op = "eofcreate" then .cont ["EofCreate:0:ReturnContract:c"] true
    else .cont [] (op ≠ "sstoresame")
  | none =>
    if op = "callvalue" then
      if st then
        match stepStatic spec false 0xf1 0 [0, 0xb0, 1] with
        | some o => .halt o.res.name
        | none => .halt "unmodelled"
      else .cont [frameStr "Call" false "Stop" true] true
    else if op = "xcallvalue" then
      if st then
        match stepStatic spec true 0xf8 0 [0xb0, 0, 0, 1] with
        | some o => .halt o.res.name
        | none => .halt "unmodelled"
      else .cont [frameStr "ExtCall" false "Stop" true] true
    else if op = "xcall0" then .cont [frameStr "ExtCall" (childIsStatic .extCall st) "Stop" false] false
    else if op = "xcallpre" then .cont [frameStr "ExtCall" (childIsStatic .extCall st) "Return" false] false
    else if op = "tload" ∧ !enabled spec CANCUN then .halt "NotActivated"
    else if op = "extcodehash" ∧ !enabled spec CONSTANTINOPLE then .halt "NotActivated"
    else if op = "call0" then .cont [frameStr "Call" (childIsStatic .call st) "Stop" false] false
    else if op = "callpre" then .cont [frameStr "Call" (childIsStatic .call st) "Return" false] false
    else if op = "callcodev" then .cont [frameStr "CallCode" (childIsStatic .callCode st) "Stop" false] false
    else .cont [] false

structure Sim where
  frames : List String
  ok : Bool
  res : String
  r : Nat
  changed : Bool

/-- level `i` (0 = entry contract) reached by a call named `name` with static flag `st`; `rest` = the schemes
by which the deeper levels are called -/
def simLevel (spec : Nat) (eof : Bool) (lvl : Nat) (op : String) : Nat → String → Bool → List String → Sim
  | i, name, st, rest =>
    let att := if i = lvl then attempt spec eof st op else .cont [] false
    match att with
    | .halt res => { frames := [frameStr name st res false], ok := false, res := res, r := 0, changed := false }
    | .selfdestruct =>
      { frames := [frameStr name st "SelfDestruct" true], ok := true, res := "SelfDestruct", r := 0, changed := true }
    | .cont extra ch =>
      match rest with
      | [] => { frames := extra ++ [frameStr name st "Return" ch], ok := true, res := "Return", r := 1, changed := ch }
      | sch :: rest' =>
        if (sch = "static" ∧ !enabled spec BYZANTIUM) ∨ (sch = "delegate" ∧ !enabled spec HOMESTEAD) then
          { frames := extra ++ [frameStr name st "NotActivated" false], ok := false, res := "NotActivated", r := 0,
            changed := false }
        else
          let scheme := schemeOfTok sch
          let child := simLevel spec eof lvl op (i + 1) scheme.name (childIsStatic scheme st) rest'
          let ch' := ch || (child.ok && child.changed)
          { frames := extra ++ child.frames ++ [frameStr name st "Return" ch'], ok := true, res := "Return",
            r := 1 + 2 * child.ok.toNat + 4 * child.r, changed := ch' }

def handleTx (t : List String) : String :=
  match t with
  | [spec, entry, schemes, lvl, op, prefixes] =>
    match spec.toNat?, lvl.toNat? with
    | some spec, some lvl =>
      let schemes := if schemes = "-" then [] else schemes.splitOn ","
      let k := schemes.length + 1
      let pres := prefixes.splitOn "/"
      if !validSpec spec || spec < TANGERINE || !(entry = "static" || entry = "call") then "bad-op" else
      if schemes.length > 3 || !schemes.all schemeToks.contains then "bad-op" else
      if lvl > k || !opToks.contains op || (decide (lvl = 0) != decide (op = "none")) then "bad-op" else
      if pres.length ≠ k + 1 || !pres.all (fun p => (parseBytes? p).isSome) then "bad-op" else
      let s := simLevel spec false lvl op 0 "Call" false (entry :: schemes)
      let out := if s.ok then toHex s.r else s!"halt:{s.res}"
      s!"out={out} open=0 fr={",".intercalate s.frames}"
    | _, _ => "bad-op"
  | _ => "bad-op"

/-- the EOF counterpart: EXTCALL / EXTDELEGATECALL / EXTSTATICCALL between EOF containers under OSAKA -/
def handleEtx (t : List String) : String :=
  match t with
  | [spec, entry, schemes, lvl, op, prefixes] =>
    match spec.toNat?, lvl.toNat? with
    | some spec, some lvl =>
      let schemes := if schemes = "-" then [] else schemes.splitOn ","
      let k := schemes.length + 1
      let pres := prefixes.splitOn "/"
      if !validSpec spec || spec < OSAKA || !(entry = "xstatic" || entry = "xcall") then "bad-op" else
      if schemes.length > 3 || !schemes.all xschemeToks.contains then "bad-op" else
      if lvl > k || !xopToks.contains op || (decide (lvl = 0) != decide (op = "none")) then "bad-op" else
      if pres.length ≠ k + 1 || !pres.all (fun p => (parseBytes? p).isSome) then "bad-op" else
      let s := simLevel spec true lvl op 0 "Call" false (entry :: schemes)
      let out := if s.ok then toHex s.r else s!"halt:{s.res}"
      s!"out={out} open=0 fr={",".intercalate s.frames}"
    | _, _ => "bad-op"
  | _ => "bad-op"

def handle (t : List String) : String :=
  match t with
  | "instr" :: r => handleInstr r
  | "tx" :: r => handleTx r
  | "etx" :: r => handleEtx r
  | _ => "bad-op"

end Driver.Static
