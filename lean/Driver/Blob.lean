import Revm.Util.Hex
import Revm.Model.Blob
import Revm.Spec.Blob
/-! Driver of component `blob` (C32). All numbers decimal.

* `blob fakeexp <factor> <numerator> <denominator>` → `<u128>` | `panic`
* `blob price <excess> <is_prague>`                → `<u128>`
* `blob excess <parent_excess> <parent_used> <target>` → `<u64>`
* `blob new <excess> <is_prague>`                  → `<excess> <price> <get_excess> <get_price>`
* `blob parent <parent_excess> <parent_used> <target> <is_prague>` → `<excess> <price>`

The model is the repaired `utilities.rs` (U256 intermediates, saturation). A `| spec=` column is
printed on **every** line whose denominator is non-zero: the EIP-4844 value over unbounded integers
clamped to the return type (`Spec.fakeExpSat` = `min r (2^128−1)` by `Props.C32.spec_column_eq`;
`min(max(0,a+b−t), 2^64−1)` for the excess). A re-introduced wrap therefore shows up as
implementation ≠ spec. No line is refused any more: with saturation the loop ends after a few
hundred iterations for every argument. -/
namespace Driver.Blob
open Revm Revm.Hex Revm.Model.Blob

def FUEL : Nat := 100000

def num? (s : String) : Option Nat := if s.isEmpty then none else s.toNat?

def showRes : Option (Res Nat) → String
  | none => "fuel"
  | some .panic => "panic"
  | some (.ok v) => toString v

def specPrice (f n d : Nat) : Option Nat := Spec.Blob.fakeExpSat FUEL f n d

def fakeexp (f n d : Nat) : String :=
  let m := showRes (fakeExponential FUEL f n d)
  if d ≠ 0 then
    match specPrice f n d with
    | some r => s!"{m} | spec={r}"
    | none => m
  else m

def frac (p : Bool) : Nat :=
  if p then BLOB_BASE_FEE_UPDATE_FRACTION_ELECTRA else BLOB_BASE_FEE_UPDATE_FRACTION_CANCUN

def specExcess (a b t : Nat) : Int := Spec.Blob.excessBlobGasClamped a b t

/-- `<excess> <price>` of the model and of the spec for `new` / `from_parent_and_target` -/
def pair (e : Nat) (se : Int) (p : Bool) (dup : Bool) : String :=
  match BlobExcessGasAndPrice.new FUEL e p with
  | none => "fuel"
  | some .panic => "panic"
  | some (.ok v) =>
    let m := if dup then s!"{v.excessBlobGas} {v.blobGasprice} {v.excessBlobGas} {v.blobGasprice}"
             else s!"{v.excessBlobGas} {v.blobGasprice}"
    match specPrice MIN_BLOB_GASPRICE se.toNat (Spec.Blob.fraction p) with
    | some r => if dup then s!"{m} | spec={se} {r} {se} {r}" else s!"{m} | spec={se} {r}"
    | none => m

def handle (toks : List String) : String :=
  match toks with
  | ["fakeexp", f, n, d] =>
    (match num? f, num? n, num? d with
     | some f, some n, some d => if f < U64 ∧ n < U64 ∧ d < U64 then fakeexp f n d else "bad-op"
     | _, _, _ => "bad-op")
  | ["price", e, p] =>
    (match num? e, parseBool? p with
     | some e, some p =>
       if e < U64 then
         let m := showRes (calcBlobGasprice FUEL e p)
         match specPrice 1 e (Spec.Blob.fraction p) with
         | some r => s!"{m} | spec={r}"
         | none => m
       else "bad-op"
     | _, _ => "bad-op")
  | ["excess", a, b, t] =>
    (match num? a, num? b, num? t with
     | some a, some b, some t =>
       if a < U64 ∧ b < U64 ∧ t < U64 then
         s!"{calcExcessBlobGas a b t} | spec={specExcess a b t}"
       else "bad-op"
     | _, _, _ => "bad-op")
  | ["new", e, p] =>
    (match num? e, parseBool? p with
     | some e, some p => if e < U64 then pair e (e : Int) p true else "bad-op"
     | _, _ => "bad-op")
  | ["parent", a, b, t, p] =>
    (match num? a, num? b, num? t, parseBool? p with
     | some a, some b, some t, some p =>
       if a < U64 ∧ b < U64 ∧ t < U64 then
         pair (calcExcessBlobGas a b t) (specExcess a b t) p false
       else "bad-op"
     | _, _, _, _ => "bad-op")
  | _ => "bad-op"

end Driver.Blob
