import Revm.Util.Hex
import Revm.Model.Blob
import Revm.Spec.Blob
/-! Driver of component `blob` (C32). All numbers decimal.

* `blob fakeexp <factor> <numerator> <denominator>` → `<u128>` | `panic`
* `blob price <excess> <is_prague>`                → `<u128>` | `panic`
* `blob excess <parent_excess> <parent_used> <target>` → `<u64>`
* `blob new <excess> <is_prague>`                  → `<excess> <price> <get_excess> <get_price>` | `panic`
* `blob parent <parent_excess> <parent_used> <target> <is_prague>` → `<excess> <price>` | `panic`

The model is the **release** profile (`wrap = true`), the profile the harness is built with.
A `| spec=` column (EIP-4844 over unbounded integers) is printed exactly when the theorem's domain
hypothesis holds (`fitsFuel`, resp. `a + b < 2^64`); outside it the model still predicts the code
(the wrapped value) and the Spec column is withheld because the code is known to differ (C32 finding).
`too-long`: numerator / denominator > 20000 — the Rust loop would run for too many iterations; both
sides refuse such a line by the same rule. -/
namespace Driver.Blob
open Revm Revm.Hex Revm.Model.Blob

def FUEL : Nat := 100000
def RATIO_LIMIT : Nat := 20000

def tooLong (n d : Nat) : Bool := d ≠ 0 && n / d > RATIO_LIMIT

def num? (s : String) : Option Nat := if s.isEmpty then none else s.toNat?

def showRes : Option (Res Nat) → String
  | none => "fuel"
  | some .panic => "panic"
  | some (.ok v) => toString v

def fakeexp (f n d : Nat) : String :=
  if tooLong n d then "too-long" else
  let m := showRes (fakeExponential true FUEL f n d)
  if d ≠ 0 ∧ Spec.Blob.fitsFuel FUEL f n d then
    match Spec.Blob.fakeExpFuel FUEL f n d with
    | some r => s!"{m} | spec={r}"
    | none => m
  else m

def frac (p : Bool) : Nat :=
  if p then BLOB_BASE_FEE_UPDATE_FRACTION_ELECTRA else BLOB_BASE_FEE_UPDATE_FRACTION_CANCUN

def showPair : Option (Res BlobExcessGasAndPrice) → String
  | none => "fuel"
  | some .panic => "panic"
  | some (.ok v) => s!"{v.excessBlobGas} {v.blobGasprice}"

def handle (toks : List String) : String :=
  match toks with
  | ["fakeexp", f, n, d] =>
    (match num? f, num? n, num? d with
     | some f, some n, some d => if f < U64 ∧ n < U64 ∧ d < U64 then fakeexp f n d else "bad-op"
     | _, _, _ => "bad-op")
  | ["price", e, p] =>
    (match num? e, parseBool? p with
     | some e, some p => if e < U64 then fakeexp MIN_BLOB_GASPRICE e (frac p) else "bad-op"
     | _, _ => "bad-op")
  | ["excess", a, b, t] =>
    (match num? a, num? b, num? t with
     | some a, some b, some t =>
       if a < U64 ∧ b < U64 ∧ t < U64 then
         match calcExcessBlobGas true a b t with
         | .ok v => if a + b < U64 then s!"{v} | spec={Spec.Blob.excessBlobGas a b t}" else toString v
         | .panic => "panic"
       else "bad-op"
     | _, _, _ => "bad-op")
  | ["new", e, p] =>
    (match num? e, parseBool? p with
     | some e, some p =>
       if e < U64 then
         if tooLong e (frac p) then "too-long" else
         match BlobExcessGasAndPrice.new true FUEL e p with
         | some (.ok v) => s!"{v.excessBlobGas} {v.blobGasprice} {v.excessBlobGas} {v.blobGasprice}"
         | r => showPair r
       else "bad-op"
     | _, _ => "bad-op")
  | ["parent", a, b, t, p] =>
    (match num? a, num? b, num? t, parseBool? p with
     | some a, some b, some t, some p =>
       if a < U64 ∧ b < U64 ∧ t < U64 then
         match calcExcessBlobGas true a b t with
         | .panic => "panic"
         | .ok e =>
           if tooLong e (frac p) then "too-long" else
           showPair (BlobExcessGasAndPrice.fromParentAndTarget true FUEL a b t p)
       else "bad-op"
     | _, _, _, _ => "bad-op")
  | _ => "bad-op"

end Driver.Blob
