import Revm.Util.Hex
import Revm.Model.Eof
import Revm.Model.EofValidate
/-! Line-protocol driver of component `eof` (C26). Request / reply formats: see
`harness/src/c26.rs`. -/
namespace Driver.Eof
open Revm.Hex Revm.Model.Eof Revm.Model.EofValidate

def list {α : Type} (xs : List α) (f : α → String) : String :=
  if xs.isEmpty then "_" else ",".intercalate (xs.map f)

def summary (e : Eof) (input : List Nat) : String :=
  let h := e.header
  let b := e.body
  let rt := e.encodeSlow == input && e.raw == input
  s!"hs={h.size} bs={h.bodySize} ts={h.typesSize} cs={list h.codeSizes toString} " ++
  s!"ks={list h.containerSizes toString} ds={h.dataSize} sc={h.sumCodeSizes} " ++
  s!"sk={h.sumContainerSizes} " ++
  s!"types={list b.typesSection (fun t => s!"{t.inputs}.{t.outputs}.{t.maxStackSize}")} " ++
  s!"code={list b.codeSection bytesToHex} cont={list b.containerSection bytesToHex} " ++
  s!"data={bytesToHex b.dataSection} filled={boolStr b.isDataFilled} rt={boolStr rt}"

def mode? : String → Option (Option CodeType)
  | "rc" => some (some .ReturnContract)
  | "rs" => some (some .ReturnOrStop)
  | "none" => some none
  | _ => none

def parseTypes? (s : String) : Option (List TypesSection) :=
  if s = "_" then some [] else
  (s.splitOn ",").mapM fun t =>
    match (t.splitOn ".").map String.toNat? with
    | [some i, some o, some m] =>
      -- the Rust fields are u8 / u8 / u16
      if i < 256 ∧ o < 256 ∧ m < 65536 then some { inputs := i, outputs := o, maxStackSize := m }
      else none
    | _ => none

def parseList? (s : String) : Option (List (List Nat)) :=
  if s = "_" then some [] else (s.splitOn ",").mapM parseBytes?

def handle (toks : List String) : String :=
  match toks with
  | ["decode", hex] =>
    match parseBytes? hex with
    | none => "bad-op"
    | some bs =>
      match Eof.decode bs with
      | .ok e => "ok " ++ summary e bs
      | .err e => "err " ++ e.name
      | .panic => "panic"
  | ["dangling", hex] =>
    match parseBytes? hex with
    | none => "bad-op"
    | some bs =>
      match Eof.decodeDangling bs with
      | .ok (e, d) =>
        let pre := bs.take (bs.length - d.length)
        "ok " ++ summary e pre ++ s!" dangling={bytesToHex d} joined={boolStr (e.encodeSlow ++ d == bs)}"
      | .err e => "err " ++ e.name
      | .panic => "panic"
  | ["build", types, codes, conts, data] =>
    match parseTypes? types, parseList? codes, parseList? conts, parseBytes? data with
    | some types, some codes, some conts, some data =>
      let body : Body := { typesSection := types, codeSection := codes, containerSection := conts,
                           dataSection := data, isDataFilled := true }
      let eof := body.intoEof
      let dec := match Eof.decode eof.raw with
        | .ok d => s!"ok same={boolStr (d == eof)}"
        | .err e => "err " ++ e.name
        | .panic => "panic"
      s!"raw={bytesToHex eof.raw} dec={dec}"
    | _, _, _, _ => "bad-op"
  | ["validate", m, hex] =>
    match mode? m, parseBytes? hex with
    | some m, some bs =>
      match validateRawEofInner bs m with
      | .ok _ => "ok det=1"
      | .err e => s!"err {e.name} det=1"
      | .panic => "panic"
    | _, _ => "bad-op"
  | ["exec", m, hex] =>
    match mode? m, parseBytes? hex with
    | some m, some bs =>
      -- the model predicts acceptance; C26's last sentence says: then execution never panics
      match validateRawEofInner bs m with
      | .ok _ => "acc=1 safe"
      | .err _ => "acc=0 safe"
      | .panic => "panic"
    | _, _ => "bad-op"
  | _ => "bad-op"

end Driver.Eof
