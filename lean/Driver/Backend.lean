import Revm.Util.Hex
import Revm.Model.Backend
/-! Line protocol of component `backend` (C24).
request: `backend ecrecover <gas> <input hex> <claim>`   claim: output bytes a back end produced (`-` empty, `x` none)
         `backend kzg <gas> <input hex> <claim>`         claim: `1` / `0` verdict of a library's pairing check, `x` not reached
reply:   `ok <gas_used> <output hex>` | `err <PrecompileError>` | `panic`
The model decides every gate itself (gas, padding, v, r/s range, r liftable, length, versioned hash,
canonical field elements); the claim is used only where the group arithmetic is a parameter. A claim
that is not a possible output (not empty and not 12 zero bytes + 20 bytes) is answered with
`inconsistent-claim`, which no implementation reply equals. -/
namespace Driver.Backend
open Revm Revm.Hex Revm.Model.Backend

def errStr : PErr → String
  | .OutOfGas => "OutOfGas"
  | .BlobInvalidInputLength => "BlobInvalidInputLength"
  | .BlobMismatchedVersion => "BlobMismatchedVersion"
  | .BlobVerifyKzgProofFailed => "BlobVerifyKzgProofFailed"

def replyStr : Reply → String
  | .ok g out => s!"ok {g} {bytesToHex out}"
  | .err e => s!"err {errStr e}"
  | .panic => "panic"

def claimOk (c : List Nat) : Bool :=
  c.isEmpty || (c.length == 32 && (c.take 12).all (· == 0))

def handle : List String → String
  | ["ecrecover", gas, inp, claim] =>
    match gas.toNat?, parseBytes? inp, (if claim = "x" then some [] else parseBytes? claim) with
    | some g, some bs, some c =>
      if g ≥ 2^64 then "bad-op" else
      if claimOk c then replyStr (ecRecoverRun (oracleCore c) bs g) else "inconsistent-claim"
    | _, _, _ => "bad-op"
  | ["kzg", gas, inp, claim] =>
    match gas.toNat?, parseBytes? inp with
    | some g, some bs =>
      if g ≥ 2^64 then "bad-op" else
      if claim = "1" ∨ claim = "0" ∨ claim = "x" then
        replyStr (kzgRun (libVerify (fun _ _ _ _ => claim == "1")) bs g)
      else "bad-op"
    | _, _ => "bad-op"
  | _ => "bad-op"

end Driver.Backend
