import Revm.Util.Hex
import Revm.Model.OpFees
import Revm.Spec.OpFees
/-! Driver of the components `opfee` (pure functions of `l1block.rs` / `fast_lz.rs`) and `optx` (whole
transactions through the Optimism handler), property C33. Formats: see `harness/src/c33.rs`.

`optx` lines carry a `| spec=` column whenever the transaction lies in the domain of the closed-form fee
equations `Spec.OpFees.expected?` (validated regular transactions whose credits fit, deposits with gas price 0
outside finding F2; decided by `Spec.OpFees.inDomain*`); there the check is three-way
implementation = model = closed form. (The theorems of `Props/C33.lean` prove the credits and the conservation
identity of the model; equality of the whole model reply with the closed form is checked differentially.) -/
namespace Driver.OpFees
open Revm Revm.Hex Revm.Model.OpFees

def word? (s : String) : Option Nat :=
  if s.length > 64 ∨ s.any Char.isUpper then none
  else match parseHex? s with
    | some n => if n < W then some n else none
    | none => none

def optWord? (s : String) : Option (Option Nat) :=
  if s = "n" then some none else (word? s).map some

def dec? (s : String) : Option Nat :=
  if s.isEmpty ∨ !s.all Char.isDigit then none
  else match s.toNat? with
    | some n => if n < U64 then some n else none
    | none => none

def i64? (s : String) : Option Int :=
  let neg := s.startsWith "-"
  let body := if neg then (s.drop 1).toString else s
  if body.isEmpty ∨ !body.all Char.isDigit then none
  else match body.toNat? with
    | some n =>
      let v : Int := if neg then -(n : Int) else n
      if Revm.Model.Gas.I64MIN ≤ v ∧ v ≤ Revm.Model.Gas.I64MAX then some v else none
    | none => none

def bytes? (s : String) : Option (List Nat) :=
  if s.any Char.isUpper then none else parseBytes? s

def opSpecs : List Nat := [16, 17, 19, 21, 22, 23, 24, 27, 255]

def spec? (s : String) : Option Nat :=
  match dec? s with
  | some n => if opSpecs.contains n then some n else none
  | none => none

def ow (o : Option Nat) : String := match o with | some v => toHex v | none => "n"

def slots? (t : List String) : Option Slots :=
  match t.mapM word? with
  | some [a, b, c, d, e, f] => some { s1 := a, s5 := b, s6 := c, s7 := d, s3 := e, s8 := f }
  | _ => none

def handleOpfee (t : List String) : String :=
  match t with
  | "fetch" :: sp :: rest =>
    (match spec? sp, slots? rest with
     | some spec, some s =>
       let i := tryFetch s spec
       s!"{toHex i.l1BaseFee} {ow i.l1FeeOverhead} {toHex i.l1BaseFeeScalar} {ow i.l1BlobBaseFee} {ow i.l1BlobBaseFeeScalar} {ow i.operatorFeeScalar} {ow i.operatorFeeConstant}"
     | _, _ => "bad-op")
  | ["l1", sp, a, b, c, d, e, f, inp] =>
    (match spec? sp, slots? [a, b, c, d, e, f], bytes? inp with
     | some spec, some s, some input =>
       let i := tryFetch s spec
       let (c1, i1) := calculateTxL1Cost i input spec
       let g := dataGas input spec
       let (c2, _) := calculateTxL1Cost i1 (List.replicate 40 255) spec
       s!"{toHex c1} {toHex g} {toHex c2}"
     | _, _, _ => "bad-op")
  | ["direct", sp, bf, ov, bs, bbf, bbs, inp] =>
    (match spec? sp, word? bf, optWord? ov, word? bs, optWord? bbf, optWord? bbs, bytes? inp with
     | some spec, some bf, some ov, some bs, some bbf, some bbs, some input =>
       let i : L1Info := { L1Info.default with l1BaseFee := bf, l1FeeOverhead := ov, l1BaseFeeScalar := bs, l1BlobBaseFee := bbf, l1BlobBaseFeeScalar := bbs }
       let (c1, _) := calculateTxL1Cost i input spec
       s!"{toHex c1} {toHex (dataGas input spec)}"
     | _, _, _, _, _, _, _ => "bad-op")
  | ["charge", sp, sc, co, g] =>
    (match spec? sp, optWord? sc, optWord? co, word? g with
     | some spec, some sc, some co, some g =>
       let i : L1Info := { L1Info.default with operatorFeeScalar := sc, operatorFeeConstant := co }
       (match operatorFeeCharge i g spec with | some v => toHex v | none => "panic")
     | _, _, _, _ => "bad-op")
  | ["refund", sp, sc, co, lim, rem, rf] =>
    (match spec? sp, optWord? sc, optWord? co, dec? lim, dec? rem, i64? rf with
     | some spec, some sc, some co, some lim, some rem, some rf =>
       if rem > lim then "bad-op" else
       let i : L1Info := { L1Info.default with operatorFeeScalar := sc, operatorFeeConstant := co }
       -- Gas::new(limit); record_cost(limit - remaining); record_refund(refunded)
       let g : Revm.Model.Gas.Gas := Revm.Model.Gas.recordRefund { limit := lim, remaining := rem, refunded := 0 } rf
       (match operatorFeeRefund i g spec with | some v => toHex v | none => "panic")
     | _, _, _, _, _, _ => "bad-op")
  | _ => "bad-op"

def SENDER : Nat := 0x51
def COINBASE : Nat := 0xCB
def CALLEE : Nat := 0x70
/-- stands for `sender.create(nonce)` (only its being different from the other five addresses matters) -/
def CREATED : Nat := 0xC0DE

structure Parsed where
  tx : Tx
  slots : Slots
  pre : St
  fr : Frame

def accounts (tx : Tx) : List Nat :=
  [tx.caller, tx.coinbase, BASE_FEE_RECIPIENT, L1_FEE_RECIPIENT, OPERATOR_FEE_RECIPIENT, tx.target]

def balOf (accts : List Nat) (vals : List Nat) : Nat → Nat :=
  fun a => match (accts.zip vals).find? (fun p => p.1 == a) with | some p => p.2 | none => 0

def parseTx (t : List String) : Option Parsed :=
  match t with
  | [sp, dep, sys, mint, kind, prog, gl, gp, prio, value, basefee, data, env, txn, sn,
     b0, b1, b2, b3, b4, b5, s1, s5, s6, s7, s3, s8, cls, rem, rf] => do
    let spec ← spec? sp
    let dep ← parseBool? dep
    let sys ← (if sys = "n" then some none else (parseBool? sys).map some)
    let mint ← optWord? mint
    if (match mint with | some m => decide (m ≥ U128) | none => false) then none
    let create ← (if kind = "call" then some false else if kind = "create" then some true else none)
    if !(["stop", "revert", "invalid", "sclear", "loop"].contains prog) then none
    let gl ← dec? gl
    let gp ← word? gp
    let prio ← optWord? prio
    let value ← word? value
    let basefee ← word? basefee
    let data ← bytes? data
    let env ← (if env = "n" then some none else (bytes? env).map some)
    let txn ← (if txn = "n" then some none else (dec? txn).map some)
    let sn ← dec? sn
    let bals ← [b0, b1, b2, b3, b4, b5].mapM word?
    let slots ← slots? [s1, s5, s6, s7, s3, s8]
    let cls ← (if cls = "ok" then some Cls.ok else if cls = "revert" then some Cls.revert else if cls = "halt" then some Cls.halt else none)
    let rem ← dec? rem
    let rf ← i64? rf
    let tx : Tx :=
      { spec := spec, isDeposit := dep, isSystem := sys, mint := mint, isCreate := create,
        gasLimit := gl, gasPrice := gp, priorityFee := prio, value := value, basefee := basefee, data := data,
        enveloped := env, txNonce := txn, caller := SENDER, coinbase := COINBASE,
        target := if create then CREATED else CALLEE, maxDataFee := 0, dataFee := 0 }
    let pre : St := { bal := balOf (accounts tx) bals, nonce := sn }
    some { tx := tx, slots := slots, pre := pre, fr := { cls := cls, remaining := rem, refunded := rf } }
  | _ => none

def errName : Err → String
  | .prio => "prio" | .basefee => "basefee" | .systx => "systx" | .intrinsic => "intrinsic" | .floor => "floor"
  | .nonce => "nonce" | .nonceOverflow => "nonceoverflow" | .custom => "custom" | .overflow => "overflow" | .funds => "funds"

def kindName : Kind → String
  | .success => "success" | .revert => "revert" | .halt => "halt" | .failedDeposit => "faileddeposit"

/-- the harness's oracle evaluated on the model's numbers -/
def oracle (tx : Tx) (pre post : List Nat) : String :=
  if tx.isDeposit then
    let a := post.foldl (· + ·) 0
    let b := pre.foldl (· + ·) (tx.mint.getD 0)
    -- the harness adds with checked_add in this order; any partial sum not fitting gives `na`
    let fits (xs : List Nat) (init : Nat) : Bool := (xs.foldl (fun (acc : Nat × Bool) x => (acc.1 + x, acc.2 && decide (acc.1 + x < W))) (init, true)).2
    if !(fits post 0 && fits pre (tx.mint.getD 0)) then "na" else if a = b then "1" else "0"
  else
    match pre, post with
    | p0 :: ps, q0 :: qs =>
      if q0 > p0 then "0"
      else if (ps.zip qs).any (fun x => decide (x.2 < x.1)) then "0"
      else
        let credits := (ps.zip qs).foldl (fun (acc : Nat × Bool) x => (acc.1 + (x.2 - x.1), acc.2 && decide (acc.1 + (x.2 - x.1) < W))) (0, true)
        if !credits.2 then "na" else if p0 - q0 = credits.1 then "1" else "0"
    | _, _ => "na"

def showDone (tx : Tx) (pre : St) (k : String) (used refunded : Nat) (st : Nat → Nat) (nonce : Nat) : String :=
  let accts := accounts tx
  let post := accts.map st
  let prev := accts.map pre.bal
  let bs := " ".intercalate (post.map toHex)
  s!"{k} {used} {refunded} {nonce} {bs} cons={oracle tx prev post}"

def showOutcome (tx : Tx) (pre : St) : Outcome → String
  | .err e => s!"err:{errName e}"
  | .panic => "panic"
  | .done k used refunded st => showDone tx pre (kindName k) used refunded st.bal st.nonce

def showSpec (tx : Tx) (pre : St) (e : Revm.Spec.OpFees.Expected) : String :=
  showDone tx pre (kindName e.kind) e.gasUsed e.gasRefunded e.bal e.nonce

def handleOptx (t : List String) : String :=
  match parseTx t with
  | none => "bad-op"
  | some p =>
    let m := showOutcome p.tx p.pre (transact p.tx p.slots p.pre p.fr)
    match Revm.Spec.OpFees.expected? p.tx p.slots p.pre p.fr with
    | some e => s!"{m} | spec={showSpec p.tx p.pre e}"
    | none => m

/-! ### component `ophist`: several transactions on one `Evm`

* `begin ophist <spec> <sender balance> <sender nonce>` → `ok`
* `oh slots <s1> <s5> <s6> <s7> <s3> <s8>` → `ok` (storage of the L1Block contract from now on)
* `oh tx <deposit> <mint|n> <gas_limit> <gas_price> <value> <basefee> <enveloped|n> <remaining> <refunded>`
  → like `optx` (call to a `STOP` target, frame class `ok`), the state is committed

The model threads `context.evm.inner.l1_block_info` through the history (`transactCtx clearCtx`); the Spec
column is the single-transaction function on the committed state and the CURRENT slots
(`Props.C33.l1_cost_cache_fresh_per_tx`). -/
structure HSt where
  spec : Nat := 0
  st : St := { bal := fun _ => 0, nonce := 0 }
  slots : Slots := { s1 := 0, s5 := 0, s6 := 0, s7 := 0, s3 := 0, s8 := 0 }
  ctx : Option L1Info := none
  live : Bool := false

def histBegin (t : List String) : HSt × String :=
  match t with
  | [sp, b, n] =>
    (match spec? sp, word? b, dec? n with
     | some spec, some b, some n =>
       ({ spec := spec, st := { bal := fun a => if a = SENDER then b else 0, nonce := n }, live := true }, "ok")
     | _, _, _ => ({}, "bad-op"))
  | _ => ({}, "bad-op")

def histTx (h : HSt) (t : List String) : Option (Tx × Frame) :=
  match t with
  | [dep, mint, gl, gp, value, basefee, env, rem, rf] => do
    let dep ← parseBool? dep
    let mint ← optWord? mint
    if (match mint with | some m => decide (m ≥ U128) | none => false) then none
    let gl ← dec? gl
    let gp ← word? gp
    let value ← word? value
    let basefee ← word? basefee
    let env ← (if env = "n" then some none else (bytes? env).map some)
    let rem ← dec? rem
    let rf ← i64? rf
    let tx : Tx :=
      { spec := h.spec, isDeposit := dep, isSystem := none, mint := mint, isCreate := false,
        gasLimit := gl, gasPrice := gp, priorityFee := none, value := value, basefee := basefee, data := [],
        enveloped := env, txNonce := none, caller := SENDER, coinbase := COINBASE,
        target := CALLEE, maxDataFee := 0, dataFee := 0 }
    some (tx, { cls := .ok, remaining := rem, refunded := rf })
  | _ => none

def histHandle (h : HSt) (t : List String) : HSt × String :=
  if !h.live then (h, "bad-op") else
  match t with
  | "slots" :: r =>
    (match slots? r with
     | some s => ({ h with slots := s }, "ok")
     | none => (h, "bad-op"))
  | "tx" :: r =>
    (match histTx h r with
     | none => (h, "bad-op")
     | some (tx, fr) =>
       let r := transactCtx clearCtx tx h.slots h.st (fun x => execSimple tx x fr) fr h.ctx
       let fresh := transact tx h.slots h.st fr
       let out := s!"{showOutcome tx h.st r.1} | spec={showOutcome tx h.st fresh}"
       ({ h with st := commit h.st r.1, ctx := r.2 }, out))
  | _ => (h, "bad-op")

end Driver.OpFees
