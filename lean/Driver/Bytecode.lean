import Revm.Util.Hex
import Revm.Model.Bytecode
/-! Driver of component `bytecode` (C27). Bytes in hex (`-` = empty), lengths decimal.

* `bytecode raw <bytes> <eofverdict>`  — `Bytecode::new_raw_checked` and `new_raw`, accessors, then
  `to_analysed` and the accessors again. `<eofverdict>` is what `Eof::decode` answers on these bytes
  (`ok` or the `EofDecodeError` name; `na` when the bytes do not start with `ef00`): the EOF codec is
  a parameter of this component. Reply `checked=<ok|err:…> raw=<ok|panic> [same=1 <desc> an: <desc>]`.
* `bytecode legacy <bytes>`            — `Bytecode::new_legacy`; reply `<desc> an: <desc>`
* `bytecode new7702 <address>`         — `Eip7702Bytecode::new`, decode of its raw bytes, `Bytecode::new_eip7702`
* `bytecode raw7702 <bytes>`           — `Eip7702Bytecode::new_raw`
* `bytecode analyzed <bytes> <original_len>` — `LegacyAnalyzedBytecode::new(bytes, original_len, empty table)`
* `bytecode default`                   — `Bytecode::new()`

`<desc>` = `kind= orig= slice= len= empty= hashok= bytes= bslice= ready= eof= e7702= jt=[ addr= ver=]`;
`hashok=1` means `hash_slow()` equals keccak256 of the bytes the value was built from (or
`KECCAK_EMPTY` for none) — the model predicts `1` by theorem `hash_eq`, keccak itself is trusted. -/
namespace Driver.Bytecode
open Revm.Hex Revm.Model.Bytecode

abbrev BC := Bytecode Unit

def resHex : Res (List Nat) → String
  | .ok b => bytesToHex b
  | .panic => "panic"
def resNat : Res Nat → String
  | .ok n => toString n
  | .panic => "panic"
def resBool : Res Bool → String
  | .ok b => boolStr b
  | .panic => "panic"
/-- a flag the implementation prints as `1` when two accessors agree: `1` unless the accessor panics -/
def resFlag {α : Type} : Res α → String
  | .ok _ => "1"
  | .panic => "panic"

/-- `BitVec<u8, Lsb0>::as_raw_slice` -/
def packBitsAux : List Bool → Nat → Nat → List Nat
  | [], i, cur => if i = 0 then [] else [cur]
  | b :: rest, i, cur =>
    let cur' := if b then cur + 2^i else cur
    if i = 7 then cur' :: packBitsAux rest 0 0 else packBitsAux rest (i + 1) cur'
def packBits (bs : List Bool) : List Nat := packBitsAux bs 0 0

def kindName : BC → String
  | .legacyRaw _ => "LegacyRaw"
  | .legacyAnalyzed _ => "LegacyAnalyzed"
  | .eof _ => "Eof"
  | .eip7702 _ => "Eip7702"

def desc (b : BC) : String :=
  let jt := match b.legacyJumpTable with | some t => bytesToHex (packBits t) | none => "none"
  let base := s!"kind={kindName b} orig={resHex b.originalBytes} slice={resFlag b.originalBytes} len={resNat b.len} empty={resBool b.isEmpty} hashok={resFlag (b.hashSlow (fun _ => 0))} bytes={resHex b.bytes} bslice={resFlag b.bytes} ready={boolStr b.isExecutionReady} eof={boolStr b.isEof} e7702={boolStr b.isEip7702} jt={jt}"
  match b with
  | .eip7702 e => s!"{base} addr={bytesToHex e.address} ver={e.version}"
  | _ => base

def errName : BytecodeDecodeError → String
  | .eof e => s!"Eof({e})"
  | .eip7702 .InvalidLength => "Eip7702(InvalidLength)"
  | .eip7702 .InvalidMagic => "Eip7702(InvalidMagic)"
  | .eip7702 .UnsupportedVersion => "Eip7702(UnsupportedVersion)"

def e7702ErrName : Eip7702DecodeError → String
  | .InvalidLength => "InvalidLength"
  | .InvalidMagic => "InvalidMagic"
  | .UnsupportedVersion => "UnsupportedVersion"

def isByteList (bs : List Nat) : Bool := bs.all (· < 256)

def handle (toks : List String) : String :=
  match toks with
  | ["raw", hex, verdict] =>
    (match parseBytes? hex with
     | some bs =>
       let isEofPrefix := bs.take 2 == [0xef, 0x00]
       -- the verdict token must be `na` exactly for non-EF00 input
       if (verdict == "na") == isEofPrefix then "bad-op" else
       let dec : List Nat → Except EofErr Unit := fun _ => if verdict == "ok" then .ok () else .error verdict
       let checked := Bytecode.newRawChecked dec bs
       let raw := Bytecode.newRaw dec bs
       (match checked, raw with
        | .ok b, .ok _ => s!"checked=ok raw=ok same=1 {desc b} an: {desc (toAnalysed b)}"
        | .error e, .panic => s!"checked=err:{errName e} raw=panic"
        | .ok _, .panic => "model-inconsistent"
        | .error _, .ok _ => "model-inconsistent")
     | none => "bad-op")
  | ["legacy", hex] =>
    (match parseBytes? hex with
     | some bs => let b : BC := Bytecode.newLegacy bs; s!"{desc b} an: {desc (toAnalysed b)}"
     | none => "bad-op")
  | ["new7702", hex] =>
    (match parseBytes? hex with
     | some a =>
       if a.length ≠ 20 then "bad-op" else
       let e := Eip7702Bytecode.new a
       let re := match Eip7702Bytecode.newRaw e.raw with
         | .ok e' => if e' = e then "ok-same" else "ok-diff"
         | .error x => s!"err:{e7702ErrName x}"
       let ck := match Bytecode.newRawChecked (fun _ => (.error "unused" : Except EofErr Unit)) e.raw with
         | .ok (.eip7702 e') => if e' = e then "ok-same" else "ok-diff"
         | .ok _ => "ok-other"
         | .error x => s!"err:{errName x}"
       s!"raw={bytesToHex e.raw} addr={bytesToHex e.address} ver={e.version} reraw={re} checked={ck} {desc (Bytecode.newEip7702 a)}"
     | none => "bad-op")
  | ["raw7702", hex] =>
    (match parseBytes? hex with
     | some bs =>
       (match Eip7702Bytecode.newRaw bs with
        | .ok e => s!"ok addr={bytesToHex e.address} ver={e.version} raw={bytesToHex e.raw} reenc={boolStr (decide ((Eip7702Bytecode.new e.address).raw = bs))}"
        | .error x => s!"err:{e7702ErrName x}")
     | none => "bad-op")
  | ["analyzed", hex, n] =>
    (match parseBytes? hex, n.toNat? with
     | some bs, some n =>
       let b : BC := .legacyAnalyzed { bytecode := bs, originalLen := n, jumpTable := [] }
       desc b
     | _, _ => "bad-op")
  | ["default"] => desc (Bytecode.new : BC)
  | _ => "bad-op"

end Driver.Bytecode
