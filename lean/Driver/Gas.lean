import Revm.Util.Hex
import Revm.Model.Gas
import Revm.Spec.Gas
/-! Line-protocol driver of component `gas` (C13).

requests
  `begin gas new <limit>` | `begin gas new_spent <limit>` | `begin gas default`
  `gas record_cost <u64>` | `gas erase_cost <u64>` | `gas record_refund <i64>` | `gas set_final_refund <0|1>`
  `gas set_refund <i64>` | `gas set_spent <u64>` | `gas spend_all`
u64 arguments are lowercase hex, i64 arguments signed decimal.

reply (every line): `[ok=<0|1> ]l=<limit> r=<remaining> s=<spent()> f=<refunded> ssr=<spent_sub_refunded()>
p=<remaining_63_of_64_parts()> m=<memory()>`; `ok=` only for `record_cost`. The Spec column
(` | spec=` + the same line computed by the unbounded meter `Spec.Gas`) is printed for every operation
that is `Spec.Gas.Admissible` (frame accounting) in a state with `remaining ≤ limit` reached by
admissible operations, while the refund counter is non-negative; elsewhere only the model column. Malformed lines: `bad-op`, state
unchanged (a malformed `begin` resets to `Gas::default()`). -/
namespace Driver.Gas
open Revm Revm.Hex Revm.Model.Gas

structure St where
  g : Gas := Model.Gas.default
  m : Spec.Gas.Meter := { limit := 0, remaining := 0, refunded := 0 }
  /-- `m` is the unbounded meter of the current state (every operation since `begin` / the last restart was admissible) -/
  adm : Bool := true

def St.init : St := {}

def parseU64? (s : String) : Option Nat :=
  match parseHex? s with
  | some n => if n < U64 then some n else none
  | none => none

/-- optional `-`, then one or more decimal digits; value must be an `i64` -/
def parseI64? (s : String) : Option Int :=
  let (neg, ds) : Bool × List Char := match s.toList with
    | '-' :: r => (true, r)
    | r => (false, r)
  if ds.isEmpty then none else
  match ds.foldl (fun acc c => match acc with
      | some a => if '0' ≤ c ∧ c ≤ '9' then some (a * 10 + (c.toNat - '0'.toNat)) else none
      | none => none) (some 0) with
  | some n =>
    let v : Int := if neg then -(n : Int) else (n : Int)
    if I64MIN ≤ v ∧ v ≤ I64MAX then some v else none
  | none => none

def fmtModel (g : Gas) : String :=
  s!"l={toHex g.limit} r={toHex g.remaining} s={toHex (spent g)} f={g.refunded} ssr={toHex (spentSubRefunded g)} p={toHex (remaining63of64 g)} m={toHex (memory g)}"

def fmtSpec (m : Spec.Gas.Meter) : String :=
  s!"l={toHex m.limit} r={toHex m.remaining} s={toHex (Spec.Gas.spent m)} f={m.refunded} ssr={toHex (Spec.Gas.spentSubRefunded m)} p={toHex (Spec.Gas.remaining63of64 m)} m=0"

def okStr (op : Op) (b : Bool) : String :=
  match op with
  | .recordCost _ => s!"ok={boolStr b} "
  | _ => ""

def reply (withSpec : Bool) (st : St) (pm ps : String) : String :=
  if withSpec && decide (0 ≤ st.m.refunded) then s!"{pm}{fmtModel st.g} | spec={ps}{fmtSpec st.m}"
  else s!"{pm}{fmtModel st.g}"

def parseOp? : List String → Option Op
  | ["record_cost", a] => (parseU64? a).map .recordCost
  | ["erase_cost", a] => (parseU64? a).map .eraseCost
  | ["record_refund", a] => (parseI64? a).map .recordRefund
  | ["set_final_refund", a] => (parseBool? a).map .setFinalRefund
  | ["set_refund", a] => (parseI64? a).map .setRefund
  | ["set_spent", a] => (parseU64? a).map .setSpent
  | ["spend_all"] => some .spendAll
  | _ => none

/-- tokens after `gas`. While `adm` holds, `st.m` is the unbounded meter run in parallel. An
inadmissible operation (outside frame accounting) is executed by the model only; afterwards the
meter is restarted from the model state as soon as that state satisfies `remaining ≤ limit` (the
sequence theorems hold from every such state). -/
def handle (st : St) (toks : List String) : St × String :=
  match parseOp? toks with
  | none => (st, "bad-op")
  | some op =>
    let (g', b) := step st.g op
    if st.adm && decide (Spec.Gas.Admissible st.m op) then
      let (m', sb) := Spec.Gas.step st.m op
      let st' : St := { g := g', m := m', adm := true }
      (st', reply true st' (okStr op b) (okStr op sb))
    else
      let st' : St := { g := g', m := Spec.Gas.abs g', adm := decide (MeterInv g') }
      (st', reply false st' (okStr op b) "")

def fresh (g : Gas) : St × String :=
  let st : St := { g := g, m := Spec.Gas.abs g, adm := true }
  (st, reply true st "" "")

/-- tokens after `begin gas` -/
def begin (toks : List String) : St × String :=
  match toks with
  | ["new", a] => match parseU64? a with
    | some l => fresh (Model.Gas.new l)
    | none => (St.init, "bad-op")
  | ["new_spent", a] => match parseU64? a with
    | some l => fresh (Model.Gas.newSpent l)
    | none => (St.init, "bad-op")
  | ["default"] => fresh Model.Gas.default
  | _ => (St.init, "bad-op")

end Driver.Gas
