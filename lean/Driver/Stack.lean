import Revm.Util.Hex
import Revm.Model.Stack
import Revm.Spec.Stack
/-! Line-protocol driver of component `stack` (C12). Stateful: `begin stack` opens a fresh
`Stack::new()`; then

  stack push <hexword> | push_b256 <64 hex digits> | pop | peek <n> | dup <n> | swap <n>
      | exchange <n> <m> | set <n> <hexword> | push_slice <hexbytes or -> | dump
      | popn <k> (the `pop!` macro, k = 1..5) | poptop <k> <hexword> (the `pop_top!` macro, k = 1..3,
        then `*top = word`)
      | instr <opcode hex> <immediate hexbytes or ->

(`n`, `m` decimal, < 2^32). Reply: `<res> len=<len> top=<up to 4 words, top first> h=<digest>`, where
`<res>` is `ok`, `ok:<word>`, `ok:<w1>,<w2>…` (popn), `ok:<w1>,…;<old top>` (poptop), `StackOverflow`, `StackUnderflow`, `panic` or `ub`, and the digest
covers the whole stack; `instr` adds ` g=<gas>` after `<res>`; `dump` lists every word bottom → top.
The Spec column is computed from an independently threaded `Spec.Stack` state. -/
namespace Driver.Stack
open Revm Revm.Hex Revm.Model.Stack

structure St where
  /-- model: the `Vec`, bottom first -/
  d : List Nat := []
  /-- spec: the list, top first -/
  s : List Nat := []

def St.init : St := {}

def mix (h l : UInt64) : UInt64 := (h + l) * 0x100000001b3
/-- the four `u64` limbs of the word, least significant first, folded into the digest -/
def digestWord (h : UInt64) (w : Nat) : UInt64 :=
  mix (mix (mix (mix h w.toUInt64) (w >>> 64).toUInt64) (w >>> 128).toUInt64) (w >>> 192).toUInt64
/-- digest of a stack given bottom → top (wrapping `u64` arithmetic) -/
def digest (bottomFirst : List Nat) : Nat :=
  (bottomFirst.foldl digestWord bottomFirst.length.toUInt64).toNat

def outStr : Out → String
  | .unit => "ok"
  | .word v => s!"ok:{toHex v}"
  | .words vs => s!"ok:{",".intercalate (vs.map toHex)}"
  | .wordsTop vs t => s!"ok:{",".intercalate (vs.map toHex)};{toHex t}"
  | .err .StackOverflow => "StackOverflow"
  | .err .StackUnderflow => "StackUnderflow"
  | .panic => "panic"
  | .ub => "ub"

def topStr (topFirst : List Nat) : String :=
  let ws := topFirst.take 4
  if ws.isEmpty then "-" else ",".intercalate (ws.map toHex)

def view (bottomFirst topFirst : List Nat) : String :=
  s!"len={bottomFirst.length} top={topStr topFirst} h={toHex (digest bottomFirst)}"

def parseIdx? (s : String) : Option Nat :=
  match s.toNat? with
  | some n => if n < 4294967296 then some n else none
  | none => none

def parseWord? (s : String) : Option Nat :=
  match parseHex? s with
  | some v => if v < W then some v else none
  | none => none

def parseOp? : List String → Option Op
  | ["push", w] => (parseWord? w).map .push
  | ["push_b256", b] => match parseBytes? b with
    | some bs => if bs.length = 32 then some (.pushB256 bs) else none
    | none => none
  | ["pop"] => some .pop
  | ["peek", n] => (parseIdx? n).map .peek
  | ["dup", n] => (parseIdx? n).map .dup
  | ["swap", n] => (parseIdx? n).map .swap
  | ["exchange", n, m] => match parseIdx? n, parseIdx? m with
    | some n, some m => some (.exchange n m)
    | _, _ => none
  | ["set", n, w] => match parseIdx? n, parseWord? w with
    | some n, some w => some (.set n w)
    | _, _ => none
  | ["push_slice", b] => (parseBytes? b).map .pushSlice
  | ["popn", k] => match parseIdx? k with
    | some k => if 1 ≤ k ∧ k ≤ 5 then some (.popN k) else none
    | none => none
  | ["poptop", k, w] => match parseIdx? k, parseWord? w with
    | some k, some w => if 1 ≤ k ∧ k ≤ 3 then some (.popTop k w) else none
    | _, _ => none
  | _ => none

/-- the Spec has no `dup 0` / `exchange n 0`: outside the preconditions its column repeats `ub` -/
def preB : Op → Bool
  | .dup n => n > 0
  | .swap n => n > 0
  | .exchange _ m => m > 0
  | _ => true

/-- the opcode handler of `pop` discards the word -/
def plainOut (plain : Bool) : Out → Out
  | .word v => if plain then .unit else .word v
  | o => o

def runOp (st : St) (op : Op) (extra : String) (plain : Bool := false) : St × String :=
  let m := step st.d op
  let m := (m.1, plainOut plain m.2)
  let sp := if preB op then Spec.Stack.step st.s op else (st.s, Out.ub)
  let sp := (sp.1, plainOut plain sp.2)
  let st' : St := { d := m.1, s := sp.1 }
  let mv := view m.1 m.1.reverse
  -- the Spec's view is a function of its own state; when that state equals the model's (as lists)
  -- the already rendered string is reused
  let sv := if sp.1.reverse = m.1 then mv else view sp.1.reverse sp.1
  (st', s!"{outStr m.2}{extra} {mv} | spec={outStr sp.2}{extra} {sv}")

def handle (st : St) (toks : List String) : St × String :=
  match toks with
  | ["dump"] =>
    let f (l : List Nat) : String := if l.isEmpty then "-" else ",".intercalate (l.map toHex)
    (st, s!"{f st.d} | spec={f st.s.reverse}")
  | ["instr", opc, imm] =>
    match parseHex? opc, parseBytes? imm with
    | some o, some bs =>
      if bs.length ≠ instrImmLen o then (st, "bad-op") else
      match instrOp o bs with
      | some op => runOp st op s!" g={instrGas o}" true
      | none => (st, "bad-op")
    | _, _ => (st, "bad-op")
  | _ =>
    match parseOp? toks with
    | some op => runOp st op ""
    | none => (st, "bad-op")

def begin : St × String := (St.init, s!"ok {view [] []} | spec=ok {view [] []}")

end Driver.Stack
