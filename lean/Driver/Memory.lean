import Revm.Util.Hex
import Revm.Model.Memory
import Revm.Spec.Memory
/-! Line protocol of component `mem` (C11): `SharedMemory` call sequences and `resize_memory`.

```
begin mem <gas>                       fresh SharedMemory::new(), Gas::new(gas)
mem newctx | freectx | resize <n> | rmem <new_size>
mem set <off> <bytes> | setbyte <off> <b> | setword <off> <32 bytes> | setu256 <off> <word>
mem setdata <moff> <doff> <len> <bytes> | copy <dst> <src> <len>
mem slice <off> <size> | slicer <start> <end> | getbyte <off> | getword <off> | getu256 <off>
mem ctx | len | dump
mem words <len> | gas <words>         (stateless: num_words, memory_gas)
```
Numbers are decimal, bytes/words hex. State-changing calls answer `ok len=<len> ctx=<bytes>`
(`rmem`: `ok|oog rem=<gas remaining> len=… ctx=…`), followed by ` | spec=…` (the frame-stack Spec run
in lockstep) while the history stays inside the domain of the refinement theorem. `panic` = Rust panic,
`ub` = `debug_unreachable!`/unchecked contract violated (state unchanged in the model; the harness does
not execute such a call in a release build). `bad-op` = outside the protocol domain (sizes that
would make the real code allocate gigabytes). -/
namespace Driver.Memory
open Revm Revm.Hex Revm.Model.Memory

structure St where
  mem : SharedMemory := Model.Memory.new
  gas : Nat := 0
  live : Bool := false
  /-- Spec state; `none` once the history left the domain of the refinement theorem -/
  frames : Option Spec.Memory.Frames := none

def St.init : St := {}

def P20 : Nat := 2^20
def HI : Nat := 2^63 + 2^21

def ctxStr (m : SharedMemory) : String :=
  match contextMemory m with
  | .ok bs => bytesToHex bs
  | _ => "ub"

def stateStr (m : SharedMemory) : String := s!"len={len m} ctx={ctxStr m}"

def specStr : Option Spec.Memory.Frames → String
  | some (f :: _) => s!" | spec=ok len={f.length} ctx={bytesToHex f}"
  | _ => ""

def dec? (s : String) : Option Nat :=
  match s.toNat? with
  | some n => if n < U64 then some n else none
  | none => none

def bytesOk (bs : List Nat) : Bool := bs.all (· < 256)

def joinComma : List Nat → String
  | [] => "-"
  | xs => ",".intercalate (xs.map toString)

/-- a state-changing call: model result, spec op (or `none` if the Spec says nothing about it) -/
def mutate (st : St) (r : Res SharedMemory) (sop : Option Spec.Memory.Op) (inDomain : Bool := true) : St × String :=
  match r with
  | .ok m' =>
    let (fr, sp) : Option Spec.Memory.Frames × String :=
      match sop, st.frames with
      | _, none => (none, "")
      | some o, some fs =>
        if inDomain then
          match Spec.Memory.step o fs with
          | some fs' => (some fs', specStr (some fs'))
          | none => (none, " | spec=undefined")
        else (none, "")
      | none, some fs => if inDomain then (some fs, specStr (some fs)) else (none, "")
    ({ st with mem := m', frames := fr }, s!"ok {stateStr m'}{sp}")
  | .panic => (st, "panic")
  | .ub => (st, "ub")

def readReply {α} (r : Res α) (f : α → String) : String :=
  match r with
  | .ok a => f a
  | .panic => "panic"
  | .ub => "ub"

def stateless (toks : List String) : Option String :=
  match toks with
  | ["words", n] => (dec? n).map fun n =>
      let v := numWords n
      if n + 32 ≤ U64 then s!"{v} | spec={Spec.Memory.words n}" else s!"{v}"
  | ["gas", w] => (dec? w).map fun w =>
      let v := memoryGas w
      s!"{v} | spec={min (Spec.Memory.memGas w) (U64 - 1)}"
  | _ => none

def handleOp (st : St) (toks : List String) : St × String :=
  let m := st.mem
  match toks with
  | ["newctx"] => mutate st (.ok (newContext m)) (some .push)
  | ["freectx"] => mutate st (freeContext m) (some .pop)
  | ["resize", n] =>
    match dec? n with
    | some n =>
      if n ≤ P20 ∨ n ≥ HI then
        mutate st (resize m n) (some (.resize n)) (decide (m.lastCheckpoint + n < U64))
      else (st, "bad-op")
    | none => (st, "bad-op")
  | ["rmem", n] =>
    match dec? n with
    | some n =>
      if n ≤ P20 ∨ st.gas < P20 ∨ n ≥ HI then
        match resizeMemory m st.gas n with
        | .ok (success, m', rem') =>
          let inDom := decide (n > len m ∧ numWords n < 2^32 ∧ m.lastCheckpoint ≤ m.buffer.length)
          let w := Spec.Memory.words n
          let charge := Spec.Memory.memGas w - Spec.Memory.memGas (Spec.Memory.words (len m))
          let (fr, sp) :=
            match inDom, st.frames with
            | true, some fs =>
              if charge ≤ st.gas then
                let fr := Spec.Memory.step (.resize (32 * w)) fs
                (fr, match fr with
                     | some (f :: _) => s!" | spec=ok rem={st.gas - charge} len={f.length} ctx={bytesToHex f}"
                     | _ => "")
              else (some fs, match fs with
                     | f :: _ => s!" | spec=oog rem={st.gas} len={f.length} ctx={bytesToHex f}"
                     | _ => "")
            | _, fs => (if m' = m then fs else none, "")
          ({ st with mem := m', gas := rem', frames := fr },
           s!"{if success then "ok" else "oog"} rem={rem'} {stateStr m'}{sp}")
        | .panic => (st, "panic")
        | .ub => (st, "ub")
      else (st, "bad-op")
    | none => (st, "bad-op")
  | ["set", o, v] =>
    match dec? o, parseBytes? v with
    | some o, some v => mutate st (set m o v) (if v.isEmpty then none else some (.write o v))
    | _, _ => (st, "bad-op")
  | ["setbyte", o, b] =>
    match dec? o, dec? b with
    | some o, some b => if b < 256 then mutate st (setByte m o b) (some (.write o [b])) else (st, "bad-op")
    | _, _ => (st, "bad-op")
  | ["setword", o, v] =>
    match dec? o, parseBytes? v with
    | some o, some v => if v.length = 32 then mutate st (setWord m o v) (some (.write o v)) else (st, "bad-op")
    | _, _ => (st, "bad-op")
  | ["setu256", o, v] =>
    match dec? o, parseHex? v with
    | some o, some v => if v < W then mutate st (setU256 m o v) (some (.write o (natToBe 32 v))) else (st, "bad-op")
    | _, _ => (st, "bad-op")
  | ["setdata", a, b, c, d] =>
    match dec? a, dec? b, dec? c, parseBytes? d with
    | some a, some b, some c, some d =>
      if c ≤ P20 then mutate st (setData m a b c d) (some (.writeData a b c d)) else (st, "bad-op")
    | _, _, _, _ => (st, "bad-op")
  | ["copy", d, s, l] =>
    match dec? d, dec? s, dec? l with
    | some d, some s, some l => mutate st (copy m d s l) (some (.copy d s l))
    | _, _, _ => (st, "bad-op")
  | ["slice", o, s] =>
    match dec? o, dec? s with
    | some o, some s => (st, readReply (slice m o s) bytesToHex)
    | _, _ => (st, "bad-op")
  | ["slicer", a, b] =>
    match dec? a, dec? b with
    | some a, some b => (st, readReply (sliceRange m a b) bytesToHex)
    | _, _ => (st, "bad-op")
  | ["getbyte", o] =>
    match dec? o with
    | some o => (st, readReply (getByte m o) toString)
    | none => (st, "bad-op")
  | ["getword", o] =>
    match dec? o with
    | some o => (st, readReply (getWord m o) bytesToHex)
    | none => (st, "bad-op")
  | ["getu256", o] =>
    match dec? o with
    | some o => (st, readReply (getU256 m o) toHex)
    | none => (st, "bad-op")
  | ["ctx"] => (st, readReply (contextMemory m) bytesToHex)
  | ["len"] => (st, s!"{len m} empty={boolStr (isEmpty m)} cost={currentExpansionCost m}")
  | ["dump"] =>
    (st, s!"buf={bytesToHex m.buffer} cps={joinComma m.checkpoints.reverse} last={m.lastCheckpoint}")
  | _ => (st, "bad-op")

/-- `begin mem <gas>` -/
def begin (toks : List String) : St × String :=
  match toks with
  | [g] =>
    match dec? g with
    | some g =>
      let st : St := { mem := Model.Memory.new, gas := g, live := true, frames := some [[]] }
      (st, s!"ok {stateStr st.mem}{specStr st.frames}")
    | none => ({}, "bad-op")
  | _ => ({}, "bad-op")

/-- `mem <op> …` -/
def handle (st : St) (toks : List String) : St × String :=
  match stateless toks with
  | some r => (st, r)
  | none =>
    match toks with
    | "words" :: _ => (st, "bad-op")
    | "gas" :: _ => (st, "bad-op")
    | _ => if st.live then handleOp st toks else (st, "bad-op")

end Driver.Memory
