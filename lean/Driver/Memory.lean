import Revm.Util.Hex
import Revm.Model.Memory
import Revm.Spec.Memory
import Revm.Model.Interp
/-! Line protocol of component `mem` (C11): `SharedMemory` call sequences and `resize_memory`.

```
begin mem <gas>                       fresh SharedMemory::new(), Gas::new(gas)
mem newctx | freectx | resize <n> | rmem <new_size>
mem set <off> <bytes> | setbyte <off> <b> | setword <off> <32 bytes> | setu256 <off> <word>
mem setdata <moff> <doff> <len> <bytes> | copy <dst> <src> <len>
mem slice <off> <size> | slicer <start> <end> | getbyte <off> | getword <off> | getu256 <off>
mem ctx | len | dump
mem words <len> | gas <words>         (stateless: num_words, memory_gas)
mem ico <kind> <result> <start> <end> <ret> <eof> <sl> <limit> <spent> <crem> <cref> <addr>
                                      `Interp.insertCallOutcome` (kind call; create / eofcreate: the two create
                                      re-entries) of the integrated interpreter model on the stream's memory
```
Numbers are decimal, bytes/words hex. State-changing calls answer `ok len=<len> ctx=<bytes>`
(`rmem`: `ok|oog rem=<gas remaining> len=… ctx=…`), followed by ` | spec=…` (the frame-stack Spec run
in lockstep) while the history stays inside the domain of the refinement theorem. `panic` = Rust panic,
`ub` = `debug_unreachable!`/unchecked contract violated (state unchanged in the model; the harness does
not execute such a call in a release build). `bad-op` = outside the protocol domain (sizes that
would make the real code allocate gigabytes). -/
namespace Driver.Memory
open Revm Revm.Hex Revm.Model.Memory

structure St where
  mem : SharedMemory := Model.Memory.new
  gas : Nat := 0
  live : Bool := false
  /-- Spec state; `none` once the history left the domain of the refinement theorem -/
  frames : Option Spec.Memory.Frames := none

def St.init : St := {}

def P20 : Nat := 2^20
def HI : Nat := 2^63 + 2^21

def ctxStr (m : SharedMemory) : String :=
  match contextMemory m with
  | .ok bs => bytesToHex bs
  | _ => "ub"

def stateStr (m : SharedMemory) : String := s!"len={len m} ctx={ctxStr m}"

def specStr : Option Spec.Memory.Frames → String
  | some (f :: _) => s!" | spec=ok len={f.length} ctx={bytesToHex f}"
  | _ => ""

def dec? (s : String) : Option Nat :=
  match s.toNat? with
  | some n => if n < U64 then some n else none
  | none => none

def bytesOk (bs : List Nat) : Bool := bs.all (· < 256)

def joinComma : List Nat → String
  | [] => "-"
  | xs => ",".intercalate (xs.map toString)

/-- a state-changing call: model result, spec op (or `none` if the Spec says nothing about it) -/
def mutate (st : St) (r : Res SharedMemory) (sop : Option Spec.Memory.Op) (inDomain : Bool := true) : St × String :=
  match r with
  | .ok m' =>
    let (fr, sp) : Option Spec.Memory.Frames × String :=
      match sop, st.frames with
      | _, none => (none, "")
      | some o, some fs =>
        if inDomain then
          match Spec.Memory.step o fs with
          | some fs' => (some fs', specStr (some fs'))
          | none => (none, " | spec=undefined")
        else (none, "")
      | none, some fs => if inDomain then (some fs, specStr (some fs)) else (none, "")
    ({ st with mem := m', frames := fr }, s!"ok {stateStr m'}{sp}")
  | .panic => (st, "panic")
  | .ub => (st, "ub")

def readReply {α} (r : Res α) (f : α → String) : String :=
  match r with
  | .ok a => f a
  | .panic => "panic"
  | .ub => "ub"

def stateless (toks : List String) : Option String :=
  match toks with
  | ["words", n] => (dec? n).map fun n =>
      let v := numWords n
      if n + 32 ≤ U64 then s!"{v} | spec={Spec.Memory.words n}" else s!"{v}"
  | ["gas", w] => (dec? w).map fun w =>
      let v := memoryGas w
      s!"{v} | spec={min (Spec.Memory.memGas w) (U64 - 1)}"
  | _ => none

/-! ### `Interpreter::insert_call_outcome` & co. on the stream's memory -/

def changedGo : List Nat → List Nat → Nat → Option (Nat × Nat) → Option (Nat × Nat)
  | x :: xs, y :: ys, i, acc =>
    changedGo xs ys (i + 1)
      (if x = y then acc else match acc with | none => some (i, i + 1) | some (lo, _) => some (lo, i + 1))
  | _, _, _, acc => acc

/-- the byte range of the running context that differs between two snapshots -/
def changed (a b : List Nat) : String :=
  if a.length ≠ b.length then s!"len:{a.length}->{b.length}" else
  match changedGo a b 0 none with
  | some (lo, hi) => s!"{lo}..{hi}"
  | none => "-"

def ctxOr (m : SharedMemory) : List Nat :=
  match contextMemory m with
  | .ok bs => bs
  | _ => []

/-- `|refund| ≤ 2^62`, decimal with an optional sign -/
def decI64? (s : String) : Option Int :=
  let (neg, d) := if s.startsWith "-" then (true, (s.drop 1).toString) else (false, s)
  if d.isEmpty ∨ ¬ d.all Char.isDigit then none else
  match d.toNat? with
  | some n => if n ≤ 2^62 then some (if neg then -(n : Int) else (n : Int)) else none
  | none => none

def addr? (s : String) : Option (Option Nat) :=
  if s = "-" then some none else
  match parseHex? s with
  | some v => if v < 2^160 then some (some v) else none
  | none => none

/-- the waiting parent: `Interpreter::new(contract, limit, false)`, `is_eof`, `sl` stack items, `spent` recorded -/
def icoState (mem : SharedMemory) (eof : Bool) (sl limit spent : Nat) : Model.Interp.IState :=
  { Model.Interp.IState.init [0] [] limit false 17 0 0 0 {} mem with
    stack := (List.range sl).map (fun i => 0xabc0 + i)
    gas := { limit := limit, remaining := limit - spent, refunded := 0 }
    isEof := eof }

def ico (st : St) (kind res a b ret eof sl limit spent crem cref addr : String) : St × String :=
  match dec? a, dec? b, parseBytes? ret, dec? sl, dec? limit, dec? spent, dec? crem with
  | some a, some b, some ret, some sl, some limit, some spent, some crem =>
    match Model.Interp.IResult.ofName res, parseBool? eof, decI64? cref, addr? addr with
    | some r, some eof, some cref, some addr =>
      if ¬ (kind = "call" ∨ kind = "create" ∨ kind = "eofcreate") then (st, "bad-op") else
      if sl > 1024 ∨ spent > limit ∨ (limit - spent) + crem ≥ U64 then (st, "bad-op") else
      let o : Model.Interp.ChildResult :=
        { result := r, output := ret, gasRemaining := crem, gasRefunded := cref, address := addr }
      let s0 := icoState st.mem eof sl limit spent
      let e : Model.Interp.Exec Unit :=
        if kind = "call" then Model.Interp.insertCallOutcome a b o s0
        else if kind = "create" then Model.Interp.insertCreateOutcome o s0
        else Model.Interp.insertEofCreateOutcome o s0
      let finish (ir : String) (s' : Model.Interp.IState) : St × String :=
        let m' := s'.mem
        let top := match s'.stack.getLast? with | some w => toHex w | none => "-"
        let tail := s!" ir={ir} top={top} sl={s'.stack.length} rem={s'.gas.remaining} ref={s'.gas.refunded} rd={bytesToHex s'.returnData}"
        -- what the property says: the frame stack changes by one write of the returned prefix into the window
        let t := min (b - a) ret.length
        let writes := kind = "call" ∧ (r.isOk ∨ r.isRevert) ∧ t ≠ 0
        let (fr, sp) : Option Spec.Memory.Frames × String :=
          match st.frames with
          | none => (none, "")
          | some fs =>
            let fs' := if writes then Spec.Memory.step (.write a (ret.take t)) fs else some fs
            match fs, fs' with
            | f0 :: _, some (f :: r') =>
              (some (f :: r'), s!" | spec=ok len={f.length} ctx={bytesToHex f} chg={changed f0 f}{tail}")
            | _, some fs' => (some fs', "")
            | _, none => (none, " | spec=undefined")
        ({ st with mem := m', frames := fr },
         s!"ok {stateStr m'} chg={changed (ctxOr st.mem) (ctxOr m')}{tail}{sp}")
      match e with
      | .ok _ s' => finish "Continue" s'
      | .halt r _ s' => finish r.name s'
      | .fault .panic => (st, "panic")
      | .fault .oobMemory => (st, "ub")
      | .fault _ => (st, "fault")
    | _, _, _, _ => (st, "bad-op")
  | _, _, _, _, _, _, _ => (st, "bad-op")

def handleOp (st : St) (toks : List String) : St × String :=
  let m := st.mem
  match toks with
  | ["newctx"] => mutate st (.ok (newContext m)) (some .push)
  | ["freectx"] => mutate st (freeContext m) (some .pop)
  | ["resize", n] =>
    match dec? n with
    | some n =>
      if n ≤ P20 ∨ n ≥ HI then
        mutate st (resize m n) (some (.resize n)) (decide (m.lastCheckpoint + n < U64))
      else (st, "bad-op")
    | none => (st, "bad-op")
  | ["rmem", n] =>
    match dec? n with
    | some n =>
      if n ≤ P20 ∨ st.gas < P20 ∨ n ≥ HI then
        match resizeMemory m st.gas n with
        | .ok (success, m', rem') =>
          let inDom := decide (n > len m ∧ numWords n < 2^32 ∧ m.lastCheckpoint ≤ m.buffer.length)
          let w := Spec.Memory.words n
          let charge := Spec.Memory.memGas w - Spec.Memory.memGas (Spec.Memory.words (len m))
          let (fr, sp) :=
            match inDom, st.frames with
            | true, some fs =>
              if charge ≤ st.gas then
                let fr := Spec.Memory.step (.resize (32 * w)) fs
                (fr, match fr with
                     | some (f :: _) => s!" | spec=ok rem={st.gas - charge} len={f.length} ctx={bytesToHex f}"
                     | _ => "")
              else (some fs, match fs with
                     | f :: _ => s!" | spec=oog rem={st.gas} len={f.length} ctx={bytesToHex f}"
                     | _ => "")
            | _, fs => (if m' = m then fs else none, "")
          ({ st with mem := m', gas := rem', frames := fr },
           s!"{if success then "ok" else "oog"} rem={rem'} {stateStr m'}{sp}")
        | .panic => (st, "panic")
        | .ub => (st, "ub")
      else (st, "bad-op")
    | none => (st, "bad-op")
  | ["set", o, v] =>
    match dec? o, parseBytes? v with
    | some o, some v => mutate st (set m o v) (if v.isEmpty then none else some (.write o v))
    | _, _ => (st, "bad-op")
  | ["setbyte", o, b] =>
    match dec? o, dec? b with
    | some o, some b => if b < 256 then mutate st (setByte m o b) (some (.write o [b])) else (st, "bad-op")
    | _, _ => (st, "bad-op")
  | ["setword", o, v] =>
    match dec? o, parseBytes? v with
    | some o, some v => if v.length = 32 then mutate st (setWord m o v) (some (.write o v)) else (st, "bad-op")
    | _, _ => (st, "bad-op")
  | ["setu256", o, v] =>
    match dec? o, parseHex? v with
    | some o, some v => if v < W then mutate st (setU256 m o v) (some (.write o (natToBe 32 v))) else (st, "bad-op")
    | _, _ => (st, "bad-op")
  | ["setdata", a, b, c, d] =>
    match dec? a, dec? b, dec? c, parseBytes? d with
    | some a, some b, some c, some d =>
      if c ≤ P20 then mutate st (setData m a b c d) (some (.writeData a b c d)) else (st, "bad-op")
    | _, _, _, _ => (st, "bad-op")
  | ["copy", d, s, l] =>
    match dec? d, dec? s, dec? l with
    | some d, some s, some l => mutate st (copy m d s l) (some (.copy d s l))
    | _, _, _ => (st, "bad-op")
  | ["slice", o, s] =>
    match dec? o, dec? s with
    | some o, some s => (st, readReply (slice m o s) bytesToHex)
    | _, _ => (st, "bad-op")
  | ["slicer", a, b] =>
    match dec? a, dec? b with
    | some a, some b => (st, readReply (sliceRange m a b) bytesToHex)
    | _, _ => (st, "bad-op")
  | ["getbyte", o] =>
    match dec? o with
    | some o => (st, readReply (getByte m o) toString)
    | none => (st, "bad-op")
  | ["getword", o] =>
    match dec? o with
    | some o => (st, readReply (getWord m o) bytesToHex)
    | none => (st, "bad-op")
  | ["getu256", o] =>
    match dec? o with
    | some o => (st, readReply (getU256 m o) toHex)
    | none => (st, "bad-op")
  | ["ico", kind, res, a, b, ret, eof, sl, limit, spent, crem, cref, addr] =>
    ico st kind res a b ret eof sl limit spent crem cref addr
  | ["ctx"] => (st, readReply (contextMemory m) bytesToHex)
  | ["len"] => (st, s!"{len m} empty={boolStr (isEmpty m)} cost={currentExpansionCost m}")
  | ["dump"] =>
    (st, s!"buf={bytesToHex m.buffer} cps={joinComma m.checkpoints.reverse} last={m.lastCheckpoint}")
  | _ => (st, "bad-op")

/-- `begin mem <gas>` -/
def begin (toks : List String) : St × String :=
  match toks with
  | [g] =>
    match dec? g with
    | some g =>
      let st : St := { mem := Model.Memory.new, gas := g, live := true, frames := some [[]] }
      (st, s!"ok {stateStr st.mem}{specStr st.frames}")
    | none => ({}, "bad-op")
  | _ => ({}, "bad-op")

/-- `mem <op> …` -/
def handle (st : St) (toks : List String) : St × String :=
  match stateless toks with
  | some r => (st, r)
  | none =>
    match toks with
    | "words" :: _ => (st, "bad-op")
    | "gas" :: _ => (st, "bad-op")
    | _ => if st.live then handleOp st toks else (st, "bad-op")

end Driver.Memory
