import Revm.Util.Hex
import Revm.Model.Journal
import Revm.Spec.JournalAbs
import Revm.Spec.AccessSets
import Revm.Spec.AccessHistory
import Driver.Journal
/-! C34 (journal-API stream): the `JournaledState` model and the access-set machine of `Spec/AccessSets.lean`
in lockstep (`Spec.AccessHistory.lockStep`).
`begin acc <spec> <preloaded a,b|-> <db …> <storage …> <delegations …>` (as for `begin journal`), then
`a <op> …` with the operations of the `j` component. The reply is `c=<is_cold bits>` (`c=-` when the
operation reports none); while the history is admissible and well-nested the Spec column `| spec=c=<bits>`
carries the set machine's prediction. -/
namespace Driver.AccessSets
open Revm Revm.Hex Revm.Model.Journal Revm.Spec.JournalAbs Revm.Spec.AccessHistory

structure St where
  db : Db
  hasStorage : Addr → Bool
  run : Run
  /-- the set machine and the open-checkpoint stack, while the history is admissible -/
  spec : Option (Spec.AccessSets.State × List Nat)
  dead : Bool

def St.init : St :=
  { db := Driver.Journal.emptyDb, hasStorage := fun _ => false, run := { js := JState.new 0 (fun _ => false), cps := [] },
    spec := none, dead := true }

def begin (toks : List String) : St × String :=
  match toks with
  | [spec, pre, accs, sto, del] =>
    match spec.toNat?, (Driver.Journal.splitList pre ",").mapM parseHex?, Driver.Journal.parseDb accs sto del with
    | some spec, some preL, some (db, hs) =>
      let l := Lock.init spec (fun a => preL.contains a)
      ({ db := db, hasStorage := hs, run := l.r, spec := some (l.st, l.open_), dead := false }, "ok")
    | _, _, _ => (St.init, "bad-op")
  | _ => (St.init, "bad-op")

def parseOp (toks : List String) : Option Op :=
  let nat := parseHex?
  match toks with
  | ["load", a] => do some (.load (← nat a))
  | ["loadcode", a] => do some (.loadCode (← nat a))
  | ["loaddel", a] => do some (.loadDelegated (← nat a))
  | ["initload", a, ks] => do some (.initLoad (← nat a) (← (Driver.Journal.splitList ks ",").mapM nat))
  | ["touch", a] => do some (.touch (← nat a))
  | ["transfer", f, t, v] => do let v ← nat v; if v < W then some (.transfer (← nat f) (← nat t) v) else none
  | ["incnonce", a] => do some (.incNonce (← nat a))
  | ["setcode", a, h] => do some (.setCode (← nat a) (← nat h))
  | ["sload", a, k] => do some (.sload (← nat a) (← nat k))
  | ["sstore", a, k, v] => do let v ← nat v; if v < W then some (.sstore (← nat a) (← nat k) v) else none
  | ["tload", a, k] => do some (.tload (← nat a) (← nat k))
  | ["tstore", a, k, v] => do let v ← nat v; if v < W then some (.tstore (← nat a) (← nat k) v) else none
  | ["log", l] => do some (.log (← nat l))
  | ["selfdestruct", a, t] => do some (.selfdestruct (← nat a) (← nat t))
  | ["create", c, a, hs, bal, spec] => do
    let bal ← nat bal
    if bal < W then some (.create (← nat c) (← nat a) (← parseBool? hs) bal (← spec.toNat?)) else none
  | ["checkpoint"] => some .checkpoint
  | ["commit"] => some .commit
  | ["revert", i] => do some (.revert (← i.toNat?))
  | _ => none

def bitsStr (bs : List Bool) : String := if bs.isEmpty then "c=-" else "c=" ++ String.join (bs.map boolStr)

def handle (st : St) (toks : List String) : St × String :=
  if st.dead then (st, "dead") else
  match parseOp toks with
  | none => (st, "bad-op")
  | some op =>
    match step st.db st.run op, coldBits st.db st.run.js op with
    | some r', some bits =>
      let out := bitsStr bits
      match st.spec with
      | some (sst, open_) =>
        let l : Lock := { r := st.run, st := sst, open_ := open_ }
        match lockStep st.db st.hasStorage l op, specStep st.db st.run r' sst op with
        | some l', some (_, sbits) =>
          ({ st with run := r', spec := some (l'.st, l'.open_) },
           if exposes op then out ++ " | spec=" ++ bitsStr sbits else out)
        | _, _ => ({ st with run := r', spec := none }, out)
      | none => ({ st with run := r' }, out)
    | _, _ => ({ st with dead := true }, "panic")

end Driver.AccessSets
