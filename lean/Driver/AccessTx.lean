import Revm.Util.Hex
import Revm.Spec.AccessSets
/-! C34tx — the access-set specification run over a whole-transaction probe template.

Request (after the dispatch token `acctx`):
`bh=<0|1> <spec> <coinbase> <to> <accesslist> <dels> <auths> <prog tokens…>`

* addresses: hex index into the fixed universe shared with the harness (`1..11` precompile addresses,
  `f0` sender, `bb` the EIP-2935 history contract, everything else last-byte addresses), or
  `n<creator>.<salt>` = the address CREATE2 gives for that creator and salt (symbolic here);
* `<accesslist>`: `-` or `;`-separated `addr` / `addr:k,k,…`;
* `<dels>`: `-` or `;`-separated `a>t` (account `a` carries the delegation designator to `t` in the pre-state);
* `<auths>`: `-` or `;`-separated `kind:authority>target`, kind `ok|ok0|chain|nonce|code|max|inv`;
* `<prog>`: items of the top frame (which runs in the context of `<to>` and returns):
  `bal:a xsz:a xhs:a xcp:a` account probes, `ub:a` unmeasured BALANCE, `sl:k ss:k` storage probes of the
  executing context, `cl:a sc:a dc:a cc:a` CALL / STATICCALL / DELEGATECALL / CALLCODE probes (gas 0),
  `sd:h:t` measured CALL of helper `h` that self-destructs to `t`,
  `call:a { … } ret|rev` (also `scall`, `dcall`, `ccall`) unmeasured sub-frame, `create2:salt { … } ret|rev`.

Reply: the predicted net access price of every probe in program order, comma separated (`-` if none),
or `err <reason>`. Only `Revm.Spec.AccessSets` decides what is cold. -/
namespace Driver.AccessTx
open Revm Revm.Hex Revm.Spec.AccessSets

def senderIdx : Nat := 0xf0

/-- symbolic CREATE2 address (outside the 160-bit universe) -/
def createdAddr (creator salt : Nat) : Nat := 2 ^ 200 + creator * 2 ^ 32 + salt

def parseAddr? (s : String) : Option Nat :=
  if s.startsWith "n" then
    match (s.drop 1).toString.splitOn "." with
    | [c, k] => do some (createdAddr (← parseHex? c) (← parseHex? k))
    | _ => none
  else parseHex? s

def splitList (s : String) (sep : String) : List String := if s = "-" then [] else s.splitOn sep

def parseAccessList? (s : String) : Option (List (Addr × List Nat)) :=
  (splitList s ";").mapM fun e => match e.splitOn ":" with
    | [a] => do some ((← parseAddr? a), [])
    | [a, ks] => do some ((← parseAddr? a), (← (ks.splitOn ",").mapM parseHex?))
    | _ => none

def parseDels? (s : String) : Option (List (Nat × Nat)) :=
  (splitList s ";").mapM fun e => match e.splitOn ">" with
    | [a, t] => do some ((← parseAddr? a), (← parseAddr? t))
    | _ => none

structure Auth where
  kind : String
  authority : Nat
  target : Nat

def parseAuths? (s : String) : Option (List Auth) :=
  (splitList s ";").mapM fun e => match e.splitOn ":" with
    | [k, r] => match r.splitOn ">" with
      | [a, t] =>
        if k ∈ ["ok", "ok0", "chain", "nonce", "code", "max", "inv"] then
          do some { kind := k, authority := ← parseAddr? a, target := ← parseAddr? t }
        else none
      | _ => none
    | _ => none

/-- EIP-7702: the tuple passes the chain-id, nonce-range and signature checks (so its authority is accessed) -/
def Auth.warms (a : Auth) : Bool := a.kind ∈ ["ok", "ok0", "nonce", "code"]
/-- the tuple passes every check (the delegation is written) -/
def Auth.applied (a : Auth) : Bool := a.kind ∈ ["ok", "ok0"]

/-- delegation map, latest binding first; target `0` = no delegation -/
abbrev DMap := List (Nat × Nat)

def DMap.delegateOf (m : DMap) (a : Nat) : Option Nat :=
  match m.find? (·.1 = a) with
  | some (_, t) => if t = 0 then none else some t
  | none => none

def precompilesOf (spec : Nat) : List Nat :=
  if spec ≥ 18 then (List.range 0x11).map (· + 1)
  else if spec ≥ 17 then (List.range 0x0a).map (· + 1)
  else (List.range 9).map (· + 1)

/-- one open frame: the context of its caller, its checkpoint, the created address for a CREATE2 frame -/
structure Fr where
  parentSelf : Nat
  cp : Nat
  created : Option Nat

structure M where
  st : State
  self : Nat
  stack : List Fr
  /-- predicted prices, latest first -/
  out : List Nat
  dmap : DMap
  spec : Nat

def acctPrice (cold : Bool) : Nat := if cold then 2600 else 100

/-- the accesses a CALL-family instruction makes for its target: the address and, from Prague, its delegation target -/
def M.callAccesses (m : M) (a : Nat) : List Access :=
  Access.addr a :: (if m.spec ≥ PRAGUE then ((m.dmap.delegateOf a).map Access.addr).toList else [])

def endRev? (s : String) : Option Bool :=
  if s = "rev" then some true else if s = "ret" then some false else none

/-- enter a sub-frame: the accesses happen in the caller's context, then the checkpoint is taken -/
def M.enter (m : M) (accs : List Access) (newSelf : Nat) (created : Option Nat) : M :=
  let (st1, _) := accessAll m.st accs
  let cp := st1.snaps.length
  { m with st := checkpoint st1, self := newSelf,
           stack := { parentSelf := m.self, cp := cp, created := created } :: m.stack }

def M.leave (m : M) (rev : Bool) : Option M :=
  match m.stack with
  | [] => none
  | f :: fs =>
    if rev then
      match revert m.st f.cp with
      | some st1 => some { m with st := st1, self := f.parentSelf, stack := fs }
      | none => none
    else
      let st1 := commit m.st
      -- after a successful CREATE2 the creator reads the deployed code (EXTCODESIZE, EXTCODECOPY): unmeasured accesses
      let st2 := match f.created with
        | some c => (accessAll st1 [Access.addr c, Access.addr c]).1
        | none => st1
      some { m with st := st2, self := f.parentSelf, stack := fs }

/-- a leaf item -/
def M.leaf (m : M) (t : String) : Option M :=
  match t.splitOn ":" with
  | [op, a] =>
    if op ∈ ["bal", "xsz", "xhs", "xcp"] then do
      let (st1, c) := access m.st (Access.addr (← parseAddr? a))
      some { m with st := st1, out := acctPrice c :: m.out }
    else if op = "ub" then do
      let (st1, _) := access m.st (Access.addr (← parseAddr? a))
      some { m with st := st1 }
    else if op = "sl" then do
      let (st1, c) := access m.st (Access.slot m.self (← parseHex? a))
      some { m with st := st1, out := (if c then 2100 else 100) :: m.out }
    else if op = "ss" then do
      let (st1, c) := access m.st (Access.slot m.self (← parseHex? a))
      some { m with st := st1, out := (100 + if c then 2100 else 0) :: m.out }
    else if op ∈ ["cl", "sc", "dc", "cc"] then do
      let (st1, cs) := accessAll m.st (m.callAccesses (← parseAddr? a))
      -- the callee frame (no code runs with gas 0) is entered and left at once
      let st2 := checkpoint st1
      some { m with st := commit st2, out := (cs.map acctPrice).sum :: m.out }
    else none
  | ["sd", h, t] => do
    let h ← parseAddr? h
    let t ← parseAddr? t
    let (st1, cs) := accessAll m.st (m.callAccesses h)
    let st2 := checkpoint st1
    let (st3, c) := access st2 (Access.addr t)
    some { m with st := commit st3, out := ((cs.map acctPrice).sum + 5000 + (if c then 2600 else 0)) :: m.out }
  | _ => none

def run : Nat → M → List String → Option M
  | 0, _, _ => none
  | _, m, [] => if m.stack.isEmpty then some m else none
  | fuel + 1, m, "}" :: e :: rest => do
    let m1 ← m.leave (← endRev? e)
    run fuel m1 rest
  | fuel + 1, m, t :: "{" :: rest =>
    match t.splitOn ":" with
    | [op, a] =>
      if op = "create2" then do
        let c := createdAddr m.self (← parseHex? a)
        -- EIP-2929: the created address is accessed by the creator, outside the creation's checkpoint
        run fuel (m.enter [Access.addr c] c (some c)) rest
      else if op = "call" ∨ op = "scall" then do
        let a ← parseAddr? a
        run fuel (m.enter (m.callAccesses a) a none) rest
      else if op = "dcall" ∨ op = "ccall" then do
        let a ← parseAddr? a
        run fuel (m.enter (m.callAccesses a) m.self none) rest
      else none
    | _ => none
  | fuel + 1, m, t :: rest => do
    let m1 ← m.leaf t
    run fuel m1 rest

def handle (toks : List String) : String :=
  match toks with
  | bh :: spec :: cb :: to :: al :: dels :: auths :: prog =>
    if bh ≠ "bh=0" ∧ bh ≠ "bh=1" then "err parse" else
    match spec.toNat?, parseAddr? cb, parseAddr? to, parseAccessList? al, parseDels? dels, parseAuths? auths with
    | some spec, some cb, some to, some al, some dels, some auths =>
      if spec < 11 ∨ spec > 18 then "err spec"
      else if spec < PRAGUE ∧ (!dels.isEmpty ∨ !auths.isEmpty) then "err prague-only"
      else
        -- delegations when execution starts: pre-state, then the applied tuples in order (latest first)
        let dmap : DMap := ((auths.filter Auth.applied).map fun a => (a.authority, a.target)).reverse ++ dels.reverse
        let env : TxEnv :=
          { spec := spec, sender := senderIdx, target := to, coinbase := cb,
            precompiles := precompilesOf spec, accessList := al,
            authorities := (auths.filter Auth.warms).map (·.authority),
            targetDelegate := dmap.delegateOf to }
        let m0 : M := { st := txInit env, self := to, stack := [], out := [], dmap := dmap, spec := spec }
        match run (prog.length + 1) m0 prog with
        | some m => if m.out.isEmpty then "-" else ",".intercalate (m.out.reverse.map toString)
        | none => "err parse"
    | _, _, _, _, _, _ => "err parse"
  | _ => "err parse"

end Driver.AccessTx
