import Driver.Arith
import Driver.Activation
import Driver.Gas
import Driver.Journal
import Driver.Blob
import Driver.Bytecode
import Driver.Jump
/-! Line-protocol driver: one request per line on stdin, one reply per line on stdout.
Stateless components are dispatched on the first token. A stateful component `X` adds a field
`x : Driver.X.St := Driver.X.St.init` to `DState`, resets it on `begin x …` and threads it through
`Driver.X.handle`. -/
open Driver

structure DState where
  unit : Unit := ()
  gas : Driver.Gas.St := Driver.Gas.St.init
  journal : Driver.Journal.St := Driver.Journal.St.init
  -- stateful component states go here

def step (st : DState) (line : String) : DState × String :=
  match line.trimAscii.toString.splitOn " " with
  | "arith" :: r => (st, Arith.handle r)
  | "activation" :: r => (st, Activation.handle r)
  | "begin" :: "gas" :: r => let (s, out) := Driver.Gas.begin r; ({ st with gas := s }, out)
  | "gas" :: r => let (s, out) := Driver.Gas.handle st.gas r; ({ st with gas := s }, out)
  | "begin" :: "journal" :: r => let (s, out) := Driver.Journal.begin r; ({ st with journal := s }, out)
  | "j" :: r => let (s, out) := Driver.Journal.handle st.journal r; ({ st with journal := s }, out)
  | "blob" :: r => (st, Blob.handle r)
  | "bytecode" :: r => (st, Bytecode.handle r)
  | "jump" :: r => (st, Jump.handle r)
  | _ => (st, "bad-op")

partial def loop (hin hout : IO.FS.Stream) (st : DState) : IO Unit := do
  let line ← hin.getLine
  if line.isEmpty then return ()
  let (st', out) := step st line
  hout.putStrLn out
  loop hin hout st'

def main : IO Unit := do
  let hin ← IO.getStdin
  let hout ← IO.getStdout
  loop hin hout {}
  hout.flush
