import Driver.Arith
import Driver.Activation
import Driver.Gas
import Driver.Journal
import Driver.Blob
import Driver.Bytecode
import Driver.Jump
import Driver.Stack
import Driver.Memory
import Driver.GasCalc
import Driver.Precompile
import Driver.Backend
import Driver.Eof
import Driver.Db
import Driver.Collision
import Driver.StateDb
import Driver.Prestate
import Driver.Bundle
import Driver.Util
import Driver.Interp
import Driver.Evm
import Driver.EvmLifecycle
import Driver.TxValidate
import Driver.InspectorHooks
import Driver.Static
import Driver.HandlerCfg
import Driver.Frame
import Driver.Ether
import Driver.TxGas
import Driver.OpFees
import Driver.AccessTx
import Driver.AccessSets
import Driver.InspectorWrap
/-! Line-protocol driver: one request per line on stdin, one reply per line on stdout.
Stateless components are dispatched on the first token. A stateful component `X` adds a field
`x : Driver.X.St := Driver.X.St.init` to `DState`, resets it on `begin x …` and threads it through
`Driver.X.handle`. -/
open Driver

structure DState where
  unit : Unit := ()
  gas : Driver.Gas.St := Driver.Gas.St.init
  journal : Driver.Journal.St := Driver.Journal.St.init
  stack : Driver.Stack.St := Driver.Stack.St.init
  mem : Driver.Memory.St := Driver.Memory.St.init
  db : Driver.Db.St := Driver.Db.St.init
  statedb : StateDb.St := {}
  prestate : Prestate.St := {}
  bundle : Driver.Bundle.St := Driver.Bundle.St.init
  interp : Driver.Interp.St := Driver.Interp.St.init
  evm : Driver.Evm.St := Driver.Evm.St.init
  lc : Driver.EvmLifecycle.St := Driver.EvmLifecycle.St.init
  txv : Driver.TxValidate.St := {}
  hooks : Driver.InspectorHooks.St := Driver.InspectorHooks.St.init
  hcfg : Driver.HandlerCfg.St := Driver.HandlerCfg.St.init
  frame : Driver.Frame.St := Driver.Frame.St.init
  ether : Driver.Ether.St := Driver.Ether.St.init
  acc : Driver.AccessSets.St := Driver.AccessSets.St.init
  ophist : Driver.OpFees.HSt := {}
  -- stateful component states go here

def step (st : DState) (line : String) : DState × String :=
  match line.trimAscii.toString.splitOn " " with
  | "arith" :: r => (st, Arith.handle r)
  | "util" :: r => (st, Driver.Util.handle r)
  | "activation" :: r => (st, Activation.handle r)
  | "begin" :: "gas" :: r => let (s, out) := Driver.Gas.begin r; ({ st with gas := s }, out)
  | "gas" :: r => let (s, out) := Driver.Gas.handle st.gas r; ({ st with gas := s }, out)
  | "begin" :: "journal" :: r => let (s, out) := Driver.Journal.begin r; ({ st with journal := s }, out)
  | "j" :: r => let (s, out) := Driver.Journal.handle st.journal r; ({ st with journal := s }, out)
  | "blob" :: r => (st, Blob.handle r)
  | "bytecode" :: r => (st, Bytecode.handle r)
  | "jump" :: r => (st, Jump.handle r)
  | "begin" :: "stack" :: _ => let (s, out) := Driver.Stack.begin; ({ st with stack := s }, out)
  | "stack" :: r => let (s, out) := Driver.Stack.handle st.stack r; ({ st with stack := s }, out)
  | "begin" :: "mem" :: r => let (s, o) := Memory.begin r; ({ st with mem := s }, o)
  | "mem" :: r => let (s, o) := Memory.handle st.mem r; ({ st with mem := s }, o)
  | "gascalc" :: r => (st, GasCalc.handle r)
  | "precompile" :: r => (st, Precompile.handle r)
  | "backend" :: r => (st, Backend.handle r)
  | "eof" :: r => (st, Eof.handle r)
  | "collision" :: r => (st, Collision.handle r)
  | "begin" :: "db" :: r => let (s, o) := Db.handle st.db ("begin" :: "db" :: r); ({ st with db := s }, o)
  | "db" :: r => let (s, o) := Db.handle st.db r; ({ st with db := s }, o)
  | "begin" :: "statedb" :: r => let (s, out) := StateDb.handle {} ("begin" :: "statedb" :: r); ({ st with statedb := s }, out)
  | "sdb" :: r => let (s, out) := StateDb.handle st.statedb r; ({ st with statedb := s }, out)
  | "begin" :: "prestate" :: r => let (s, out) := Prestate.handle {} ("begin" :: "prestate" :: r); ({ st with prestate := s }, out)
  | "pst" :: r => let (s, out) := Prestate.handle st.prestate r; ({ st with prestate := s }, out)
  | "begin" :: "bundle" :: r => let (b, out) := Bundle.handleBegin r; ({ st with bundle := b }, out)
  | "bundle" :: r => let (b, out) := Bundle.handle st.bundle r; ({ st with bundle := b }, out)
  | "begin" :: "interp" :: r => let (s, o) := Driver.Interp.begin r; ({ st with interp := s }, o)
  | "i" :: r => let (s, o) := Driver.Interp.handle st.interp r; ({ st with interp := s }, o)
  | "interp" :: r => (st, Driver.Interp.handleStateless r)
  | "begin" :: "evm" :: r => let (s, o) := Driver.Evm.begin r; ({ st with evm := s }, o)
  | "evm" :: r => let (s, o) := Driver.Evm.handle st.evm r; ({ st with evm := s }, o)
  | "begin" :: "lc" :: r => let (s, out) := Driver.EvmLifecycle.begin r; ({ st with lc := s }, out)
  | "lc" :: r => let (s, out) := Driver.EvmLifecycle.handle st.lc r; ({ st with lc := s }, out)
  | "txv" :: r => (st, TxValidate.handle r)
  | "begin" :: "noeff" :: r => let (s, out) := TxValidate.handleBegin r; ({ st with txv := s }, out)
  | "ne" :: r => let (s, out) := TxValidate.handleNe st.txv r; ({ st with txv := s }, out)
  | "begin" :: "hooks" :: r => let (s, o) := Driver.InspectorHooks.begin r; ({ st with hooks := s }, o)
  | "hk" :: r => let (s, o) := Driver.InspectorHooks.handle st.hooks r; ({ st with hooks := s }, o)
  | "static" :: r => (st, Driver.Static.handle r)
  | "begin" :: "hcfg" :: r => let (s, out) := Driver.HandlerCfg.begin st.hcfg r; ({ st with hcfg := s }, out)
  | "hcfg-build" :: r => let (s, out) := Driver.HandlerCfg.buildLine st.hcfg r; ({ st with hcfg := s }, out)
  | "hcfg" :: r => let (s, out) := Driver.HandlerCfg.handle st.hcfg r; ({ st with hcfg := s }, out)
  | "begin" :: "frame" :: r => let (s, out) := Driver.Frame.begin r; ({ st with frame := s }, out)
  | "frame" :: r => let (s, out) := Driver.Frame.handle st.frame r; ({ st with frame := s }, out)
  | "begin" :: "ether" :: r => let (s, o) := Driver.Ether.begin r; ({ st with ether := s }, o)
  | "e" :: r => let (s, o) := Driver.Ether.handle st.ether r; ({ st with ether := s }, o)
  | "etx" :: r => (st, Driver.Ether.etx r)
  | "txgas" :: r => (st, TxGas.handle r)
  | "opfee" :: r => (st, OpFees.handleOpfee r)
  | "optx" :: r => (st, OpFees.handleOptx r)
  | "begin" :: "ophist" :: r => let (s, out) := OpFees.histBegin r; ({ st with ophist := s }, out)
  | "oh" :: r => let (s, out) := OpFees.histHandle st.ophist r; ({ st with ophist := s }, out)
  | "acctx" :: r => (st, AccessTx.handle r)
  | "begin" :: "acc" :: r => let (s, out) := Driver.AccessSets.begin r; ({ st with acc := s }, out)
  | "a" :: r => let (s, out) := Driver.AccessSets.handle st.acc r; ({ st with acc := s }, out)
  | "inspwrap" :: r => (st, InspectorWrap.handle r)
  | "begin" :: "eof" :: r => let (s, o) := Driver.Interp.beginEof r; ({ st with interp := s }, o)
  | _ => (st, "bad-op")

partial def loop (hin hout : IO.FS.Stream) (st : DState) : IO Unit := do
  let line ← hin.getLine
  if line.isEmpty then return ()
  let (st', out) := step st line
  hout.putStrLn out
  loop hin hout st'

def main : IO Unit := do
  let hin ← IO.getStdin
  let hout ← IO.getStdout
  loop hin hout {}
  hout.flush
