import Revm.Util.Hex
import Revm.Model.Interp
import Revm.Model.InterpWf
/-! Line-protocol driver of component `interp` (C25): per-instruction lockstep with the real
`revm::interpreter::Interpreter`, and whole runs.

* `begin interp <spec> <gas> <static> <code> <input> <target> <caller> <value> <env>` → `ok len=<code buffer len> pc=0`
  `<env>` = `chainid,coinbase,timestamp,number,difficulty,prevrandao|-,gaslimit,basefee,gasprice,prio|-,origin,h1+h2..|-,blobgasprice|-,limit|-` (hex)
* `begin eof <spec> <gas> <static> <sections s1+s2..> <types i.o.m+..> <data> <datasize> <containers c1+c2..|-> <init 0|1> <input> <target> <caller> <value> <env>`: EOF mode
  (replies then end with ` fs=<return stack len>:<current section> cl=<section len>`)
* `i s <tag> <resp>` one instruction (`<tag>` = case.step, ignored); `<resp>` = `-` or `ok:word:bytes:cold:orig:pres:new:flags:deleg` (the scripted host answer)
* `i ret <tag> <result>:<gas remaining>:<refunded>:<output>:<address|->` re-entry of a child result after an action
* `i dump <tag>` full digests
* `i wf <tag> <v>` EOF mode; `<v>` = verdict of the real `validate_eof_inner` on the container → `wfok v=<v>`, or `wf-gap v=1`
  when the validator accepted a container that `wfCtxB` (hypothesis of the EOF theorems) rejects
  reply of `s`/`ret`: `pc= r= g= rf= n= top= sd= ms= md= rd=` [` h=<host call>`] [` act=<action>`] [` out=<len>:<digest>`],
  `panic` for a modelled Rust panic, `oob-code|oob-stack|oob-memory` for a modelled out-of-buffer access
* `interp run <spec> <gas> <static> <code> <input> <target> <caller> <value> <env> <hostq> <childq> <keccakq>`
  → `r= g= rf= out= steps= ms= md= n= sd=` -/
namespace Driver.Interp
open Revm Revm.Hex Revm.Model.Interp
open Revm.Model

/-- FNV-1a, 64 bit -/
def FNV_OFFSET : Nat := 0xcbf29ce484222325
def FNV_PRIME : Nat := 0x100000001b3
def fnvStep (h b : Nat) : Nat := ((h ^^^ b) * FNV_PRIME) % 2^64
def digestBytes (bs : List Nat) : Nat := bs.foldl fnvStep FNV_OFFSET
/-- each word as its four little-endian 64-bit limbs -/
def digestWords (ws : List Nat) : Nat :=
  ws.foldl (fun h w =>
    fnvStep (fnvStep (fnvStep (fnvStep h (w % 2^64)) (w / 2^64 % 2^64)) (w / 2^128 % 2^64)) (w / 2^192 % 2^64))
    FNV_OFFSET

/-- digest of the memory as compared after every instruction: the whole context up to 4096 bytes, else
the first and the last 2048 bytes -/
def memWindowDigest (ctx : List Nat) : Nat :=
  if ctx.length ≤ 4096 then digestBytes ctx
  else digestBytes (ctx.take 2048 ++ ctx.drop (ctx.length - 2048))

def lenDig (bs : List Nat) : String := s!"{bs.length}:{toHex (digestBytes bs)}"

def parseOptHex (s : String) : Option (Option Nat) :=
  if s = "-" then some none else (parseHex? s).map some

def parseEnv (tok : String) : Option Env :=
  match tok.splitOn "," with
  | [chain, coinbase, ts, num, diff, prev, gl, bf, gp, prio, origin, bh, bgp, lim] =>
    match parseHex? chain, parseHex? coinbase, parseHex? ts, parseHex? num, parseHex? diff, parseOptHex prev,
          parseHex? gl, parseHex? bf, parseHex? gp, parseOptHex prio, parseHex? origin, parseOptHex bgp,
          parseOptHex lim with
    | some chain, some coinbase, some ts, some num, some diff, some prev, some gl, some bf, some gp, some prio,
      some origin, some bgp, some lim =>
      let hashes? : Option (List Nat) :=
        if bh = "-" then some [] else
        (bh.splitOn "+").foldr (fun t acc => match parseHex? t, acc with
          | some h, some l => some (h :: l) | _, _ => none) (some [])
      hashes?.map fun hashes =>
        { chainId := chain, coinbase := coinbase, timestamp := ts, number := num, difficulty := diff,
          prevrandao := prev, gasLimit := gl, basefee := bf, gasPrice := gp, priorityFee := prio,
          origin := origin, blobHashes := hashes, blobGasPrice := bgp, limitContractCodeSize := lim }
    | _, _, _, _, _, _, _, _, _, _, _, _, _ => none
  | _ => none

def parseInit (toks : List String) : Option IState :=
  match toks with
  | [spec, gas, static, code, input, target, caller, value, env] =>
    match spec.toNat?, gas.toNat?, parseBool? static, parseBytes? code, parseBytes? input, parseHex? target,
          parseHex? caller, parseHex? value, parseEnv env with
    | some spec, some gas, some static, some code, some input, some target, some caller, some value, some env =>
      if gas < U64 then
        some (IState.init code input gas static (GasCalc.canon spec) target caller value env)
      else none
    | _, _, _, _, _, _, _, _, _ => none
  | _ => none

def parseList {α} (sep : String) (p : String → Option α) (tok : String) : Option (List α) :=
  if tok = "-" then some [] else
  (tok.splitOn sep).foldr (fun t acc => match p t, acc with
    | some x, some l => some (x :: l) | _, _ => none) (some [])

def parseType (t : String) : Option (Nat × Nat × Nat) :=
  match t.splitOn "." with
  | [i, o, m] => match i.toNat?, o.toNat?, m.toNat? with
    | some i, some o, some m => some (i, o, m)
    | _, _, _ => none
  | _ => none

/-- `begin eof <spec> <gas> <static> <sections> <types> <data> <datasize> <containers> <init> <input> <target> <caller> <value> <env>` -/
def parseInitEof (toks : List String) : Option IState :=
  match toks with
  | [spec, gas, static, secs, types, data, dsize, conts, init, input, target, caller, value, env] =>
    match spec.toNat?, gas.toNat?, parseBool? static, parseList "+" parseBytes? secs, parseList "+" parseType types,
          parseBytes? data, dsize.toNat?, parseList "+" parseBytes? conts, parseBool? init, parseBytes? input,
          parseHex? target, parseHex? caller, parseHex? value, parseEnv env with
    | some spec, some gas, some static, some secs, some types, some data, some dsize, some conts, some init,
      some input, some target, some caller, some value, some env =>
      if gas < U64 ∧ secs ≠ [] then
        some (IState.initEof { sections := secs, types := types, data := data, dataSize := dsize, containers := conts }
          input gas static (GasCalc.canon spec) target caller value env Memory.new init)
      else none
    | _, _, _, _, _, _, _, _, _, _, _, _, _, _ => none
  | _ => none

def parseResp (tok : String) : Option HostResp :=
  if tok = "-" then some { ok := false } else
  match tok.splitOn ":" with
  | [ok, word, bytes, cold, orig, pres, new, flags, deleg] =>
    match parseBool? ok, parseHex? word, parseBytes? bytes, parseBool? cold, parseHex? orig, parseHex? pres,
          parseHex? new, parseHex? flags with
    | some ok, some word, some bytes, some cold, some orig, some pres, some new, some flags =>
      let deleg? : Option (Option Bool) :=
        if deleg = "-" then some none else (parseBool? deleg).map some
      deleg?.map fun deleg =>
        { ok := ok, word := word, bytes := bytes, isCold := cold, original := orig, present := pres, new := new,
          hadValue := flags % 2 = 1, targetExists := flags / 2 % 2 = 1, previouslyDestroyed := flags / 4 % 2 = 1,
          isEmpty := flags / 8 % 2 = 1, delegCold := deleg }
    | _, _, _, _, _, _, _, _ => none
  | _ => none

def parseInt? (s : String) : Option Int :=
  if s.startsWith "-" then (s.drop 1).toNat?.map (fun n => -(n : Int)) else s.toNat?.map (fun n => (n : Int))

def parseChild (tok : String) : Option ChildResult :=
  match tok.splitOn ":" with
  | [res, gas, refunded, output, addr] =>
    match IResult.ofName res, gas.toNat?, parseInt? refunded, parseBytes? output, parseOptHex addr with
    | some res, some gas, some refunded, some output, some addr =>
      some { result := res, output := output, gasRemaining := gas, gasRefunded := refunded, address := addr }
    | _, _, _, _, _ => none
  | _ => none

def wordList (ws : List Nat) : String :=
  if ws.isEmpty then "-" else ",".intercalate (ws.map toHex)

def hostStr : HostOp → Option String
  | .keccak _ => none
  | .balance a => some s!"balance:{toHex a}"
  | .code a => some s!"code:{toHex a}"
  | .codeHash a => some s!"codehash:{toHex a}"
  | .blockHash n => some s!"blockhash:{n}"
  | .sload a k => some s!"sload:{toHex a}:{toHex k}"
  | .sstore a k v => some s!"sstore:{toHex a}:{toHex k}:{toHex v}"
  | .tload a k => some s!"tload:{toHex a}:{toHex k}"
  | .tstore a k v => some s!"tstore:{toHex a}:{toHex k}:{toHex v}"
  | .log a ts d => some s!"log:{toHex a}:{if ts.isEmpty then "-" else "+".intercalate (ts.map toHex)}:{lenDig d}"
  | .selfdestruct a t => some s!"selfdestruct:{toHex a}:{toHex t}"
  | .loadAccountDelegated a => some s!"load:{toHex a}"
  | .create2Address _ _ _ => none

def actionStr : Action → String
  | .call i =>
    s!"call:{i.scheme.name}:{i.gasLimit}:{toHex i.bytecodeAddress}:{toHex i.targetAddress}:{toHex i.caller}:{if i.valueTransfer then "T" else "A"}:{toHex i.value}:{boolStr i.isStatic}:{boolStr i.isEof}:{i.retStart}:{i.retEnd}:{lenDig i.input}"
  | .create i =>
    s!"create:{toHex i.caller}:{match i.salt with | some x => toHex x | none => "-"}:{toHex i.value}:{i.gasLimit}:{lenDig i.initCode}"
  | .eofCreate i =>
    s!"eofcreate:{toHex i.caller}:{toHex i.createdAddress}:{toHex i.value}:{i.gasLimit}:{lenDig i.container}:{lenDig i.input}"

def ctxOf (s : IState) : List Nat := s.mem.buffer.drop s.mem.lastCheckpoint

def stateStr (r : IResult) (s : IState) : String :=
  let n := s.stack.length
  let top := (s.stack.drop (n - 3)).reverse
  let ctx := ctxOf s
  let base := s!"pc={s.pc} r={r.name} g={s.gas.remaining} rf={s.gas.refunded} n={n} top={wordList top} sd={toHex (digestWords s.stack)} ms={Memory.len s.mem} md={toHex (memWindowDigest ctx)} rd={lenDig s.returnData}"
  match s.eof with
  | some c => base ++ s!" fs={c.retStack.length}:{c.curIdx} cl={s.code.length}"
  | none => base

structure St where
  s : Option IState := none
  pending : Option Action := none

def St.init : St := {}

def faultReply (f : Fault) : String := f.name

def doneReply (d : Done) (hs : String) : St × String :=
  match d with
  | .next s =>
    -- the harness's check after every instruction: a pointer that will be dereferenced again is inside the buffer
    if s.pc ≥ s.code.length then ({}, "oob-code") else
    ({ s := some s }, stateStr .Continue s ++ hs)
  | .action a s =>
    if s.pc ≥ s.code.length then ({}, "oob-code") else
    ({ s := some s, pending := some a }, stateStr .CallOrCreate s ++ hs ++ s!" act={actionStr a}")
  | .halt r out s =>
    ({ s := some s }, stateStr r s ++ hs ++ (if r = .Return ∨ r = .Revert ∨ r = .ReturnContract then s!" out={lenDig out}" else ""))
  | .fault f => ({}, faultReply f)

def begin (toks : List String) : St × String :=
  match parseInit toks with
  | some s => ({ s := some s }, s!"ok len={s.code.length} pc={s.pc}")
  | none => ({}, "bad-op")

def beginEof (toks : List String) : St × String :=
  match parseInitEof toks with
  | some s => ({ s := some s }, s!"ok len={s.code.length} pc={s.pc}")
  | none => ({}, "bad-op")

def handle (st : St) (toks : List String) : St × String :=
  match toks, st.s with
  | ["s", _tag, resp], some s =>
    if st.pending.isSome then (st, "bad-op") else
    match parseResp resp with
    | none => (st, "bad-op")
    | some r =>
      match step s with
      | .pure d => doneReply d ""
      | .host op k =>
        doneReply (k r) (match hostStr op with | some h => s!" h={h}" | none => "")
  | ["ret", _tag, child], some s =>
    match st.pending, parseChild child with
    | some a, some c =>
      (match insertOutcome a c s with
       | .ok _ s' => ({ s := some s' }, stateStr .Continue s')
       | .halt r _ s' => ({ s := some s' }, stateStr r s')
       | .fault f => ({}, faultReply f))
    | _, _ => (st, "bad-op")
  | ["wf", _tag, v], some s =>
    -- `<v>`: did the real validator accept the container? then the well-formedness predicate of the proofs
    -- (`wfCtxB`, the hypothesis of the EOF theorems of C25) has to hold
    (match s.eof, parseBool? v with
     | some c, some v =>
       if v && !wfCtxB c then (st, "wf-gap v=1") else (st, s!"wfok v={if v then 1 else 0}")
     | _, _ => (st, "bad-op"))
  | ["dump", _tag], some s =>
    (st, s!"stack={toHex (digestWords s.stack)} mem={lenDig (ctxOf s)} rd={lenDig s.returnData}")
  | _, _ => (st, "bad-op")

/-! ### whole runs -/

structure Queues where
  host : List HostResp
  child : List ChildResult
  keccak : List Nat

def queueOracle : Oracle Queues where
  host q op :=
    match op with
    | .keccak _ =>
      (match q.keccak with
       | k :: rest => ({ word := k }, { q with keccak := rest })
       | [] => ({ word := 0 }, q))
    | _ =>
      (match q.host with
       | r :: rest => (r, { q with host := rest })
       | [] => ({ ok := false }, q))
  child q _ :=
    match q.child with
    | c :: rest => (c, { q with child := rest })
    | [] => ({ result := .OutOfGas, output := [], gasRemaining := 0, gasRefunded := 0 }, q)

def parseQueue {α} (p : String → Option α) (tok : String) : Option (List α) :=
  if tok = "-" then some [] else
  (tok.splitOn ";").foldr (fun t acc => match p t, acc with
    | some x, some l => some (x :: l) | _, _ => none) (some [])

/-- `run` that also counts the instructions executed (the harness counts them through a wrapped table) -/
def runCount (o : Oracle Queues) : Nat → IState → Queues → Nat → RunResult × Nat
  | 0, _, _, n => (.outOfFuel, n)
  | fuel + 1, s, h, n =>
    let cont (d : Done) (h : Queues) : RunResult × Nat :=
      match d with
      | .next s' => runCount o fuel s' h (n + 1)
      | .action a s' =>
        let (res, h') := o.child h a
        (match insertOutcome a res s' with
         | .ok _ s'' => runCount o fuel s'' h' (n + 1)
         | .halt r out s'' => (.done r out s'', n + 1)
         | .fault f => (.fault f, n + 1))
      | .halt r out s' => (.done r out s', n + 1)
      | .fault f => (.fault f, n + 1)
    match step s with
    | .pure d => cont d h
    | .host op k =>
      let (r, h') := o.host h op
      cont (k r) h'

def runLine (toks : List String) : String :=
  match toks with
  | [spec, gas, static, code, input, target, caller, value, env, hq, cq, kq] =>
    match parseInit [spec, gas, static, code, input, target, caller, value, env],
          parseQueue parseResp hq, parseQueue parseChild cq, parseQueue parseHex? kq with
    | some s, some hq, some cq, some kq =>
      -- every instruction that continues costs at least 1 gas (theorem `gas_decreases`), every re-entry of a
      -- child result at least as much: `gas + 1` instructions always suffice; the margin only guards the driver
      let (res, steps) := runCount queueOracle (s.gas.remaining + 2 + cq.length) s ⟨hq, cq, kq⟩ 0
      (match res with
       | .done r out s' =>
         s!"r={r.name} g={s'.gas.remaining} rf={s'.gas.refunded} out={lenDig out} steps={steps} ms={Memory.len s'.mem} md={toHex (memWindowDigest (ctxOf s'))} n={s'.stack.length} sd={toHex (digestWords s'.stack)}"
       | .fault f => faultReply f
       | .outOfFuel => "out-of-fuel")
    | _, _, _, _ => "bad-op"
  | _ => "bad-op"

/-- stateless requests of the component -/
def handleStateless (toks : List String) : String :=
  match toks with
  | "run" :: r => runLine r
  | _ => "bad-op"

end Driver.Interp
