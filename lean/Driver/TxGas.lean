import Revm.Util.Hex
import Revm.Model.TxGas
/-! Line-protocol driver of component `txgas` (C09). Request formats: see `harness/src/c09.rs`.

`txgas pipe …`: the model runs validation, `calculate_initial_tx_gas` (Model.GasCalc), the fee pipeline
on the prescribed first-frame result and the balance updates, and prints what the real `Evm` prints.
`txgas tx …`: the same pipeline on the OBSERVED first-frame result of a whole real transaction; the
`eq=` column is what the property demands of the harness's recomputation on the real balances (all
statements hold). -/
namespace Driver.TxGas
open Revm Revm.Hex Revm.Model.Gas Revm.Model.TxGas

def u64? (s : String) : Option Nat := match parseHex? s with
  | some v => if v < U64 then some v else none
  | none => none
def u128? (s : String) : Option Nat := match parseHex? s with
  | some v => if v < U128 then some v else none
  | none => none
def word? (s : String) : Option Nat := match parseHex? s with
  | some v => if v < W then some v else none
  | none => none
def opt? (f : String → Option Nat) (s : String) : Option (Option Nat) :=
  if s = "-" then some none else (f s).map some

/-- optional `-`, then one or more decimal digits; value must be an `i64` -/
def i64? (s : String) : Option Int :=
  let (neg, ds) : Bool × List Char := match s.toList with
    | '-' :: r => (true, r)
    | r => (false, r)
  if ds.isEmpty then none else
  match ds.foldl (fun acc c => match acc with
      | some a => if '0' ≤ c ∧ c ≤ '9' then some (a * 10 + (c.toNat - '0'.toNat)) else none
      | none => none) (some 0) with
  | some n =>
    let v : Int := if neg then -(n : Int) else (n : Int)
    if I64MIN ≤ v ∧ v ≤ I64MAX then some v else none
  | none => none

/-- `-` or comma separated hex counts, at most 8 items, each ≤ 16 -/
def al? (s : String) : Option (List Nat) :=
  if s = "-" then some [] else
  match (s.splitOn ",").foldr (fun t acc => match u64? t, acc with
    | some k, some l => some (k :: l)
    | _, _ => none) (some []) with
  | some l => if l.length ≤ 8 ∧ l.all (· ≤ 16) then some l else none
  | none => none

/-- `-` or `<k>,<m>` with k, m ≤ 8 -/
def auth? (s : String) : Option (Option (Nat × Nat)) :=
  if s = "-" then some none else
  match s.splitOn "," with
  | [a, b] => match u64? a, u64? b with
    | some k, some m => if k ≤ 8 ∧ m ≤ 8 then some (some (k, m)) else none
    | _, _ => none
  | _ => none

def specIds : List Nat := [0, 1, 2, 3, 4, 5, 6, 7, 8, 9, 10, 11, 12, 13, 14, 15, 16, 17, 18, 19, 255]

structure Fees where
  e : Env
  bal : Nat
  cb : Nat

/-- `spec gl gp pf bf bp nb mf val bal cb`; `e.spec` is the canonical id (`spec_to_generic!`) -/
def fees? : List String → Option Fees
  | [spec, gl, gp, pf, bf, bp, nb, mf, val, bal, cb] => do
    let spec ← u64? spec
    if !specIds.contains spec then none
    let gl ← u64? gl
    let gp ← word? gp
    let pf ← opt? word? pf
    let bf ← word? bf
    let bp ← opt? u128? bp
    let nb ← u64? nb
    if nb > 64 then none
    let mf ← opt? word? mf
    let val ← word? val
    let bal ← word? bal
    let cb ← word? cb
    some { e := { spec := Model.GasCalc.canon spec, gasLimit := gl, gasPrice := gp, priorityFee := pf, basefee := bf,
                  blobPrice := bp, nBlobs := nb, maxFeePerBlobGas := mf, value := val }, bal := bal, cb := cb }
  | _ => none

inductive Pre
  | rejected
  | panic
  | ok (initialGas floorGas : Nat)

/-- validation + initial gas, in the order of `Evm::transact` -/
def preverify (f : Fees) (t : TxShape) (input : List Nat) : Pre :=
  match validateEnv f.e t with
  | some .panic => .panic
  | some _ => .rejected
  | none =>
    match Model.GasCalc.calculateInitialTxGas f.e.spec input t.isCreate t.accessList (t.authLen.getD 0) with
    | none => .panic
    | some (i, fl) =>
      match validateInitialGas f.e i fl with
      | some _ => .rejected
      | none =>
        match validateAgainstState f.e f.bal with
        | some _ => .rejected
        | none => .ok i fl

def reportStr : Report → String
  | .success => "success" | .revert => "revert" | .halt => "halt" | .fatal => "fatal"

def refundedStr (r : Report) (o : Out) : String :=
  match r with
  | .success => toHex o.gasRefunded
  | _ => "-"

/-- tokens after `txgas pipe` -/
def pipe (toks : List String) : String :=
  if toks.length ≠ 21 then "bad-op" else
  match fees? (toks.take 11), toks.drop 11 with
  | some f, [kind, z, n, al, auth, same, rw, ir, rem, refd] =>
    match (if kind = "c" then some false else if kind = "r" then some true else none),
          u64? z, u64? n, al? al, auth? auth, parseBool? same, parseBool? rw, IR.ofName ir, u64? rem, i64? refd with
    | some isCreate, some z, some n, some al, some auth, some same, some rw, some ir, some rem, some refd =>
      if z > 0x40000 ∨ n > 0x40000 then "bad-op" else
      let input := List.replicate z 0 ++ List.replicate n 1
      let t : TxShape := { isCreate := isCreate, dataLen := z + n, accessList := al,
                           authLen := auth.map (fun p => p.1 + p.2) }
      match preverify f t input with
      | .rejected => "rejected"
      | .panic => "panic"
      | .ok i fl =>
        let k := match auth with | some (k, _) => k | none => 0
        let fr : FrameRes := { ir := ir, gas := { limit := frameGasLimit f.e i, remaining := rem, refunded := refd } }
        match pipeline f.e fl k fr with
        | none => "panic"
        | some o =>
          match ir.report with
          | .fatal => "panic"
          | r =>
            let b := balances o f.bal f.cb same rw
            s!"{reportStr r} used={toHex o.gasUsed} refunded={refundedStr r o} g={toHex o.gas.limit},{toHex o.gas.remaining},{o.gas.refunded} sender={toHex b.1} coinbase={toHex b.2}"
    | _, _, _, _, _, _, _, _, _, _ => "bad-op"
  | _, _ => "bad-op"

def progs : List String :=
  ["stop", "clear", "clearset", "revert", "invalid", "oog", "sub", "subrevert", "sd", "ret", "create"]

/-- tokens after `txgas tx` -/
def tx (toks : List String) : String :=
  if toks.length ≠ 22 then "bad-op" else
  match fees? (toks.take 11), toks.drop 11 with
  | some f, [prog, k, to, data, al, auth, rw, oir, orem, orefd, oauth] =>
    match (if progs.contains prog then some () else none), (u64? k).bind (fun k => if k ≤ 8 then some k else none),
          (if to = "t" ∨ to = "a" then some false else if to = "c" then some true else none),
          (if data.length > 400000 then none else parseBytes? data), al? al, auth? auth, parseBool? rw,
          (if oir = "-" then some none else (IR.ofName oir).map some), u64? orem, i64? orefd, u64? oauth with
    | some _, some _, some isCreate, some data, some al, some auth, some rw, some oir, some orem, some orefd, some oauth =>
      let t : TxShape := { isCreate := isCreate, dataLen := data.length, accessList := al,
                           authLen := auth.map (fun p => p.1 + p.2) }
      match preverify f t data with
      | .rejected => "rejected"
      | .panic => "panic"
      | .ok i fl =>
        match oir with
        | none => "stale-unknown"
        | some ir =>
          let fr : FrameRes := { ir := ir, gas := { limit := frameGasLimit f.e i, remaining := orem, refunded := orefd } }
          match pipeline f.e fl oauth fr with
          | none => "panic"
          | some o =>
            match ir.report with
            | .fatal => "panic"
            | r =>
              let b := balances o f.bal f.cb false rw
              let paid := U256.wsub f.bal b.1
              let cbd := U256.wsub b.2 f.cb
              s!"{reportStr r} used={toHex o.gasUsed} refunded={refundedStr r o} paid={toHex paid} coinbase={toHex cbd} eq=11111111"
    | _, _, _, _, _, _, _, _, _, _, _ => "bad-op"
  | _, _ => "bad-op"

/-- tokens after `txgas` -/
def handle : List String → String
  | "pipe" :: r => pipe r
  | "tx" :: r => tx r
  | _ => "bad-op"

end Driver.TxGas
