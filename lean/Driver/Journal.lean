import Revm.Util.Hex
import Revm.Model.Journal
import Revm.Spec.JournalAbs
/-! Stateful driver for the `JournaledState` model.
`begin journal <spec> <preloaded a,b|-> <db a:bal:nonce:hash;…|-> <storage a.k=v;…|-> <delegations hash:addr;…|->`
then `j <op> …`; every reply is `<result> || <canonical dump of the observable state>`.
The universe that is dumped is addresses 1..8, slots 0..3 (the harness only uses those). -/
namespace Driver.Journal
open Revm Revm.Hex Revm.Model.Journal Revm.Spec.JournalAbs

structure St where
  js : JState
  db : Db
  hasStorage : Addr → Bool
  cps : Array Checkpoint
  /-- abstract dump taken when checkpoint `i` was handed out; `none` once an inadmissible operation
  or a revert of an outer checkpoint has made the C06 statement inapplicable to it -/
  snaps : Array (Option String)
  /-- the dump regardless of admissibility (to compute the same `restored` bit as the harness) -/
  snapsAll : Array String
  dead : Bool

def emptyDb : Db := { basic := fun _ => none, storage := fun _ _ => 0, delegate := fun _ => none }
def St.init : St := { js := JState.new 0 (fun _ => false), db := emptyDb, hasStorage := fun _ => false, cps := #[], snaps := #[], snapsAll := #[], dead := true }

def universeAddrs : List Nat := [1, 2, 3, 4, 5, 6, 7, 8]
def universeKeys : List Nat := [0, 1, 2, 3]

def splitList (s : String) (sep : String) : List String := if s = "-" then [] else s.splitOn sep

def parseDb (accs sto del : String) : Option (Db × (Addr → Bool)) := do
  let accL ← (splitList accs ";").mapM fun e => match e.splitOn ":" with
    | [a, b, n, h] => do some ((← parseHex? a), ({ balance := ← parseHex? b, nonce := ← parseHex? n, codeHash := ← parseHex? h, code := none } : Info))
    | _ => none
  let stoL ← (splitList sto ";").mapM fun e => match e.splitOn "=" with
    | [ak, v] => match ak.splitOn "." with
      | [a, k] => do some ((← parseHex? a), (← parseHex? k), (← parseHex? v))
      | _ => none
    | _ => none
  let delL ← (splitList del ";").mapM fun e => match e.splitOn ":" with
    | [h, a] => do some ((← parseHex? h), (← parseHex? a))
    | _ => none
  some ({ basic := fun a => (accL.find? (·.1 = a)).map (·.2),
          storage := fun a k => ((stoL.find? (fun e => e.1 = a ∧ e.2.1 = k)).map (·.2.2)).getD 0,
          delegate := fun h => (delL.find? (·.1 = h)).map (·.2) },
        fun a => stoL.any (fun e => e.1 = a ∧ e.2.2 ≠ 0))

def flagsStr (a : Acct) : String :=
  (if a.created then "C" else "") ++ (if a.selfdestructed then "S" else "") ++ (if a.touched then "T" else "") ++
  (if a.notExisting then "N" else "") ++ (if a.cold then "K" else "")

def dump (s : JState) : String :=
  let accs := universeAddrs.filterMap fun a => (s.state a).map fun acc =>
    let slots := universeKeys.filterMap fun k => (acc.storage k).map fun sl =>
      s!"{toHex k}:{toHex sl.orig},{toHex sl.present},{boolStr sl.cold}"
    s!"{toHex a}:{toHex acc.info.balance}/{toHex acc.info.nonce}/{toHex acc.info.codeHash}/c{boolStr acc.info.code.isSome}/{flagsStr acc}/[{";".intercalate slots}]"
  let tr := universeAddrs.flatMap fun a => universeKeys.filterMap fun k =>
    (s.transient a k).map fun v => s!"{toHex a}.{toHex k}={toHex v}"
  s!"d={s.depth} L={",".intercalate (s.logs.map toHex)} T={",".intercalate tr} S={"|".intercalate accs}"

/-- canonical text of `abs` over the universe (what C06 says a revert restores) -/
def absDump (db : Db) (s : JState) : String :=
  let accs := universeAddrs.map fun a =>
    let x := absAcct db s a
    let fl := (if x.created then "C" else "") ++ (if x.selfdestructed then "S" else "") ++
      (if x.touched then "T" else "") ++ (if x.notExisting then "N" else "")
    let slots := universeKeys.map fun k => let sl := x.slot k; s!"{toHex sl.orig},{toHex sl.present},{boolStr sl.warm}"
    s!"{toHex a}:{toHex x.balance}/{toHex x.nonce}/{toHex x.codeHash}/{fl}/w{boolStr x.warm}/[{";".intercalate slots}]"
  let tr := universeAddrs.flatMap fun a => universeKeys.filterMap fun k =>
    let v := tload s a k; if v = 0 then none else some s!"{toHex a}.{toHex k}={toHex v}"
  s!"L={",".intercalate (s.logs.map toHex)} T={",".intercalate tr} A={"|".intercalate accs}"

def reply (st : St) (js : JState) (r : String) : St × String := ({ st with js := js }, s!"{r} || {dump js}")
def panic (st : St) : St × String := ({ st with dead := true }, "panic")

def begin (toks : List String) : St × String :=
  match toks with
  | [spec, pre, accs, sto, del] =>
    match spec.toNat?, (splitList pre ",").mapM parseHex?, parseDb accs sto del with
    | some spec, some preL, some (db, hs) =>
      let js := JState.new spec (fun a => preL.contains a)
      ({ js := js, db := db, hasStorage := hs, cps := #[], snaps := #[], snapsAll := #[], dead := false }, s!"ok || {dump js}")
    | _, _, _ => (St.init, "bad-op")
  | _ => (St.init, "bad-op")

def b := boolStr

def handle (st : St) (toks : List String) : St × String :=
  if st.dead then (st, "dead") else
  let nat := parseHex?
  match toks with
  | ["load", a] => match nat a with
    | some a => match loadAccount st.db st.js a with
      | some (js, c) => reply st js s!"cold={b c}"
      | none => panic st
    | none => (st, "bad-op")
  | ["loadcode", a] => match nat a with
    | some a => match loadCode st.db st.js a with
      | some (js, c) => reply st js s!"cold={b c}"
      | none => panic st
    | none => (st, "bad-op")
  | ["loaddel", a] => match nat a with
    | some a => match loadAccountDelegated st.db st.js a with
      | some (js, e, c, d) => reply st js s!"empty={b e} cold={b c} dcold={match d with | none => "-" | some x => b x}"
      | none => panic st
    | none => (st, "bad-op")
  | ["initload", a, ks] => match nat a, (splitList ks ",").mapM nat with
    | some a, some ks =>
      -- tx-level pre-warming is not journaled: C06 does not speak about checkpoints that are open now
      let st := { st with snaps := st.snaps.map fun _ => none }
      reply st (initialAccountLoad st.db st.js a ks) "ok"
    | _, _ => (st, "bad-op")
  | ["touch", a] => match nat a with
    | some a => match touch st.js a with
      | some js => reply st js "ok"
      | none => panic st
    | none => (st, "bad-op")
  | ["transfer", f, t, v] => match nat f, nat t, nat v with
    | some f, some t, some v => if v < W then match transfer st.db st.js f t v with
      | some (js, none) => reply st js "ok"
      | some (js, some .outOfFunds) => reply st js "err OutOfFunds"
      | some (js, some .overflowPayment) => reply st js "err OverflowPayment"
      | none => panic st else (st, "bad-op")
    | _, _, _ => (st, "bad-op")
  | ["incnonce", a] => match nat a with
    | some a => match incNonce st.js a with
      | some (js, some n) => reply st js s!"some {toHex n}"
      | some (js, none) => reply st js "none"
      | none => panic st
    | none => (st, "bad-op")
  | ["setcode", a, h] => match nat a, nat h with
    | some a, some h =>
      let adm := admissible st.db st.hasStorage 0 { js := st.js, cps := [] } (.setCode a h)
      let st := if adm then st else { st with snaps := st.snaps.map fun _ => none }
      match setCode st.js a h with
      | some js => reply st js "ok"
      | none => panic st
    | _, _ => (st, "bad-op")
  | ["sload", a, k] => match nat a, nat k with
    | some a, some k => match sload st.db st.js a k with
      | some (js, v, c) => reply st js s!"v={toHex v} cold={b c}"
      | none => panic st
    | _, _ => (st, "bad-op")
  | ["sstore", a, k, v] => match nat a, nat k, nat v with
    | some a, some k, some v => if v < W then match sstore st.db st.js a k v with
      | some (js, o, p, n, c) => reply st js s!"o={toHex o} p={toHex p} n={toHex n} cold={b c}"
      | none => panic st else (st, "bad-op")
    | _, _, _ => (st, "bad-op")
  | ["tload", a, k] => match nat a, nat k with
    | some a, some k => reply st st.js s!"v={toHex (tload st.js a k)}"
    | _, _ => (st, "bad-op")
  | ["tstore", a, k, v] => match nat a, nat k, nat v with
    | some a, some k, some v => if v < W then match tstore st.js a k v with
      | some js => reply st js "ok"
      | none => panic st else (st, "bad-op")
    | _, _, _ => (st, "bad-op")
  | ["log", l] => match nat l with
    | some l => reply st (log st.js l) "ok"
    | none => (st, "bad-op")
  | ["selfdestruct", a, t] => match nat a, nat t with
    | some a, some t => match selfdestruct st.db st.js a t with
      | some (js, had, ex, prev, c) => reply st js s!"had={b had} exists={b ex} prev={b prev} cold={b c}"
      | none => panic st
    | _, _ => (st, "bad-op")
  | ["create", c, a, hs, bal, spec] => match nat c, nat a, parseBool? hs, nat bal, spec.toNat? with
    | some c, some a, some hs, some bal, some spec => if bal < W then
      let adm := admissible st.db st.hasStorage 0 { js := st.js, cps := [] } (.create c a hs bal spec)
      let st := if adm then st else { st with snaps := st.snaps.map fun _ => none }
      let snap := absDump st.db st.js
      match createAccountCheckpoint st.js c a hs bal spec with
      | some (js, .ok cp) =>
        let st := { st with cps := st.cps.push cp, snaps := st.snaps.push (if adm then some snap else none),
                            snapsAll := st.snapsAll.push snap }
        reply st js s!"ok cp {st.cps.size - 1}"
      | some (js, .error .collision) => reply st js "err CreateCollision"
      | some (js, .error .overflowPayment) => reply st js "err OverflowPayment"
      | none => panic st else (st, "bad-op")
    | _, _, _, _, _ => (st, "bad-op")
  | ["checkpoint"] =>
    let (js, cp) := checkpoint st.js
    let snap := absDump st.db st.js
    let st := { st with cps := st.cps.push cp, snaps := st.snaps.push (some snap), snapsAll := st.snapsAll.push snap }
    reply st js s!"cp {st.cps.size - 1}"
  | ["commit"] => reply st (commit st.js) "ok"
  | ["revert", i] => match i.toNat? with
    | some i => match st.cps[i]? with
      | some cp => match revert st.js cp with
        | some js =>
          -- the property's own oracle: is the observable state the one saved at the checkpoint?
          let restored := (st.snapsAll[i]?).map (· == absDump st.db js) |>.getD false
          let applicable := ((st.snaps[i]?).getD none).isSome
          -- this checkpoint and every younger one are consumed by the revert
          let st := { st with snaps := (List.range st.snaps.size).toArray.map fun j =>
                                if j ≥ i then none else (st.snaps[j]?).getD none }
          let (st, out) := reply st js s!"ok restored={b restored}"
          (st, if applicable then out ++ " | spec=ok restored=1" else out)
        | none => panic st
      | none => (st, "bad-op")
    | none => (st, "bad-op")
  | _ => (st, "bad-op")

end Driver.Journal
