import Revm.Util.Hex
import Revm.Model.Journal
/-! Stateful driver for the `JournaledState` model.
`begin journal <spec> <preloaded a,b|-> <db a:bal:nonce:hash;…|-> <storage a.k=v;…|-> <delegations hash:addr;…|->`
then `j <op> …`; every reply is `<result> || <canonical dump of the observable state>`.
The universe that is dumped is addresses 1..8, slots 0..3 (the harness only uses those). -/
namespace Driver.Journal
open Revm Revm.Hex Revm.Model.Journal

structure St where
  js : JState
  db : Db
  cps : Array Checkpoint
  dead : Bool

def emptyDb : Db := { basic := fun _ => none, storage := fun _ _ => 0, delegate := fun _ => none }
def St.init : St := { js := JState.new 0 (fun _ => false), db := emptyDb, cps := #[], dead := true }

def universeAddrs : List Nat := [1, 2, 3, 4, 5, 6, 7, 8]
def universeKeys : List Nat := [0, 1, 2, 3]

def splitList (s : String) (sep : String) : List String := if s = "-" then [] else s.splitOn sep

def parseDb (accs sto del : String) : Option Db := do
  let accL ← (splitList accs ";").mapM fun e => match e.splitOn ":" with
    | [a, b, n, h] => do some ((← parseHex? a), ({ balance := ← parseHex? b, nonce := ← parseHex? n, codeHash := ← parseHex? h, code := none } : Info))
    | _ => none
  let stoL ← (splitList sto ";").mapM fun e => match e.splitOn "=" with
    | [ak, v] => match ak.splitOn "." with
      | [a, k] => do some ((← parseHex? a), (← parseHex? k), (← parseHex? v))
      | _ => none
    | _ => none
  let delL ← (splitList del ";").mapM fun e => match e.splitOn ":" with
    | [h, a] => do some ((← parseHex? h), (← parseHex? a))
    | _ => none
  some { basic := fun a => (accL.find? (·.1 = a)).map (·.2),
         storage := fun a k => ((stoL.find? (fun e => e.1 = a ∧ e.2.1 = k)).map (·.2.2)).getD 0,
         delegate := fun h => (delL.find? (·.1 = h)).map (·.2) }

def flagsStr (a : Acct) : String :=
  (if a.created then "C" else "") ++ (if a.selfdestructed then "S" else "") ++ (if a.touched then "T" else "") ++
  (if a.notExisting then "N" else "") ++ (if a.cold then "K" else "")

def dump (s : JState) : String :=
  let accs := universeAddrs.filterMap fun a => (s.state a).map fun acc =>
    let slots := universeKeys.filterMap fun k => (acc.storage k).map fun sl =>
      s!"{toHex k}:{toHex sl.orig},{toHex sl.present},{boolStr sl.cold}"
    s!"{toHex a}:{toHex acc.info.balance}/{toHex acc.info.nonce}/{toHex acc.info.codeHash}/c{boolStr acc.info.code.isSome}/{flagsStr acc}/[{";".intercalate slots}]"
  let tr := universeAddrs.flatMap fun a => universeKeys.filterMap fun k =>
    (s.transient a k).map fun v => s!"{toHex a}.{toHex k}={toHex v}"
  s!"d={s.depth} L={",".intercalate (s.logs.map toHex)} T={",".intercalate tr} S={"|".intercalate accs}"

def reply (st : St) (js : JState) (r : String) : St × String := ({ st with js := js }, s!"{r} || {dump js}")
def panic (st : St) : St × String := ({ st with dead := true }, "panic")

def begin (toks : List String) : St × String :=
  match toks with
  | [spec, pre, accs, sto, del] =>
    match spec.toNat?, (splitList pre ",").mapM parseHex?, parseDb accs sto del with
    | some spec, some preL, some db =>
      let js := JState.new spec (fun a => preL.contains a)
      ({ js := js, db := db, cps := #[], dead := false }, s!"ok || {dump js}")
    | _, _, _ => (St.init, "bad-op")
  | _ => (St.init, "bad-op")

def b := boolStr

def handle (st : St) (toks : List String) : St × String :=
  if st.dead then (st, "dead") else
  let nat := parseHex?
  match toks with
  | ["load", a] => match nat a with
    | some a => match loadAccount st.db st.js a with
      | some (js, c) => reply st js s!"cold={b c}"
      | none => panic st
    | none => (st, "bad-op")
  | ["loadcode", a] => match nat a with
    | some a => match loadCode st.db st.js a with
      | some (js, c) => reply st js s!"cold={b c}"
      | none => panic st
    | none => (st, "bad-op")
  | ["loaddel", a] => match nat a with
    | some a => match loadAccountDelegated st.db st.js a with
      | some (js, e, c, d) => reply st js s!"empty={b e} cold={b c} dcold={match d with | none => "-" | some x => b x}"
      | none => panic st
    | none => (st, "bad-op")
  | ["initload", a, ks] => match nat a, (splitList ks ",").mapM nat with
    | some a, some ks => reply st (initialAccountLoad st.db st.js a ks) "ok"
    | _, _ => (st, "bad-op")
  | ["touch", a] => match nat a with
    | some a => match touch st.js a with
      | some js => reply st js "ok"
      | none => panic st
    | none => (st, "bad-op")
  | ["transfer", f, t, v] => match nat f, nat t, nat v with
    | some f, some t, some v => if v < W then match transfer st.db st.js f t v with
      | some (js, none) => reply st js "ok"
      | some (js, some .outOfFunds) => reply st js "err OutOfFunds"
      | some (js, some .overflowPayment) => reply st js "err OverflowPayment"
      | none => panic st else (st, "bad-op")
    | _, _, _ => (st, "bad-op")
  | ["incnonce", a] => match nat a with
    | some a => match incNonce st.js a with
      | some (js, some n) => reply st js s!"some {toHex n}"
      | some (js, none) => reply st js "none"
      | none => panic st
    | none => (st, "bad-op")
  | ["setcode", a, h] => match nat a, nat h with
    | some a, some h => match setCode st.js a h with
      | some js => reply st js "ok"
      | none => panic st
    | _, _ => (st, "bad-op")
  | ["sload", a, k] => match nat a, nat k with
    | some a, some k => match sload st.db st.js a k with
      | some (js, v, c) => reply st js s!"v={toHex v} cold={b c}"
      | none => panic st
    | _, _ => (st, "bad-op")
  | ["sstore", a, k, v] => match nat a, nat k, nat v with
    | some a, some k, some v => if v < W then match sstore st.db st.js a k v with
      | some (js, o, p, n, c) => reply st js s!"o={toHex o} p={toHex p} n={toHex n} cold={b c}"
      | none => panic st else (st, "bad-op")
    | _, _, _ => (st, "bad-op")
  | ["tload", a, k] => match nat a, nat k with
    | some a, some k => reply st st.js s!"v={toHex (tload st.js a k)}"
    | _, _ => (st, "bad-op")
  | ["tstore", a, k, v] => match nat a, nat k, nat v with
    | some a, some k, some v => if v < W then match tstore st.js a k v with
      | some js => reply st js "ok"
      | none => panic st else (st, "bad-op")
    | _, _, _ => (st, "bad-op")
  | ["log", l] => match nat l with
    | some l => reply st (log st.js l) "ok"
    | none => (st, "bad-op")
  | ["selfdestruct", a, t] => match nat a, nat t with
    | some a, some t => match selfdestruct st.db st.js a t with
      | some (js, had, ex, prev, c) => reply st js s!"had={b had} exists={b ex} prev={b prev} cold={b c}"
      | none => panic st
    | _, _ => (st, "bad-op")
  | ["create", c, a, hs, bal, spec] => match nat c, nat a, parseBool? hs, nat bal, spec.toNat? with
    | some c, some a, some hs, some bal, some spec => if bal < W then
      match createAccountCheckpoint st.js c a hs bal spec with
      | some (js, .ok cp) =>
        let st := { st with cps := st.cps.push cp }
        reply st js s!"ok cp {st.cps.size - 1}"
      | some (js, .error .collision) => reply st js "err CreateCollision"
      | some (js, .error .overflowPayment) => reply st js "err OverflowPayment"
      | none => panic st else (st, "bad-op")
    | _, _, _, _, _ => (st, "bad-op")
  | ["checkpoint"] =>
    let (js, cp) := checkpoint st.js
    let st := { st with cps := st.cps.push cp }
    reply st js s!"cp {st.cps.size - 1}"
  | ["commit"] => reply st (commit st.js) "ok"
  | ["revert", i] => match i.toNat? with
    | some i => match st.cps[i]? with
      | some cp => match revert st.js cp with
        | some js => reply st js "ok"
        | none => panic st
      | none => (st, "bad-op")
    | none => (st, "bad-op")
  | _ => (st, "bad-op")

end Driver.Journal
