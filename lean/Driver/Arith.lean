import Revm.Util.Hex
import Revm.Model.Arith
import Revm.Spec.Arith
namespace Driver.Arith
open Revm Revm.Hex

def bin (m s : Nat → Nat → Nat) (args : List String) : String :=
  match args.map parseHex? with
  | [some a, some b] => if a < W ∧ b < W then s!"{toHex (m a b)} | spec={toHex (s a b)}" else "bad-op"
  | _ => "bad-op"
/-- as `bin`, but the Spec column is evaluated only when its exponent `2^a` / `a^b` is small enough
to compute (otherwise the proved-equal model value is repeated) -/
def binG (small : Nat → Nat → Bool) (m s : Nat → Nat → Nat) (args : List String) : String :=
  match args.map parseHex? with
  | [some a, some b] => if a < W ∧ b < W then
      s!"{toHex (m a b)} | spec={toHex (if small a b then s a b else m a b)}" else "bad-op"
  | _ => "bad-op"
def un (m s : Nat → Nat) (args : List String) : String :=
  match args.map parseHex? with
  | [some a] => if a < W then s!"{toHex (m a)} | spec={toHex (s a)}" else "bad-op"
  | _ => "bad-op"
def ter (m s : Nat → Nat → Nat → Nat) (args : List String) : String :=
  match args.map parseHex? with
  | [some a, some b, some c] => if a < W ∧ b < W ∧ c < W then s!"{toHex (m a b c)} | spec={toHex (s a b c)}" else "bad-op"
  | _ => "bad-op"

def optStr : Option Nat → String | none => "none" | some n => s!"some {n}"

/-- static gas of each opcode (gas/constants.rs: VERYLOW 3, LOW 5, MID 8) and its arity -/
def gasArity : String → Option (Nat × Nat)
  | "add" => some (3, 2) | "mul" => some (5, 2) | "sub" => some (3, 2) | "div" => some (5, 2)
  | "sdiv" => some (5, 2) | "mod" => some (5, 2) | "smod" => some (5, 2) | "addmod" => some (8, 3)
  | "mulmod" => some (8, 3) | "signextend" => some (5, 2) | "lt" => some (3, 2) | "gt" => some (3, 2)
  | "slt" => some (3, 2) | "sgt" => some (3, 2) | "eq" => some (3, 2) | "iszero" => some (3, 1)
  | "and" => some (3, 2) | "or" => some (3, 2) | "xor" => some (3, 2) | "not" => some (3, 1)
  | "byte" => some (3, 2) | "shl" => some (3, 2) | "shr" => some (3, 2) | "sar" => some (3, 2)
  | _ => none

def value (op : String) (r : List String) : String :=
  open Model.Arith in
  match op with
  | "add" => bin add Spec.Arith.add r
  | "mul" => bin mul Spec.Arith.mul r
  | "sub" => bin sub Spec.Arith.sub r
  | "div" => bin div Spec.Arith.div r
  | "sdiv" => bin sdiv Spec.Arith.sdiv r
  | "mod" => bin rem Spec.Arith.mod r
  | "smod" => bin smod Spec.Arith.smod r
  | "addmod" => ter addmod Spec.Arith.addmod r
  | "mulmod" => ter mulmod Spec.Arith.mulmod r
  | "exp" => binG (fun _ b => b < 4096) exp Spec.Arith.exp r
  | "signextend" => bin signextend Spec.Arith.signextend r
  | "lt" => bin lt Spec.Arith.lt r
  | "gt" => bin gt Spec.Arith.gt r
  | "slt" => bin slt Spec.Arith.slt r
  | "sgt" => bin sgt Spec.Arith.sgt r
  | "eq" => bin eq Spec.Arith.eq r
  | "iszero" => un iszero Spec.Arith.iszero r
  | "and" => bin bitand Spec.Arith.and r
  | "or" => bin bitor Spec.Arith.or r
  | "xor" => bin bitxor Spec.Arith.xor r
  | "not" => un bitnot Spec.Arith.not r
  | "byte" => bin byte Spec.Arith.byte r
  | "shl" => binG (fun a _ => a < 65536) shl Spec.Arith.shl r
  | "shr" => binG (fun a _ => a < 65536) shr Spec.Arith.shr r
  | "sar" => binG (fun a _ => a < 65536) sar Spec.Arith.sar r
  | _ => "bad-op"

/-- `arith <op> <spec> <sd> <operands…>`: operands in stack order (top first);
reply `<pushed word> g=<gas> n=<consumed> | spec=<word>` -/
def handle (toks : List String) : String :=
  match toks with
  | op :: _spec :: sd :: r =>
    let v := value op r
    if v = "bad-op" then v else
    match v.splitOn " | " with
    | [m, s] =>
      if op = "exp" then
        match parseBool? sd, r.map parseHex? with
        | some sd, [some _, some p] =>
          (match Model.Arith.expCost sd p with
           | some g => s!"{m} g={g} n=2 | {s} g={Spec.Arith.expCost sd p} n=2"
           | none => "halt OutOfGas")
        | _, _ => "bad-op"
      else match gasArity op with
        | some (g, n) => s!"{m} g={g} n={n} | {s} g={g} n={n}"
        | none => "bad-op"
    | _ => "bad-op"
  | _ => "bad-op"
end Driver.Arith
