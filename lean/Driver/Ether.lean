import Revm.Util.Hex
import Revm.Model.TxFeeLegs
import Revm.Spec.Ether
import Driver.Journal
/-! Driver of the C08 components.

**`ether` (stateful, operation level).** `begin ether <spec> <preloaded> <db> <storage> <delegations>`
(same header as `journal`), then `e <op> …` with the operations of `Driver/Journal.lean`. The reply is
`<result> ledger=<Σ+burnt> || sum=<Σ> burnt=<burnt>` where Σ is the sum of the observable balances over
the universe 1..8 and `burnt` what the self-destructs naming themselves that are still in the journal
destroyed. The Spec column `<result> ledger=<predicted>` is the prediction of the conservation
theorems of `Props/C08.lean` from the ledger before the operation: unchanged for every operation,
minus 2^256 for a self-destruct whose credit wraps (`selfdestruct_overflow_destroys`), plus 2^256 for
an unfunded creation (`create_unfunded_mints`); for a revert it is printed while every step of the
history so far satisfied the local hypotheses (`StepOk`), which is when `undo_conserves` applies.

**`etx` (stateless, transaction level).** `etx k=v …` with the fee parameters and the observations of
one executed transaction (see harness/src/c08.rs). Reply
`ded=<caller after deduct_caller> cpost=<caller final> bpost=<beneficiary final> diff=<Σpre−Σpost>`
computed with the code-shaped fee legs of `Model/TxFeeLegs.lean`; the Spec column is the same four
values from the closed formulas of `Spec/Ether.lean` (`tx_conserves_local`), printed when its local
hypotheses hold on the observed balances and no self-destruct credit wrapped (`wraps = 0`; each wrap
destroys exactly 2^256 wei, `selfdestruct_overflow_destroys`, and is added to the model's prediction). -/
namespace Driver.Ether
open Revm Revm.Hex Revm.Model.Journal Revm.Model.TxFeeLegs Revm.Spec.JournalAbs Revm.Spec.Ether

structure St where
  j : Driver.Journal.St := Driver.Journal.St.init
  /-- every step so far satisfied `StepOk` -/
  histOk : Bool := true

def St.init : St := {}

def univ : List Nat := Driver.Journal.universeAddrs

def sumNow (st : Driver.Journal.St) : Nat := total univ st.db st.js
def burntNow (st : Driver.Journal.St) : Nat := burnt st.js
def ledgerNow (st : Driver.Journal.St) : Nat := sumNow st + burntNow st

def tail (st : Driver.Journal.St) : String :=
  s!"ledger={toHex (ledgerNow st)} || sum={toHex (sumNow st)} burnt={toHex (burntNow st)}"

def resultOf (out : String) : String := (out.splitOn " || ").headD out

def begin (toks : List String) : St × String :=
  let (j, out) := Driver.Journal.begin toks
  if out.startsWith "ok" then ({ j := j, histOk := true }, s!"ok {tail j}")
  else ({ j := j, histOk := false }, out)

/-- predicted ledger after the operation (`none`: no theorem applies), and whether the step satisfied
its local hypothesis; evaluated on the state BEFORE the operation, `res` is the operation's result -/
def predict (st : St) (toks : List String) (res : String) : Option Nat × Bool :=
  let j := st.j
  let led := ledgerNow j
  let b := bal j.db j.js
  match toks with
  | ["selfdestruct", a, t] =>
    match parseHex? a, parseHex? t with
    | some a, some t =>
      if a ≠ t ∧ W ≤ b t + b a then (some (led - W), false) else (some led, true)
    | _, _ => (none, true)
  | ["create", c, a, _, v, _] =>
    match parseHex? c, parseHex? a, parseHex? v with
    | some c, some a, some v =>
      if res.startsWith "ok" then
        if c = a ∨ v ≤ b c then (some led, true) else (some (led + W), false)
      else (some led, decide (v ≤ b c))
    | _, _, _ => (none, true)
  | ["revert", _] => (if st.histOk then some led else none, true)
  | _ => (some led, true)

def handle (st : St) (toks : List String) : St × String :=
  let (j', out) := Driver.Journal.handle st.j toks
  if out = "bad-op" ∨ out = "dead" ∨ out = "panic" then ({ st with j := j' }, out) else
  let res := resultOf out
  let (pred, ok) := predict st toks res
  let st' : St := { j := j', histOk := st.histOk && ok }
  let line := s!"{res} {tail j'}"
  match pred with
  | some p => (st', s!"{line} | spec={res} ledger={toHex p}")
  | none => (st', line)

/-! ## transactions -/

def lookup (kvs : List (String × String)) (k : String) : Option String := (kvs.find? (·.1 = k)).map (·.2)

def parseKv (toks : List String) : List (String × String) :=
  toks.filterMap fun t => match t.splitOn "=" with
    | [k, v] => some (k, v)
    | _ => none

def optHex (s : String) : Option (Option Nat) := if s = "-" then some none else (parseHex? s).map some

def intStr (i : Int) : String := if i < 0 then "-" ++ toHex i.natAbs else toHex i.natAbs

/-- caller is address 1, the beneficiary address 2 (or 1 when it is the caller) -/
def mkDb (c : Nat) (b : Nat) : Db :=
  { basic := fun a => if a = 1 then some { Info.default with balance := c }
                      else if a = 2 then some { Info.default with balance := b } else none,
    storage := fun _ _ => 0, delegate := fun _ => none }

def etx (toks : List String) : String :=
  let kv := parseKv toks
  let hex (k : String) : Option Nat := (lookup kv k).bind parseHex?
  let dec (k : String) : Option Nat := (lookup kv k).bind String.toNat?
  match dec "spec", dec "rw", hex "gl", hex "gp", (lookup kv "pf").bind optHex, hex "bf",
        (lookup kv "bgp").bind optHex, hex "tbg", dec "call", dec "same", hex "cpre", lookup kv "obs" with
  | some spec, some rw, some gl, some gp, some pf, some bf, some bgp, some tbg, some isCall, some same, some cpre, some obs =>
    match obs.splitOn "," with
    | ["rejected"] => "rejected diff=0"
    | [_, gu, gr, cend, bend, sd, late, wr] =>
      match parseHex? gu, parseHex? gr, parseHex? cend, parseHex? bend, parseHex? sd, parseHex? late, parseHex? wr with
      | some used, some refunded, some cend, some bend, some sd, some late, some wraps =>
        let cb : Nat := if same = 1 then 1 else 2
        let e : FeeEnv := { caller := 1, coinbase := cb, gasLimit := gl, gasPrice := gp, priorityFee := pf,
                            basefee := bf, blobGasPrice := bgp, totalBlobGas := tbg, isCall := isCall = 1 }
        let rewards := rw = 1
        let spent := used + refunded
        let remaining := gl - spent
        let L : List Nat := [1, 2]
        -- deduct_caller on the pre-state
        let db0 := mkDb cpre 0
        let s0 := JState.new spec (fun _ => false)
        match deductCaller db0 s0 spec e with
        | none => "panic"
        | some s1 =>
          let ded := bal db0 s1 1
          -- post-execution legs on the state the first frame left
          let db2 := mkDb cend (if same = 1 then 0 else bend)
          let s2 := JState.new spec (fun _ => false)
          match postExecution db2 s2 spec e rewards remaining spent refunded with
          | none => "panic"
          | some s3 =>
            let cpost := bal db2 s3 1
            let bpost := bal db2 s3 cb
            let diff : Int := ((cpre : Int) - ded) + sd + late + wraps * W - ((total L db2 s3 : Int) - total L db2 s2)
            let m := s!"ded={toHex ded} cpost={toHex cpost} bpost={toHex bpost} diff={intStr diff}"
            -- Spec column: closed formulas, where `tx_conserves` applies
            let validated := decide (specDebit spec e ≤ cpre) && (decide (spec < CANCUN) || bgp.isSome)
            let gasOk := decide (spent ≤ gl) && decide (gl < U64)
            let fits := decide (cend + specReimbursement e remaining refunded + specReward spec e spent refunded < W) &&
                        decide (bend + specReimbursement e remaining refunded + specReward spec e spent refunded < W)
            if validated && gasOk && fits && wraps = 0 then
              let r := specReimbursement e remaining refunded
              let c := if rewards then specReward spec e spent refunded else 0
              let cpost' := if same = 1 then cend + r + c else cend + r
              let bpost' := if same = 1 then cpost' else bend + c
              let d := specTxBurn spec e rewards spent refunded (sd + late)
              s!"{m} | spec=ded={toHex (cpre - specDebit spec e)} cpost={toHex cpost'} bpost={toHex bpost'} diff={toHex d}"
            else m
      | _, _, _, _, _, _, _ => "bad-op"
    | _ => "bad-op"
  | _, _, _, _, _, _, _, _, _, _, _, _ => "bad-op"

end Driver.Ether
