-- This module serves as the root of the `Revm` library.
-- Import modules here that should be built as part of the library.
import Revm.Basic
