-- Root of the library: every property file (and through them the model, spec and proofs).
import Revm.Props.C03
import Revm.Props.C05
import Revm.Props.C13
import Revm.Props.C27
import Revm.Props.C32
import Revm.Props.C04
import Revm.Props.C06
