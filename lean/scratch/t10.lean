import Revm.Proofs.EtherTx
namespace Revm.Proofs.Ether
open Revm Revm.Model.Journal Revm.Model.TxFeeLegs Revm.Spec.JournalAbs Revm.Spec.Ether

theorem total_of_same {db : Db} {L : List Addr} {s s' : JState} (h : Same db s s') : total L db s' = total L db s := by
  simp only [total, h.1]

theorem total_of_absB {db : Db} {L : List Addr} {s s' : JState} (h : absB db s' = absB db s) :
    total L db s' = total L db s := by
  have : bal db s' = bal db s := congrArg BState.f h
  simp only [total, this]

/-- `make_create_frame` conserves on every path and needs no hypothesis about the endowment: its own
balance check is what makes the wrapping subtraction in `create_account_checkpoint` exact -/
theorem makeCreateFrame_conserves {db : Db} {L : List Addr} {s s' : JState} {caller created : Addr}
    {hs : Bool} {v spec : Nat} {r : CreateFrame} (hn : L.Nodup) (hc : caller ∈ L) (ha : created ∈ L)
    (h : makeCreateFrame db s caller created hs v spec = some (s', r)) : total L db s' = total L db s := by
  unfold makeCreateFrame at h
  simp only [bind, Option.bind_eq_some_iff] at h
  obtain ⟨⟨s1, c1⟩, h1, c, h2, h⟩ := h
  simp only [] at h2 h
  obtain ⟨e1, _⟩ := loadAccount_same (db := db) h1
  split at h
  · cases h; exact total_of_same e1
  · rename_i hfund
    simp only [Option.bind_eq_some_iff] at h
    obtain ⟨⟨s2, n⟩, h3, h⟩ := h
    simp only [] at h
    have e2 := incNonce_same (db := db) h3
    split at h
    · cases h; exact total_of_same (e1.trans e2)
    · simp only [Option.bind_eq_some_iff] at h
      obtain ⟨⟨s3, c3⟩, h4, ⟨s4, r4⟩, h5, h⟩ := h
      simp only [] at h5 h
      obtain ⟨e3, _⟩ := loadAccount_same (db := db) h4
      have e13 := (e1.trans e2).trans e3
      have hb : v ≤ bal db s3 caller := by
        rw [e13.1, ← e1.1, bal_some h2]; omega
      obtain ⟨k1, k2, _⟩ := create_refines (db := db) h5
      have hs4 : total L db s4 = total L db s := by
        cases r4 with
        | ok cp =>
          obtain ⟨_, e⟩ := k1 rfl
          have : bal db s4 = (bCreateOk (absB db s3) caller created v).f := congrArg BState.f e
          simp only [total, this]
          rw [bCreateOk_sum hn (absB db s3) hc ha (Or.inr hb)]
          exact total_of_same e13
        | error er =>
          rw [total_of_absB (k2 (by cases er <;> simp [createOutcome]))]
          exact total_of_same e13
      cases r4 with
      | ok cp => cases h; exact hs4
      | error er => cases er <;> (cases h; exact hs4)

end Revm.Proofs.Ether
