import Revm.Proofs.EtherTx
namespace Revm.Proofs.Ether
open Revm Revm.Model.Journal Revm.Model.TxFeeLegs Revm.Spec.JournalAbs Revm.Spec.Ether

/-- the gas figures of a finished first frame as the handler sees them: `spent + remaining` is the
gas limit and the (final, capped) refund does not exceed what was spent (C09 / C13) -/
def GasOk (e : FeeEnv) (remaining spent refunded : Nat) : Prop :=
  spent + remaining = e.gasLimit ∧ refunded ≤ spent ∧ e.gasLimit < U64

/-- **the transaction-level conservation law.** `s0` is the state when `deduct_caller` runs, `s2` the
state when the first frame has returned; whatever happened in between is only required to conserve
(`hexec`, the result of part 1: `burntExec` is what self-destructs naming themselves destroyed). -/
theorem tx_conserves {db : Db} {L : List Addr} {s0 s1 s2 s3 : JState} {spec : Nat} {e : FeeEnv}
    {rewards : Bool} {remaining spent refunded burntExec : Nat}
    (hn : L.Nodup) (hcL : e.caller ∈ L) (hbL : e.coinbase ∈ L)
    (hok0 : BalOk db s0) (hok2 : BalOk db s2) (hSum : total L db s0 < W)
    (hval : Validated db s0 spec e) (hgas : GasOk e remaining spent refunded)
    (hded : deductCaller db s0 spec e = some s1)
    (hexec : total L db s2 + burntExec = total L db s1)
    (hpost : postExecution db s2 spec e rewards remaining spent refunded = some s3) :
    total L db s3 + burntPerGas spec e * (spent - refunded) + dataFee spec e + burntExec
      + (if rewards then 0 else coinbaseGasPrice spec e * (spent - refunded)) = total L db s0 := by
  obtain ⟨hg1, hg2, hg3⟩ := hgas
  -- the debit
  obtain ⟨c, hc, b1, _⟩ := deductCaller_bal hded
  have hceq := gasCost_validated hok0 hval hc
  have hcle : c ≤ bal db s0 e.caller := by rw [hceq]; exact hval.1
  have t1 : total L db s1 + c = total L db s0 := by
    have := sumOver_upd (bal db s0) (U256.saturatingSub (bal db s0 e.caller) c) hn hcL
    simp only [total, b1]; unfold U256.saturatingSub at this ⊢; omega
  -- products
  have hE := coinbaseGasPrice_le spec e
  generalize hEd : effectiveGasPrice e = E at *
  generalize hCd : coinbaseGasPrice spec e = C at *
  generalize hDd : dataFee spec e = D at *
  have hbp : burntPerGas spec e = E - C := by unfold burntPerGas; rw [hEd, hCd]
  rw [hbp]
  have p1 : E * (remaining + refunded) + E * (spent - refunded) = e.gasLimit * E := by
    rw [← Nat.mul_add, Nat.mul_comm]; congr 1; omega
  have p2 : C * (spent - refunded) + (E - C) * (spent - refunded) = E * (spent - refunded) := by
    rw [← Nat.add_mul]; congr 1; omega
  have hSum' : sumOver L (bal db s0) < W := hSum
  have hc0 := le_sumOver (bal db s0) hcL
  have hc2 := le_sumOver (bal db s2) hcL
  simp only [total] at t1 hexec hSum ⊢
  -- reimbursement
  unfold postExecution at hpost
  simp only [bind, Option.bind_eq_some_iff] at hpost
  obtain ⟨s2', hr, hpost⟩ := hpost
  obtain ⟨b2, _⟩ := reimburseCaller_bal hr
  have hR : reimbursement e remaining refunded = E * (remaining + refunded) := by
    unfold reimbursement
    rw [hEd, wadd64_eq (by omega), wmul_eq]
    generalize E * (remaining + refunded) = P1 at *
    generalize E * (spent - refunded) = P2 at *
    generalize e.gasLimit * E = P0 at *
    omega
  rw [hR] at b2
  generalize hP1 : E * (remaining + refunded) = P1 at *
  generalize hP2 : E * (spent - refunded) = P2 at *
  generalize hP3 : C * (spent - refunded) = P3 at *
  generalize hP4 : (E - C) * (spent - refunded) = P4 at *
  generalize hP0 : e.gasLimit * E = P0 at *
  have t2 : sumOver L (bal db s2') = sumOver L (bal db s2) + P1 := by
    have := sumOver_upd (bal db s2) (U256.saturatingAdd (bal db s2 e.caller) P1) hn hcL
    rw [satAdd_eq (by omega)] at this
    rw [b2, satAdd_eq (by omega)]; omega
  split at hpost
  · -- rewards enabled
    rename_i hrw
    obtain ⟨b3, _⟩ := rewardBeneficiary_bal hpost
    have hRw : reward spec e spent refunded = P3 := by
      unfold reward
      rw [hCd, wsub64_eq (by omega) hg2, wmul_eq (by omega), hP3]
    rw [hRw] at b3
    have hb2' := le_sumOver (bal db s2') hbL
    have := sumOver_upd (bal db s2') (U256.saturatingAdd (bal db s2' e.coinbase) P3) hn hbL
    rw [satAdd_eq (by omega)] at this
    rw [b3, satAdd_eq (by omega)]
    rw [if_pos hrw]
    omega
  · rename_i hrw
    cases hpost
    rw [if_neg hrw]
    omega

end Revm.Proofs.Ether
