import Revm.Proofs.EtherJournal
namespace Revm.Proofs.Ether
open Revm Revm.Model.Journal Revm.Spec.JournalAbs Revm.Spec.Ether

/-! ## create_account_checkpoint -/

/-- the innermost journal level sits on top of `J0` and holds no balance entry -/
def Top (s : JState) (J0 : List (List Entry)) : Prop := ∃ es, s.journal = es :: J0 ∧ es.filter isBal = []

theorem top_push {s s' : JState} {J0} {e : Entry} (ht : Top s J0) (h : pushEntry s e = some s')
    (he : isBal e = false) : Top s' J0 := by
  obtain ⟨es, h1, h2⟩ := ht
  unfold pushEntry at h
  rw [h1] at h
  cases h
  exact ⟨e :: es, rfl, by rw [List.filter_cons_of_neg (by simp [he]), h2]⟩

theorem top_touch {s s' : JState} {J0} {a : Addr} {acc acc' : Acct} (ht : Top s J0)
    (h : touchAccount s a acc = some (s', acc')) : Top s' J0 := by
  unfold touchAccount at h
  split at h
  · simp only [bind, Option.bind_eq_some_iff] at h
    obtain ⟨s1, hp, h⟩ := h
    cases h
    have := top_push (e := .accountTouched a) ht hp rfl
    exact this
  · cases h; exact ht

theorem bRevert_zero (b : BState) : bRevert b 0 = b := by
  cases b; simp [bRevert, undoAll]

theorem revert_top {db : Db} {s s' : JState} {J0} {cp : Checkpoint} (ht : Top s J0)
    (hcp : cp.journalI = J0.length) (h : revert s cp = some s') : absB db s' = absB db s := by
  obtain ⟨es, h1, h2⟩ := ht
  rw [revert_refines h]
  have : balCount s (s.journal.length - cp.journalI) = 0 := by
    rw [h1, hcp]
    simp only [balCount, h1, List.length_cons, Nat.add_sub_cancel_left, List.take_succ_cons, List.take_zero,
      List.flatten_cons, List.flatten_nil, List.append_nil, h2, List.length_nil]
  rw [this, bRevert_zero]

inductive CreateOutcome | ok | collision | overflowPayment deriving DecidableEq, Repr

def createOutcome : Except CreateErr Checkpoint → CreateOutcome
  | .ok _ => .ok
  | .error .collision => .collision
  | .error .overflowPayment => .overflowPayment

theorem create_refines {db : Db} {s s' : JState} {caller a : Addr} {hs : Bool} {v spec : Nat}
    {r : Except CreateErr Checkpoint} (h : createAccountCheckpoint s caller a hs v spec = some (s', r)) :
    (createOutcome r = .ok → bal db s a + v < W ∧ absB db s' = bCreateOk (absB db s) caller a v) ∧
    (createOutcome r ≠ .ok → absB db s' = absB db s) ∧
    (createOutcome r = .overflowPayment → W ≤ bal db s a + v) := by
  unfold createAccountCheckpoint at h
  simp only [checkpoint, bind, Option.bind_eq_some_iff] at h
  obtain ⟨acc, h1, h⟩ := h
  -- the state after `checkpoint`
  generalize hs0 : ({ s with depth := incU64 s.depth, journal := [] :: s.journal } : JState) = s0 at h1 h
  have e0 : Same db s s0 := by
    subst hs0; exact ⟨bal_congr_state rfl, by simp [JB]⟩
  have t0 : Top s0 s.journal := by subst hs0; exact ⟨[], rfl, rfl⟩
  have hba : acc.info.balance = bal db s a := (bal_some h1).symm
  split at h
  · simp only [Option.bind_eq_some_iff] at h
    obtain ⟨s1, h2, h⟩ := h
    cases h
    simp only [createOutcome]
    refine ⟨(fun hh => by cases hh), (fun _ => ?_), (fun hh => by cases hh)⟩
    rw [revert_top t0 rfl h2]; exact e0.absB
  · simp only [Option.bind_eq_some_iff] at h
    obtain ⟨s1, h2, ⟨s2, acc2⟩, h3, h⟩ := h
    simp only [] at h3 h
    have e1 : Same db s0 s1 := (same_setAcct (db := db) (s := s0) (a := a) (acc := { acc with created := true })
      (by rw [e0.1]; exact hba)).trans (same_pushEntry h2 rfl)
    have t1 : Top s1 s.journal := top_push (s := setAcct s0 a { acc with created := true }) t0 h2 rfl
    have hst1 : s1.state a = some { acc with created := true } := by
      rw [(pushEntry_state h2).1]; exact setAcct_at _ _ _
    have e2 : Same db s1 (setAcct s1 a { acc with created := true, info := { acc.info with code := none } }) :=
      same_setAcct (by rw [e1.1, e0.1]; exact hba)
    obtain ⟨e3, hs3, hi3, _, _⟩ := touchAccount_same (db := db) (setAcct_at _ _ _) h3
    have t2 : Top s2 s.journal := top_touch (s := setAcct s1 a _) t1 h3
    have e03 := ((e0.trans e1).trans e2).trans e3
    have hb2 : acc2.info.balance = bal db s a := by rw [hi3]; exact hba
    split at h
    · rename_i hov
      simp only [Option.bind_eq_some_iff] at h
      obtain ⟨s3, h4, h⟩ := h
      cases h
      simp only [createOutcome]
      refine ⟨(fun hh => by cases hh), (fun _ => ?_), (fun _ => by rw [← hb2]; exact hov)⟩
      rw [revert_top t2 rfl h4]; exact e03.absB
    · rename_i hno
      simp only [Option.bind_eq_some_iff] at h
      obtain ⟨c, h4, s3, h5, h⟩ := h
      cases h
      simp only [createOutcome]
      refine ⟨(fun _ => ⟨by rw [← hb2]; omega, ?_⟩), (fun hh => absurd rfl hh), (fun hh => by cases hh)⟩
      generalize hacc3 : (if spec ≥ SPURIOUS_DRAGON then
            ({ acc2 with info := { acc2.info with balance := acc2.info.balance + v, nonce := 1 } } : Acct)
          else { acc2 with info := { acc2.info with balance := acc2.info.balance + v } }) = acc3 at h4 h5
      have hb3 : acc3.info.balance = bal db s a + v := by
        rw [← hacc3, ← hb2]; split <;> rfl
      have hs4 : bal db (setAcct s2 a acc3) = upd (bal db s) a (bal db s a + v) := by
        rw [bal_setAcct, e03.1, hb3]
      have hc : c.info.balance = upd (bal db s) a (bal db s a + v) caller := by
        rw [← bal_some (db := db) h4, hs4]
      obtain ⟨hst, _⟩ := pushEntry_state h5
      unfold bCreateOk
      apply absB_eq
      · rw [bal_congr_state hst, bal_setAcct, hs4]
        show upd _ caller (bsub c.info.balance v) = _
        rw [hc]; rfl
      · rw [pushEntry_JB_bal h5 rfl]
        show _ :: JB s2 = _
        rw [e03.2]; rfl

end Revm.Proofs.Ether
