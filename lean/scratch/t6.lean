import Revm.Proofs.EtherJournal
namespace Revm.Proofs.Ether
open Revm Revm.Model.Journal Revm.Spec.JournalAbs Revm.Spec.Ether

/-! ## selfdestruct -/

theorem pushEntry_JB_bal {s s' : JState} {e : Entry} (h : pushEntry s e = some s') (he : isBal e = true) :
    JB s' = e :: JB s := by
  rw [(pushEntry_state h).2, if_pos he]

/-- "created in this transaction" flag of an address (false when the account is not loaded) -/
def crt (s : JState) (a : Addr) : Bool := match s.state a with | some acc => acc.created | none => false

/-- the created flags and the hard fork did not change -/
def SameC (s s' : JState) : Prop := (∀ x, crt s' x = crt s x) ∧ s'.spec = s.spec

theorem SameC.refl (s : JState) : SameC s s := ⟨fun _ => rfl, rfl⟩
theorem SameC.trans {s s' s'' : JState} (h1 : SameC s s') (h2 : SameC s' s'') : SameC s s'' :=
  ⟨fun x => (h2.1 x).trans (h1.1 x), h2.2.trans h1.2⟩

theorem crt_some {s : JState} {a : Addr} {acc : Acct} (h : s.state a = some acc) : crt s a = acc.created := by
  simp only [crt, h]

theorem sameC_setAcct {s : JState} {a : Addr} {acc : Acct} (h : acc.created = crt s a) : SameC s (setAcct s a acc) := by
  refine ⟨fun x => ?_, rfl⟩
  by_cases hx : x = a
  · subst hx; rw [crt_some (setAcct_at _ _ _), h]
  · simp only [crt, setAcct_ne s acc hx]

theorem sameC_pushEntry {s s' : JState} {e : Entry} (h : pushEntry s e = some s') : SameC s s' := by
  unfold pushEntry at h
  split at h
  · cases h
  · cases h; exact ⟨fun _ => rfl, rfl⟩

theorem touchAccount_sameC {s s' : JState} {a : Addr} {acc acc' : Acct}
    (hs : s.state a = some acc) (h : touchAccount s a acc = some (s', acc')) : SameC s s' := by
  unfold touchAccount at h
  split at h
  · simp only [bind, Option.bind_eq_some_iff] at h
    obtain ⟨s1, hp, h⟩ := h
    cases h
    have h1 := sameC_pushEntry hp
    refine h1.trans (sameC_setAcct ?_)
    rw [h1.1, crt_some hs]
  · cases h; exact SameC.refl _

theorem loadAccount_sameC {db : Db} {s s' : JState} {a : Addr} {c : Bool}
    (h : loadAccount db s a = some (s', c)) : SameC s s' := by
  unfold loadAccount at h
  have key : ∀ acc0 : Acct, acc0.created = crt s a → ∀ b : Bool,
      (if b = true then
          Option.map (fun x => (x, true)) (pushEntry (setAcct s a acc0) (Entry.accountWarmed a))
        else some (setAcct s a acc0, false)) = some (s', c) → SameC s s' := by
    intro acc0 hacc b h
    have h0 : SameC s (setAcct s a acc0) := sameC_setAcct hacc
    split at h
    · cases hp : pushEntry (setAcct s a acc0) (.accountWarmed a) with
      | none => simp [hp] at h
      | some s1 =>
        simp [hp] at h
        obtain ⟨rfl, _⟩ := h
        exact h0.trans (sameC_pushEntry hp)
    · cases h; exact h0
  split at h
  · rename_i acc hs
    simp only [] at h
    exact key { acc with cold := false } (crt_some hs).symm acc.cold h
  · rename_i hs
    have hc : crt s a = false := by simp only [crt, hs]
    cases hb : db.basic a with
    | none => simp only [hb] at h; exact key _ (by rw [hc]; rfl) _ h
    | some i => simp only [hb] at h; exact key _ (by rw [hc]; rfl) _ h

/-- `selfdestruct` acts like the balance machine; `created` is the account's created-in-this-
transaction flag, `cancun` whether EIP-6780 is active -/
theorem selfdestruct_refines {db : Db} {s s' : JState} {a t : Addr} {res : Bool × Bool × Bool × Bool}
    (h : selfdestruct db s a t = some (s', res)) :
    ∃ prev, absB db s' = bSelfdestruct (absB db s) a t (crt s a) (decide (s.spec ≥ CANCUN)) prev := by
  unfold selfdestruct at h
  simp only [bind, Option.bind_eq_some_iff] at h
  obtain ⟨⟨s1, c1⟩, h1, tacc, h2, s2, h3, acc, h4, s3, h5, h⟩ := h
  simp only [] at h2 h3 h4 h5 h
  cases h
  obtain ⟨e1, _⟩ := loadAccount_same (db := db) h1
  have c1' := loadAccount_sameC h1
  -- the credit of the target
  have step2 : bal db s2 = (if a ≠ t then upd (bal db s) t (U256.wadd (bal db s t) (bal db s a)) else bal db s) ∧
      JB s2 = JB s ∧ SameC s s2 := by
    split at h3
    · rename_i hat
      simp only [Option.bind_eq_some_iff] at h3
      obtain ⟨acc0, g1, t0, g2, ⟨s1', t1⟩, g3, g4⟩ := h3
      cases g4
      obtain ⟨e2, hs2, hi2, hc2, _⟩ := touchAccount_same (db := db) g2 g3
      have c2 := touchAccount_sameC g2 g3
      refine ⟨?_, ?_, ?_⟩
      · rw [if_pos hat, bal_setAcct]
        show upd (bal db s1') t (U256.wadd t1.info.balance acc0.info.balance) = _
        rw [hi2, ← bal_some (db := db) g2, ← bal_some (db := db) g1, e2.1, e1.1]
      · show JB s1' = _
        rw [e2.2, e1.2]
      · refine (c1'.trans c2).trans (sameC_setAcct ?_)
        show t1.created = _
        rw [hc2, c2.1, crt_some g2]
    · rename_i hat
      cases h3
      rw [if_neg hat]
      exact ⟨e1.1, e1.2, c1'⟩
  obtain ⟨b2, j2, c2⟩ := step2
  have hbal : acc.info.balance = bal db s2 a := (bal_some h4).symm
  have hcr : acc.created = crt s a := by rw [← crt_some h4, c2.1]
  have hsp : s2.spec = s.spec := c2.2
  refine ⟨acc.selfdestructed, ?_⟩
  unfold bSelfdestruct
  simp only [absB]
  rw [← b2, ← hbal, ← hcr, ← hsp]
  split at h5
  · rename_i hc
    rw [if_pos hc]
    obtain ⟨hst, hj⟩ := pushEntry_state h5
    apply absB_eq
    · rw [bal_congr_state hst, bal_setAcct]
    · rw [pushEntry_JB_bal h5 rfl]; show _ :: JB s2 = _; rw [j2]
  · rename_i hc
    rw [if_neg hc]
    split at h5
    · rename_i hat
      rw [if_pos hat]
      obtain ⟨hst, hj⟩ := pushEntry_state h5
      apply absB_eq
      · rw [bal_congr_state hst, bal_setAcct]
      · rw [pushEntry_JB_bal h5 rfl]; show _ :: JB s2 = _; rw [j2]
    · rename_i hat
      rw [if_neg hat]
      cases h5
      exact absB_eq rfl j2

end Revm.Proofs.Ether
