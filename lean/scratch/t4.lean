import Revm.Proofs.EtherJournal
namespace Revm.Proofs.Ether
open Revm Revm.Model.Journal Revm.Spec.JournalAbs Revm.Spec.Ether

/-! ## undo -/

theorem bal_setAcct_same {db : Db} {s : JState} {a : Addr} {acc acc' : Acct}
    (hb : acc'.info.balance = acc.info.balance) (hs : s.state a = some acc) :
    bal db (setAcct s a acc') = bal db s :=
  (same_setAcct (hb.trans (bal_some hs).symm)).1

theorem undoBal_noBal (f : Addr → Nat) {e : Entry} (h : isBal e = false) : undoBal f e = f := by
  cases e <;> first | rfl | cases h

theorem undoAll_filter (f : Addr → Nat) (es : List Entry) : undoAll f (es.filter isBal) = undoAll f es := by
  induction es generalizing f with
  | nil => rfl
  | cons e es ih =>
    by_cases he : isBal e = true
    · rw [List.filter_cons_of_pos he]; simp only [undoAll]; exact ih _
    · have he' : isBal e = false := by simpa using he
      rw [List.filter_cons_of_neg he]; simp only [undoAll]; rw [undoBal_noBal f he']; exact ih _

theorem undoEntry_bal {db : Db} {sd : Bool} {s s' : JState} {e : Entry} (h : undoEntry sd s e = some s') :
    bal db s' = undoBal (bal db s) e ∧ s'.journal = s.journal := by
  cases e
  case balanceTransfer src dst v =>
    simp only [undoEntry] at h
    simp only [bind, Option.bind_eq_some_iff] at h
    obtain ⟨f, h1, t, h2, h⟩ := h
    cases h
    refine ⟨?_, rfl⟩
    simp only [undoBal]
    rw [bal_setAcct, bal_setAcct]
    show upd (upd (bal db s) src (U256.wadd f.info.balance v)) dst (bsub t.info.balance v) = _
    rw [← bal_some (db := db) h2, bal_setAcct]
    show upd (upd (bal db s) src (U256.wadd f.info.balance v)) dst (bsub (upd (bal db s) src (U256.wadd f.info.balance v) dst) v) = _
    rw [← bal_some (db := db) h1]
  case accountDestroyed a t wd had =>
    simp only [undoEntry] at h
    simp only [bind, Option.bind_eq_some_iff] at h
    obtain ⟨acc, h1, h⟩ := h
    simp only [undoBal]
    split at h
    · rename_i hat
      simp only [Option.bind_eq_some_iff] at h
      obtain ⟨tt, h2, h⟩ := h
      cases h
      refine ⟨?_, rfl⟩
      rw [if_pos hat, bal_setAcct]
      show upd (bal db _) t (bsub tt.info.balance had) = _
      rw [← bal_some (db := db) h2, bal_setAcct]
      show upd (upd (bal db s) a (U256.wadd acc.info.balance had)) t _ = _
      rw [← bal_some (db := db) h1]
    · rename_i hat
      cases h
      refine ⟨?_, rfl⟩
      rw [if_neg hat, bal_setAcct]
      show upd (bal db s) a (U256.wadd acc.info.balance had) = _
      rw [← bal_some (db := db) h1]
  case accountWarmed a =>
    simp only [undoEntry] at h
    simp only [bind, Option.bind_eq_some_iff] at h
    obtain ⟨acc, h1, h⟩ := h
    cases h
    refine ⟨?_, rfl⟩
    exact bal_setAcct_same (acc := acc) rfl h1
  case accountTouched a =>
    simp only [undoEntry] at h
    split at h
    · cases h; exact ⟨rfl, rfl⟩
    · simp only [bind, Option.bind_eq_some_iff] at h
      obtain ⟨acc, h1, h⟩ := h
      cases h
      refine ⟨?_, rfl⟩
      exact bal_setAcct_same (acc := acc) rfl h1
  case nonceChange a =>
    simp only [undoEntry] at h
    simp only [bind, Option.bind_eq_some_iff] at h
    obtain ⟨acc, h1, h⟩ := h
    cases h
    refine ⟨?_, rfl⟩
    exact bal_setAcct_same (acc := acc) rfl h1
  case accountCreated a =>
    simp only [undoEntry] at h
    simp only [bind, Option.bind_eq_some_iff] at h
    obtain ⟨acc, h1, h⟩ := h
    cases h
    refine ⟨?_, rfl⟩
    exact bal_setAcct_same (acc := acc) rfl h1
  case codeChange a =>
    simp only [undoEntry] at h
    simp only [bind, Option.bind_eq_some_iff] at h
    obtain ⟨acc, h1, h⟩ := h
    cases h
    refine ⟨?_, rfl⟩
    exact bal_setAcct_same (acc := acc) rfl h1
  case storageWarmed a k =>
    simp only [undoEntry] at h
    simp only [bind, Option.bind_eq_some_iff] at h
    obtain ⟨acc, h1, sl, h2, h⟩ := h
    cases h
    refine ⟨?_, rfl⟩
    exact bal_setAcct_same (acc := acc) rfl h1
  case storageChanged a k had =>
    simp only [undoEntry] at h
    simp only [bind, Option.bind_eq_some_iff] at h
    obtain ⟨acc, h1, sl, h2, h⟩ := h
    cases h
    refine ⟨?_, rfl⟩
    exact bal_setAcct_same (acc := acc) rfl h1
  case transientChange a k had =>
    simp only [undoEntry] at h
    cases h
    exact ⟨bal_congr_state rfl, rfl⟩

end Revm.Proofs.Ether
