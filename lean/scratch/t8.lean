import Revm.Proofs.EtherJournal
namespace Revm.Proofs.Ether
open Revm Revm.Model.Journal Revm.Spec.JournalAbs Revm.Spec.Ether

/-! ## operations that do not move ether -/

theorem same_setAcct' {db : Db} {s : JState} {a : Addr} {acc acc' : Acct} (hs : s.state a = some acc)
    (hb : acc'.info.balance = acc.info.balance) : Same db s (setAcct s a acc') :=
  same_setAcct (hb.trans (bal_some hs).symm)

theorem loadCode_same {db : Db} {s s' : JState} {a : Addr} {c : Bool}
    (h : loadCode db s a = some (s', c)) : Same db s s' := by
  unfold loadCode at h
  simp only [bind, Option.bind_eq_some_iff] at h
  obtain ⟨⟨s1, c1⟩, h1, acc, h2, h⟩ := h
  simp only [] at h2 h
  obtain ⟨e1, _⟩ := loadAccount_same (db := db) h1
  split at h
  · cases h; exact e1.trans (same_setAcct' h2 rfl)
  · cases h; exact e1

theorem loadAccountDelegated_same {db : Db} {s s' : JState} {a : Addr} {r : Bool × Bool × Option Bool}
    (h : loadAccountDelegated db s a = some (s', r)) : Same db s s' := by
  unfold loadAccountDelegated at h
  simp only [bind, Option.bind_eq_some_iff] at h
  obtain ⟨⟨s1, c1⟩, h1, acc, h2, h⟩ := h
  simp only [] at h2 h
  have e1 := loadCode_same (db := db) h1
  split at h
  · simp only [Option.bind_eq_some_iff] at h
    obtain ⟨⟨s2, c2⟩, h3, h⟩ := h
    cases h
    exact e1.trans (loadAccount_same h3).1
  · cases h; exact e1

theorem foldl_info {g : Acct → Nat → Acct} (hg : ∀ acc k, (g acc k).info = acc.info) (keys : List Nat) (acc : Acct) :
    (keys.foldl g acc).info = acc.info := by
  induction keys generalizing acc with
  | nil => rfl
  | cons k ks ih => simp only [List.foldl_cons]; rw [ih, hg]

theorem initialAccountLoad_same {db : Db} {s : JState} {a : Addr} {keys : List Nat} :
    Same db s (initialAccountLoad db s a keys) := by
  unfold initialAccountLoad
  simp only []
  apply same_setAcct
  rw [foldl_info (by intro acc k; split <;> rfl)]
  cases hs : s.state a with
  | some acc => simp only []; exact (bal_some hs).symm
  | none =>
    simp only []
    rw [bal_none hs]
    cases db.basic a <;> rfl

theorem touch_same {db : Db} {s s' : JState} {a : Addr} (h : touch s a = some s') : Same db s s' := by
  unfold touch at h
  split at h
  · rename_i acc hs
    cases ht : touchAccount s a acc with
    | none => simp [ht] at h
    | some p =>
      obtain ⟨s1, acc1⟩ := p
      simp [ht] at h
      subst h
      exact (touchAccount_same (db := db) hs ht).1
  · cases h; exact Same.refl _ _

theorem incNonce_same {db : Db} {s s' : JState} {a : Addr} {r : Option Nat}
    (h : incNonce s a = some (s', r)) : Same db s s' := by
  unfold incNonce at h
  simp only [bind, Option.bind_eq_some_iff] at h
  obtain ⟨acc, h1, h⟩ := h
  split at h
  · cases h; exact Same.refl _ _
  · simp only [Option.bind_eq_some_iff] at h
    obtain ⟨⟨s1, acc1⟩, h2, s2, h3, h⟩ := h
    simp only [] at h3 h
    cases h
    obtain ⟨e1, hs1, hi1, _, _⟩ := touchAccount_same (db := db) h1 h2
    have e2 := same_pushEntry (db := db) h3 rfl
    refine (e1.trans e2).trans (same_setAcct ?_)
    show acc1.info.balance = _
    rw [e2.1, bal_some hs1]

theorem setCode_same {db : Db} {s s' : JState} {a : Addr} {hash : Nat}
    (h : setCode s a hash = some s') : Same db s s' := by
  unfold setCode at h
  simp only [bind, Option.bind_eq_some_iff] at h
  obtain ⟨acc, h1, ⟨s1, acc1⟩, h2, s2, h3, h⟩ := h
  simp only [] at h3 h
  cases h
  obtain ⟨e1, hs1, hi1, _, _⟩ := touchAccount_same (db := db) h1 h2
  have e2 := same_pushEntry (db := db) h3 rfl
  refine (e1.trans e2).trans (same_setAcct ?_)
  show acc1.info.balance = _
  rw [e2.1, bal_some hs1]

theorem sload_same {db : Db} {s s' : JState} {a : Addr} {k : Nat} {r : Nat × Bool}
    (h : sload db s a k = some (s', r)) : Same db s s' ∧ ∃ acc, s'.state a = some acc := by
  unfold sload at h
  simp only [bind, Option.bind_eq_some_iff] at h
  obtain ⟨acc, h1, h⟩ := h
  have key : ∀ (acc' : Acct) (e : Entry) (x : Nat × Bool), acc'.info.balance = acc.info.balance → isBal e = false →
      (pushEntry (setAcct s a acc') e).map (fun y => (y, x)) = some (s', r) →
      Same db s s' ∧ ∃ acc, s'.state a = some acc := by
    intro acc' e x hb he h
    cases hp : pushEntry (setAcct s a acc') e with
    | none => simp [hp] at h
    | some s1 =>
      simp [hp] at h
      obtain ⟨rfl, _⟩ := h
      exact ⟨(same_setAcct' h1 hb).trans (same_pushEntry hp he), _, by rw [(pushEntry_state hp).1]; exact setAcct_at _ _ _⟩
  split at h
  · split at h
    · exact key (setSlot acc k _) (.storageWarmed a k) _ rfl rfl h
    · cases h; exact ⟨same_setAcct' h1 rfl, _, setAcct_at _ _ _⟩
  · exact key (setSlot acc k _) (.storageWarmed a k) _ rfl rfl h

theorem sstore_same {db : Db} {s s' : JState} {a : Addr} {k v : Nat} {r : Nat × Nat × Nat × Bool}
    (h : sstore db s a k v = some (s', r)) : Same db s s' := by
  unfold sstore at h
  simp only [bind, Option.bind_eq_some_iff] at h
  obtain ⟨⟨s1, p, c⟩, h1, acc, h2, sl, h3, h⟩ := h
  simp only [] at h2 h3 h
  obtain ⟨e1, _⟩ := sload_same (db := db) h1
  split at h
  · cases h; exact e1
  · simp only [Option.bind_eq_some_iff] at h
    obtain ⟨s2, h4, h⟩ := h
    cases h
    have e2 := same_pushEntry (db := db) h4 rfl
    refine (e1.trans e2).trans (same_setAcct ?_)
    show acc.info.balance = _
    rw [e2.1, bal_some h2]

theorem tstore_same {db : Db} {s s' : JState} {a : Addr} {k v : Nat}
    (h : tstore s a k v = some s') : Same db s s' := by
  have e0 : ∀ x, Same db s (setTransient s a k x) := fun x => ⟨bal_congr_state rfl, rfl⟩
  unfold tstore at h
  split at h
  · split at h
    · exact (e0 _).trans (same_pushEntry h rfl)
    · cases h; exact Same.refl _ _
  · simp only [] at h
    split at h
    · exact (e0 _).trans (same_pushEntry h rfl)
    · cases h; exact e0 _

theorem log_same {db : Db} {s : JState} {l : Nat} : Same db s (log s l) := ⟨bal_congr_state rfl, rfl⟩

theorem checkpoint_same {db : Db} {s : JState} : Same db s (checkpoint s).1 :=
  ⟨bal_congr_state rfl, by simp [checkpoint, JB]⟩

theorem commit_same {db : Db} {s : JState} : Same db s (commit s) := ⟨bal_congr_state rfl, rfl⟩

end Revm.Proofs.Ether
