import Revm.Proofs.Ether
namespace Revm.Proofs.Ether
open Revm Revm.Model.Journal Revm.Spec.JournalAbs Revm.Spec.Ether

theorem fun_eq2 {f g : Addr → Nat} (a b : Addr) (ha : g a = f a) (hb : g b = f b)
    (h : ∀ x, x ≠ a → x ≠ b → g x = f x) : g = f := by
  funext x
  by_cases h1 : x = a
  · subst h1; exact ha
  · by_cases h2 : x = b
    · subst h2; exact hb
    · exact h x h1 h2

theorem wadd_zero_left {a : Nat} (h : a < W) : U256.wadd 0 a = a := by
  rw [wadd_eq (by omega)]; omega

/-- `selfdestruct`, target different from the destroyed account -/
theorem bSelfdestruct_other {L B b} (h : BInv L B b) {a t : Addr} (created cancun prev : Bool)
    (ha : a ∈ L) (ht : t ∈ L) (hat : a ≠ t) (hno : b.f t + b.f a < W) :
    BInv L B (bSelfdestruct b a t created cancun prev) := by
  have hfa := h.ok a
  have hta : t ≠ a := fun e => hat e.symm
  obtain ⟨f', hf'⟩ : ∃ f', f' = upd (upd b.f t (U256.wadd (b.f t) (b.f a))) a 0 := ⟨_, rfl⟩
  have e1 : f' a = 0 := by rw [hf']; exact upd_same _ _ _
  have e2 : f' t = b.f t + b.f a := by
    rw [hf', upd_other _ _ hta, upd_same, wadd_eq hno]
  have eo : ∀ x, x ≠ a → x ≠ t → f' x = b.f x := fun x h1 h2 => by
    rw [hf', upd_other _ _ h1, upd_other _ _ h2]
  have hok : FOk f' := hf' ▸ upd_ok (upd_ok h.ok _ (wadd_lt _ _)) _ (by rw [W_val]; decide)
  have hb1 : (upd b.f t (U256.wadd (b.f t) (b.f a))) a = b.f a := upd_other _ _ hat
  unfold bSelfdestruct
  simp only [ne_eq, hat, not_false_eq_true, if_true, hb1, ← hf']
  split
  · refine h.push hok ?_ hfa ⟨by rw [e1]; omega, fun _ => by rw [e2]; omega⟩ ?_
    · intro x hx; simp [entryAddrs] at hx; rcases hx with rfl | rfl <;> assumption
    · simp only [undoBal, ne_eq, hat, not_false_eq_true, if_true]
      apply fun_eq2 a t
      · rw [upd_other _ _ hat, upd_same, e1, wadd_zero_left hfa]
      · rw [upd_same, upd_other _ _ hta, e2, bsub_eq (by omega)]; omega
      · intro x h1 h2; rw [upd_other _ _ h2, upd_other _ _ h1, eo x h1 h2]
  · refine h.push hok ?_ hfa (Or.inr ⟨by rw [e1]; omega, by rw [e2]; omega⟩) ?_
    · intro x hx; simp [entryAddrs] at hx; rcases hx with rfl | rfl <;> assumption
    · simp only [undoBal]
      apply fun_eq2 a t
      · rw [upd_other _ _ hat, upd_same, e1, wadd_zero_left hfa]
      · rw [upd_same, upd_other _ _ hta, e2, bsub_eq (by omega)]; omega
      · intro x h1 h2; rw [upd_other _ _ h2, upd_other _ _ h1, eo x h1 h2]

end Revm.Proofs.Ether
