import Revm.Proofs.Ether
namespace Revm.Proofs.Ether
open Revm Revm.Model.Journal Revm.Spec.JournalAbs Revm.Spec.Ether

theorem bTransfer_ok_roundtrip {f : Addr → Nat} (hf : FOk f) {src dst v : Nat} (h1 : v ≤ f src)
    (h2 : upd f src (f src - v) dst + v < W) :
    let f1 := upd f src (f src - v)
    let f' := upd f1 dst (f1 dst + v)
    undoBal f' (.balanceTransfer src dst v) = f ∧ NoWrap f' (.balanceTransfer src dst v) ∧ FOk f' := by
  intro f1 f'
  have hs := hf src
  have hv : v < W := by omega
  by_cases hsd : src = dst
  · subst hsd
    have e1 : f' src = f src := by simp only [f', f1, upd_same]; omega
    refine ⟨?_, Or.inl rfl, ?_⟩
    · funext x
      simp only [undoBal, upd_same, e1, bsub_wadd_cancel hs hv]
      by_cases hx : x = src
      · subst hx; simp [upd]
      · simp [upd, hx, f', f1]
    · exact upd_ok (upd_ok hf _ (by omega)) _ (by simp only [f1, upd_same]; omega)
  · have e0 : f1 dst = f dst := upd_other _ _ (fun e => hsd e.symm)
    have e1 : f' src = f src - v := by simp only [f', f1]; rw [upd_other _ _ hsd, upd_same]
    have e2 : f' dst = f dst + v := by simp only [f']; rw [upd_same, e0]
    have h2' : f dst + v < W := by
      have := h2; rw [upd_other _ _ (fun e => hsd e.symm)] at this; exact this
    refine ⟨?_, Or.inr ⟨by omega, by omega⟩, ?_⟩
    · funext x
      simp only [undoBal]
      rw [upd_other _ _ (fun e => hsd e.symm), e1, e2, wadd_eq (by omega), bsub_eq (by omega)]
      by_cases hx : x = dst
      · subst hx; simp [upd]
      · by_cases hx2 : x = src
        · subst hx2; simp [upd, hx]; omega
        · simp [upd, hx, hx2, f', f1]
    · exact upd_ok (upd_ok hf _ (by omega)) _ (by rw [e0]; omega)
end Revm.Proofs.Ether
