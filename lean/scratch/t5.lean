import Revm.Proofs.EtherJournal
namespace Revm.Proofs.Ether
open Revm Revm.Model.Journal Revm.Spec.JournalAbs Revm.Spec.Ether

theorem undoLevel_bal {db : Db} {sd : Bool} {s s' : JState} {es : List Entry} (h : undoLevel sd s es = some s') :
    bal db s' = undoAll (bal db s) es ∧ s'.journal = s.journal := by
  induction es generalizing s with
  | nil => simp only [undoLevel] at h; cases h; exact ⟨rfl, rfl⟩
  | cons e es ih =>
    simp only [undoLevel, bind, Option.bind_eq_some_iff] at h
    obtain ⟨s1, h1, h2⟩ := h
    obtain ⟨a1, a2⟩ := undoEntry_bal (db := db) h1
    obtain ⟨b1, b2⟩ := ih h2
    exact ⟨by rw [b1, a1]; rfl, b2.trans a2⟩

theorem undoLevels_bal {db : Db} {sd : Bool} {s s' : JState} {ls : List (List Entry)} (h : undoLevels sd s ls = some s') :
    bal db s' = undoAll (bal db s) ls.flatten ∧ s'.journal = s.journal := by
  induction ls generalizing s with
  | nil => simp only [undoLevels] at h; cases h; exact ⟨rfl, rfl⟩
  | cons l ls ih =>
    simp only [undoLevels, bind, Option.bind_eq_some_iff] at h
    obtain ⟨s1, h1, h2⟩ := h
    obtain ⟨a1, a2⟩ := undoLevel_bal (db := db) h1
    obtain ⟨b1, b2⟩ := ih h2
    refine ⟨?_, b2.trans a2⟩
    rw [b1, a1, List.flatten_cons, undoAll_append]

/-- number of balance entries in the `k` innermost journal levels -/
def balCount (s : JState) (k : Nat) : Nat := ((s.journal.take k).flatten.filter isBal).length

theorem revert_refines {db : Db} {s s' : JState} {cp : Checkpoint} (h : revert s cp = some s') :
    absB db s' = bRevert (absB db s) (balCount s (s.journal.length - cp.journalI)) := by
  unfold revert at h
  simp only [] at h
  split at h
  · cases h
  · split at h
    · cases h
    · rename_i s1 h1
      cases h
      obtain ⟨a1, _⟩ := undoLevels_bal (db := db) h1
      generalize s.journal.length - cp.journalI = n at *
      have hsplit : JB s = (s.journal.take n).flatten.filter isBal ++ (s.journal.drop n).flatten.filter isBal := by
        rw [← List.filter_append, ← List.flatten_append, List.take_append_drop]; rfl
      simp only [bRevert, absB, balCount]
      apply absB_eq
      · rw [hsplit, List.take_left, undoAll_filter]
        rw [← a1]; exact bal_congr_state rfl
      · rw [hsplit, List.drop_left]; rfl

end Revm.Proofs.Ether
