import Revm.Proofs.EtherJournal
namespace Revm.Proofs.Ether
open Revm Revm.Model.Journal Revm.Spec.JournalAbs Revm.Spec.Ether

def resOf : Option TransferErr → TransferResult
  | none => .ok
  | some .outOfFunds => .outOfFunds
  | some .overflowPayment => .overflowPayment

theorem absB_eq {db : Db} {s : JState} {f : Addr → Nat} {j : List Entry} (h1 : bal db s = f) (h2 : JB s = j) :
    absB db s = { f := f, j := j } := by simp only [absB, h1, h2]

theorem transfer_refines {db : Db} {s s' : JState} {src dst v : Nat} {r : Option TransferErr}
    (hok : FOk (bal db s)) (h : transfer db s src dst v = some (s', r)) :
    absB db s' = (bTransfer (absB db s) src dst v).1 ∧ resOf r = (bTransfer (absB db s) src dst v).2 := by
  unfold transfer at h
  simp only [bind, Option.bind_eq_some_iff] at h
  obtain ⟨⟨s1, c1⟩, h1, ⟨s2, c2⟩, h2, fromAcc, h3, ⟨s3, fromAcc'⟩, h4, h⟩ := h
  simp only [] at h2 h3 h4 h
  obtain ⟨e1, _⟩ := loadAccount_same h1
  obtain ⟨e2, _⟩ := loadAccount_same h2
  obtain ⟨e3, hs3, hi3, _, _⟩ := touchAccount_same (db := db) h3 h4
  have e123 := (e1.trans e2).trans e3
  have hb : fromAcc'.info.balance = bal db s src := by
    rw [hi3, ← bal_some (db := db) h3, e2.1, e1.1]
  unfold bTransfer
  simp only [absB]
  split at h
  · rename_i hlt
    cases h
    rw [hb] at hlt
    simp only [hlt, if_true, resOf, and_true]
    exact e123.absB
  · rename_i hge
    rw [hb] at hge
    simp only [hge, if_false]
    simp only [Option.bind_eq_some_iff] at h
    obtain ⟨toAcc, h5, ⟨s4, toAcc'⟩, h6, h⟩ := h
    simp only [] at h6 h
    -- the debited state
    have hd : bal db (setAcct s3 src { fromAcc' with info := { fromAcc'.info with balance := fromAcc'.info.balance - v } })
        = upd (bal db s) src (bal db s src - v) := by
      rw [bal_setAcct, e123.1, hb]
    have hdj : JB (setAcct s3 src { fromAcc' with info := { fromAcc'.info with balance := fromAcc'.info.balance - v } }) = JB s := e123.2
    obtain ⟨e4, hs4, hi4, _, _⟩ := touchAccount_same (db := db) h5 h6
    have hb4 : toAcc'.info.balance = upd (bal db s) src (bal db s src - v) dst := by
      rw [hi4, ← bal_some (db := db) h5, hd]
    split at h
    · rename_i hov
      rw [hb4] at hov
      simp only [Option.bind_eq_some_iff] at h
      obtain ⟨f, h7, h⟩ := h
      cases h
      simp only [hov, if_true, resOf, and_true]
      apply absB_eq
      · rw [bal_setAcct]
        show upd (bal db s4) src (U256.wadd f.info.balance v) = _
        have hf : f.info.balance = bal db s src - v := by
          rw [← bal_some (db := db) h7, e4.1, hd, upd_same]
        have hs := hok src
        rw [hf, e4.1, hd, wadd_eq (by omega)]
        apply fun_eq2 src src
        · rw [upd_same]; omega
        · rw [upd_same]; omega
        · intro x hx _; rw [upd_other _ _ hx, upd_other _ _ hx]
      · show JB s4 = _
        rw [e4.2, hdj]
    · rename_i hno
      rw [hb4] at hno
      simp only [Option.bind_eq_some_iff] at h
      obtain ⟨s5, h7, h⟩ := h
      cases h
      simp only [hno, if_false, resOf, and_true]
      obtain ⟨hst, hj⟩ := pushEntry_state h7
      apply absB_eq
      · rw [bal_congr_state hst, bal_setAcct, e4.1, hd, hb4]
      · rw [hj, show isBal (.balanceTransfer src dst v) = true from rfl, if_pos rfl]
        show _ :: JB s4 = _
        rw [e4.2, hdj]
end Revm.Proofs.Ether
