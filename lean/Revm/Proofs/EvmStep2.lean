import Revm.Spec.EvmRules2
import Revm.Proofs.EvmStep
import Revm.Proofs.InterpMem
import Revm.Proofs.GasCalc
/-! Foundations for the rules of `Spec/EvmRules2.lean`: the well-formedness predicate `WFM`, the exact form of
`resize_memory!` against `touch` / `touchCost`, and closed forms of the handler primitives that read or write memory. -/
set_option linter.unusedSimpArgs false
set_option linter.unusedVariables false
namespace Revm.Proofs.EvmStep2
open Revm Revm.Model Revm.Model.Interp
open Revm.Model.GasCalc (enabled)
open Revm.Spec.EvmRules Revm.Spec.EvmRules2
open Revm.Spec.GasCalc (ceil32 memCost)
open Revm.Proofs.EvmStep
open Revm.Proofs.Memory (ctx replaceCtx)

/-- the gas budget below which the 64-bit cost functions never saturate: `2^59` -/
def GAS_BOUND : Nat := 2^59

/-- what the rules of `EvmRules2` assume of a machine state, beyond `WF`: the representation invariant of the shared
memory (C11), a checkpoint that leaves room in the address space, byte strings that are Rust slices, and a gas budget
(gas left + memory cost already paid, the quantity that never grows inside a frame, C25) below `2^59` -/
structure WFM (s : IState) : Prop extends WF s where
  mem : Proofs.Memory.WF s.mem
  ck : s.mem.lastCheckpoint ≤ 2^62
  budget : s.gas.remaining + memCost (ceil32 (memOf s).length) < GAS_BOUND
  inputLen : s.input.length ≤ Memory.ISIZE_MAX
  returnLen : s.returnData.length ≤ Memory.ISIZE_MAX
  codeLen : s.code.length ≤ Memory.ISIZE_MAX
  /-- the refund counter is far from the ends of `i64` (one instruction moves it by at most 24000) -/
  refund : -(2^62 : Int) ≤ s.gas.refunded ∧ s.gas.refunded ≤ 2^62

theorem GAS_BOUND_val : GAS_BOUND = 576460752303423488 := by unfold GAS_BOUND; rfl

theorem memOf_eq (s : IState) : memOf s = ctx s.mem := rfl
theorem setMem_mem (s : IState) (μ : List Nat) : (setMem s μ).mem = replaceCtx s.mem μ := rfl

theorem memCost_eq_memGas (w : Nat) : Spec.Memory.memGas w = memCost w := rfl
theorem words_eq_ceil32 (n : Nat) : Spec.Memory.words n = ceil32 n := rfl

theorem memCost_mono {a b : Nat} (h : a ≤ b) : memCost a ≤ memCost b := Proofs.Memory.memGas_mono h
theorem ceil32_mono {a b : Nat} (h : a ≤ b) : ceil32 a ≤ ceil32 b := by unfold ceil32; omega

theorem replaceCtx_self {m : Memory.SharedMemory} : replaceCtx m (ctx m) = m := by
  unfold replaceCtx ctx
  rw [List.take_append_drop]

/-! ## `resize_memory!` exactly -/

open Revm.Model.Memory in
/-- `resize_memory!(interp, off, len)` while `remaining + C_mem(current) < u64::MAX`: `MemoryOOG` exactly when the
Yellow-Paper expansion cost exceeds the gas left; otherwise exactly that cost is taken and the running context is
zero-extended to the word boundary covering the range. -/
theorem resizeMacro_exact {m : SharedMemory} {rem off len_ : Nat} (h : Proofs.Memory.WF m)
    (hck : m.lastCheckpoint ≤ 2^62) (ho : off < U64) (hl : len_ < U64)
    (hm : rem + memCost (ceil32 (ctx m).length) < U64 - 1) :
    resizeMemoryMacro m rem off len_ =
      if rem < touchCost (ctx m) off len_ then .ok (false, m, rem)
      else .ok (true, replaceCtx m (touch (ctx m) off len_), rem - touchCost (ctx m) off len_) := by
  have hU := U64_val
  have hI := Proofs.Memory.isize_lt_u64
  have hIv : ISIZE_MAX = 9223372036854775807 := by unfold ISIZE_MAX; rfl
  have hcl : (ctx m).length ≤ ISIZE_MAX := by
    have := h.2.2; rw [Proofs.Memory.ctx_length]; omega
  have hlen : len m = (ctx m).length := Proofs.Memory.len_eq h
  have hcur : currentExpansionCost m = memCost (ceil32 (ctx m).length) := by
    unfold currentExpansionCost
    rw [hlen, Proofs.Memory.numWords_eq _ (by omega), Proofs.Memory.memoryGas_full, words_eq_ceil32, memCost_eq_memGas]
    omega
  unfold resizeMemoryMacro
  simp only []
  rw [hlen]
  by_cases hg : U64ops.saturatingAdd off len_ > (ctx m).length
  · rw [if_pos hg]
    unfold resizeMemory
    simp only []
    rw [hcur]
    have hgn : (ctx m).length < off + len_ := by
      unfold U64ops.saturatingAdd at hg; split at hg <;> omega
    have hmax : max (ceil32 (ctx m).length) (ceil32 (off + len_)) = ceil32 (off + len_) :=
      Nat.max_eq_right (ceil32_mono (by omega))
    have htc : touchCost (ctx m) off len_ = memCost (ceil32 (off + len_)) - memCost (ceil32 (ctx m).length) := by
      unfold touchCost; rw [hmax]
    have hle0 : memCost (ceil32 (ctx m).length) ≤ memCost (ceil32 (off + len_)) :=
      memCost_mono (ceil32_mono (by omega))
    have hnwle : numWords (U64ops.saturatingAdd off len_) ≤ ceil32 (off + len_) := by
      unfold numWords U64ops.saturatingAdd ceil32
      split <;> split <;> omega
    have hnwge : ceil32 (ctx m).length ≤ numWords (U64ops.saturatingAdd off len_) := by
      have := Proofs.Interp.numWords_mono (a := (ctx m).length) (b := U64ops.saturatingAdd off len_) (by omega)
      rw [Proofs.Memory.numWords_eq _ (by omega)] at this
      exact this
    have hmono : memCost (ceil32 (ctx m).length) ≤ memoryGas (numWords (U64ops.saturatingAdd off len_)) := by
      rw [Proofs.Memory.memoryGas_full, memCost_eq_memGas]
      have := memCost_mono hnwge
      omega
    have hnc := Proofs.Interp.memoryGas_le (numWords (U64ops.saturatingAdd off len_))
    have hws : U64ops.wsub (memoryGas (numWords (U64ops.saturatingAdd off len_))) (memCost (ceil32 (ctx m).length))
        = memoryGas (numWords (U64ops.saturatingAdd off len_)) - memCost (ceil32 (ctx m).length) := by
      unfold U64ops.wsub
      exact Proofs.Memory.wsub_eq _ _ _ hmono (by omega)
    rw [hws]
    by_cases hc : memoryGas (numWords (U64ops.saturatingAdd off len_)) - memCost (ceil32 (ctx m).length) ≤ rem
    · rw [if_pos hc]
      have hlt : memoryGas (numWords (U64ops.saturatingAdd off len_)) < U64 - 1 := by omega
      obtain ⟨hw37, hexact⟩ := Proofs.Interp.words_small_of_cost hlt
      have hns : U64ops.saturatingAdd off len_ + 31 < U64 := by
        by_cases hx : U64ops.saturatingAdd off len_ + 31 < U64
        · exact hx
        · exfalso
          have : numWords (U64ops.saturatingAdd off len_) = (U64 - 1) / 32 := by
            unfold numWords
            have : U64ops.saturatingAdd (U64ops.saturatingAdd off len_) 31 = U64 - 1 := by
              generalize U64ops.saturatingAdd off len_ = n at *
              unfold U64ops.saturatingAdd; rw [if_neg hx]
            rw [this]
          rw [this, hU] at hw37
          omega
      have hsum : U64ops.saturatingAdd off len_ = off + len_ := by
        unfold U64ops.saturatingAdd at hns ⊢
        split
        · rfl
        · rename_i hh; rw [if_neg hh] at hns; omega
      rw [hsum] at hns hw37 hexact hc ⊢
      have hnw : numWords (off + len_) = ceil32 (off + len_) := Proofs.Memory.numWords_eq _ hns
      rw [hnw] at hw37 hexact hc ⊢
      rw [hexact, memCost_eq_memGas] at hc ⊢
      have hmul : U64ops.wmul (ceil32 (off + len_)) 32 = 32 * ceil32 (off + len_) := by
        unfold U64ops.wmul; rw [Nat.mod_eq_of_lt (by omega)]; omega
      rw [hmul]
      have hgrow : (ctx m).length ≤ 32 * ceil32 (off + len_) := by unfold ceil32; omega
      have hx : m.lastCheckpoint + 32 * ceil32 (off + len_) ≤ ISIZE_MAX := by omega
      rw [Proofs.Memory.resize_grow_ok h hgrow hx]
      simp only []
      rw [htc, if_neg (by omega)]
      unfold touch
      rw [if_neg (by omega)]
    · rw [if_neg hc]
      have : rem < touchCost (ctx m) off len_ := by
        rw [htc]
        have h1 : memoryGas (numWords (U64ops.saturatingAdd off len_)) ≤ memCost (ceil32 (off + len_)) := by
          rw [Proofs.Memory.memoryGas_full, memCost_eq_memGas]
          have := memCost_mono hnwle
          omega
        omega
      rw [if_pos this]
  · rw [if_neg hg]
    have hsum : off + len_ ≤ (ctx m).length := by
      unfold U64ops.saturatingAdd at hg; split at hg <;> omega
    have hmax : max (ceil32 (ctx m).length) (ceil32 (off + len_)) = ceil32 (ctx m).length :=
      Nat.max_eq_left (ceil32_mono hsum)
    have htc : touchCost (ctx m) off len_ = 0 := by unfold touchCost; rw [hmax]; omega
    have htt : touch (ctx m) off len_ = ctx m := by unfold touch; rw [if_pos hsum]
    rw [htc, htt, replaceCtx_self, if_neg (by omega)]
    rfl

end Revm.Proofs.EvmStep2
