import Revm.Proofs.EvmInstWrapSim
import Revm.Proofs.EvmInstWrapBlind
/-! Instantiating C28 with the whole-EVM model, part 4e: the execution part of a transaction. `EvmInst.firstFrame` +
`Evm.runFirst` + the `last_frame_return` stage `EvmInst.lastFrameGas` of the concrete model is `Machine.exec` of
`evmMachine` (first-frame handler + `run_the_loop` + `last_frame_return` handler), on every large enough fuel. -/
namespace Revm.Proofs.EvmInstWrap
open Revm Revm.Model Revm.Model.Evm
open Revm.Model.InspectorWrap (Machine LoopNext FrameResult)

variable {κ : Type}

/-! ## `Machine.exec` from its parts (any machine) -/

section Generic
variable {T : InspectorWrap.Ty} {Cx : Type}

theorem exec_inr (m : Machine T Cx) (n : Nat) (inp : InspectorWrap.FirstInput T) (c c1 : Cx) (r : FrameResult)
    (h : m.firstFrame inp c = .ok (.inr r, c1)) : m.exec n inp c = some (m.lastFrameReturn c1 r) := by
  unfold Machine.exec; rw [h]

theorem exec_inl (m : Machine T Cx) (n : Nat) (inp : InspectorWrap.FirstInput T) (c c1 c2 : Cx)
    (f : InspectorWrap.Frame T) (r : FrameResult) (h : m.firstFrame inp c = .ok (.inl f, c1))
    (hl : m.loop n [f] (m.newContext m.newMem) c1 = some (.ok (r, c2))) :
    m.exec n inp c = some (m.lastFrameReturn c2 r) := by
  unfold Machine.exec; rw [h]; simp only; rw [hl]

end Generic

/-! ## the first input of a transaction -/

/-- what `transact_preverified_inner` hands to `exec.call` / `exec.create`: by `tx.transact_to` -/
def firstInputOf (e : Env) (gasLimit : Nat) : InspectorWrap.FirstInput (evmTy κ) :=
  match e.tx.to with
  | some to => .call (EvmInst.firstCallInputs e to gasLimit)
  | none => .create (EvmInst.firstCreateInputs e gasLimit)

theorem setGas_frameResultOf (b : Bool) (l : Nat) (res : Interp.ChildResult) (g : Gas.Gas) :
    (frameResultOf b l res).setGas g = (frameResultOf b 0 res).setGas g := by
  cases b <;> rfl

/-- the `FrameResult` the execution part hands to the post-execution handlers: the first frame's result with the gas
record of `last_frame_return` -/
def execResult (e : Env) (res : Interp.ChildResult) : FrameResult :=
  (frameResultOf e.tx.to.isNone 0 res).setGas (EvmInst.lastFrameGas e res)

theorem lastFrameReturn_exec (e : Env) (l : Nat) (res : Interp.ChildResult) :
    InspectorWrap.lastFrameReturn e.tx.gasLimit (frameResultOf e.tx.to.isNone l res) = execResult e res := by
  rw [lastFrameReturn_frameResultOf, setGas_frameResultOf]; rfl

/-! ## the execution part -/

variable (C : CpOps κ) (cfg : Cfg)

/-- **the execution part of a transaction of the whole-EVM model is `Machine.exec` of `evmMachine`**: if the first
frame (or early result) `first` came from `EvmInst.firstFrame` and the concrete loop completes on it, then from some fuel
on the abstract driver returns the first frame's result with the gas record of `last_frame_return`, and the same world -/
theorem exec_sim (hNC : InstrNC) (e : Env) (gl : Nat) (w0 w1 : World) (first : FrameOrResult κ)
    (hfirst : EvmInst.firstFrame C cfg e gl w0 = .ok (first, w1)) (fuel : Nat) (res : Interp.ChildResult)
    (w' : World) (hrun : runFirst C cfg fuel first w1 = .ok (res, w')) :
    ∃ N, ∀ N', N ≤ N' →
      (evmMachine C cfg e.tx.gasLimit).exec N' (firstInputOf e gl) { w := w0, err := none } =
        some (.ok (execResult e res, { w := w', err := none })) := by
  unfold EvmInst.firstFrame at hfirst
  unfold runFirst at hrun
  cases hto : e.tx.to with
  | some to =>
    rw [hto] at hfirst
    simp only at hfirst
    have hinp : (firstInputOf e gl : InspectorWrap.FirstInput (evmTy κ)) = .call (EvmInst.firstCallInputs e to gl) := by
      unfold firstInputOf; rw [hto]
    have hnone : e.tx.to.isNone = false := by rw [hto]; rfl
    have hcall : (evmMachine C cfg e.tx.gasLimit).call { w := w0, err := none } (EvmInst.firstCallInputs e to gl) =
        ofCallFrame { w := w0, err := none } (EvmInst.firstCallInputs e to gl) (.ok (first, w1)) := by
      show evmCall C cfg _ _ = _
      unfold evmCall
      rw [hfirst]
    rw [hinp]
    cases first with
    | result r =>
      simp only [pure, Except.pure, Except.ok.injEq, Prod.mk.injEq] at hrun
      obtain ⟨rfl, rfl⟩ := hrun
      refine ⟨0, fun N' _ => ?_⟩
      rw [exec_inr _ N' _ _ { w := w1, err := none } (.call (callOutcomeOf gl r 0 0))
        (by simp only [Machine.firstFrame, hcall]; rfl)]
      show some (InspectorWrap.Res.ok (InspectorWrap.lastFrameReturn e.tx.gasLimit (.call (callOutcomeOf gl r 0 0)), _)) = _
      have := lastFrameReturn_exec e gl r
      rw [hnone] at this
      rw [← this]; rfl
    | frame f0 =>
      simp only at hrun
      obtain ⟨_, h2⟩ := makeCallFrame_ok hfirst
      obtain ⟨hkind, hmem⟩ := frFix_frame_eq h2
      have hrel : Rel (.run [f0] w1)
          [({ kind := .call, interp := newInterp f0.interp, data := (f0.kind, f0.checkpoint) } : AFrame κ)]
          (Memory.newContext Memory.new) { w := w1, err := none } := by
        refine Rel.run ⟨?_, rfl⟩ ?_ rfl trivial
        · show InspectorWrap.Kind.call = kindOf f0.kind
          rw [hkind]; rfl
        · show ({ f0.interp with mem := Memory.newContext Memory.new } : Interp.IState) = f0.interp
          rw [← hmem]
      obtain ⟨N, l, hN⟩ := loop_sim C cfg e.tx.gasLimit hNC fuel (.run [f0] w1) _ _ _ f0.kind res w' hrel rfl hrun
      refine ⟨N, fun N' hle => ?_⟩
      have hN' := loop_mono_le (evmMachine C cfg e.tx.gasLimit) hle _ _ _ _ hN
      rw [exec_inl _ N' _ _ { w := w1, err := none } { w := w', err := none } _ _
        (by simp only [Machine.firstFrame, hcall]; rfl) hN']
      show some (InspectorWrap.Res.ok (InspectorWrap.lastFrameReturn e.tx.gasLimit (frOfKind f0.kind l res), _)) = _
      have := lastFrameReturn_exec e l res
      rw [hnone] at this
      rw [← this, hkind]; rfl
  | none =>
    rw [hto] at hfirst
    simp only at hfirst
    have hinp : (firstInputOf e gl : InspectorWrap.FirstInput (evmTy κ)) = .create (EvmInst.firstCreateInputs e gl) := by
      unfold firstInputOf; rw [hto]
    have hnone : e.tx.to.isNone = true := by rw [hto]; rfl
    have hcreate : (evmMachine C cfg e.tx.gasLimit).create { w := w0, err := none } (EvmInst.firstCreateInputs e gl) =
        ofCreateFrame { w := w0, err := none } (EvmInst.firstCreateInputs e gl) (.ok (first, w1)) := by
      show evmCreate C cfg _ _ = _
      unfold evmCreate
      rw [hfirst]
    rw [hinp]
    cases first with
    | result r =>
      simp only [pure, Except.pure, Except.ok.injEq, Prod.mk.injEq] at hrun
      obtain ⟨rfl, rfl⟩ := hrun
      refine ⟨0, fun N' _ => ?_⟩
      rw [exec_inr _ N' _ _ { w := w1, err := none } (.create (createOutcomeOf gl r))
        (by simp only [Machine.firstFrame, hcreate]; rfl)]
      show some (InspectorWrap.Res.ok (InspectorWrap.lastFrameReturn e.tx.gasLimit (.create (createOutcomeOf gl r)), _)) = _
      have := lastFrameReturn_exec e gl r
      rw [hnone] at this
      rw [← this]; rfl
    | frame f0 =>
      simp only at hrun
      obtain ⟨ca, _, h2⟩ := makeCreateFrame_ok hfirst
      obtain ⟨hkind, hmem⟩ := frFix_frame_eq h2
      have hrel : Rel (.run [f0] w1)
          [({ kind := .create, interp := newInterp f0.interp, data := (f0.kind, f0.checkpoint) } : AFrame κ)]
          (Memory.newContext Memory.new) { w := w1, err := none } := by
        refine Rel.run ⟨?_, rfl⟩ ?_ rfl trivial
        · show InspectorWrap.Kind.create = kindOf f0.kind
          rw [hkind]; rfl
        · show ({ f0.interp with mem := Memory.newContext Memory.new } : Interp.IState) = f0.interp
          rw [← hmem]
      obtain ⟨N, l, hN⟩ := loop_sim C cfg e.tx.gasLimit hNC fuel (.run [f0] w1) _ _ _ f0.kind res w' hrel rfl hrun
      refine ⟨N, fun N' hle => ?_⟩
      have hN' := loop_mono_le (evmMachine C cfg e.tx.gasLimit) hle _ _ _ _ hN
      rw [exec_inl _ N' _ _ { w := w1, err := none } { w := w', err := none } _ _
        (by simp only [Machine.firstFrame, hcreate]; rfl) hN']
      show some (InspectorWrap.Res.ok (InspectorWrap.lastFrameReturn e.tx.gasLimit (frOfKind f0.kind l res), _)) = _
      have := lastFrameReturn_exec e l res
      rw [hnone] at this
      rw [← this, hkind]; rfl

end Revm.Proofs.EvmInstWrap
