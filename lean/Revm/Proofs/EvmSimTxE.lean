import Revm.Proofs.EvmSimE
import Revm.Proofs.EvmSimTx
/-! The generic simulation with errors, lifted to whole transactions. -/
set_option linter.unusedVariables false
namespace Revm.Proofs.EvmSim
open Revm Revm.Model Revm.Model.Evm Revm.Proofs.EvmRR

variable {κ1 κ2 : Type} {C1 : CpOps κ1} {C2 : CpOps κ2}

/-- what `preverify` returns on the two machines -/
def PreRel (R0 : World → World → Prop) : Option (World × Nat × Nat) → Option (World × Nat × Nat) → Prop
  | none, none => True
  | some (w1', ig1, fg1), some (w2', ig2, fg2) => ig1 = ig2 ∧ fg1 = fg2 ∧ R0 w1' w2'
  | _, _ => False

structure TxSimE (C1 : CpOps κ1) (C2 : CpOps κ2) (e : Evm.Env) (spec : Nat) extends FrameSimE C1 C2 (e.toCfg spec) where
  R0 : World → World → Prop
  pre : ∀ w1 w2, R0 w1 w2 → RR (PreRel R0) (preverify w1 e spec) (preverify w2 e spec)
  load : ∀ w1 w2, R0 w1 w2 → R [] (loadAccounts e spec w1) [] (loadAccounts e spec w2)
  deduct : ∀ w1 w2, R [] w1 [] w2 → RR (fun a b => R [] a [] b) (deductCaller e spec w1) (deductCaller e spec w2)
  auth : ∀ w1 w2, R [] w1 [] w2 →
    RR (fun p1 p2 => p1.2 = p2.2 ∧ R [] p1.1 [] p2.1) (applyAuthList e spec w1) (applyAuthList e spec w2)
  fin : ∀ w1 w2 fg rf ic res, R [] w1 [] w2 →
    RR (ValRel R [] []) (finish e spec fg rf ic res w1) (finish e spec fg rf ic res w2)

theorem prepare_rr {e : Evm.Env} {spec : Nat} (T : TxSimE C1 C2 e spec) (ig : Nat) (w1 w2 : World) (hR : T.R0 w1 w2) :
    RR (fun x1 x2 => x1.2.2 = x2.2.2 ∧ ForRel T.R [] [] (x1.1, x1.2.1) (x2.1, x2.2.1))
      (prepare C1 e spec ig w1) (prepare C2 e spec ig w2) := by
  unfold prepare
  refine RR.bind (T.deduct _ _ (T.load w1 w2 hR)) ?_
  intro wa1 wa2 hRa
  refine RR.bind (T.auth _ _ hRa) ?_
  rintro ⟨wb1, n1⟩ ⟨wb2, n2⟩ ⟨hn, hRb⟩
  simp only at hn hRb
  subst hn
  cases e.tx.to with
  | some to =>
    simp only
    refine RR.bind (T.callFrame _ _ _ _ _ _ hRb) ?_
    rintro ⟨f1, wc1⟩ ⟨f2, wc2⟩ hx
    exact RR.pure ⟨rfl, hx⟩
  | none =>
    simp only
    refine RR.bind (T.createFrame _ _ _ _ _ _ hRb) ?_
    rintro ⟨f1, wc1⟩ ⟨f2, wc2⟩ hx
    exact RR.pure ⟨rfl, hx⟩

theorem execute_rr {e : Evm.Env} {spec : Nat} (T : TxSimE C1 C2 e spec) (fuel ig fg : Nat) (w1 w2 : World)
    (hR : T.R0 w1 w2) :
    RR (ValRel T.R [] []) (execute C1 fuel e spec ig fg w1) (execute C2 fuel e spec ig fg w2) := by
  unfold execute
  refine RR.bind (prepare_rr T ig w1 w2 hR) ?_
  rintro ⟨f1, wa1, ic1, n1⟩ ⟨f2, wa2, ic2, n2⟩ ⟨heq, hx⟩
  simp only [Prod.mk.injEq] at heq
  obtain ⟨hic, hn⟩ := heq
  subst hic; subst hn
  refine RR.bind (runFirst_rr T.toFrameSimE fuel (f1, wa1) (f2, wa2) hx) ?_
  rintro ⟨res1, wb1⟩ ⟨res2, wb2⟩ ⟨hres, hRb⟩
  simp only at hres hRb
  subst hres
  exact T.fin _ _ _ _ _ _ hRb

/-- **the lifting, errors included** -/
theorem transactWith_rr {e : Evm.Env} {spec : Nat} (T : TxSimE C1 C2 e (GasCalc.canon spec)) (fuel : Nat)
    (w1 w2 : World) (hR : T.R0 w1 w2) :
    RR (fun p1 p2 => p1.1 = p2.1 ∧ OutRel (fun a b => T.R [] a [] b) p1.1 p1.2 p2.2)
      (transactWith C1 fuel w1 e spec) (transactWith C2 fuel w2 e spec) := by
  unfold transactWith
  refine RR.bind (T.pre w1 w2 hR) ?_
  intro o1 o2 ho
  cases o1 with
  | none =>
    cases o2 with
    | none => exact RR.pure ⟨rfl, trivial⟩
    | some _ => exact ho.elim
  | some p1 =>
    cases o2 with
    | none => exact ho.elim
    | some p2 =>
      obtain ⟨wa1, ig1, fg1⟩ := p1
      obtain ⟨wa2, ig2, fg2⟩ := p2
      obtain ⟨hig, hfg, hRa⟩ := ho
      subst hig; subst hfg
      simp only
      refine RR.bind (execute_rr T fuel ig1 fg1 wa1 wa2 hRa) ?_
      rintro ⟨r1, wb1⟩ ⟨r2, wb2⟩ ⟨hr, hRb⟩
      simp only at hr hRb
      subst hr
      exact RR.pure ⟨rfl, hRb⟩

end Revm.Proofs.EvmSim
