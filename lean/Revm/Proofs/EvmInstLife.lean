import Revm.Proofs.EvmInstStages
import Revm.Proofs.EvmLifecycle
/-! Instantiating C31 (`Model.EvmLifecycle`, context life cycle of `Evm`) with the whole-EVM model, part 1:
the handler-stage record built from the stages of `Revm.Model.Evm.transact`.

* database `WDb` = everything of `Evm.World` that is not the journal (pre-state accounts, code store, store of log
  records, enumeration lists, precompile oracle); `mkWorld db js` puts a journal next to it;
* environment = `Evm.Env`; the handler carries the configured `SpecId` (`evmHandler spec`), its stages run the
  canonical `GasCalc.canon spec` like `spec_to_generic!`;
* errors: `LErr.rejected` (`EVMError::Transaction` / `Header`, which `Evm.transact` reports as `Outcome.rejected`) or a
  model-level failure `Evm.Err` (Rust panic, fatal precompile error, missing oracle line);
* loop granularity: one "frame execution" of the abstract loop is ONE instruction of the top frame (`stepTop`) and the
  "frame action" is `Evm.afterStep` (what the frame machine does after it), so abstract and concrete fuel coincide.
  The abstract `take_error()?` between the two never fires: the concrete databases are infallible, the error slot stays
  `Ok(())` (`setWorld` does not touch it).
* a concrete stage that fails at model level (`Except.error`) leaves the context as it was before the stage. -/
namespace Revm.Proofs.EvmInstLife
open Revm Revm.Model Revm.Model.Evm Revm.Proofs.EvmInst
open Revm.Model.Journal (JState)

/-- `Evm.World` without the journal -/
structure WDb where
  addrs : List Nat
  slots : List (Nat × Nat)
  codes : List (Nat × List Nat)
  logs : List LogRec
  pre : List PreAcct
  dbHasStorage : Bool
  pcOracle : List PcAnswer

def WDb.of (w : World) : WDb :=
  { addrs := w.addrs, slots := w.slots, codes := w.codes, logs := w.logs, pre := w.pre,
    dbHasStorage := w.dbHasStorage, pcOracle := w.pcOracle }

def mkWorld (d : WDb) (js : JState) : World :=
  { js := js, addrs := d.addrs, slots := d.slots, codes := d.codes, logs := d.logs, pre := d.pre,
    dbHasStorage := d.dbHasStorage, pcOracle := d.pcOracle }

theorem mkWorld_of (w : World) : mkWorld (WDb.of w) w.js = w := rfl
theorem of_mkWorld (d : WDb) (js : JState) : WDb.of (mkWorld d js) = d := rfl
theorem mkWorld_js (d : WDb) (js : JState) : (mkWorld d js).js = js := rfl

/-- the errors of the life-cycle instance -/
inductive LErr
  /-- `EVMError::Transaction(_) | EVMError::Header(_)`: `Outcome.rejected` -/
  | rejected
  /-- the concrete model stops without a result -/
  | err (e : Evm.Err)

abbrev LWork := EvmLifecycle.Work WDb LErr Empty
abbrev LCtx := EvmLifecycle.Ctx WDb Env LErr Nat Empty
abbrev LStage (α : Type) := EvmLifecycle.Stage WDb Env LErr Empty α

def workWorld (w : LWork) : World := mkWorld w.db w.js
def setWorld (w : LWork) (x : World) : LWork := { w with db := WDb.of x, js := x.js }
def ctxWorld (c : LCtx) : World := mkWorld c.db c.js

theorem setWorld_world (w : LWork) (x : World) : workWorld (setWorld w x) = x := rfl
theorem setWorld_error (w : LWork) (x : World) : (setWorld w x).error = w.error := rfl
theorem setWorld_setWorld (w : LWork) (x y : World) : setWorld (setWorld w x) y = setWorld w y := rfl
theorem setWorld_self (w : LWork) : setWorld w (workWorld w) = w := rfl

/-- a stage of the concrete model as a life-cycle stage -/
def liftStage {α : Type} (f : World → R (α × World)) (w : LWork) : Except LErr α × LWork :=
  match f (workWorld w) with
  | .ok (a, x) => (.ok a, setWorld w x)
  | .error e => (.error (.err e), w)

/-- a concrete stage that only changes the world -/
def liftStageU (f : World → R World) (w : LWork) : Except LErr Unit × LWork :=
  match f (workWorld w) with
  | .ok x => (.ok (), setWorld w x)
  | .error e => (.error (.err e), w)

/-! ## the loop state -/

/-- the state of `run_the_loop` between two iterations: a call stack, or a top frame that an outcome insertion left
stopped (`Next.ended`) -/
inductive LS
  | run (stack : List (Frame Journal.Checkpoint))
  | ended (top : Frame Journal.Checkpoint) (rest : List (Frame Journal.Checkpoint)) (r : Interp.IResult)
      (out : List Nat) (s : Interp.IState)

/-- one instruction of the top frame with its host question answered: the first half of `Evm.iterate` -/
def stepTop (cfg : Cfg) (top : Frame Journal.Checkpoint) (w : World) : R (Interp.Done × World) :=
  match Interp.step top.interp with
  | .pure d => pure (d, w)
  | .host op k => do
    let (resp, w) ← answer cfg.he w op
    pure (k resp, w)

theorem iterate_eq (cfg : Cfg) (top : Frame Journal.Checkpoint) (rest : List (Frame Journal.Checkpoint)) (w : World) :
    iterate journalOps cfg (top :: rest) w = (do
      let (d, w) ← stepTop cfg top w
      afterStep journalOps cfg top rest d w) := by
  unfold iterate stepTop
  dsimp only
  cases Interp.step top.interp with
  | pure d => rfl
  | host op k =>
    simp only [bind, Except.bind]
    cases answer cfg.he w op with
    | error e => rfl
    | ok p => rfl

/-- what the running frame did: `some d` = one instruction ended as `d`; `none` = no instruction (the frame was
already stopped) -/
abbrev Act := Option Interp.Done

/-- the "execute frame" half of an iteration -/
def execFrame (cfg : Cfg) (ls : LS) (w : World) : R (Act × World) :=
  match ls with
  | .run [] => throw (.panic "empty call stack")
  | .run (top :: _) => do
    let (d, w) ← stepTop cfg top w
    pure (some d, w)
  | .ended .. => pure (none, w)

/-- `Next` as the new loop state or the first frame's result -/
def ofNext : Next Journal.Checkpoint → (LS ⊕ Interp.ChildResult) × World
  | .run stack w => (.inl (.run stack), w)
  | .ended top rest r out s w => (.inl (.ended top rest r out s), w)
  | .done r w => (.inr r, w)

/-- the "frame action" half of an iteration -/
def actFrame (cfg : Cfg) (ls : LS) (a : Act) (w : World) : R ((LS ⊕ Interp.ChildResult) × World) :=
  match ls, a with
  | .run (top :: rest), some d => do
    let n ← afterStep journalOps cfg top rest d w
    pure (ofNext n)
  | .ended top rest r out s, none => do
    let n ← frameEnd journalOps cfg top rest r out s w
    pure (ofNext n)
  | _, _ => throw (.panic "loop state and action do not match")

/-! ## results -/

/-- the first frame's result and the gas meter of the transaction (set by `last_frame_return`, adjusted by `refund`) -/
abbrev FRes := Interp.ChildResult × Gas.Gas

/-- `ExecutionResult` with the logs still as the journal's log ids (the records live in the database part `WDb.logs`,
which `post_execution.output` cannot see in the abstract model) -/
abbrev ERes := TxResult × List Nat

/-- the log ids resolved in a store of records -/
def resolve (store : List LogRec) (r : ERes) : TxResult := { r.1 with logs := logsOf r.2 store }

/-- the part of `output` after `finalize` -/
def mkRes (e : Env) (fr : FRes) (st : EvmLifecycle.EvmState) (ids : List Nat) :
    Except LErr (ERes × EvmLifecycle.EvmState) :=
  match classOf fr.1.result with
  | none => .error (.err (.panic "unexpected internal return flag"))
  | some cls => .ok ((txResultOf cls fr.1 e.tx.to.isNone fr.2 [], if cls = .success then ids else []), st)

theorem resolve_txResultOf (store : List LogRec) (cls : ResultClass) (res : Interp.ChildResult) (isCreate : Bool)
    (gas : Gas.Gas) (ids : List Nat) :
    resolve store (txResultOf cls res isCreate gas [], if cls = .success then ids else []) =
      txResultOf cls res isCreate gas (logsOf ids store) := by
  cases cls <;> rfl

/-! ## the handler -/

/-- the access-list part of `load_accounts` -/
def loadAccessList (e : Env) (w : World) : World :=
  e.tx.accessList.foldl (fun w it =>
    let w := { w with js := Journal.initialAccountLoad w.db w.js it.addr it.keys }.noteAddr it.addr
    it.keys.foldl (fun w k => w.noteSlot it.addr k) w) w

/-- a gas meter that is never read (the first frame's result before `last_frame_return`) -/
def noGas : Gas.Gas := Gas.new 0

/-- The handler of `Evm` for the configured `spec`, built from the stages of `Revm.Model.Evm.transact`. -/
def evmHandler (spec : Nat) :
    EvmLifecycle.Handler WDb Env LErr Nat Empty (Nat × Nat) LS Act FRes ERes :=
  let sp := GasCalc.canon spec
  { spec := spec
    validateEnv := fun e =>
      match validateEnv e sp with
      | .error err => .error (.err err)
      | .ok false => .error .rejected
      | .ok true => .ok ()
    initialTxGas := fun e =>
      match initialTxGas e sp with
      | .error err => .error (.err err)
      | .ok none => .error .rejected
      | .ok (some g) => .ok g
    txAgainstState := fun e w =>
      match txAgainstState e sp (workWorld w) with
      | .error err => (.error (.err err), w)
      | .ok (x, false) => (.error .rejected, setWorld w x)
      | .ok (x, true) => (.ok (), setWorld w x)
    coinbase := fun e => e.block.coinbase
    loadAccessList := fun e w => (.ok (), setWorld w (loadAccessList e (workWorld w)))
    loadPrecompiles := sp
    precompileAddrs := fun p => precompileAddrs p
    deductCaller := fun _ e => liftStageU (deductCaller e sp)
    applyAuthList := fun _ e => liftStage (fun x => (applyAuthList e sp x).map (fun p => (p.2, p.1)))
    firstFrame := fun _ g e => liftStage (fun x =>
      (firstFrame journalOps (e.toCfg sp) e (firstGasLimit e g.1) x).map (fun p =>
        (match p.1 with
         | .frame f => Sum.inl (LS.run [f])
         | .result r => Sum.inr (r, noGas), p.2)))
    executeFrame := fun _ ls e => liftStage (execFrame (e.toCfg sp) ls)
    frameAction := fun _ ls a e => liftStage (fun x =>
      (actFrame (e.toCfg sp) ls a x).map (fun p =>
        (match p.1 with
         | .inl ls' => Sum.inl ls'
         | .inr r => Sum.inr (r, noGas), p.2)))
    lastFrameReturn := fun _ fr e w => (.ok (fr.1, lastFrameGas e fr.1), w)
    refund := fun _ g refund7702 fr => (fr.1, refundGas sp g.2 refund7702 fr.2)
    reimburseCaller := fun _ fr e => liftStageU (reimburse e fr.2)
    rewardBeneficiary := fun _ fr e => liftStageU (reward e sp fr.2)
    mkResult := mkRes
    endHook := fun out _ w => (out, w) }

end Revm.Proofs.EvmInstLife
