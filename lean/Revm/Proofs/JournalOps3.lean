import Revm.Proofs.JournalOps2
/-! C06, step R2 continued: `create_account_checkpoint` (its own checkpoint, the two failing paths that
revert it, and the endowment). -/
namespace Revm.Proofs.Journal
open Revm Revm.Model.Journal Revm.Spec.JournalAbs
set_option linter.unusedSimpArgs false
set_option linter.unusedVariables false

/-- a rewrite of the observable state that commutes with clearing touched marks -/
theorem undoTs_touched_comm (sd : Bool) (F : AState → AState)
    (hF : ∀ x a, undoT sd (F x) (Entry.accountTouched a) = F (undoT sd x (Entry.accountTouched a)))
    (td : List Entry) (htd : ∀ e ∈ td, ∃ a, e = Entry.accountTouched a) (x : AState) :
    undoTs sd (F x) td = F (undoTs sd x td) := by
  induction td generalizing x with
  | nil => rfl
  | cons e es ih =>
    obtain ⟨a, rfl⟩ := htd e (by simp)
    simp only [undoTs]
    rw [hF]
    exact ih (fun e he => htd e (by simp [he])) _

def setNonce (x : AState) (f : Addr → Nat) : AState := { x with nonce := f }

/-- `create_account_checkpoint` between the checkpoint and the endowment: mark created (journaled),
drop the cached code, touch -/
theorem create_body1 {db : Db} {s s3 : JState} {a : Addr} {acc acc3 : Acct}
    (hs : s.state a = some acc) (hcr : acc.created = false) (hn : acc.info.nonce = 0)
    (hz : ∀ k, db.storage a k = 0) {s1 : JState}
    (hp : pushEntry (setAcct s a { acc with created := true }) (.accountCreated a) = some s1)
    (ht : touchAccount (setAcct s1 a { acc with created := true, info := { acc.info with code := none } }) a
            { acc with created := true, info := { acc.info with code := none } } = some (s3, acc3)) :
    Pushes db s s3 ((if acc.touched then [] else [.accountTouched a]) ++ [.accountCreated a]) ∧
      s3.state a = some acc3 ∧
      acc3 = { acc with created := true, info := { acc.info with code := none }, touched := true } ∧
      (∀ b, ¬ b = a → s3.state b = s.state b) := by
  have ha := absAcct_some db s hs
  have p1 : Pushes db s s1 [.accountCreated a] := by
    refine Pushes.of_push hp rfl rfl rfl rfl ?_ (fun b hb => by cases hb; exact hz) ?_
      (hg := Grows.upd hs rfl) (hr := by simp [refsOk, setAcct_state_same])
    · simp [absT_setAcct, putA, undoT, absOf, upd_upd_same, ha, upd_self', absSlot_some, hcr, hn,
        slotsOf_created_irrel db a hz true]
    · exact BalOk.of_eq (by simp [absT_setAcct, putA, absOf, ha, upd_self'])
  have q1 := pushEntry_some hp
  have hs1 : s1.state a = some { acc with created := true } := by rw [q1.state]; simp [setAcct_state_same]
  have ha1 := absAcct_some db s1 hs1
  have p2 : Pushes db s1 (setAcct s1 a { acc with created := true, info := { acc.info with code := none } }) [] := by
    refine Pushes.silent ?_ rfl rfl rfl rfl (Grows.upd hs1 rfl)
    simp [absT_setAcct, putA, absOf, ha1, upd_self', absSlot_some]
  obtain ⟨p3, h3a, h3b, h3c, h3d⟩ := touchAccount_pushes (db := db) (setAcct_state_same _ _ _) ht
  refine ⟨?_, h3a, ?_, ?_⟩
  · have := Pushes.trans (Pushes.trans p1 p2) p3
    simpa using this
  · rw [h3b]
  · intro b hb; rw [h3c b hb, setAcct_state_ne _ _ hb, q1.state, setAcct_state_ne _ _ hb]

def bumpNonce (a : Addr) (n : Nat) (x : AState) : AState := setNonce x (upd x.nonce a n)

/-- the endowment of `create_account_checkpoint`: credit (and nonce 1), debit of the caller, one entry -/
theorem create_tail {db : Db} {s3 s6 : JState} {a caller : Addr} {acc3 c : Acct} {bal : Nat} (n4 : Nat)
    (hs3 : s3.state a = some acc3) (hlt : acc3.info.balance + bal < W)
    (hc : (setAcct s3 a { acc3 with info := { acc3.info with balance := acc3.info.balance + bal, nonce := n4 } }).state caller = some c)
    (hcb : ¬ caller = a → bal ≤ c.info.balance) (hbal : BalOk (absT db s3))
    (hp : pushEntry (setAcct (setAcct s3 a { acc3 with info := { acc3.info with balance := acc3.info.balance + bal, nonce := n4 } })
            caller { c with info := { c.info with balance := bsub c.info.balance bal } })
          (.balanceTransfer caller a bal) = some s6) :
    undoT (sdOf s3) (absT db s6) (.balanceTransfer caller a bal) = bumpNonce a n4 (absT db s3) ∧
    BalOk (absT db s6) := by
  have ha := absAcct_some db s3 hs3
  have q := pushEntry_some hp
  rw [q.absT db]
  have hb3 : acc3.info.balance < W := by omega
  have hbW : bal < W := by omega
  by_cases hca : caller = a
  · subst hca
    rw [setAcct_state_same] at hc; cases hc
    refine ⟨?_, ?_⟩
    · simp [absT_setAcct, putA, undoT, absOf, upd_upd_same, ha, upd_self', absSlot_some, bumpNonce, setNonce,
        bsub_add_cancel, bsub_wadd_cancel hb3 hbW]
    · apply BalOk.of_eq (x := absT db s3) _ hbal
      simp [absT_setAcct, putA, absOf, upd_upd_same, ha, upd_self', bsub_add_cancel]
  · have hac : ¬ a = caller := fun e => hca e.symm
    rw [setAcct_state_ne _ _ hca] at hc
    have hcc := absAcct_some db s3 hc
    have hcW : c.info.balance < W := by rw [← absT_balance_some db hc]; exact hbal caller
    have hle := hcb hca
    have e1 : bsub c.info.balance bal = c.info.balance - bal := by unfold bsub; simp [hle]
    refine ⟨?_, ?_⟩
    · simp [absT_setAcct, putA, undoT, absOf, upd_upd_same, ha, hcc, upd_self', upd_ne', absSlot_some, bumpNonce, setNonce,
        bsub_add_cancel, e1, wadd_sub_cancel hcW hle, hca, hac, upd_upd_upd_ne]
    · intro x
      simp only [absT_setAcct, putA, absOf]
      by_cases hx : x = caller
      · subst hx; simp [e1]; omega
      · rw [upd_ne' hx]
        by_cases hx2 : x = a
        · subst hx2; simpa using hlt
        · rw [upd_ne' hx2]; exact hbal x


theorem checkpoint_journal (s : JState) : (checkpoint s).1.journal = [] :: s.journal := rfl
theorem checkpoint_absT (db : Db) (s : JState) : absT db (checkpoint s).1 = absT db s := rfl

/-- reverting the checkpoint that was just taken: the entries pushed since are exactly the top level -/
theorem revert_top {db : Db} {s sm sF : JState} {es : List Entry} (p : Pushes db (checkpoint s).1 sm es)
    (h : revert sm (checkpoint s).2 = some sF) : Pushes db s sF [] := by
  have hj : sm.journal = (es ++ []) :: s.journal := p.journal [] s.journal rfl
  have hab : above (checkpoint s).2.journalI sm.journal = es := by
    simp [above, hj, checkpoint]
  obtain ⟨_, r2, r3, r4, r5, r6⟩ := revert_abs db sm sF _ h (by rw [hab]; exact p.zero)
  have esd : sdOf sm = sdOf s := sdOf_eq p.spec
  have hab2 : absT db sF = absT db s := by
    rw [r2, hab, esd]; exact p.undo
  refine Pushes.silent hab2 ?_ (r3.trans p.spec) (r4.trans p.pre) ?_
    (Grows.trans (Grows.congr_left (s0 := (checkpoint s).1) rfl p.grows) (revert_grows h))
  · rw [r5, hj]; simp [checkpoint]
  · rw [r6, p.logs]; simp [checkpoint]


theorem nonce_ite (acc : Acct) (c : Prop) [Decidable c] :
    (if c then { acc with info := { acc.info with nonce := 1 } } else acc) =
      { acc with info := { acc.info with nonce := if c then 1 else acc.info.nonce } } := by
  by_cases h : c <;> simp [h]

/-- `create_account_checkpoint` under the admissibility conditions: a failed creation leaves no trace, a
successful one pushes a level whose entries undo it -/
theorem create_pushes {db : Db} {hasStorage : Addr → Bool} {s s' : JState} {caller a : Addr} {hs : Bool}
    {bal specId : Nat} {res : Except CreateErr Checkpoint}
    (hdb : DbOk db hasStorage) (hbal : BalOk (absT db s))
    (hcr : ∀ acc, s.state a = some acc → acc.created = false)
    (hhs : hs = true ∨ hasStorage a = false)
    (hcal : ∀ acc, s.state caller = some acc → bal ≤ acc.info.balance)
    (h : createAccountCheckpoint s caller a hs bal specId = some (s', res)) :
    match res with
    | .error _ => Pushes db s s' []
    | .ok cp => cp = (checkpoint s).2 ∧ ∃ es, Pushes db (checkpoint s).1 s' es ∧ NoWarm es := by
  simp only [createAccountCheckpoint, bind, Option.bind] at h
  generalize hsc : (checkpoint s).1 = sc at h
  have hscs : sc.state = s.state := by rw [← hsc]; rfl
  cases hsa : sc.state a with
  | none => simp [hsa] at h
  | some acc =>
    have hsa' : s.state a = some acc := by rw [← hscs]; exact hsa
    simp only [hsa] at h
    by_cases hcol : acc.info.codeHash ≠ KECCAK_EMPTY ∨ acc.info.nonce ≠ 0 ∨ hs = true
    · rw [if_pos hcol] at h
      cases hr : revert sc (checkpoint s).2 with
      | none => simp [hr] at h
      | some sF =>
        simp [hr] at h; obtain ⟨h1, h2⟩ := h; subst h1 h2
        subst hsc
        exact revert_top (Pushes.refl db _) hr
    · rw [if_neg hcol] at h
      have hn : acc.info.nonce = 0 := by
        by_cases h0 : acc.info.nonce = 0
        · exact h0
        · exact absurd (Or.inr (Or.inl h0)) hcol
      have hhs' : hs = false := by
        cases hs
        · rfl
        · exact absurd (Or.inr (Or.inr rfl)) hcol
      have hz : ∀ k, db.storage a k = 0 := by
        rcases hhs with h | h
        · rw [hhs'] at h; cases h
        · exact hdb a h
      cases hp : pushEntry (setAcct sc a { acc with created := true }) (.accountCreated a) with
      | none => simp [hp] at h
      | some s1 =>
        simp only [hp] at h
        cases ht : touchAccount (setAcct s1 a { acc with created := true, info := { acc.info with code := none } }) a
            { acc with created := true, info := { acc.info with code := none } } with
        | none => simp [ht] at h
        | some r3 =>
          obtain ⟨s3, acc3⟩ := r3
          obtain ⟨p3, hs3, hacc3, hne3⟩ := create_body1 (db := db) hsa (hcr acc hsa') hn hz hp ht
          simp only [ht] at h
          subst hsc
          have hbal3 : BalOk (absT db s3) := p3.bal hbal
          by_cases hov : acc3.info.balance + bal ≥ W
          · rw [if_pos hov] at h
            cases hr : revert s3 (checkpoint s).2 with
            | none => simp [hr] at h
            | some sF =>
              simp [hr] at h; obtain ⟨h1, h2⟩ := h; subst h1 h2
              exact revert_top p3 hr
          · rw [if_neg hov] at h
            have hlt : acc3.info.balance + bal < W := Nat.lt_of_not_le hov
            have fin : ∀ (n4 : Nat) (c : Acct) (s6 : JState),
                (setAcct s3 a { acc3 with info := { acc3.info with balance := acc3.info.balance + bal, nonce := n4 } }).state caller = some c →
                pushEntry (setAcct (setAcct s3 a { acc3 with info := { acc3.info with balance := acc3.info.balance + bal, nonce := n4 } })
                    caller { c with info := { c.info with balance := bsub c.info.balance bal } })
                  (.balanceTransfer caller a bal) = some s6 →
                ∃ es, Pushes db (checkpoint s).1 s6 es ∧ NoWarm es := by
              intro n4 c s6 hc hp6
              have hcb : ¬ caller = a → bal ≤ c.info.balance := by
                intro hca
                rw [setAcct_state_ne _ _ hca, hne3 caller hca] at hc
                exact hcal c hc
              obtain ⟨hu, hb6⟩ := create_tail (db := db) n4 hs3 hlt hc hcb hbal3 hp6
              have q6 := pushEntry_some hp6
              refine ⟨.balanceTransfer caller a bal :: ((if acc.touched then [] else [.accountTouched a]) ++ [.accountCreated a]),
                ⟨fun t r hj => ?_, ?_, ?_, ?_, ?_, ?_, fun _ => hb6, ?_, ?_, ?_, ?_⟩,
                by cases acc.touched <;> exact ⟨fun b h => by simp at h, fun b k h => by simp at h⟩⟩
              · have := q6.journal _ _ (p3.journal t r hj)
                rw [this]; rfl
              · rw [q6.spec]; exact p3.spec
              · rw [q6.pre]; exact p3.pre
              · rw [q6.logs]; exact p3.logs
              · have esd : sdOf s3 = sdOf (checkpoint s).1 := sdOf_eq p3.spec
                simp only [undoTs]
                rw [← esd, hu, undoTs_append,
                  undoTs_touched_comm _ (bumpNonce a n4) (fun x b => rfl) _ (touchedOnly_ite _ _)]
                have e0 := p3.undo
                rw [undoTs_append, ← esd] at e0
                rw [← e0]
                simp [undoTs, undoT, bumpNonce, setNonce, upd_upd_same]
              · intro b hb
                simp at hb
                exact p3.zero b (by simp [hb])
              · intro b hb
                cases hta : acc.touched <;> simp [hta] at hb
              · intro b k hb
                cases hta : acc.touched <;> simp [hta] at hb
              · -- no entry of the state map is removed
                have g34 : Grows s3 (setAcct s3 a { acc3 with info := { acc3.info with balance := acc3.info.balance + bal, nonce := n4 } }) :=
                  Grows.upd hs3 rfl
                have g45 : Grows (setAcct s3 a { acc3 with info := { acc3.info with balance := acc3.info.balance + bal, nonce := n4 } })
                    (setAcct (setAcct s3 a { acc3 with info := { acc3.info with balance := acc3.info.balance + bal, nonce := n4 } })
                      caller { c with info := { c.info with balance := bsub c.info.balance bal } }) :=
                  Grows.upd hc rfl
                exact Grows.trans p3.grows (Grows.trans g34 (Grows.congr_right q6.state g45))
              · -- the new entries refer to present accounts
                have g36 : Grows s3 s6 := by
                  have g34 : Grows s3 (setAcct s3 a { acc3 with info := { acc3.info with balance := acc3.info.balance + bal, nonce := n4 } }) :=
                    Grows.upd hs3 rfl
                  have g45 : Grows (setAcct s3 a { acc3 with info := { acc3.info with balance := acc3.info.balance + bal, nonce := n4 } })
                      (setAcct (setAcct s3 a { acc3 with info := { acc3.info with balance := acc3.info.balance + bal, nonce := n4 } })
                        caller { c with info := { c.info with balance := bsub c.info.balance bal } }) :=
                    Grows.upd hc rfl
                  exact Grows.trans g34 (Grows.congr_right q6.state g45)
                intro e he
                rcases List.mem_cons.1 he with rfl | he
                · refine ⟨?_, g36.acct a (by simp [hs3])⟩
                  rw [q6.state]; simp [setAcct_state_same]
                · exact refsOk_mono g36 (p3.refs e he)
            by_cases hsd : specId ≥ SPURIOUS_DRAGON
            · simp only [hsd, if_true] at h
              split at h
              · simp at h
              · rename_i c hc
                dsimp only at h
                split at h
                · simp at h
                · rename_i s6 hp6
                  simp at h; obtain ⟨h1, h2⟩ := h; subst h1 h2
                  exact ⟨rfl, fin 1 c s6 hc hp6⟩
            · simp only [hsd, if_false] at h
              split at h
              · simp at h
              · rename_i c hc
                dsimp only at h
                split at h
                · simp at h
                · rename_i s6 hp6
                  simp at h; obtain ⟨h1, h2⟩ := h; subst h1 h2
                  exact ⟨rfl, fin acc3.info.nonce c s6 hc hp6⟩


end Revm.Proofs.Journal
