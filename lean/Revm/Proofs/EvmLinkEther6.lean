import Revm.Proofs.EvmLinkEther5
/-! LINK, ether conservation (C08), part 7: the stages of `prepare` around the execution — `load_accounts` and the
EIP-7702 list move no ether — and what validation leaves in place. -/
set_option linter.unusedSimpArgs false
set_option linter.unusedVariables false
namespace Revm.Proofs.EvmLink
open Revm Revm.Model Revm.Model.Evm
open Revm.Spec.Ether Revm.Proofs.Ether

/-- nothing the ledger reads has changed, and no account was removed -/
structure Quiet (w w' : World) : Prop where
  same : Same w.db w.js w'.js
  db : w'.db = w.db
  kle : KLe w.js w'.js
  ng : NGrow w w'

theorem Quiet.refl (w : World) : Quiet w w := ⟨Same.refl _ _, rfl, KLe.refl _, NGrow.refl _⟩
theorem Quiet.trans {a b c : World} (h1 : Quiet a b) (h2 : Quiet b c) : Quiet a c :=
  ⟨h1.same.trans (by have := h2.same; rw [h1.db] at this; exact this), h2.db.trans h1.db, h1.kle.trans h2.kle,
   h1.ng.trans h2.ng⟩

theorem Quiet.noteAddr {w w' : World} (h : Quiet w w') (a : Nat) : Quiet w (w'.noteAddr a) :=
  ⟨by rw [Proofs.EvmHost.noteAddr_js]; exact h.same, by rw [Proofs.EvmHost.noteAddr_db]; exact h.db,
   by rw [Proofs.EvmHost.noteAddr_js]; exact h.kle, h.ng.noteAddr a⟩
theorem Quiet.noteSlot {w w' : World} (h : Quiet w w') (a k : Nat) : Quiet w (w'.noteSlot a k) :=
  ⟨by rw [Proofs.EvmHost.noteSlot_js]; exact h.same, by rw [noteSlot_db]; exact h.db,
   by rw [Proofs.EvmHost.noteSlot_js]; exact h.kle, h.ng.noteSlot a k⟩

theorem quiet_foldl_noteSlot {w : World} (a : Nat) : ∀ (keys : List Nat) (w' : World), Quiet w w' →
    Quiet w (keys.foldl (fun w k => w.noteSlot a k) w') := by
  intro keys
  induction keys with
  | nil => intro w' h; exact h
  | cons k ks ih => intro w' h; simp only [List.foldl_cons]; exact ih _ (h.noteSlot a k)

theorem quiet_initialLoad {w w' : World} (h : Quiet w w') (a : Nat) (ks : List Nat) :
    Quiet w ({ w' with js := Journal.initialAccountLoad w'.db w'.js a ks }.noteAddr a) := by
  refine ⟨h.same.trans ?_, ?_, h.kle.trans ?_, h.ng.trans (NGrow.of_js_note (keys_initialAccountLoad _ _ _ _))⟩
  · rw [Proofs.EvmHost.noteAddr_js]
    show Same w.db w'.js (Journal.initialAccountLoad w'.db w'.js a ks)
    rw [h.db]; exact initialAccountLoad_same
  · rw [Proofs.EvmHost.noteAddr_db]; exact h.db
  · rw [Proofs.EvmHost.noteAddr_js]; unfold Journal.initialAccountLoad; exact KLe.setAcct _ _ _

/-- replacing the journal's spec / pre-warmed set (no account, no journal entry touched) -/
theorem Quiet.setMeta {w w' : World} (h : Quiet w w') (js' : Journal.JState) (hs : js'.state = w'.js.state)
    (hj : js'.journal = w'.js.journal) : Quiet w { w' with js := js' } :=
  ⟨h.same.trans ⟨bal_congr_state hs, by unfold JB; rw [hj]⟩, h.db, h.kle.trans (KLe.of_state_eq hs),
   h.ng.trans (NGrow.of_js (Keys.of_state_eq hs))⟩

theorem quiet_accessList {w : World} : ∀ (l : List AccessItem) (w' : World), Quiet w w' →
    Quiet w (l.foldl (fun w it =>
      let w := { w with js := Journal.initialAccountLoad w.db w.js it.addr it.keys }.noteAddr it.addr
      it.keys.foldl (fun w k => w.noteSlot it.addr k) w) w') := by
  intro l
  induction l with
  | nil => intro w' h; exact h
  | cons it l ih =>
    intro w' h
    simp only [List.foldl_cons]
    exact ih _ (quiet_foldl_noteSlot _ _ _ (quiet_initialLoad h it.addr it.keys))

/-- the journal with another spec / pre-warmed set -/
def setMetaW (w : World) (spec : Nat) (pre : Nat → Bool) : World :=
  { w with js := { w.js with spec := spec, preloaded := pre } }

theorem quiet_setMetaW {w w' : World} (h : Quiet w w') (spec : Nat) (pre : Nat → Bool) : Quiet w (setMetaW w' spec pre) :=
  ⟨h.same.trans ⟨bal_congr_state rfl, rfl⟩, h.db, h.kle.trans (KLe.of_state_eq rfl),
   h.ng.trans (NGrow.of_js (Keys.of_state_eq rfl))⟩

/-- the access-list loop of `load_accounts` -/
def accessFold (e : Evm.Env) (w : World) : World :=
  e.tx.accessList.foldl (fun w it =>
    let w := { w with js := Journal.initialAccountLoad w.db w.js it.addr it.keys }.noteAddr it.addr
    it.keys.foldl (fun w k => w.noteSlot it.addr k) w) w

theorem loadAccounts_eq (e : Evm.Env) (spec : Nat) (w : World) :
    loadAccounts e spec w =
      setMetaW (accessFold e (setMetaW w spec (fun a => w.js.preloaded a ||
        (GasCalc.enabled spec GasCalc.SpecId.SHANGHAI && a == e.block.coinbase))))
        (accessFold e (setMetaW w spec (fun a => w.js.preloaded a ||
          (GasCalc.enabled spec GasCalc.SpecId.SHANGHAI && a == e.block.coinbase)))).js.spec
        (fun a => (accessFold e (setMetaW w spec (fun a => w.js.preloaded a ||
          (GasCalc.enabled spec GasCalc.SpecId.SHANGHAI && a == e.block.coinbase)))).js.preloaded a ||
          isPrecompile spec a) := rfl

/-- `load_accounts` (access list, pre-warming) moves no ether -/
theorem quiet_loadAccounts (e : Evm.Env) (spec : Nat) (w : World) : Quiet w (loadAccounts e spec w) := by
  rw [loadAccounts_eq]
  exact quiet_setMetaW (quiet_accessList _ _ (quiet_setMetaW (Quiet.refl w) _ _)) _ _

end Revm.Proofs.EvmLink
