import Revm.Proofs.EvmRefineWorld
/-! The `Host` of the interpreter: journal machine vs snapshot machine (the `host` obligation of the simulation). -/
set_option linter.unusedSimpArgs false
set_option linter.unusedVariables false
namespace Revm.Proofs.EvmRefine
open Revm Revm.Model Revm.Model.Journal Revm.Spec.JournalAbs Revm.Proofs.Journal Revm.Proofs.Frame
open Revm.Model.Evm (World PreAcct CpOps journalOps R ofOpt answer HostEnv)
open Revm.Spec.Evm (Snap snapshotOps)

variable {ks1 : List Checkpoint} {ks2 : List Snap} {w1 w2 : World}

theorem sload_congr {db db' : Db} (hb : db'.storage = db.storage) (s : JState) (a k : Nat) :
    sload db' s a k = sload db s a k := by
  unfold sload; rw [hb]

theorem sstore_congr {db db' : Db} (hb : db'.storage = db.storage) (s : JState) (a k v : Nat) :
    sstore db' s a k v = sstore db s a k v := by
  unfold sstore; rw [sload_congr hb]

theorem selfdestruct_congr {db db' : Db} (hb : db'.basic = db.basic) (s : JState) (a t : Nat) :
    selfdestruct db' s a t = selfdestruct db s a t := by
  unfold selfdestruct; rw [loadAccount_congr hb]

/-- related worlds hold related accounts -/
theorem CfgRel.acct (h : CfgRel ks1 w1 ks2 w2) {a : Addr} {x : Acct} (hx : w1.acct a = .ok x) :
    ∃ y, w2.acct a = .ok y ∧ ARel (dbPre w1.pre) a x y ∧ w1.js.state a = some x ∧ w2.js.state a = some y := by
  unfold World.acct at hx ⊢
  have hj := ofOpt_ok hx
  obtain ⟨y, hy, ar⟩ := h.w.rel.get hj
  exact ⟨y, by rw [hy]; rfl, ar, hj, hy⟩

theorem CfgRel.codeOf (h : CfgRel ks1 w1 ks2 w2) (hh : Nat) : w2.codeOf hh = w1.codeOf hh := by
  unfold World.codeOf; rw [h.w.codes]

/-- the `host` obligation -/
theorem host_rel (he : HostEnv) (h : CfgRel ks1 w1 ks2 w2) (op : Interp.HostOp) (resp : Interp.HostResp) (w1' : World)
    (hl : answer he w1 op = .ok (resp, w1')) :
    ∃ w2', answer he w2 op = .ok (resp, w2') ∧ CfgRel ks1 w1' ks2 w2' := by
  cases op with
  | tload a k =>
    simp only [answer, pure, Except.pure, Except.ok.injEq, Prod.mk.injEq] at hl ⊢
    obtain ⟨h1, h2⟩ := hl
    subst h1; subst h2
    exact ⟨w2, ⟨by rw [h.w.rel.tr a k], rfl⟩, h⟩
  | balance a =>
    simp only [answer, bind, Except.bind] at hl ⊢
    cases h1 : w1.loadAccount a with
    | error e => rw [h1] at hl; simp at hl
    | ok p =>
      obtain ⟨wa, c⟩ := p
      rw [h1] at hl
      obtain ⟨wb, h2, hr⟩ := wLoadAccount_rel h h1
      rw [h2]
      simp only at hl ⊢
      cases hx : wa.acct a with
      | error e => rw [hx] at hl; simp at hl
      | ok x =>
        rw [hx] at hl
        obtain ⟨y, hy, ar, _, _⟩ := hr.acct hx
        rw [hy]
        simp only [pure, Except.pure, Except.ok.injEq, Prod.mk.injEq] at hl ⊢
        obtain ⟨hl1, hl2⟩ := hl
        subst hl1; subst hl2
        exact ⟨wb, ⟨by rw [ar.1], rfl⟩, hr⟩
  | code a =>
    simp only [answer, bind, Except.bind] at hl ⊢
    cases h1 : w1.loadCode a with
    | error e => rw [h1] at hl; simp at hl
    | ok p =>
      obtain ⟨wa, c⟩ := p
      rw [h1] at hl
      obtain ⟨wb, h2, hr⟩ := wLoadCode_rel h h1
      rw [h2]
      simp only at hl ⊢
      cases hx : wa.acct a with
      | error e => rw [hx] at hl; simp at hl
      | ok x =>
        rw [hx] at hl
        obtain ⟨y, hy, ar, hxs, hys⟩ := hr.acct hx
        rw [hy]
        simp only at hl ⊢
        cases hc : ofOpt "code not cached" x.info.code with
        | error e => rw [hc] at hl; simp at hl
        | ok hh =>
          rw [hc] at hl
          have hcx := ofOpt_ok hc
          -- the specification's cache is filled too (`load_code` just ran) and holds the same hash
          unfold World.loadCode at h2
          simp only [bind, Except.bind] at h2
          cases ho : ofOpt "load_code" (Journal.loadCode w2.db w2.js a) with
          | error e => rw [ho] at h2; simp at h2
          | ok q =>
            obtain ⟨s', c'⟩ := q
            rw [ho] at h2
            simp only [pure, Except.pure, Except.ok.injEq, Prod.mk.injEq] at h2
            obtain ⟨y', hh', hy', hcy'⟩ := loadCode_cached (ofOpt_ok ho)
            have hwb : wb.js = s' := by rw [← h2.1]; exact (noteAddr_fields _ a).1
            rw [hwb, hy'] at hys
            simp only [Option.some.injEq] at hys
            subst hys
            have e3 : x.info.codeHash = y'.info.codeHash := ar.2.2.1
            have hhx : hh = x.info.codeHash := hr.w.rel.cj a x hxs hh hcx
            have hhy : hh' = y'.info.codeHash := hr.w.rel.cs a y' (by rw [hwb]; exact hy') hh' hcy'
            have hcy : ofOpt "code not cached" y'.info.code = .ok hh := by rw [hcy', hhy, ← e3, ← hhx]; rfl
            rw [hcy]
            simp only at hl ⊢
            rw [hr.codeOf hh]
            cases hb : ofOpt "code_by_hash" (wa.codeOf hh) with
            | error e => rw [hb] at hl; simp at hl
            | ok bytes =>
              rw [hb] at hl
              simp only [pure, Except.pure, Except.ok.injEq, Prod.mk.injEq] at hl ⊢
              obtain ⟨hl1, hl2⟩ := hl
              subst hl1; subst hl2
              exact ⟨wb, ⟨rfl, rfl⟩, hr⟩
  | codeHash a =>
    simp only [answer, bind, Except.bind] at hl ⊢
    cases h1 : w1.loadCode a with
    | error e => rw [h1] at hl; simp at hl
    | ok p =>
      obtain ⟨wa, c⟩ := p
      rw [h1] at hl
      obtain ⟨wb, h2, hr⟩ := wLoadCode_rel h h1
      rw [h2]
      simp only at hl ⊢
      cases hx : wa.acct a with
      | error e => rw [hx] at hl; simp at hl
      | ok x =>
        rw [hx] at hl
        obtain ⟨y, hy, ar, _, _⟩ := hr.acct hx
        rw [hy]
        simp only at hl ⊢
        obtain ⟨e1, e2, e3, e4, e5, e6, e7, e8, e9⟩ := ar
        have hie : y.info.isEmpty = x.info.isEmpty := by simp only [Info.isEmpty, e1, e2, e3]
        rw [hie, ← e3]
        by_cases hem : x.info.isEmpty = true
        · rw [if_pos hem] at hl ⊢
          simp only [pure, Except.pure, Except.ok.injEq, Prod.mk.injEq] at hl ⊢
          obtain ⟨hl1, hl2⟩ := hl
          subst hl1; subst hl2
          exact ⟨wb, ⟨rfl, rfl⟩, hr⟩
        · rw [if_neg hem] at hl ⊢
          simp only [pure, Except.pure, Except.ok.injEq, Prod.mk.injEq] at hl ⊢
          obtain ⟨hl1, hl2⟩ := hl
          subst hl1; subst hl2
          exact ⟨wb, ⟨rfl, rfl⟩, hr⟩
  | sload a k =>
    simp only [answer, bind, Except.bind] at hl ⊢
    cases ho : ofOpt "sload" (Journal.sload w1.db w1.js a k) with
    | error e => rw [ho] at hl; simp at hl
    | ok p =>
      obtain ⟨j', v, c⟩ := p
      rw [ho] at hl
      simp only [pure, Except.pure, Except.ok.injEq, Prod.mk.injEq] at hl
      obtain ⟨hl1, hl2⟩ := hl
      subst hl1; subst hl2
      have hj := ofOpt_ok ho
      rw [sload_congr (db_storage w1)] at hj
      obtain ⟨s', hs', hrel, hdom⟩ := sload_rel h.w.rel hj
      rw [sload_congr h.st2, hs']
      exact ⟨_, rfl, h.step ((Upd.js w1 j').slot a k) ((Upd.js w2 s').slot a k) hrel
        (sload_fwd h.w.dbBal h.good hj) hdom (fun b => rfl)⟩
  | sstore a k v =>
    simp only [answer, bind, Except.bind] at hl ⊢
    cases ho : ofOpt "sstore" (Journal.sstore w1.db w1.js a k v) with
    | error e => rw [ho] at hl; simp at hl
    | ok p =>
      obtain ⟨j', o, pp, n, c⟩ := p
      rw [ho] at hl
      simp only [pure, Except.pure, Except.ok.injEq, Prod.mk.injEq] at hl
      obtain ⟨hl1, hl2⟩ := hl
      subst hl1; subst hl2
      have hj := ofOpt_ok ho
      rw [sstore_congr (db_storage w1)] at hj
      obtain ⟨s', hs', hrel, hdom⟩ := sstore_rel h.w.rel hj
      rw [sstore_congr h.st2, hs']
      exact ⟨_, rfl, h.step ((Upd.js w1 j').slot a k) ((Upd.js w2 s').slot a k) hrel
        (sstore_fwd h.w.dbBal h.good hj) hdom (fun b => rfl)⟩
  | tstore a k v =>
    simp only [answer, bind, Except.bind] at hl ⊢
    cases ho : ofOpt "tstore" (Journal.tstore w1.js a k v) with
    | error e => rw [ho] at hl; simp at hl
    | ok j' =>
      rw [ho] at hl
      simp only [pure, Except.pure, Except.ok.injEq, Prod.mk.injEq] at hl
      obtain ⟨hl1, hl2⟩ := hl
      subst hl1; subst hl2
      have hj := ofOpt_ok ho
      obtain ⟨s', hs', hrel, hdom⟩ := tstore_rel h.w.rel hj
      rw [hs']
      exact ⟨_, rfl, h.step (Upd.js w1 j') (Upd.js w2 s') hrel (tstore_fwd h.w.dbBal h.good hj) hdom (fun b => rfl)⟩
  | log a topics data =>
    simp only [answer, pure, Except.pure, Except.ok.injEq, Prod.mk.injEq] at hl ⊢
    obtain ⟨hl1, hl2⟩ := hl
    subst hl1; subst hl2
    refine ⟨_, ⟨rfl, rfl⟩, ?_⟩
    rw [h.w.logs]
    have hrel := log_rel w1.logs.length h.w.rel
    have hf := log_fwd (db := dbPre w1.pre) (hs := hsPre w1.pre) w1.logs.length h.good
    refine h.fwd rfl rfl ?_ rfl h.w.pc h.w.hs1 h.w.hs2 hrel hf (l := []) (Dom.of_state_eq rfl) (fun b => by simp)
    exact h.w.codes
  | selfdestruct a t =>
    simp only [answer, bind, Except.bind] at hl ⊢
    cases ho : ofOpt "selfdestruct" (Journal.selfdestruct w1.db w1.js a t) with
    | error e => rw [ho] at hl; simp at hl
    | ok p =>
      obtain ⟨j', r⟩ := p
      rw [ho] at hl
      simp only [pure, Except.pure, Except.ok.injEq, Prod.mk.injEq] at hl
      obtain ⟨hl1, hl2⟩ := hl
      subst hl1; subst hl2
      have hj := ofOpt_ok ho
      rw [selfdestruct_congr (db_basic w1)] at hj
      obtain ⟨s', hs', hrel, hdom⟩ := selfdestruct_rel h.w.rel (dbCode_pre _) hj
      rw [selfdestruct_congr h.db2, hs']
      exact ⟨_, rfl, h.step ((Upd.js w1 j').note t) ((Upd.js w2 s').note t) hrel
        (selfdestruct_fwd h.w.dbBal h.good hj) hdom (fun b => by simp)⟩
  | loadAccountDelegated a =>
    simp only [answer, bind, Except.bind] at hl ⊢
    cases h1 : w1.loadAccountDelegated a with
    | error e => rw [h1] at hl; simp at hl
    | ok p =>
      obtain ⟨wa, r⟩ := p
      rw [h1] at hl
      obtain ⟨wb, h2, hr⟩ := wLoadAccountDelegated_rel h h1
      rw [h2]
      simp only [pure, Except.pure, Except.ok.injEq, Prod.mk.injEq] at hl ⊢
      obtain ⟨hl1, hl2⟩ := hl
      subst hl1; subst hl2
      exact ⟨wb, ⟨rfl, rfl⟩, hr⟩
  | _ =>
    -- the answers that do not look at the world (KECCAK256, BLOCKHASH)
    simp only [answer, pure, Except.pure, Except.ok.injEq, Prod.mk.injEq] at hl ⊢
    obtain ⟨h1, h2⟩ := hl
    subst h1; subst h2
    exact ⟨w2, ⟨rfl, rfl⟩, h⟩

end Revm.Proofs.EvmRefine
