import Revm.Proofs.EvmLinkEther6
import Revm.Proofs.EvmLinkEther4
/-! LINK, ether conservation (C08), part 8: the EIP-7702 list, the validation's `load_code`, and the two credits of
`finish` — what they keep (keys, ledger invariant, the balance entries of the journal). -/
set_option linter.unusedSimpArgs false
set_option linter.unusedVariables false
namespace Revm.Proofs.EvmLink
open Revm Revm.Model Revm.Model.Evm
open Revm.Spec.Ether Revm.Proofs.Ether

/-- a quiet stage preserves the ledger invariant -/
theorem Pres.of_quiet {L B} {w w' : World} (q : Quiet w w') : Pres L B w w' :=
  ⟨q.kle, fun _ h => by unfold EI at *; rw [q.db, q.same.absB]; exact h, by rw [q.db], q.ng⟩

/-- rewriting a present account without changing its balance -/
theorem quiet_setAcct {w : World} {a : Nat} {acc acc' : Journal.Acct} (hs : w.js.state a = some acc)
    (hb : acc'.info.balance = acc.info.balance) : Quiet w { w with js := Journal.setAcct w.js a acc' } :=
  ⟨same_setAcct' hs hb, rfl, KLe.setAcct _ _ _, ng_setAcct _ (present_of_some hs)⟩

/-- a loop whose body keeps a preorder keeps it -/
theorem forIn_rel {α σ : Type} (f : α → σ → R (ForInStep σ)) (Rel : σ → σ → Prop) (hr : ∀ s, Rel s s)
    (ht : ∀ a b c, Rel a b → Rel b c → Rel a c)
    (hf : ∀ a s st, f a s = .ok st → ∃ s', st = .yield s' ∧ Rel s s') :
    ∀ (l : List α) (s r : σ), forIn (m := R) l s f = .ok r → Rel s r := by
  intro l
  induction l with
  | nil =>
    intro s r h
    simp only [List.forIn_nil, pure, Except.pure, Except.ok.injEq] at h
    subst h; exact hr _
  | cons a l ih =>
    intro s r h
    rw [List.forIn_cons] at h
    obtain ⟨st, h1, h2⟩ := bind_ok h
    obtain ⟨s', rfl, hp⟩ := hf a s st h1
    exact ht _ _ _ hp (ih _ _ h2)

section auth
variable {L : List Nat} {B : Nat → Nat} (hn : L.Nodup) (hB : sumOver L B < W)
include hn hB

/-- one EIP-7702 authorization: `load_code`, a new code in the store, nonce and code hash of the authority -/
theorem pres_applyAuth {e : Evm.Env} {w w' : World} {a : Auth} {b : Bool} (h : applyAuth e w a = .ok (w', b)) :
    Pres L B w w' := by
  unfold applyAuth at h
  simp only [pure, Except.pure] at h
  split at h
  · simp only [Except.ok.injEq, Prod.mk.injEq] at h; rw [← h.1]; exact Pres.refl _ _ _
  · split at h
    · simp only [Except.ok.injEq, Prod.mk.injEq] at h; rw [← h.1]; exact Pres.refl _ _ _
    · split at h
      · rename_i authority hau
        obtain ⟨⟨w1, c⟩, h1, h⟩ := bind_ok h
        obtain ⟨p1, _⟩ := pres_loadCode (L := L) (B := B) hn hB h1
        obtain ⟨acc, hacc, h⟩ := bind_ok h
        obtain ⟨hh, _, h⟩ := bind_ok h
        obtain ⟨code, _, h⟩ := bind_ok h
        split at h
        · simp only [Except.ok.injEq, Prod.mk.injEq] at h; rw [← h.1]; exact p1
        · split at h
          · simp only [Except.ok.injEq, Prod.mk.injEq] at h; rw [← h.1]; exact p1
          · simp only [Except.ok.injEq, Prod.mk.injEq] at h
            rw [← h.1]
            generalize Keccak.keccak256w (designator a.address) = kh
            generalize designator a.address = bytes
            have hs := acct_ok hacc
            by_cases hz : a.address = 0
            · simp only [hz, if_true]
              exact p1.trans (Pres.of_quiet (quiet_setAcct hs rfl))
            · simp only [hz, if_false]
              refine (p1.trans (pres_addCode w1 kh bytes)).trans (Pres.of_quiet (quiet_setAcct (acc := acc) ?_ rfl))
              rw [addCode_js]; exact hs
      · simp only [Except.ok.injEq, Prod.mk.injEq] at h; rw [← h.1]; exact Pres.refl _ _ _

theorem pres_applyAuthList {e : Evm.Env} {spec : Nat} {w w' : World} {r : Nat}
    (h : applyAuthList e spec w = .ok (w', r)) : Pres L B w w' := by
  unfold applyAuthList at h
  simp only [bind, Except.bind, pure, Except.pure] at h
  split at h
  · simp only [Except.ok.injEq, Prod.mk.injEq] at h; rw [← h.1]; exact Pres.refl _ _ _
  · cases hal : e.tx.authList with
    | none =>
      rw [hal] at h
      simp only [Except.ok.injEq, Prod.mk.injEq] at h; rw [← h.1]; exact Pres.refl _ _ _
    | some l =>
      rw [hal] at h
      simp only at h
      split at h
      · cases h
      · rename_i v hv
        simp only [Except.ok.injEq, Prod.mk.injEq] at h
        rw [← h.1]
        exact forIn_rel _ (fun s s' : World × Nat => Pres L B s.1 s'.1) (fun _ => Pres.refl _ _ _)
          (fun _ _ _ => Pres.trans) (by
          intro a s st hst
          split at hst
          · cases hst
          · rename_i v' hv'
            have := pres_applyAuth hn hB (w' := v'.1) (b := v'.2) hv'
            split at hst
            · simp only [Except.ok.injEq] at hst; subst hst; exact ⟨_, rfl, this⟩
            · simp only [Except.ok.injEq] at hst; subst hst; exact ⟨_, rfl, this⟩) l (w, 0) v hv

end auth

/-! ## validation's `load_code`, and the credits -/

theorem quiet_loadCode {w w1 : World} {a : Nat} {c : Bool} (h : w.loadCode a = .ok (w1, c)) : Quiet w w1 := by
  obtain ⟨t1, t2⟩ := w_loadCode_tr h
  exact ⟨loadCode_same t1, t2, (kle_loadCode t1).1, ng_loadCode h⟩

/-- the journal's `load_account` reads only `db.basic` -/
theorem loadAccount_db {db db' : Journal.Db} (h : db'.basic = db.basic) (s : Journal.JState) (a : Nat) :
    Journal.loadAccount db' s a = Journal.loadAccount db s a := by
  unfold Journal.loadAccount; rw [h]

theorem postExecution_db {db db' : Journal.Db} (h : db'.basic = db.basic) (s : Journal.JState) (spec : Nat)
    (e : TxFeeLegs.FeeEnv) (rw : Bool) (rem sp rf : Nat) :
    TxFeeLegs.postExecution db' s spec e rw rem sp rf = TxFeeLegs.postExecution db s spec e rw rem sp rf := by
  unfold TxFeeLegs.postExecution TxFeeLegs.reimburseCaller TxFeeLegs.rewardBeneficiary
  simp only [loadAccount_db h]

theorem deductCaller_db {db db' : Journal.Db} (h : db'.basic = db.basic) (s : Journal.JState) (spec : Nat)
    (e : TxFeeLegs.FeeEnv) : TxFeeLegs.deductCaller db' s spec e = TxFeeLegs.deductCaller db s spec e := by
  unfold TxFeeLegs.deductCaller
  simp only [loadAccount_db h]

/-- the two credits remove no account, leave caller and beneficiary present, and push no balance entry -/
theorem postExecution_keys {db : Journal.Db} {s s' : Journal.JState} {spec : Nat} {e : TxFeeLegs.FeeEnv}
    {rem sp rf : Nat} (h : TxFeeLegs.postExecution db s spec e true rem sp rf = some s') :
    KLe s s' ∧ s'.state e.caller ≠ none ∧ s'.state e.coinbase ≠ none ∧ JB s' = JB s := by
  unfold TxFeeLegs.postExecution at h
  simp only [bind, Option.bind_eq_some_iff, if_true] at h
  obtain ⟨s2, hr, hb⟩ := h
  obtain ⟨_, j1⟩ := reimburseCaller_bal hr
  obtain ⟨_, j2⟩ := rewardBeneficiary_bal hb
  unfold TxFeeLegs.reimburseCaller at hr
  simp only [bind, Option.bind_eq_some_iff] at hr
  obtain ⟨⟨s1, c1⟩, h1, acc, h2, hr⟩ := hr
  simp only [Option.some.injEq] at hr
  unfold TxFeeLegs.rewardBeneficiary at hb
  simp only [bind, Option.bind_eq_some_iff] at hb
  obtain ⟨⟨s3, c3⟩, h3, acc3, h4, hb⟩ := hb
  simp only [Option.some.injEq] at hb
  have k1 : KLe s s2 := by rw [← hr]; exact (kle_loadAccount h1).1.trans (KLe.setAcct _ _ _)
  have k2 : KLe s2 s' := by rw [← hb]; exact (kle_loadAccount h3).1.trans (KLe.setAcct _ _ _)
  refine ⟨k1.trans k2, k2 _ (by rw [← hr]; exact present_setAcct _ _ _), by rw [← hb]; exact present_setAcct _ _ _,
    j2.trans j1⟩

end Revm.Proofs.EvmLink
