import Revm.Proofs.EvmStep2Prim
/-! (a) MLOAD, MSTORE, MSTORE8, MSIZE, MCOPY: `Interp.step` is the rule of `Spec/EvmRules2.lean`. -/
set_option linter.unusedSimpArgs false
set_option linter.unusedVariables false
namespace Revm.Proofs.EvmStep2
open Revm Revm.Model Revm.Model.Interp
open Revm.Model.GasCalc (enabled)
open Revm.Spec.EvmRules Revm.Spec.EvmRules2
open Revm.Spec.GasCalc (ceil32 memCost)
open Revm.Proofs.EvmStep

theorem u64_32 : (32 : Nat) < U64 := by rw [U64_val]; decide
theorem u64_1 : (1 : Nat) < U64 := by rw [U64_val]; decide

theorem mloadI_eq (s : IState) (h : MemOK s) (hw : ∀ w ∈ s.stack, w < W) :
    (mloadI s).toDone =
      needGas s GasCalc.VERYLOW fun s1 =>
        match s.stack.reverse with
        | off :: rest =>
          if U64 ≤ off then .halt .InvalidOperandOOG [] s1
          else memAccess s1 off 32 fun s2 =>
            .next { s2 with stack := (beNat (load (memOf s2) off 32) :: rest).reverse }
        | [] => .halt .StackUnderflow [] s1 := by
  unfold mloadI needGas
  by_cases hg : s.gas.remaining < GasCalc.VERYLOW
  · rw [bind_halt _ _ _ _ _ _ (gasCharge_fail s _ hg), if_pos hg]; rfl
  · rw [bind_ok _ _ _ _ _ (gasCharge_ok s _ h.gas (by omega)), if_neg hg]
    have h1 : MemOK (charge s GasCalc.VERYLOW) := h.charge _
    generalize hs1 : ({ s with gas := { s.gas with remaining := s.gas.remaining - GasCalc.VERYLOW } } : IState) = s1
    have hch : charge s GasCalc.VERYLOW = s1 := hs1
    rw [hch] at h1 ⊢
    have hst : s1.stack = s.stack := by rw [← hs1]
    rcases hrev : s.stack.reverse with _ | ⟨off, rest⟩
    · have : s1.stack.length < 1 := by rw [hst, ← List.length_reverse, hrev]; decide
      rw [bind_halt _ _ _ _ _ _ (popTop1_underflow s1 this)]; rfl
    · have hs : s1.stack = rest.reverse ++ [off] := by
        rw [hst]; exact stack_of_reverse (pre := [off]) hrev
      have hoff : off < W := lt_W_of_mem hw (pre := [off]) hrev (by simp)
      rw [bind_ok _ _ _ _ _ (popTop1_ok s1 _ off hs)]
      simp only []
      by_cases ho : U64 ≤ off
      · rw [bind_halt _ _ _ _ _ _ (asUsizeOrFail_fail off _ s1 ho hoff), if_pos ho]; rfl
      · rw [bind_ok _ _ _ _ _ (asUsizeOrFail_ok off _ s1 (by omega)), if_neg ho]
        unfold memAccess
        by_cases hc : s1.gas.remaining < touchCost (memOf s1) off 32
        · rw [bind_halt _ _ _ _ _ _ (resizeMem_fail s1 off 32 h1 (by omega) u64_32 hc), if_pos hc]; rfl
        · rw [bind_ok _ _ _ _ _ (resizeMem_ok s1 off 32 h1 (by omega) u64_32 hc), if_neg hc]
          have h2 := h1.touch off 32 hc
          have hcov := touch_covers (memOf s1) off 32
          have hm2 : memOf (setMem (charge s1 (touchCost (memOf s1) off 32)) (touch (memOf s1) off 32))
              = touch (memOf s1) off 32 := memOf_setMem h1.mem _
          have hst2 : (setMem (charge s1 (touchCost (memOf s1) off 32)) (touch (memOf s1) off 32)).stack
              = rest.reverse ++ [off] := hs
          generalize setMem (charge s1 (touchCost (memOf s1) off 32)) (touch (memOf s1) off 32) = s2 at h2 hm2 hst2 ⊢
          rw [bind_ok _ _ _ _ _ (memGetU256_eq s2 off h2.mem (by rw [hm2]; exact hcov))]
          have := setTop_ok s2 rest.reverse off (beNat (load (memOf s2) off 32)) hst2
          simp only [this, Exec.toDone, List.reverse_cons]

theorem step_mload (s : IState) (hcode : s.code[s.pc]? = some 0x51) (hwf : WFM s) :
    step s = .pure (mloadRule s) := by
  unfold step
  rw [hcode]
  have hdec : decode 0x51 = .mload := rfl
  simp only [hdec, execInstr, execPure]
  show Outcome.pure (mloadI (adv s)).toDone = _
  rw [mloadI_eq (adv s) hwf.memOK.adv hwf.words]
  rfl

/-- the common part of MSTORE / MSTORE8: `gas!; pop!(offset, value); as_usize_or_fail!; resize_memory!(offset, n)` and a
write of `n` bytes at `offset` -/
theorem storeI_eq (s : IState) (h : MemOK s) (hw : ∀ w ∈ s.stack, w < W) (n : Nat) (hn : n < U64)
    (wr : Nat → Nat → M Unit) (bytes : Nat → List Nat) (hb : ∀ v, (bytes v).length = n)
    (hwr : ∀ (s' : IState) (off v : Nat), Proofs.Memory.WF s'.mem → off + n ≤ (memOf s').length →
      wr off v s' = .ok () (setMem s' (store (memOf s') off (bytes v)))) :
    ((do gasCharge GasCalc.VERYLOW
         let (offset, value) ← pop2
         let offset ← asUsizeOrFail offset
         resizeMem offset n
         wr offset value : M Unit) s).toDone =
      needGas s GasCalc.VERYLOW fun s1 =>
        match s.stack.reverse with
        | off :: v :: rest =>
          let s2 := { s1 with stack := rest.reverse }
          if U64 ≤ off then .halt .InvalidOperandOOG [] s2
          else memAccess s2 off n fun s3 => .next (setMem s3 (store (memOf s3) off (bytes v)))
        | _ => .halt .StackUnderflow [] s1 := by
  unfold needGas
  by_cases hg : s.gas.remaining < GasCalc.VERYLOW
  · rw [bind_halt _ _ _ _ _ _ (gasCharge_fail s _ hg), if_pos hg]; rfl
  · rw [bind_ok _ _ _ _ _ (gasCharge_ok s _ h.gas (by omega)), if_neg hg]
    have h1 : MemOK (charge s GasCalc.VERYLOW) := h.charge _
    generalize hs1 : ({ s with gas := { s.gas with remaining := s.gas.remaining - GasCalc.VERYLOW } } : IState) = s1
    have hch : charge s GasCalc.VERYLOW = s1 := hs1
    rw [hch] at h1 ⊢
    have hst : s1.stack = s.stack := by rw [← hs1]
    rcases hrev : s.stack.reverse with _ | ⟨off, _ | ⟨v, rest⟩⟩
    · have : s1.stack.length < 2 := by rw [hst, ← List.length_reverse, hrev]; decide
      rw [bind_halt _ _ _ _ _ _ (pop2_underflow s1 this)]; rfl
    · have : s1.stack.length < 2 := by rw [hst, ← List.length_reverse, hrev]; simp
      rw [bind_halt _ _ _ _ _ _ (pop2_underflow s1 this)]; rfl
    · have hs : s1.stack = rest.reverse ++ [v, off] := by
        rw [hst]; exact stack_of_reverse (pre := [off, v]) hrev
      have hoff : off < W := lt_W_of_mem hw (pre := [off, v]) hrev (by simp)
      rw [bind_ok _ _ _ _ _ (pop2_ok s1 _ off v hs)]
      simp only []
      have h2 : MemOK { s1 with stack := rest.reverse } := h1.stack _
      generalize ({ s1 with stack := rest.reverse } : IState) = s2 at h2 ⊢
      by_cases ho : U64 ≤ off
      · rw [bind_halt _ _ _ _ _ _ (asUsizeOrFail_fail off _ s2 ho hoff), if_pos ho]; rfl
      · rw [bind_ok _ _ _ _ _ (asUsizeOrFail_ok off _ s2 (by omega)), if_neg ho]
        unfold memAccess
        by_cases hc : s2.gas.remaining < touchCost (memOf s2) off n
        · rw [bind_halt _ _ _ _ _ _ (resizeMem_fail s2 off n h2 (by omega) hn hc), if_pos hc]; rfl
        · rw [bind_ok _ _ _ _ _ (resizeMem_ok s2 off n h2 (by omega) hn hc), if_neg hc]
          have h3 := h2.touch off n hc
          have hcov := touch_covers (memOf s2) off n
          have hm3 : memOf (setMem (charge s2 (touchCost (memOf s2) off n)) (touch (memOf s2) off n))
              = touch (memOf s2) off n := memOf_setMem h2.mem _
          generalize setMem (charge s2 (touchCost (memOf s2) off n)) (touch (memOf s2) off n) = s3 at h3 hm3 ⊢
          rw [hwr s3 off v h3.mem (by rw [hm3]; exact hcov)]
          rfl

theorem mstoreI_eq (s : IState) (h : MemOK s) (hw : ∀ w ∈ s.stack, w < W) :
    (mstoreI s).toDone =
      needGas s GasCalc.VERYLOW fun s1 =>
        match s.stack.reverse with
        | off :: v :: rest =>
          let s2 := { s1 with stack := rest.reverse }
          if U64 ≤ off then .halt .InvalidOperandOOG [] s2
          else memAccess s2 off 32 fun s3 => .next (setMem s3 (store (memOf s3) off (wordBytes v)))
        | _ => .halt .StackUnderflow [] s1 :=
  storeI_eq s h hw 32 u64_32 memSetU256 wordBytes wordBytes_length
    (fun s' off v hm hin => memSetU256_eq s' off v hm hin)

theorem mstore8I_eq (s : IState) (h : MemOK s) (hw : ∀ w ∈ s.stack, w < W) :
    (mstore8I s).toDone =
      needGas s GasCalc.VERYLOW fun s1 =>
        match s.stack.reverse with
        | off :: v :: rest =>
          let s2 := { s1 with stack := rest.reverse }
          if U64 ≤ off then .halt .InvalidOperandOOG [] s2
          else memAccess s2 off 1 fun s3 => .next (setMem s3 (store (memOf s3) off [v % 256]))
        | _ => .halt .StackUnderflow [] s1 :=
  storeI_eq s h hw 1 u64_1 (fun off v => memSetByte off (v % 256)) (fun v => [v % 256]) (fun _ => rfl)
    (fun s' off v hm hin => memSetByte_eq s' off (v % 256) hm hin)

theorem step_mstore (s : IState) (hcode : s.code[s.pc]? = some 0x52) (hwf : WFM s) :
    step s = .pure (mstoreRule s) := by
  unfold step
  rw [hcode]
  have hdec : decode 0x52 = .mstore := rfl
  simp only [hdec, execInstr, execPure]
  show Outcome.pure (mstoreI (adv s)).toDone = _
  rw [mstoreI_eq (adv s) hwf.memOK.adv hwf.words]
  rfl

theorem step_mstore8 (s : IState) (hcode : s.code[s.pc]? = some 0x53) (hwf : WFM s) :
    step s = .pure (mstore8Rule s) := by
  unfold step
  rw [hcode]
  have hdec : decode 0x53 = .mstore8 := rfl
  simp only [hdec, execInstr, execPure]
  show Outcome.pure (mstore8I (adv s)).toDone = _
  rw [mstore8I_eq (adv s) hwf.memOK.adv hwf.words]
  rfl

/-- MSIZE pushes the number of active bytes of the frame's memory -/
theorem step_msize (s : IState) (hcode : s.code[s.pc]? = some 0x59) (hwf : WFM s) :
    step s = .pure (msizeRule s) := by
  have h := step_pushVal s 0x59 .base GasCalc.SpecId.FRONTIER (fun s => Memory.len s.mem) hcode rfl hwf.gas
  rw [h]
  have hl : Memory.len s.mem = (memOf s).length := Proofs.Memory.len_eq hwf.mem
  unfold msizeRule pushValRule
  simp only [Tier.cost]
  have e : Memory.len (charge (adv s) GasCalc.BASE).mem = (memOf (charge (adv s) GasCalc.BASE)).length := hl
  rw [e]
  rfl

theorem mcopyI_eq (s : IState) (h : MemOK s) (hw : ∀ w ∈ s.stack, w < W) :
    (mcopyI s).toDone =
      if !enabled s.spec GasCalc.SpecId.CANCUN then .halt .NotActivated [] s
      else match s.stack.reverse with
        | dst :: src :: len :: rest =>
          let s1 := { s with stack := rest.reverse }
          if U64 ≤ len then .halt .InvalidOperandOOG [] s1
          else needGas s1 (Spec.GasCalc.copyCost len) fun s2 =>
            if len = 0 then .next s2
            else if U64 ≤ dst ∨ U64 ≤ src then .halt .InvalidOperandOOG [] s2
            else memAccess s2 (max dst src) len fun s3 =>
              .next (setMem s3 (store (memOf s3) dst (load (memOf s3) src len)))
        | _ => .halt .StackUnderflow [] s := by
  unfold mcopyI
  by_cases hen : enabled s.spec GasCalc.SpecId.CANCUN
  · have hc : check GasCalc.SpecId.CANCUN s = .ok () s := by simp [check, hen]
    rw [bind_ok _ _ _ _ _ hc]
    simp only [hen, Bool.not_true, Bool.false_eq_true, if_false]
    rcases hrev : s.stack.reverse with _ | ⟨dst, _ | ⟨src, _ | ⟨len, rest⟩⟩⟩
    · have : s.stack.length < 3 := by rw [← List.length_reverse, hrev]; decide
      rw [bind_halt _ _ _ _ _ _ (pop3_underflow s this)]; rfl
    · have : s.stack.length < 3 := by rw [← List.length_reverse, hrev]; simp
      rw [bind_halt _ _ _ _ _ _ (pop3_underflow s this)]; rfl
    · have : s.stack.length < 3 := by rw [← List.length_reverse, hrev]; simp
      rw [bind_halt _ _ _ _ _ _ (pop3_underflow s this)]; rfl
    · have hs : s.stack = rest.reverse ++ [len, src, dst] := stack_of_reverse (pre := [dst, src, len]) hrev
      have hdst : dst < W := lt_W_of_mem hw (pre := [dst, src, len]) hrev (by simp)
      have hsrc : src < W := lt_W_of_mem hw (pre := [dst, src, len]) hrev (by simp)
      have hlen : len < W := lt_W_of_mem hw (pre := [dst, src, len]) hrev (by simp)
      rw [bind_ok _ _ _ _ _ (pop3_ok s _ dst src len hs)]
      simp only []
      have h1 : MemOK { s with stack := rest.reverse } := h.stack _
      generalize ({ s with stack := rest.reverse } : IState) = s1 at h1 ⊢
      by_cases hl : U64 ≤ len
      · rw [bind_halt _ _ _ _ _ _ (asUsizeOrFail_fail len _ s1 hl hlen), if_pos hl]; rfl
      · rw [bind_ok _ _ _ _ _ (asUsizeOrFail_ok len _ s1 (by omega)), if_neg hl]
        unfold needGas
        have hcc := copyCharge_eq s1 len (by omega) h1.bound
        by_cases hg : s1.gas.remaining < Spec.GasCalc.copyCost len
        · rw [if_pos hg] at hcc
          rw [bind_halt _ _ _ _ _ _ hcc, if_pos hg]; rfl
        · rw [if_neg hg] at hcc
          rw [bind_ok _ _ _ _ _ hcc, if_neg hg]
          have h2 : MemOK (charge s1 (Spec.GasCalc.copyCost len)) := h1.charge _
          generalize charge s1 (Spec.GasCalc.copyCost len) = s2 at h2 ⊢
          by_cases hz : len = 0
          · simp only [hz, if_true]; rfl
          · simp only [hz, if_false]
            by_cases hd : U64 ≤ dst
            · rw [bind_halt _ _ _ _ _ _ (asUsizeOrFail_fail dst _ s2 hd hdst), if_pos (Or.inl hd)]; rfl
            · rw [bind_ok _ _ _ _ _ (asUsizeOrFail_ok dst _ s2 (by omega))]
              by_cases hsr : U64 ≤ src
              · rw [bind_halt _ _ _ _ _ _ (asUsizeOrFail_fail src _ s2 hsr hsrc), if_pos (Or.inr hsr)]; rfl
              · rw [bind_ok _ _ _ _ _ (asUsizeOrFail_ok src _ s2 (by omega)), if_neg (by omega)]
                have hmx : max dst src < U64 := by omega
                unfold memAccess
                by_cases hc : s2.gas.remaining < touchCost (memOf s2) (max dst src) len
                · rw [bind_halt _ _ _ _ _ _ (resizeMem_fail s2 _ len h2 hmx (by omega) hc), if_pos hc]; rfl
                · rw [bind_ok _ _ _ _ _ (resizeMem_ok s2 _ len h2 hmx (by omega) hc), if_neg hc]
                  have h3 := h2.touch (max dst src) len hc
                  have hcov := touch_covers (memOf s2) (max dst src) len
                  have hm3 : memOf (setMem (charge s2 (touchCost (memOf s2) (max dst src) len))
                      (touch (memOf s2) (max dst src) len)) = touch (memOf s2) (max dst src) len :=
                    memOf_setMem h2.mem _
                  generalize setMem (charge s2 (touchCost (memOf s2) (max dst src) len))
                    (touch (memOf s2) (max dst src) len) = s3 at h3 hm3 ⊢
                  rw [memCopy_eq s3 dst src len h3.mem (by rw [hm3]; omega) (by rw [hm3]; omega)]
                  rfl
  · have hc : check GasCalc.SpecId.CANCUN s = .halt .NotActivated [] s := by simp [check, hen]
    rw [bind_halt _ _ _ _ _ _ hc]
    simp [hen, Exec.toDone]

theorem step_mcopy (s : IState) (hcode : s.code[s.pc]? = some 0x5e) (hwf : WFM s) :
    step s = .pure (mcopyRule s) := by
  unfold step
  rw [hcode]
  have hdec : decode 0x5e = .mcopy := rfl
  simp only [hdec, execInstr, execPure]
  show Outcome.pure (mcopyI (adv s)).toDone = _
  rw [mcopyI_eq (adv s) hwf.memOK.adv hwf.words]
  rfl

end Revm.Proofs.EvmStep2
