import Revm.Proofs.InterpCall
/-! Proofs for C25, part 7: re-entry of a child result and the loop, for any invariant `I` of instruction boundaries
that (R1) implies the basic invariant `Base`, (R2) only depends on the static part of the state, (R3) is kept by
`step`. Legacy code (`InterpRun.lean`) and EOF code (`InterpEof*.lean`) instantiate it. -/
set_option linter.unusedSimpArgs false
set_option linter.unusedVariables false
namespace Revm.Proofs.Interp
open Revm Revm.Model Revm.Model.Interp
open Revm.Proofs.Memory (WF)

/-- the part of the state that stack / memory / gas / return-data updates leave alone -/
structure SameStatic (s x : IState) : Prop where
  code : x.code = s.code
  origLen : x.origLen = s.origLen
  jt : x.jumpTable = s.jumpTable
  pc : x.pc = s.pc
  isEof : x.isEof = s.isEof
  isEofInit : x.isEofInit = s.isEofInit
  spec : x.spec = s.spec
  env : x.env = s.env
  eofc : x.eof = s.eof
  input : x.input = s.input

theorem SameStatic.ofEq {s x : IState} (h1 : x.code = s.code) (h2 : x.origLen = s.origLen)
    (h3 : x.jumpTable = s.jumpTable) (h4 : x.pc = s.pc) (h5 : x.isEof = s.isEof) (h6 : x.isEofInit = s.isEofInit)
    (h7 : x.spec = s.spec) (h8 : x.env = s.env) (h9 : x.eof = s.eof) (h10 : x.input = s.input) : SameStatic s x :=
  ⟨h1, h2, h3, h4, h5, h6, h7, h8, h9, h10⟩

theorem SameStatic.refl (s : IState) : SameStatic s s := ⟨rfl, rfl, rfl, rfl, rfl, rfl, rfl, rfl, rfl, rfl⟩

theorem SameStatic.trans {a b c : IState} (h1 : SameStatic a b) (h2 : SameStatic b c) : SameStatic a c :=
  ⟨h2.code.trans h1.code, h2.origLen.trans h1.origLen, h2.jt.trans h1.jt, h2.pc.trans h1.pc,
   h2.isEof.trans h1.isEof, h2.isEofInit.trans h1.isEofInit, h2.spec.trans h1.spec, h2.env.trans h1.env,
   h2.eofc.trans h1.eofc, h2.input.trans h1.input⟩

theorem Rel.sameStatic {k : Nat} {st ne : Bool} {L : Nat} {s s' : IState} (h : Rel k st ne L s s') :
    SameStatic s s' :=
  ⟨h.code, h.origLen, h.jt, h.pc, h.isEof, h.isEofInit, h.spec, h.env, h.eofc, h.input⟩

/-- the running relation of a state with itself, with the whole memory as lower bound -/
theorem Base.relL {s : IState} (h : Base s) (st : Bool) (hst : st = true → measure s < U64 - 1) :
    Rel 0 st false (clen s.mem) s s :=
  { code := rfl, origLen := rfl, jt := rfl, eofc := rfl, isEof := rfl, isEofInit := rfl, spec := rfl, env := rfl,
    input := rfl, ck := rfl, cks := rfl, stack := h.stack, memWF := h.memWF, memCk := h.memCk, memL := Nat.le_refl _,
    grow := Nat.le_refl _,
    rdLen := h.rdLen, inLen := h.inLen, m0 := h.meas, meas := Nat.le_of_eq (Nat.add_zero _),
    strict := hst, safe := h.safe, nonempty := fun e => (by cases e), pc := rfl }

theorem Base.ofRes {s s' : IState} {k : Nat} {st ne : Bool} {L : Nat} (hi : Base s) (hr : Res k st ne L s s') :
    Base s' :=
  { envOk := by rw [hr.spec, hr.env]; exact hi.envOk
    stack := hr.stack, memWF := hr.memWF, memCk := hr.memCk, rdLen := hr.rdLen, inLen := hr.inLen
    meas := by have := hr.meas; have := hr.m0; omega
    safe := hr.safe }

theorem Base.ofRel {s s' : IState} {k : Nat} {st ne : Bool} {L : Nat} (hi : Base s) (hr : Rel k st ne L s s') :
    Base s' := hi.ofRes hr.toRes

/-! ## re-entry of a child result -/

/-- what the frame machine hands back for an action: at most the gas it was given, never `FatalExternalError`
(the EVM loop leaves through `take_error()?` before `insert_*_outcome` in that case), output a Rust `Bytes` -/
structure ChildOk (a : Action) (c : ChildResult) : Prop where
  gas : c.gasRemaining ≤ a.gasLimit
  notFatal : c.result ≠ .FatalExternalError
  outLen : c.output.length ≤ Memory.ISIZE_MAX
  /-- an EOFCREATE child that ended in `ReturnContract` carries the created address (`expect("EOF Address")`) -/
  addr : ∀ i, a = .eofCreate i → c.result = .ReturnContract → c.address ≠ none

/-- the basic invariant, a bound on the measure, same static part as `s` -/
def Mid (B : Nat) (s x : IState) : Prop := Base x ∧ measure x ≤ B ∧ SameStatic s x

theorem sat_conv {α} {e : Exec α} {H H' : IState → Prop} {Q Q' : α → IState → Prop}
    (h : Exec.Sat e H Q) (hH : ∀ x, H x → H' x) (hQ : ∀ a x, Q a x → Q' a x) : Exec.Sat e H' Q' := by
  cases h with
  | ok h => exact .ok (hQ _ _ h)
  | halt h => exact .halt (hH _ h)

theorem modifyS_sat {H : IState → Prop} (f : IState → IState) (s : IState) :
    Exec.Sat (modifyS f s) H (fun _ x => x = f s) := .ok rfl

theorem mid_push {B : Nat} {s0 s : IState} (h : Mid B s0 s) (hB : B ≤ U64 - 2) (v : Nat) :
    Exec.Sat (push v s) (fun x => measure x ≤ B) (fun _ x => Mid B s0 x) := by
  have hU := U64_val
  have hst : measure s < U64 - 1 := by have := h.2.1; omega
  refine sat_conv (push_sat (h.1.relL true (fun _ => hst)) v) ?_ ?_
  · intro x hx; have := hx.meas; have := h.2.1; omega
  · intro _ x hx
    exact ⟨h.1.ofRel hx, by have := hx.meas; have := h.2.1; omega, h.2.2.trans hx.sameStatic⟩

theorem mid_memSet {B : Nat} {s0 s : IState} (h : Mid B s0 s) (off : Nat) (val : List Nat)
    (hin : val = [] ∨ off + val.length ≤ clen s.mem) :
    Exec.Sat (liftMemWrite (fun m => Memory.set m off val) s) (fun x => measure x ≤ B)
      (fun _ x => Mid B s0 x) := by
  refine sat_conv (memSet_sat (h.1.relL false (fun e => by cases e)) off val hin) ?_ ?_
  · intro x hx; have := hx.meas; have := h.2.1; omega
  · intro _ x hx
    exact ⟨h.1.ofRel hx, by have := hx.meas; have := h.2.1; omega, h.2.2.trans hx.sameStatic⟩

/-- giving gas back: `erase_cost(returned)` (+ `record_refund`) keeps the invariant while the total stays below
`u64::MAX` -/
theorem Base.gasBack {s : IState} (hi : Base s) (g' : Gas.Gas) (ret : Nat)
    (hg : g'.remaining = U64ops.wadd s.gas.remaining ret) (hm : measure s + ret ≤ U64 - 2) :
    Base { s with gas := g' } ∧ measure { s with gas := g' } = measure s + ret := by
  have hU := U64_val
  have hms : measure s = s.gas.remaining + mcost s := rfl
  have hmeq : measure { s with gas := g' } = g'.remaining + mcost s := rfl
  have hw : U64ops.wadd s.gas.remaining ret = s.gas.remaining + ret :=
    Proofs.Gas.wadd_of_lt _ _ (by omega)
  have hm' : measure { s with gas := g' } = measure s + ret := by rw [hmeq, hg, hw, hms]; omega
  refine ⟨?_, hm'⟩
  exact
    { envOk := hi.envOk, stack := hi.stack, memWF := hi.memWF,
      memCk := hi.memCk, rdLen := hi.rdLen, inLen := hi.inLen,
      meas := by rw [hm']; omega
      safe := Or.inl (by rw [hm']; omega) }

theorem Base.setReturnData {s : IState} (hi : Base s) (rd : List Nat) (h : rd.length ≤ Memory.ISIZE_MAX) :
    Base { s with returnData := rd } :=
  { envOk := hi.envOk, stack := hi.stack, memWF := hi.memWF,
    memCk := hi.memCk, rdLen := h, inLen := hi.inLen, meas := hi.meas, safe := hi.safe }

theorem insertCall_sat {s : IState} {B gl : Nat} (hi : Base s) (hB1 : measure s + gl ≤ B) (hB2 : B ≤ U64 - 2)
    (retStart retEnd : Nat) (c : ChildResult)
    (hret : retEnd - retStart = 0 ∨ (retStart ≤ retEnd ∧ retEnd ≤ clen s.mem))
    (hg : c.gasRemaining ≤ gl) (hnf : c.result ≠ .FatalExternalError)
    (hol : c.output.length ≤ Memory.ISIZE_MAX) :
    Exec.Sat (insertCallOutcome retStart retEnd c s) (fun x => measure x ≤ B) (fun _ x => Mid B s x) := by
  unfold insertCallOutcome
  refine sat_bind (modifyS_sat _ s) ?_
  rintro _ s1 rfl
  have hi1 := hi.setReturnData c.output hol
  have hm1 : measure { s with returnData := c.output } = measure s := rfl
  have hval : (c.output.take (min (retEnd - retStart) c.output.length)) = []
      ∨ retStart + (c.output.take (min (retEnd - retStart) c.output.length)).length ≤ clen s.mem := by
    rcases hret with h0 | ⟨h1, h2⟩
    · left; rw [h0]; simp
    · right; simp only [List.length_take]; omega
  refine sat_bind (m := getS) (Q := fun a x => { s with returnData := c.output } = a ∧ { s with returnData := c.output } = x) (.ok ⟨rfl, rfl⟩) ?_
  rintro _ _ ⟨rfl, rfl⟩
  dsimp only []
  by_cases hok : c.result.isOk = true
  · -- return_ok!
    rw [if_pos hok]
    refine sat_bind (modifyS_sat _ _) ?_
    rintro _ s2 rfl
    obtain ⟨hi2, hm2⟩ := hi1.gasBack
      (Gas.recordRefund (Gas.eraseCost s.gas c.gasRemaining) c.gasRefunded) c.gasRemaining rfl
      (by rw [hm1]; omega)
    have hmid : Mid B s _ := ⟨hi2, by rw [hm2, hm1]; omega, SameStatic.ofEq rfl rfl rfl rfl rfl rfl rfl rfl rfl rfl⟩
    refine sat_bind (mid_memSet hmid retStart _ hval) ?_
    intro _ s3 h3
    exact mid_push h3 hB2 _
  · rw [if_neg hok]
    by_cases hrev : c.result.isRevert = true
    · -- return_revert!
      rw [if_pos hrev]
      refine sat_bind (modifyS_sat _ _) ?_
      rintro _ s2 rfl
      obtain ⟨hi2, hm2⟩ := hi1.gasBack (Gas.eraseCost s.gas c.gasRemaining) c.gasRemaining rfl
        (by rw [hm1]; omega)
      have hmid : Mid B s _ := ⟨hi2, by rw [hm2, hm1]; omega, SameStatic.ofEq rfl rfl rfl rfl rfl rfl rfl rfl rfl rfl⟩
      refine sat_bind (mid_memSet hmid retStart _ hval) ?_
      intro _ s3 h3
      exact mid_push h3 hB2 _
    · rw [if_neg hrev, if_neg hnf]
      exact mid_push (s0 := s) ⟨hi1, by rw [hm1]; omega, SameStatic.ofEq rfl rfl rfl rfl rfl rfl rfl rfl rfl rfl⟩ hB2 _

theorem insertCreate_sat {s : IState} {B gl : Nat} (hi : Base s) (hB1 : measure s + gl ≤ B) (hB2 : B ≤ U64 - 2)
    (c : ChildResult) (hg : c.gasRemaining ≤ gl) (hnf : c.result ≠ .FatalExternalError)
    (hol : c.output.length ≤ Memory.ISIZE_MAX) :
    Exec.Sat (insertCreateOutcome c s) (fun x => measure x ≤ B) (fun _ x => Mid B s x) := by
  unfold insertCreateOutcome
  refine sat_bind (modifyS_sat _ s) ?_
  rintro _ s1 rfl
  have hi1 : Base { s with returnData := if c.result.isRevert = true then c.output else [] } :=
    hi.setReturnData _ (by split <;> simp [hol])
  have hm1 : measure { s with returnData := if c.result.isRevert = true then c.output else [] } = measure s := rfl
  have hmid1 : Mid (B - gl) s { s with returnData := if c.result.isRevert = true then c.output else [] } :=
    ⟨hi1, by rw [hm1]; omega, SameStatic.ofEq rfl rfl rfl rfl rfl rfl rfl rfl rfl rfl⟩
  by_cases hok : c.result.isOk = true
  · rw [if_pos hok]
    refine sat_bind (sat_conv (mid_push hmid1 (by omega) _) (fun x hx => by omega) (fun _ _ hq => hq)) ?_
    intro _ s2 h2
    refine sat_conv (modifyS_sat (H := fun x => measure x ≤ B) _ s2) (fun _ hx => hx) ?_
    rintro _ s3 rfl
    obtain ⟨hi3, hm3⟩ := h2.1.gasBack
      (Gas.recordRefund (Gas.eraseCost s2.gas c.gasRemaining) c.gasRefunded) c.gasRemaining rfl
      (by have := h2.2.1; omega)
    exact ⟨hi3, by rw [hm3]; have := h2.2.1; omega, h2.2.2.trans (SameStatic.ofEq rfl rfl rfl rfl rfl rfl rfl rfl rfl rfl)⟩
  · rw [if_neg hok]
    by_cases hrev : c.result.isRevert = true
    · rw [if_pos hrev]
      refine sat_bind (sat_conv (mid_push hmid1 (by omega) _) (fun x hx => by omega) (fun _ _ hq => hq)) ?_
      intro _ s2 h2
      refine sat_conv (modifyS_sat (H := fun x => measure x ≤ B) _ s2) (fun _ hx => hx) ?_
      rintro _ s3 rfl
      obtain ⟨hi3, hm3⟩ := h2.1.gasBack (Gas.eraseCost s2.gas c.gasRemaining) c.gasRemaining rfl
        (by have := h2.2.1; omega)
      exact ⟨hi3, by rw [hm3]; have := h2.2.1; omega, h2.2.2.trans (SameStatic.ofEq rfl rfl rfl rfl rfl rfl rfl rfl rfl rfl)⟩
    · rw [if_neg hrev, if_neg hnf]
      exact sat_conv (mid_push hmid1 (by omega) _) (fun x hx => by omega)
        (fun _ x hq => ⟨hq.1, by have := hq.2.1; omega, hq.2.2⟩)

theorem insertEofCreate_sat {s : IState} {B gl : Nat} (hi : Base s) (hB1 : measure s + gl ≤ B) (hB2 : B ≤ U64 - 2)
    (c : ChildResult) (hg : c.gasRemaining ≤ gl) (hnf : c.result ≠ .FatalExternalError)
    (hol : c.output.length ≤ Memory.ISIZE_MAX) (haddr : c.result = .ReturnContract → c.address ≠ none) :
    Exec.Sat (insertEofCreateOutcome c s) (fun x => measure x ≤ B) (fun _ x => Mid B s x) := by
  unfold insertEofCreateOutcome
  refine sat_bind (modifyS_sat _ s) ?_
  rintro _ s1 rfl
  have hi1 : Base { s with returnData := if c.result = .Revert then c.output else [] } :=
    hi.setReturnData _ (by split <;> simp [hol])
  have hm1 : measure { s with returnData := if c.result = .Revert then c.output else [] } = measure s := rfl
  have hmid1 : Mid (B - gl) s { s with returnData := if c.result = .Revert then c.output else [] } :=
    ⟨hi1, by rw [hm1]; omega, SameStatic.ofEq rfl rfl rfl rfl rfl rfl rfl rfl rfl rfl⟩
  by_cases hok : c.result = .ReturnContract
  · rw [if_pos hok]
    cases ha : c.address with
    | none => exact absurd ha (haddr hok)
    | some a =>
      simp only []
      refine sat_bind (sat_conv (mid_push hmid1 (by omega) _) (fun x hx => by omega) (fun _ _ hq => hq)) ?_
      intro _ s2 h2
      refine sat_conv (modifyS_sat (H := fun x => measure x ≤ B) _ s2) (fun _ hx => hx) ?_
      rintro _ s3 rfl
      obtain ⟨hi3, hm3⟩ := h2.1.gasBack
        (Gas.recordRefund (Gas.eraseCost s2.gas c.gasRemaining) c.gasRefunded) c.gasRemaining rfl
        (by have := h2.2.1; omega)
      exact ⟨hi3, by rw [hm3]; have := h2.2.1; omega, h2.2.2.trans (SameStatic.ofEq rfl rfl rfl rfl rfl rfl rfl rfl rfl rfl)⟩
  · rw [if_neg hok]
    by_cases hrev : c.result.isRevert = true
    · rw [if_pos hrev]
      refine sat_bind (sat_conv (mid_push hmid1 (by omega) _) (fun x hx => by omega) (fun _ _ hq => hq)) ?_
      intro _ s2 h2
      refine sat_conv (modifyS_sat (H := fun x => measure x ≤ B) _ s2) (fun _ hx => hx) ?_
      rintro _ s3 rfl
      obtain ⟨hi3, hm3⟩ := h2.1.gasBack (Gas.eraseCost s2.gas c.gasRemaining) c.gasRemaining rfl
        (by have := h2.2.1; omega)
      exact ⟨hi3, by rw [hm3]; have := h2.2.1; omega, h2.2.2.trans (SameStatic.ofEq rfl rfl rfl rfl rfl rfl rfl rfl rfl rfl)⟩
    · rw [if_neg hrev, if_neg hnf]
      exact sat_conv (mid_push hmid1 (by omega) _) (fun x hx => by omega)
        (fun _ x hq => ⟨hq.1, by have := hq.2.1; omega, hq.2.2⟩)

theorem insertOutcome_sat {s : IState} {B : Nat} (a : Action) (c : ChildResult) (hi : Base s)
    (hB1 : measure s + a.gasLimit ≤ B) (hB2 : B ≤ U64 - 2) (hret : RetOk a (clen s.mem)) (hc : ChildOk a c) :
    Exec.Sat (insertOutcome a c s) (fun x => measure x ≤ B) (fun _ x => Mid B s x) := by
  cases a with
  | call i => exact insertCall_sat hi hB1 hB2 i.retStart i.retEnd c hret hc.gas hc.notFatal hc.outLen
  | create i => exact insertCreate_sat hi hB1 hB2 c hc.gas hc.notFatal hc.outLen
  | eofCreate i => exact insertEofCreate_sat hi hB1 hB2 c hc.gas hc.notFatal hc.outLen (hc.addr i rfl)

/-! ## the loop -/

/-- the oracle answers like Rust values and like a frame machine -/
structure OracleOk {η : Type} (o : Oracle η) : Prop where
  host : ∀ h op, RespOk (o.host h op).1
  child : ∀ h a, ChildOk a (o.child h a).1

/-- an invariant of instruction boundaries the generic loop theorems work with -/
structure LoopInv (I : IState → Prop) : Prop where
  /-- (R1) -/
  base : ∀ s, I s → Base s
  /-- (R2) -/
  transfer : ∀ s x, I s → SameStatic s x → Base x → I x

/-- the outcome of one resolved instruction, relative to the state before it -/
inductive StepOkP (I : IState → Prop) (s : IState) : Done → Prop
  | next {s' : IState} (hi : I s') (hm : measure s' + 1 ≤ measure s) : StepOkP I s (.next s')
  | action {a : Action} {s' : IState} (hi : I s') (hm : measure s' + a.gasLimit + 1 ≤ measure s)
      (hr : RetOk a (clen s'.mem)) : StepOkP I s (.action a s')
  | halt {r : IResult} {o : List Nat} {s' : IState} (hm : measure s' ≤ measure s) : StepOkP I s (.halt r o s')

inductive StepGoodP (I : IState → Prop) (s : IState) : Outcome → Prop
  | pure {d : Done} (h : StepOkP I s d) : StepGoodP I s (.pure d)
  | host {op : HostOp} {k : HostResp → Done} (h : ∀ r, RespOk r → StepOkP I s (k r)) : StepGoodP I s (.host op k)

/-- (R3) -/
def StepInv (I : IState → Prop) : Prop := ∀ s, I s → StepGoodP I s (step s)

/-- what `run` may return: a defined result within the gas of the frame; never a fault; "out of fuel" only when
the fuel was at most the measure -/
def RunSafe (fuel : Nat) (s : IState) : RunResult → Prop
  | .done _ _ s' => measure s' ≤ measure s
  | .fault _ => False
  | .outOfFuel => fuel ≤ measure s

theorem RunSafe.mono {n : Nat} {s s' : IState} {r : RunResult} (h : RunSafe n s' r)
    (hm : measure s' + 1 ≤ measure s) : RunSafe (n + 1) s r := by
  cases r with
  | done r o s'' => show measure s'' ≤ measure s; have : measure s'' ≤ measure s' := h; omega
  | fault f => exact h
  | outOfFuel => show n + 1 ≤ measure s; have : n ≤ measure s' := h; omega

section loop
variable {I : IState → Prop} (hI : LoopInv I)
include hI

/-- re-entry keeps the invariant -/
theorem insert_inv {s : IState} {B : Nat} (a : Action) (c : ChildResult) (hi : I s)
    (hB1 : measure s + a.gasLimit ≤ B) (hB2 : B ≤ U64 - 2) (hret : RetOk a (clen s.mem)) (hc : ChildOk a c) :
    Exec.Sat (insertOutcome a c s) (fun x => measure x ≤ B) (fun _ x => I x ∧ measure x ≤ B) :=
  sat_conv (insertOutcome_sat a c (hI.base s hi) hB1 hB2 hret hc) (fun _ hx => hx)
    (fun _ x hx => ⟨hI.transfer s x hi hx.2.2 hx.1, hx.2.1⟩)

theorem continueWith_safe {η : Type} (o : Oracle η) (ho : OracleOk o) (n : Nat) (s : IState) (d : Done) (h : η)
    (hd : StepOkP I s d) (hs : measure s ≤ U64 - 1)
    (ih : ∀ (s' : IState) (h' : η), I s' → RunSafe n s' (run o n s' h').1) :
    RunSafe (n + 1) s (continueWith o (run o n) d h).1 := by
  cases hd with
  | next hi hm => exact (ih _ h hi).mono hm
  | @action a s' hi hm hr =>
    have hc := ho.child h a
    have hins := insert_inv hI (B := measure s - 1) a (o.child h a).1 hi (by omega) (by omega) hr hc
    show RunSafe (n + 1) s (match insertOutcome a (o.child h a).1 s' with
      | .ok _ s'' => run o n s'' (o.child h a).2
      | .halt r out s'' => (RunResult.done r out s'', (o.child h a).2)
      | .fault f => (RunResult.fault f, (o.child h a).2)).1
    cases hx : insertOutcome a (o.child h a).1 s' with
    | ok u s'' =>
      rw [hx] at hins
      have hmid := sat_ok_inv hins
      exact (ih s'' (o.child h a).2 hmid.1).mono (by have := hmid.2; omega)
    | halt r out s'' =>
      rw [hx] at hins
      have := sat_halt_inv hins
      show measure s'' ≤ measure s
      omega
    | fault f => rw [hx] at hins; exact (sat_fault_inv hins).elim
  | halt hm => exact hm

/-- the loop never returns a fault, its result is within the gas of the frame, and it runs out of fuel only if the
fuel was at most `gas remaining + memory cost paid` -/
theorem run_safeP (hstep : StepInv I) {η : Type} (o : Oracle η) (ho : OracleOk o) :
    ∀ (fuel : Nat) (s : IState) (h : η), I s → RunSafe fuel s (run o fuel s h).1 := by
  intro fuel
  induction fuel with
  | zero => intro s h _; exact Nat.zero_le _
  | succ n ih =>
    intro s h hi
    have hg := hstep s hi
    show RunSafe (n + 1) s (match step s with
      | .pure d => continueWith o (run o n) d h
      | .host op k => continueWith o (run o n) (k (o.host h op).1) (o.host h op).2).1
    generalize step s = st at hg
    cases hg with
    | pure hd => exact continueWith_safe hI o ho n s _ h hd (hI.base s hi).meas ih
    | host hk => exact continueWith_safe hI o ho n s _ _ (hk _ (ho.host h _)) (hI.base s hi).meas ih

end loop

/-! ## reachable states -/

/-- the instruction resolved against the oracle -/
def resolve {η : Type} (o : Oracle η) (out : Outcome) (h : η) : Done × η :=
  match out with
  | .pure d => (d, h)
  | .host op k => (k (o.host h op).1, (o.host h op).2)

/-- the states `run` passes through between instructions -/
inductive Reach {η : Type} (o : Oracle η) (s0 : IState) (h0 : η) : IState → η → Prop
  | start : Reach o s0 h0 s0 h0
  | next {s h s' h'} : Reach o s0 h0 s h → resolve o (step s) h = (.next s', h') → Reach o s0 h0 s' h'
  | reenter {s h a s' h' s''} : Reach o s0 h0 s h → resolve o (step s) h = (.action a s', h') →
      insertOutcome a (o.child h' a).1 s' = .ok () s'' → Reach o s0 h0 s'' (o.child h' a).2

theorem resolve_okP {I : IState → Prop} (hstep : StepInv I) {η : Type} (o : Oracle η) (ho : OracleOk o)
    {s : IState} (hi : I s) (h : η) : StepOkP I s (resolve o (step s) h).1 := by
  have hg := hstep s hi
  unfold resolve
  generalize step s = st at hg
  cases hg with
  | pure hd => exact hd
  | host hk => exact hk _ (ho.host h _)

/-- the invariant holds in every reachable state, and the measure never exceeds its initial value -/
theorem reach_invP {I : IState → Prop} (hI : LoopInv I) (hstep : StepInv I) {η : Type} (o : Oracle η)
    (ho : OracleOk o) {s0 : IState} {h0 : η} (hi0 : I s0) {s : IState} {h : η} (hr : Reach o s0 h0 s h) :
    I s ∧ measure s ≤ measure s0 := by
  induction hr with
  | start => exact ⟨hi0, Nat.le_refl _⟩
  | @next s h s' h' _ hres ih =>
    have hok := resolve_okP hstep o ho ih.1 h
    rw [hres] at hok
    cases hok with
    | next hi hm => exact ⟨hi, by have := ih.2; omega⟩
  | @reenter s h a s' h' s'' _ hres hins ih =>
    have hok := resolve_okP hstep o ho ih.1 h
    rw [hres] at hok
    cases hok with
    | action hi hm hr =>
      have hsat := insert_inv hI (B := measure s - 1) a (o.child h' a).1 hi (by omega)
        (by have := (hI.base s ih.1).meas; omega) hr (ho.child h' a)
      rw [hins] at hsat
      have hmid := sat_ok_inv hsat
      exact ⟨hmid.1, by have := hmid.2; have := ih.2; omega⟩

end Revm.Proofs.Interp
