import Revm.Proofs.EvmInstWrapMachine
import Revm.Proofs.EvmLinkDepth2
/-! Instantiating C28 with the whole-EVM model, part 4b: facts about the CONCRETE frame functions needed by the
simulation.

* `makeCallFrame` / `makeCreateFrame` depend on the shared memory they are given only through the `mem` field of the new
  interpreter (`Interpreter::new` does not look at it): the abstract machine makes the frame over `SharedMemory::new()`
  and is handed the real memory at `run`;
* `Interp.insertCreateOutcome` neither reads nor writes the memory;
* an outcome insertion halts only through a failed `push!`: empty output, result `StackOverflow` (never `Continue`);
* `InstrNC`: no instruction halts with `instruction_result = Continue` (stated here, proved in `EvmInstWrapNoCont*`). -/
namespace Revm.Proofs.EvmInstWrap
open Revm Revm.Model Revm.Model.Evm
open Revm.Model.Interp (M Exec IState IResult)
open Revm.Proofs.EvmLink (callTail callPrecompile makeCallFrameS makeCallFrame_staged callValueStep createTail
  makeCreateFrameS makeCreateFrame_staged)

variable {κ : Type}

/-! ## frame creation does not look at the shared memory -/



def frFix (k : FrameKind) (m : Memory.SharedMemory) : FrameOrResult κ → FrameOrResult κ
  | .frame f => .frame { f with kind := k, interp := { f.interp with mem := m } }
  | .result r => .result r

def fixP (k : FrameKind) (m : Memory.SharedMemory) (p : FrameOrResult κ × World) : FrameOrResult κ × World :=
  (frFix k m p.1, p.2)

theorem callTail_mem (C : CpOps κ) (cfg : Cfg) (w : World) (cp : κ) (i : Interp.CallInputs)
    (mem mem' : Memory.SharedMemory) :
    callTail C cfg w cp i mem' =
      (callTail C cfg w cp i mem).map (fixP (.call i.retStart i.retEnd) (Memory.newContext mem')) := by
  unfold callTail
  simp only [bind, Except.bind, pure, Except.pure]
  cases w.loadCode i.bytecodeAddress with
  | error e => rfl
  | ok p =>
    obtain ⟨w1, c⟩ := p
    simp only []
    cases w1.acct i.bytecodeAddress with
    | error e => rfl
    | ok acc =>
      simp only []
      cases ofOpt "code not cached" acc.info.code with
      | error e => rfl
      | ok h =>
        simp only []
        cases ofOpt "code_by_hash" (w1.codeOf h) with
        | error e => rfl
        | ok bytecode =>
          simp only []
          by_cases hb : bytecode.isEmpty = true
          · simp only [hb, if_true]; rfl
          · simp only [hb, if_false, Bool.false_eq_true]
            cases delegateOf bytecode with
            | none => rfl
            | some d =>
              simp only []
              cases w1.loadCode d with
              | error e => rfl
              | ok v =>
                simp only []
                cases v.fst.acct d with
                | error e => rfl
                | ok dacc =>
                  simp only []
                  cases ofOpt "code not cached" dacc.info.code with
                  | error e => rfl
                  | ok dh =>
                    simp only []
                    cases ofOpt "code_by_hash" (v.fst.codeOf dh) with
                    | error e => rfl
                    | ok dcode => rfl

theorem callPrecompile_mem (C : CpOps κ) (cfg : Cfg) (w : World) (cp : κ) (i : Interp.CallInputs)
    (mem mem' : Memory.SharedMemory) :
    callPrecompile C cfg w cp i mem' =
      (callPrecompile C cfg w cp i mem).map (fixP (.call i.retStart i.retEnd) (Memory.newContext mem')) := by
  unfold callPrecompile
  simp only [bind, Except.bind, pure, Except.pure]
  cases runPrecompile w cfg.spec i.bytecodeAddress i.input i.gasLimit with
  | error e => rfl
  | ok pc =>
    simp only []
    cases pc with
    | none => exact callTail_mem C cfg w cp i mem mem'
    | some res =>
      simp only []
      cases res with
      | ok gasUsed out =>
        simp only []
        by_cases hg : gasUsed ≤ i.gasLimit
        · simp only [hg, if_true]; rfl
        · simp only [hg, if_false]
          cases C.revert w cp with
          | error e => rfl
          | ok w1 => rfl
      | err e =>
        simp only []
        cases C.revert w cp with
        | error e => rfl
        | ok w1 => rfl
      | panic => rfl

theorem makeCallFrame_mem (C : CpOps κ) (cfg : Cfg) (w : World) (i : Interp.CallInputs)
    (mem mem' : Memory.SharedMemory) :
    makeCallFrame C cfg w i mem' =
      (makeCallFrame C cfg w i mem).map (fixP (.call i.retStart i.retEnd) (Memory.newContext mem')) := by
  rw [makeCallFrame_staged, makeCallFrame_staged]
  unfold makeCallFrameS
  simp only [bind, Except.bind, pure, Except.pure]
  by_cases hd : w.js.depth > CALL_STACK_LIMIT
  · simp only [hd, if_true]; rfl
  · simp only [hd, if_false]
    cases w.loadAccountDelegated i.bytecodeAddress with
    | error e => rfl
    | ok p =>
      simp only []
      cases callValueStep (C.checkpoint p.fst).fst i with
      | error e => rfl
      | ok q =>
        obtain ⟨w2, failed⟩ := q
        simp only []
        cases failed with
        | some r =>
          simp only []
          cases C.revert w2 (C.checkpoint p.fst).snd with
          | error e => rfl
          | ok w3 => rfl
        | none => exact callPrecompile_mem C cfg w2 _ i mem mem'



theorem createTail_mem (C : CpOps κ) (cfg : Cfg) (w : World) (i : Interp.CreateInputs)
    (mem mem' : Memory.SharedMemory) (created : Nat) :
    createTail C cfg w i mem' created =
      (createTail C cfg w i mem created).map (fixP (.create created) (Memory.newContext mem')) := by
  unfold createTail
  simp only [bind, Except.bind, pure, Except.pure]
  by_cases hp : isPrecompile cfg.spec created = true
  · simp only [hp, if_true]; rfl
  · simp only [hp, if_false, Bool.false_eq_true]
    cases w.loadAccount created with
    | error e => rfl
    | ok p =>
      simp only []
      cases C.createCheckpoint p.fst i.caller created (p.fst.hasStorage created) i.value cfg.spec with
      | error e => rfl
      | ok q =>
        obtain ⟨w2, r⟩ := q
        simp only []
        cases r with
        | error ce => cases ce <;> rfl
        | ok cp => rfl

theorem makeCreateFrame_mem (C : CpOps κ) (cfg : Cfg) (w : World) (i : Interp.CreateInputs) :
    ∃ a, ∀ mem mem' : Memory.SharedMemory,
    makeCreateFrame C cfg w i mem' =
      (makeCreateFrame C cfg w i mem).map (fixP (.create a) (Memory.newContext mem')) := by
  simp only [makeCreateFrame_staged]
  unfold makeCreateFrameS
  simp only [bind, Except.bind, pure, Except.pure]
  by_cases hd : w.js.depth > CALL_STACK_LIMIT
  · simp only [hd, if_true]; exact ⟨0, fun _ _ => rfl⟩
  · simp only [hd, if_false]
    cases w.loadAccount i.caller with
    | error e => exact ⟨0, fun _ _ => rfl⟩
    | ok p =>
      simp only []
      cases p.fst.acct i.caller with
      | error e => exact ⟨0, fun _ _ => rfl⟩
      | ok cacc =>
        simp only []
        by_cases hb : cacc.info.balance < i.value
        · simp only [hb, if_true]; exact ⟨0, fun _ _ => rfl⟩
        · simp only [hb, if_false]
          cases ofOpt "inc_nonce" (Journal.incNonce p.fst.js i.caller) with
          | error e => exact ⟨0, fun _ _ => rfl⟩
          | ok q =>
            obtain ⟨js, nn⟩ := q
            simp only []
            cases nn with
            | none => exact ⟨0, fun _ _ => rfl⟩
            | some newNonce =>
              simp only []
              exact ⟨_, fun mem mem' => createTail_mem C cfg _ i mem mem' _⟩

/-! ## the halts of an outcome insertion; `insert_create_outcome` and the memory -/


/-- a computation of the handler monad whose every halt satisfies `P result output` -/
inductive HaltP (P : IResult → List Nat → Prop) {α : Type} : Exec α → Prop
  | ok (a : α) (s : IState) : HaltP P (.ok a s)
  | halt {r : IResult} {o : List Nat} (h : P r o) (s : IState) : HaltP P (.halt r o s)
  | fault (f : Interp.Fault) : HaltP P (.fault f)

variable {P : IResult → List Nat → Prop} {α β : Type}

theorem haltP_bind {m : M α} {f : α → M β} {s : IState} (h1 : HaltP P (m s)) (h2 : ∀ a s', HaltP P (f a s')) :
    HaltP P ((m >>= f) s) := by
  show HaltP P (Interp.M.bind m f s)
  unfold Interp.M.bind
  generalize m s = e at h1
  cases h1 with
  | ok a s' => exact h2 a s'
  | halt h s' => exact .halt h s'
  | fault f => exact .fault f

theorem haltP_pure (a : α) (s : IState) : HaltP P ((pure a : M α) s) := .ok a s
theorem haltP_modifyS (f : IState → IState) (s : IState) : HaltP P (Interp.modifyS f s) := .ok () _
theorem haltP_getS (s : IState) : HaltP P (Interp.getS s) := .ok _ _
theorem haltP_faultWith (f : Interp.Fault) (s : IState) : HaltP P ((Interp.faultWith f : M α) s) := .fault f
theorem haltP_haltWith (r : IResult) (s : IState) (h : P r []) : HaltP P ((Interp.haltWith r : M α) s) := .halt h s

theorem haltP_memRes {γ : Type} (r : Memory.Res γ) (k : γ → Exec β) (h : ∀ a, HaltP P (k a)) :
    HaltP P (Interp.memRes r k) := by
  cases r with
  | ok a => exact h a
  | panic => exact .fault _
  | ub => exact .fault _

theorem haltP_liftMemWrite (f : Memory.SharedMemory → Memory.Res Memory.SharedMemory) (s : IState) :
    HaltP P (Interp.liftMemWrite f s) := by
  unfold Interp.liftMemWrite
  exact haltP_memRes _ _ (fun m => .ok () _)

theorem haltP_push (v : Nat) (s : IState) (h : ∀ e, P (Interp.stackErr e) []) : HaltP P (Interp.push v s) := by
  unfold Interp.push
  generalize Stack.push s.stack v = p
  obtain ⟨d, r⟩ := p
  cases r with
  | ok u => exact .ok () _
  | err e => exact .halt (h e) s
  | panic => exact .fault _
  | ub => exact .fault _

/-- the halts of an outcome insertion: a failed `push!` -/
def InsP (r : IResult) (o : List Nat) : Prop := o = [] ∧ r ≠ .Continue

theorem insP_stackErr (e : Stack.Err) : InsP (Interp.stackErr e) [] := by
  cases e <;> exact ⟨rfl, by decide⟩

theorem insertCall_haltP (rs re : Nat) (o : Interp.ChildResult) (s : IState) :
    HaltP InsP (Interp.insertCallOutcome rs re o s) := by
  unfold Interp.insertCallOutcome
  refine haltP_bind (haltP_modifyS _ _) (fun _ s1 => ?_)
  refine haltP_bind (haltP_getS _) (fun s2 s3 => ?_)
  split
  · refine haltP_bind (haltP_modifyS _ _) (fun _ s4 => ?_)
    refine haltP_bind (haltP_liftMemWrite _ _) (fun _ s5 => ?_)
    exact haltP_push _ _ insP_stackErr
  · split
    · refine haltP_bind (haltP_modifyS _ _) (fun _ s4 => ?_)
      refine haltP_bind (haltP_liftMemWrite _ _) (fun _ s5 => ?_)
      exact haltP_push _ _ insP_stackErr
    · split
      · exact haltP_faultWith _ _
      · exact haltP_push _ _ insP_stackErr

theorem insertCreate_haltP (o : Interp.ChildResult) (s : IState) :
    HaltP InsP (Interp.insertCreateOutcome o s) := by
  unfold Interp.insertCreateOutcome
  refine haltP_bind (haltP_modifyS _ _) (fun _ s1 => ?_)
  split
  · refine haltP_bind (haltP_push _ _ insP_stackErr) (fun _ s4 => ?_)
    exact haltP_modifyS _ _
  · split
    · refine haltP_bind (haltP_push _ _ insP_stackErr) (fun _ s4 => ?_)
      exact haltP_modifyS _ _
    · split
      · exact haltP_faultWith _ _
      · exact haltP_push _ _ insP_stackErr

theorem insertBy_halt {kind : FrameKind} {o : Interp.ChildResult} {s0 s : IState} {r : IResult} {out : List Nat}
    (h : insertBy kind o s0 = .halt r out s) : out = [] ∧ r ≠ .Continue := by
  have hp : HaltP InsP (insertBy kind o s0) := by
    unfold insertBy
    cases kind with
    | call rs re => exact insertCall_haltP rs re o s0
    | create a => exact insertCreate_haltP o s0
  rw [h] at hp
  cases hp with
  | halt h _ => exact h

/-! mem parametricity of insert_create_outcome -/
def withMem (X : Memory.SharedMemory) : Exec Unit → Exec Unit
  | .ok u s => .ok u { s with mem := X }
  | .halt r o s => .halt r o { s with mem := X }
  | .fault f => .fault f

theorem insertCreate_mem (o : Interp.ChildResult) (s0 : IState) (X : Memory.SharedMemory) :
    Interp.insertCreateOutcome o { s0 with mem := X } = withMem X (Interp.insertCreateOutcome o s0) := by
  unfold Interp.insertCreateOutcome
  by_cases hok : o.result.isOk = true
  · simp only [hok, if_true]
    show Interp.M.bind _ _ _ = withMem X (Interp.M.bind _ _ _)
    unfold Interp.M.bind
    simp only [Interp.modifyS]
    show Interp.M.bind _ _ _ = withMem X (Interp.M.bind _ _ _)
    unfold Interp.M.bind Interp.push
    simp only []
    generalize Stack.push s0.stack (o.address.getD 0) = p
    obtain ⟨d, r⟩ := p
    cases r <;> rfl
  · simp only [hok, if_false, Bool.false_eq_true]
    by_cases hrev : o.result.isRevert = true
    · simp only [hrev, if_true]
      show Interp.M.bind _ _ _ = withMem X (Interp.M.bind _ _ _)
      unfold Interp.M.bind
      simp only [Interp.modifyS]
      show Interp.M.bind _ _ _ = withMem X (Interp.M.bind _ _ _)
      unfold Interp.M.bind Interp.push
      simp only []
      generalize Stack.push s0.stack 0 = p
      obtain ⟨d, r⟩ := p
      cases r <;> rfl
    · simp only [hrev, if_false, Bool.false_eq_true]
      show Interp.M.bind _ _ _ = withMem X (Interp.M.bind _ _ _)
      unfold Interp.M.bind
      simp only [Interp.modifyS]
      by_cases hf : o.result = .FatalExternalError
      · simp only [hf, if_true]; rfl
      · simp only [hf, if_false]
        unfold Interp.push
        simp only []
        generalize Stack.push s0.stack 0 = p
        obtain ⟨d, r⟩ := p
        cases r <;> rfl


/-! ## corollaries in the form the simulation uses -/

theorem frFix_frFix (k : FrameKind) (m m' : Memory.SharedMemory) (fr : FrameOrResult κ) :
    frFix k m' (frFix k m fr) = frFix k m' fr := by
  cases fr <;> rfl

/-- a completed `make_call_frame` on `mem`: the same on `SharedMemory::new()`, and the shape of a new frame -/
theorem makeCallFrame_ok {C : CpOps κ} {cfg : Cfg} {w w' : World} {i : Interp.CallInputs} {mem : Memory.SharedMemory}
    {fr : FrameOrResult κ} (h : makeCallFrame C cfg w i mem = .ok (fr, w')) :
    makeCallFrame C cfg w i Memory.new =
        .ok (frFix (.call i.retStart i.retEnd) (Memory.newContext Memory.new) fr, w') ∧
      frFix (.call i.retStart i.retEnd) (Memory.newContext mem) fr = fr := by
  have h1 := makeCallFrame_mem C cfg w i mem Memory.new
  have h2 := makeCallFrame_mem C cfg w i mem mem
  rw [h] at h1 h2
  refine ⟨h1, ?_⟩
  simp only [Except.map, fixP, Except.ok.injEq, Prod.mk.injEq] at h2
  exact h2.1.symm

theorem makeCreateFrame_ok {C : CpOps κ} {cfg : Cfg} {w w' : World} {i : Interp.CreateInputs}
    {mem : Memory.SharedMemory} {fr : FrameOrResult κ} (h : makeCreateFrame C cfg w i mem = .ok (fr, w')) :
    ∃ a, makeCreateFrame C cfg w i Memory.new = .ok (frFix (.create a) (Memory.newContext Memory.new) fr, w') ∧
      frFix (.create a) (Memory.newContext mem) fr = fr := by
  obtain ⟨a, ha⟩ := makeCreateFrame_mem C cfg w i
  have h1 := ha mem Memory.new
  have h2 := ha mem mem
  rw [h] at h1 h2
  refine ⟨a, h1, ?_⟩
  simp only [Except.map, fixP, Except.ok.injEq, Prod.mk.injEq] at h2
  exact h2.1.symm

/-- `insert_call_outcome` does not read the address of the outcome -/
theorem insertCall_congr (rs re : Nat) {o o' : Interp.ChildResult} (h1 : o'.result = o.result)
    (h2 : o'.output = o.output) (h3 : o'.gasRemaining = o.gasRemaining) (h4 : o'.gasRefunded = o.gasRefunded) :
    Interp.insertCallOutcome rs re o' = Interp.insertCallOutcome rs re o := by
  obtain ⟨r, out, g, rf, a⟩ := o
  obtain ⟨r', out', g', rf', a'⟩ := o'
  simp only at h1 h2 h3 h4
  subst h1; subst h2; subst h3; subst h4
  rfl

theorem insertCall_childOf (rs re l : Nat) (res : Interp.ChildResult) (a : Option Nat) :
    Interp.insertCallOutcome rs re (childOf (resOfChild l res) a) = Interp.insertCallOutcome rs re res :=
  insertCall_congr rs re (ofIR_toIR _) rfl rfl rfl

/-! ## no instruction halts with `Continue` -/

inductive DoneNC : Interp.Done → Prop
  | next (s : IState) : DoneNC (.next s)
  | action (a : Interp.Action) (s : IState) : DoneNC (.action a s)
  | halt {r : IResult} (h : r ≠ .Continue) (out : List Nat) (s : IState) : DoneNC (.halt r out s)
  | fault (f : Interp.Fault) : DoneNC (.fault f)

inductive OutcomeNC : Interp.Outcome → Prop
  | pure {d : Interp.Done} (h : DoneNC d) : OutcomeNC (.pure d)
  | host (op : Interp.HostOp) {k : Interp.HostResp → Interp.Done} (h : ∀ resp, DoneNC (k resp)) : OutcomeNC (.host op k)

/-- no handler of the instruction table sets `instruction_result = Continue` when it stops the frame (the Rust handlers
only ever assign the other variants; `Continue` is the value the `while` loop of `run` tests for) -/
def InstrNC : Prop := ∀ (i : Interp.Instr) (s : IState), OutcomeNC (Interp.execInstr i s)

end Revm.Proofs.EvmInstWrap
