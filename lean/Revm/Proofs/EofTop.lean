import Revm.Proofs.EofSubs
/-! The container level of `EofFlow` / `EofSubs`: every code section of a container accepted by `validate_eof_codes`
has the flow properties, the first section is non-returning, every EOFCREATE names a sub-container that is then
validated as an init container (so its data section is filled). Core Lean only. -/
namespace Revm.Proofs.EofValidate
open Revm.Model.Eof Revm.Model.EofValidate Revm.Spec.Eof Revm.Proofs.Eof

set_option linter.unusedSimpArgs false
set_option linter.unusedVariables false

/-- section `k` of `e`: `SectionFlow`, and its EOFCREATEs are recorded in the tracker `trF` -/
def SecFlow (e : Eof) (trF : Tracker) (k : Nat) : Prop :=
  ∀ code, e.body.codeSection[k]? = some code →
    (∃ tt, e.body.typesSection.toArray[k]? = some tt ∧
      SectionFlow code.toArray e.body.typesSection.toArray tt) ∧
    ∀ j, IsInstrStart code.toArray j → code.toArray[j]? = some EOFCREATE →
      ∃ i, code.toArray[j + 1]? = some i ∧ trF.subs[i]? = some (some .ReturnContract)

theorem SecFlow.mono {e : Eof} {a b : Tracker} {k : Nat} (h : Sticky a b) (hs : SecFlow e a k) : SecFlow e b k := by
  intro code hc
  obtain ⟨h1, h2⟩ := hs code hc
  refine ⟨h1, fun j hj hj' => ?_⟩
  obtain ⟨i, hi, hsub⟩ := h2 j hj hj'
  exact ⟨i, hi, h.subs _ _ hsub⟩

theorem codesLoop_flow (e : Eof) : ∀ (fuel : Nat) (tr tr' : Tracker),
    codesLoop e e.body.typesSection.toArray fuel tr = .ok tr' →
    (∀ k, tr.codes[k]? = some true → k ∈ tr.stack ∨ SecFlow e tr k) →
    (∀ k, tr'.codes[k]? = some true → SecFlow e tr' k) ∧ Sticky tr tr' := by
  intro fuel
  induction fuel with
  | zero =>
    intro tr tr' h inv
    unfold codesLoop at h
    split at h
    · rename_i hs
      cases h
      exact ⟨fun k hk => (inv k hk).resolve_left (by rw [hs]; simp), Sticky.refl _⟩
    · cases h
  | succ fuel ih =>
    intro tr tr' h inv
    unfold codesLoop at h
    split at h
    · rename_i hs
      cases h
      exact ⟨fun k hk => (inv k hk).resolve_left (by rw [hs]; simp), Sticky.refl _⟩
    · rename_i index rest hs
      dsimp only at h
      split at h
      · cases h
      rename_i code hcode
      rw [bind_eq_ok] at h
      obtain ⟨tr1, h1, h2⟩ := h
      have hflow := validateEofCode_flow h1
      obtain ⟨hst0, hsubs⟩ := validateEofCode_subs h1
      have hext := validateEofCode_ext h1
      have hst : Sticky tr tr1 := ⟨hst0.subs, hst0.thisType⟩
      have inv1 : ∀ k, tr1.codes[k]? = some true → k ∈ tr1.stack ∨ SecFlow e tr1 k := by
        intro k hk
        rcases hext.codes k hk with h | h
        · rcases inv k h with h' | h'
          · rw [hs] at h'
            rcases List.mem_cons.1 h' with rfl | h'
            · right
              intro code' hc'
              rw [hcode] at hc'; cases hc'
              exact ⟨hflow, hsubs⟩
            · exact Or.inl (hext.stack k h')
          · exact Or.inr (h'.mono hst)
        · exact Or.inl h
      obtain ⟨r1, r2⟩ := ih tr1 tr' h2 inv1
      exact ⟨r1, Sticky.trans hst r2⟩

theorem unwrapAll_get : ∀ (l : List (Option CodeType)) (r : List CodeType),
    unwrapAll l = .ok r → ∀ (k : Nat) (ct : CodeType), l[k]? = some (some ct) → r[k]? = some ct
  | [], r, h, k, ct, hk => by simp at hk
  | none :: _, r, h, _, _, _ => by simp [unwrapAll] at h
  | some t :: l, r, h, k, ct, hk => by
    simp only [unwrapAll] at h
    rw [bind_eq_ok] at h
    obtain ⟨r', h1, h2⟩ := h
    simp only [pure_def, R.ok.injEq] at h2
    subst h2
    cases k with
    | zero => simp only [List.getElem?_cons_zero, Option.some.injEq] at hk ⊢; exact hk
    | succ k =>
      simp only [List.getElem?_cons_succ] at hk ⊢
      exact unwrapAll_get l r' h1 k ct hk

/-- **per container** -/
theorem validateEofCodes_flow {e : Eof} {t : Option CodeType} {l : List CodeType}
    (h : validateEofCodes e t = .ok l) :
    (∃ trF, (∀ k, k < e.body.codeSection.length → SecFlow e trF k) ∧
      ∀ (k : Nat) (ct : CodeType), trF.subs[k]? = some (some ct) → l[k]? = some ct) ∧
    (∃ ft, e.body.typesSection[0]? = some ft ∧ ft.isNonReturning = true) ∧
    (t = some .ReturnContract → e.body.isDataFilled = true) := by
  unfold validateEofCodes at h
  have hx := ite_err_eq_ok h; clear h; obtain ⟨hlen, h⟩ := hx
  have hx := ite_err_eq_ok h; clear h; obtain ⟨hne, h⟩ := hx
  split at h
  · cases h
  rename_i ft hft
  have hx := ite_err_eq_ok h; clear h; obtain ⟨hfirst, h⟩ := hx
  rw [bind_eq_ok] at h
  obtain ⟨tr0, h0, h⟩ := h
  rw [bind_eq_ok] at h
  obtain ⟨tr1, h1, h⟩ := h
  have hx := ite_err_eq_ok h; clear h; obtain ⟨hall, h⟩ := hx
  have hx := ite_err_eq_ok h; clear h; obtain ⟨_, h⟩ := hx
  have hx := ite_err_eq_ok h; clear h; obtain ⟨hfill, h⟩ := hx
  unfold Tracker.new at h0
  split at h0
  · cases h0
  simp only [R.ok.injEq] at h0
  subst h0
  have inv0 : ∀ k, ((Array.replicate e.body.codeSection.length false).setIfInBounds 0 true)[k]?
        = some true → k ∈ ([0] : List Nat) ∨
          SecFlow e ⟨t, (Array.replicate e.body.codeSection.length false).setIfInBounds 0 true, [0], Array.replicate e.body.containerSection.length none⟩ k := by
    intro k hk
    rw [Array.getElem?_setIfInBounds] at hk
    by_cases hk0 : 0 = k
    · subst hk0; exact Or.inl (List.mem_cons_self ..)
    · rw [if_neg hk0, Array.getElem?_replicate] at hk
      split at hk <;> cases hk
  obtain ⟨r1, rst⟩ := codesLoop_flow e _ _ _ h1 inv0
  obtain ⟨_, r2, _⟩ := codesLoop_ok e _ _ _ h1 (fun k hk => by
    rcases inv0 k hk with h | _
    · exact Or.inl h
    · rw [Array.getElem?_setIfInBounds] at hk
      by_cases hk0 : 0 = k
      · subst hk0; exact Or.inl (List.mem_cons_self ..)
      · rw [if_neg hk0, Array.getElem?_replicate] at hk
        split at hk <;> cases hk)
  dsimp only at r2
  rw [Array.size_setIfInBounds, Array.size_replicate] at r2
  have hall' : tr1.codes.all id = true := by simpa using hall
  rw [Array.all_eq_true] at hall'
  refine ⟨⟨tr1, fun k hk => ?_, fun k ct hk => ?_⟩, ⟨ft, hft, ?_⟩, fun ht => ?_⟩
  · apply r1 k
    have hk' : k < tr1.codes.size := by omega
    rw [Array.getElem?_eq_getElem hk']
    have := hall' k hk'
    simpa using this
  · exact unwrapAll_get _ _ h k ct (by rw [Array.getElem?_toList]; exact hk)
  · cases hnr : ft.isNonReturning with
    | true => rfl
    | false => exact absurd (Or.inr (by rw [hnr]; rfl)) hfirst
  · have htt : tr1.thisType = some .ReturnContract := rst.thisType _ ht
    cases hdf : e.body.isDataFilled with
    | true => rfl
    | false =>
      exfalso
      apply hfill
      rw [htt, hdf]
      rfl

/-! ## the top container of `validate_raw_eof_inner` -/

theorem decodeChildren_get : ∀ (cs : List (List Nat)) (ts : List CodeType)
    (r : List (Eof × Option CodeType)), decodeChildren cs ts = .ok r →
    ∀ (k : Nat) (c : List Nat) (ct : CodeType), cs[k]? = some c → ts[k]? = some ct →
      ∃ e', Eof.decode c = .ok e' ∧ (e', some ct) ∈ r
  | [], _, _, _, k, c, ct, hc, _ => by simp at hc
  | c0 :: cs, [], r, h, k, c, ct, _, ht => by simp at ht
  | c0 :: cs, t0 :: ts, r, h, k, c, ct, hc, ht => by
    simp only [decodeChildren] at h
    rw [bind_eq_ok] at h
    obtain ⟨e0, h0, h⟩ := h
    rw [bind_eq_ok] at h
    obtain ⟨r', hr', h⟩ := h
    simp only [pure_def, R.ok.injEq] at h
    subst h
    cases k with
    | zero =>
      simp only [List.getElem?_cons_zero, Option.some.injEq] at hc ht
      subst hc; subst ht
      exact ⟨e0, mapErr_eq_ok h0, List.mem_cons_self ..⟩
    | succ k =>
      simp only [List.getElem?_cons_succ] at hc ht
      obtain ⟨e', he', hm⟩ := decodeChildren_get cs ts r' hr' k c ct hc ht
      exact ⟨e', he', List.mem_cons_of_mem _ hm⟩

/-- everything on the work-list of `validate_eof_inner` goes through `validate_eof_codes` with its code type -/
theorem innerLoop_validates : ∀ (fuel : Nat) (stack : List (Eof × Option CodeType)),
    innerLoop fuel stack = .ok () → ∀ p, p ∈ stack → ∃ l, validateEofCodes p.1 p.2 = .ok l := by
  intro fuel
  induction fuel with
  | zero =>
    intro stack h p hp
    cases stack with
    | nil => simp at hp
    | cons a rest => simp [innerLoop] at h
  | succ fuel ih =>
    intro stack h p hp
    cases stack with
    | nil => simp at hp
    | cons a rest =>
      obtain ⟨e, ct⟩ := a
      simp only [innerLoop] at h
      rw [bind_eq_ok] at h
      obtain ⟨tc, h1, h⟩ := h
      rw [bind_eq_ok] at h
      obtain ⟨children, h2, h3⟩ := h
      rcases List.mem_cons.1 hp with rfl | hp
      · exact ⟨tc, mapErr_eq_ok h1⟩
      · exact ih _ h3 p (List.mem_append_right _ hp)

/-- **the top container**: it went through `validate_eof_codes` with the requested code type, and every
sub-container went through it with the code type the tracker recorded -/
theorem validateRaw_top {bs : List Nat} {t : Option CodeType} {e : Eof}
    (h : validateRawEofInner bs t = .ok e) :
    ∃ l, validateEofCodes e t = .ok l ∧
      ∀ (k : Nat) (c : List Nat) (ct : CodeType), e.body.containerSection[k]? = some c → l[k]? = some ct →
        ∃ e' l', Eof.decode c = .ok e' ∧ validateEofCodes e' (some ct) = .ok l' := by
  unfold validateRawEofInner at h
  have hx := ite_err_eq_ok h; clear h; obtain ⟨_, h⟩ := hx
  rw [bind_eq_ok] at h
  obtain ⟨e', h1, h⟩ := h
  rw [bind_eq_ok] at h
  obtain ⟨u, h2, h⟩ := h
  simp only [pure_def, R.ok.injEq] at h
  subst h
  cases u
  unfold validateEofInner at h2
  have hx := ite_err_eq_ok h2; clear h2; obtain ⟨_, h2⟩ := hx
  by_cases hc : e'.body.containerSection.isEmpty = true
  · rw [if_pos hc, bind_eq_ok] at h2
    obtain ⟨l, hl, _⟩ := h2
    rw [List.isEmpty_iff] at hc
    exact ⟨l, mapErr_eq_ok hl, fun k c ct hk _ => by rw [hc] at hk; simp at hk⟩
  · rw [if_neg hc] at h2
    simp only [innerLoop] at h2
    rw [bind_eq_ok] at h2
    obtain ⟨tc, h3, h2⟩ := h2
    rw [bind_eq_ok] at h2
    obtain ⟨children, h4, h5⟩ := h2
    refine ⟨tc, mapErr_eq_ok h3, fun k c ct hk hct => ?_⟩
    obtain ⟨e1, he1, hm⟩ := decodeChildren_get _ _ _ h4 k c ct hk hct
    obtain ⟨l', hl'⟩ := innerLoop_validates _ _ h5 (e1, some ct)
      (List.mem_append_left _ (List.mem_reverse.2 hm))
    exact ⟨e1, l', he1, hl'⟩

end Revm.Proofs.EofValidate
