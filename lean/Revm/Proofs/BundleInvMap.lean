import Revm.Proofs.Bundle
/-! Library for the bundle invariant proofs (C16–C18): `BMap` lookups after `set` / `del` / `filter` / `map`
and after the `foldl`-shaped loops of the model; observations (`acct`, `slot`) of the reference plain
state after its update functions. Core Lean only. -/
namespace Revm.Proofs.Bundle
open Revm.Model.Bundle Revm.Spec.Bundle

section bmap
variable {α β : Type}

theorem WF_nil : WF ([] : BMap α) := by unfold WF; exact List.nodup_nil

theorem WF_cons (e : Nat × α) (r : BMap α) : WF (e :: r) ↔ e.1 ∉ r.map (·.1) ∧ WF r := by
  unfold WF; simp only [List.map, List.nodup_cons]

theorem get_cons (e : Nat × α) (r : BMap α) (k : Nat) :
    BMap.get (e :: r) k = if e.1 = k then some e.2 else BMap.get r k := by
  obtain ⟨k', v⟩ := e; rfl

theorem get_del (m : BMap α) (k k' : Nat) : (BMap.del m k).get k' = if k = k' then none else m.get k' := by
  by_cases h : k = k'
  · subst h; simp only [if_true]; exact get_del_self m k
  · simp only [h, if_false]; exact get_del_ne m k k' (fun h1 => h h1.symm)

theorem mem_keys_of_get {m : BMap α} {k : Nat} {v : α} (h : m.get k = some v) : k ∈ m.map (·.1) :=
  List.mem_map_of_mem (f := (·.1)) (mem_of_get m k v h)

theorem get_isSome_of_mem_keys (m : BMap α) (k : Nat) (h : k ∈ m.map (·.1)) : ∃ v, m.get k = some v := by
  induction m with
  | nil => cases h
  | cons e r ih =>
    rw [get_cons]
    by_cases hk : e.1 = k
    · exact ⟨e.2, by simp [hk]⟩
    · simp only [hk, if_false]
      simp only [List.map, List.mem_cons] at h
      cases h with
      | inl h1 => exact absurd h1.symm hk
      | inr h1 => exact ih h1

theorem keys_filter_sub (m : BMap α) (c : Nat × α → Bool) (k : Nat) (h : k ∈ (m.filter c).map (·.1)) :
    k ∈ m.map (·.1) := by
  obtain ⟨e, he, hk⟩ := List.mem_map.mp h
  exact List.mem_map.mpr ⟨e, (List.mem_filter.mp he).1, hk⟩

theorem WF_filter (m : BMap α) (c : Nat × α → Bool) (hw : WF m) : WF (m.filter c) := by
  induction m with
  | nil => exact WF_nil
  | cons e r ih =>
    rw [WF_cons] at hw
    by_cases hc : c e = true
    · simp only [List.filter, hc]
      rw [WF_cons]
      exact ⟨fun h => hw.1 (keys_filter_sub r c _ h), ih hw.2⟩
    · have hc' : c e = false := by simpa using hc
      simp only [List.filter, hc']
      exact ih hw.2

theorem WF_del (m : BMap α) (k : Nat) (hw : WF m) : WF (BMap.del m k) := WF_filter m _ hw

theorem WF_set (m : BMap α) (k : Nat) (v : α) (hw : WF m) : WF (BMap.set m k v) := by
  unfold BMap.set
  rw [WF_cons]
  refine ⟨?_, WF_del m k hw⟩
  intro h
  obtain ⟨v', hv⟩ := get_isSome_of_mem_keys _ _ h
  rw [get_del_self] at hv
  cases hv

theorem keys_map_val (m : BMap α) (f : Nat × α → β) :
    (m.map (fun e => (e.1, f e))).map (·.1) = m.map (·.1) := by
  induction m with
  | nil => rfl
  | cons e r ih => simp only [List.map, ih]

theorem WF_map_val (m : BMap α) (f : Nat × α → β) (hw : WF m) : WF (m.map (fun e => (e.1, f e))) := by
  unfold WF at *; rw [keys_map_val]; exact hw

theorem get_map_val (m : BMap α) (f : Nat × α → β) (k : Nat) :
    BMap.get (m.map (fun e => (e.1, f e))) k = (m.get k).map (fun v => f (k, v)) := by
  induction m with
  | nil => rfl
  | cons e r ih =>
    simp only [List.map, get_cons]
    by_cases hk : e.1 = k
    · obtain ⟨k', v⟩ := e
      simp only at hk; subst hk; simp
    · simp only [hk, if_false]; exact ih

/-- lookups after a loop `l.foldl step s` whose step only touches the key of the element -/
theorem foldl_get {step : BMap β → Nat × α → BMap β} {F : α → Option β → Option β}
    (hstep : ∀ acc e k, (step acc e).get k = if e.1 = k then F e.2 (acc.get k) else acc.get k)
    (l : BMap α) (hw : WF l) (s : BMap β) (k : Nat) :
    (l.foldl step s).get k = (BMap.get l k).elim (s.get k) (fun x => F x (s.get k)) := by
  induction l generalizing s with
  | nil => rfl
  | cons e r ih =>
    rw [WF_cons] at hw
    simp only [List.foldl]
    rw [ih hw.2, get_cons, hstep]
    by_cases hk : e.1 = k
    · have : BMap.get r k = none := get_none_of_not_mem r k (hk ▸ hw.1)
      simp only [hk, if_true, this, Option.elim]
    · simp only [hk, if_false]

theorem foldl_WF {step : BMap β → Nat × α → BMap β}
    (hstep : ∀ acc e, WF acc → WF (step acc e)) (l : List (Nat × α)) (s : BMap β) (hs : WF s) :
    WF (l.foldl step s) := by
  induction l generalizing s with
  | nil => exact hs
  | cons e r ih => simp only [List.foldl]; exact ih _ (hstep s e hs)

theorem get_filter_none (m : BMap α) (c : Nat × α → Bool) (h : m.filter c = []) (k : Nat) (v : α)
    (hg : m.get k = some v) : c (k, v) = false := by
  have hm := mem_of_get m k v hg
  cases hc : c (k, v) with
  | false => rfl
  | true =>
    have : (k, v) ∈ m.filter c := List.mem_filter.mpr ⟨hm, hc⟩
    rw [h] at this; cases this
end bmap

/-! ## the loops of the model, as lookups -/

def esF (x : Slot) (o : Option Slot) : Option Slot :=
  some (match o with | none => x | some s => { s with present := x.present })

theorem esStep_get (acc : BMap Slot) (e : Nat × Slot) (k : Nat) :
    (esStep acc e).get k = if e.1 = k then esF e.2 (acc.get k) else acc.get k := by
  unfold esStep esF
  by_cases hk : e.1 = k
  · subst hk; cases acc.get e.1 <;> simp [get_set]
  · cases acc.get e.1 <;> simp [get_set, hk]

theorem esStep_WF (acc : BMap Slot) (e : Nat × Slot) (hw : WF acc) : WF (esStep acc e) := by
  unfold esStep; cases acc.get e.1 <;> exact WF_set _ _ _ hw

theorem extendStorage_get (this upd : BMap Slot) (hw : WF upd) (k : Nat) :
    (extendStorage this upd).get k = (upd.get k).elim (this.get k) (fun x => esF x (this.get k)) := by
  rw [extendStorage_eq]; exact foldl_get esStep_get upd hw this k

theorem extendStorage_WF (this upd : BMap Slot) (hw : WF this) : WF (extendStorage this upd) := by
  rw [extendStorage_eq]; exact foldl_WF esStep_WF upd this hw

/-- one iteration of the storage loop of `TransitionAccount::update` -/
def upStep (acc : BMap Slot) (e : Nat × Slot) : BMap Slot :=
  match acc.get e.1 with
  | none => acc.set e.1 e.2
  | some v => if v.orig = e.2.present then acc.del e.1 else acc.set e.1 { v with present := e.2.present }

def upF (x : Slot) (o : Option Slot) : Option Slot :=
  match o with
  | none => some x
  | some v => if v.orig = x.present then none else some { v with present := x.present }

theorem upStep_get (acc : BMap Slot) (e : Nat × Slot) (k : Nat) :
    (upStep acc e).get k = if e.1 = k then upF e.2 (acc.get k) else acc.get k := by
  unfold upStep upF
  by_cases hk : e.1 = k
  · subst hk
    cases h : acc.get e.1 with
    | none => simp [get_set]
    | some v => by_cases hv : v.orig = e.2.present <;> simp [hv, get_set, get_del]
  · cases h : acc.get e.1 with
    | none => simp [get_set, hk]
    | some v => by_cases hv : v.orig = e.2.present <;> simp [hv, get_set, get_del, hk]

theorem upStep_WF (acc : BMap Slot) (e : Nat × Slot) (hw : WF acc) : WF (upStep acc e) := by
  unfold upStep
  cases acc.get e.1 with
  | none => exact WF_set _ _ _ hw
  | some v => by_cases hv : v.orig = e.2.present <;> simp only [hv, if_true, if_false]
              · exact WF_del _ _ hw
              · exact WF_set _ _ _ hw

theorem update_storage_eq (s o : Transition) :
    (s.update o).storage = if o.status = .destroyed ∨ o.status = .destroyedAgain then o.storage
      else o.storage.foldl upStep s.storage := by
  unfold Transition.update
  by_cases h : o.status = .destroyed ∨ o.status = .destroyedAgain
  · simp only [h, if_true]
  · simp only [h, if_false]; rfl

def mdF (_x : Slot) (o : Option RevSlot) : Option RevSlot :=
  match o with | none => some RevSlot.destroyed | some v => some v

def mdStep (acc : BMap RevSlot) (e : Nat × Slot) : BMap RevSlot :=
  match acc.get e.1 with
  | none => acc.set e.1 RevSlot.destroyed
  | some _ => acc

theorem markDestroyed_eq (upd : BMap Slot) (base : BMap RevSlot) : markDestroyed upd base = upd.foldl mdStep base := rfl

theorem mdStep_get (acc : BMap RevSlot) (e : Nat × Slot) (k : Nat) :
    (mdStep acc e).get k = if e.1 = k then mdF e.2 (acc.get k) else acc.get k := by
  unfold mdStep mdF
  by_cases hk : e.1 = k
  · subst hk
    cases h : acc.get e.1 with
    | none => simp [get_set]
    | some v => simp [h]
  · cases h : acc.get e.1 with
    | none => simp [get_set, hk]
    | some v => simp [hk]

theorem mdStep_WF (acc : BMap RevSlot) (e : Nat × Slot) (hw : WF acc) : WF (mdStep acc e) := by
  unfold mdStep; cases acc.get e.1 with
  | none => exact WF_set _ _ _ hw
  | some _ => exact hw

theorem markDestroyed_get (upd : BMap Slot) (base : BMap RevSlot) (hw : WF upd) (k : Nat) :
    (markDestroyed upd base).get k = match base.get k with
      | some v => some v
      | none => if (upd.get k).isSome then some RevSlot.destroyed else none := by
  rw [markDestroyed_eq, foldl_get mdStep_get upd hw base k]
  unfold mdF
  cases upd.get k <;> cases base.get k <;> simp [Option.elim]

theorem markDestroyed_WF (upd : BMap Slot) (base : BMap RevSlot) (hw : WF base) : WF (markDestroyed upd base) := by
  rw [markDestroyed_eq]; exact foldl_WF mdStep_WF upd base hw

theorem presentAsRevert_get (st : BMap Slot) (k : Nat) :
    (presentAsRevert st).get k = (st.get k).map (fun s => RevSlot.some s.present) := by
  unfold presentAsRevert; exact get_map_val st (fun e => RevSlot.some e.2.present) k

theorem presentAsRevert_WF (st : BMap Slot) (hw : WF st) : WF (presentAsRevert st) :=
  WF_map_val st _ hw

theorem prevStorage_get (upd : BMap Slot) (hw : WF upd) (k : Nat) :
    (prevStorageFromUpdate upd).get k =
      (upd.get k).bind (fun s => if s.isChanged then some (RevSlot.some s.orig) else none) := by
  unfold prevStorageFromUpdate
  rw [get_map_val (upd.filter fun e => e.2.isChanged) (fun e => RevSlot.some e.2.orig) k, get_filter _ _ _ hw]
  cases upd.get k with
  | none => rfl
  | some s => by_cases h : s.isChanged = true <;> simp [h]

theorem prevStorage_WF (upd : BMap Slot) (hw : WF upd) : WF (prevStorageFromUpdate upd) :=
  WF_map_val _ _ (WF_filter _ _ hw)

/-! ## observations of the reference plain state -/

theorem acct_setAcct (p : Plain) (a : Nat) (i : Option Info) (a' : Nat) :
    (p.setAcct a i).acct a' = if a = a' then i else p.acct a' := by
  unfold Plain.setAcct Plain.acct
  by_cases h : a = a'
  · simp [List.find?_cons, h]
  · have hb : (a == a') = false := by simp [h]
    simp only [List.find?_cons, hb, h, if_false]

theorem slot_setAcct (p : Plain) (a : Nat) (i : Option Info) (a' k : Nat) :
    (p.setAcct a i).slot a' k = p.slot a' k := rfl

theorem acct_setSlot (p : Plain) (a k v a' : Nat) : (p.setSlot a k v).acct a' = p.acct a' := rfl

theorem slot_setSlot (p : Plain) (a k v a' k' : Nat) :
    (p.setSlot a k v).slot a' k' = if a = a' ∧ k = k' then v else p.slot a' k' := by
  unfold Plain.setSlot Plain.slot
  by_cases h : a = a' ∧ k = k'
  · simp [List.find?, h.1, h.2]
  · simp only [h, if_false]
    have : ((a == a') && (k == k')) = false := by
      cases h1 : (a == a') <;> cases h2 : (k == k') <;> simp_all
    simp [List.find?, this]

theorem acct_wipe (p : Plain) (a a' : Nat) : (p.wipe a).acct a' = p.acct a' := rfl

theorem wipe_find (l : List (Nat × Nat × Nat)) (a a' k : Nat) :
    (l.filter (fun e => e.1 != a)).find? (fun e => e.1 == a' && e.2.1 == k) =
      if a = a' then none else l.find? (fun e => e.1 == a' && e.2.1 == k) := by
  induction l with
  | nil => simp
  | cons e r ih =>
    by_cases he : e.1 = a
    · have hp : (e.1 != a) = false := by simp [he]
      rw [List.filter_cons]; simp only [hp, Bool.false_eq_true, if_false]
      rw [ih]
      by_cases h : a = a'
      · simp only [h, if_true]
      · have hq : (e.1 == a' && e.2.1 == k) = false := by
          have : ¬ e.1 = a' := he ▸ h
          simp [this]
        simp only [h, if_false, List.find?_cons, hq]
    · have hp : (e.1 != a) = true := by simp [he]
      rw [List.filter_cons]; simp only [hp, if_true, List.find?_cons]
      rw [ih]
      by_cases h : a = a'
      · have hq : (e.1 == a' && e.2.1 == k) = false := by
          have : ¬ e.1 = a' := h ▸ he
          simp [this]
        simp only [h, if_true, hq]
      · simp only [h, if_false]

theorem slot_wipe (p : Plain) (a a' k : Nat) : (p.wipe a).slot a' k = if a = a' then 0 else p.slot a' k := by
  unfold Plain.wipe Plain.slot
  simp only [wipe_find]
  by_cases h : a = a' <;> simp only [h, if_true, if_false]

/-- meaning of a list of slot writes (`k ↦ v`) on the slots of one address -/
def writeSlots (row : List (Nat × Nat)) (base : Nat → Nat) (k : Nat) : Nat :=
  match BMap.get row k with
  | some v => v
  | none => base k

theorem acct_setSlots (p : Plain) (a : Nat) (l : List (Nat × Nat)) (a' : Nat) :
    (p.setSlots a l).acct a' = p.acct a' := by
  unfold Plain.setSlots
  induction l generalizing p with
  | nil => rfl
  | cons e r ih => simp only [List.foldl]; rw [ih]; rfl

theorem slot_setSlots (p : Plain) (a : Nat) (l : List (Nat × Nat)) (hw : WF l) (a' k : Nat) :
    (p.setSlots a l).slot a' k = if a = a' then writeSlots l (fun k => p.slot a' k) k else p.slot a' k := by
  unfold Plain.setSlots
  induction l generalizing p with
  | nil => by_cases h : a = a' <;> simp [h, writeSlots, BMap.get]
  | cons e r ih =>
    rw [WF_cons] at hw
    simp only [List.foldl]
    rw [ih _ hw.2]
    by_cases h : a = a'
    · simp only [h, if_true, writeSlots, get_cons]
      by_cases hk : e.1 = k
      · have : BMap.get r k = none := get_none_of_not_mem r k (hk ▸ hw.1)
        simp only [this, hk, if_true, slot_setSlot, and_self]
      · simp only [hk, if_false]
        cases BMap.get r k with
        | some v => rfl
        | none => simp only [slot_setSlot, hk, and_false, if_false]
    · simp only [h, if_false, slot_setSlot, false_and]

theorem hasStorage_false (p : Plain) (a : Nat) (h : hasStorage p a = false) (k : Nat) : p.slot a k = 0 := by
  by_cases hz : p.slot a k = 0
  · exact hz
  · exfalso
    have hs : p.slot a k = match p.stor.find? (fun e => e.1 == a && e.2.1 == k) with
        | some e => e.2.2 | none => 0 := rfl
    cases hf : p.stor.find? (fun e => e.1 == a && e.2.1 == k) with
    | none => rw [hf] at hs; exact hz hs
    | some e =>
      have hm := List.mem_of_find?_eq_some hf
      have hq := List.find?_some hf
      simp only [Bool.and_eq_true, beq_iff_eq] at hq
      have : hasStorage p a = true := by
        unfold hasStorage
        apply List.any_eq_true.mpr
        refine ⟨e, hm, ?_⟩
        simp only [Bool.and_eq_true, beq_iff_eq, bne_iff_ne, ne_eq]
        exact ⟨hq.1, by rw [hq.2]; exact hz⟩
      rw [h] at this; cases this

end Revm.Proofs.Bundle
