import Revm.Proofs.EvmInstTgt6
/-! LINK, panic-freedom: a frame asks the host about storage (`sload`, `sstore`) and self-destruction only for ITS OWN
address — the `HostOp` an `Interp.step` emits carries `s.target` there. -/
set_option linter.unusedSimpArgs false
set_option linter.unusedVariables false
namespace Revm.Proofs.EvmLink
open Revm Revm.Model Revm.Model.Interp
open Revm.Proofs.EvmInstTgt

/-- the address of a storage / self-destruct request is `t` -/
def OpT (t : Nat) : HostOp → Prop
  | .sload a _ => a = t
  | .sstore a _ _ => a = t
  | .selfdestruct a _ => a = t
  | _ => True

/-- not a storage / self-destruct request -/
def NS : HostOp → Prop
  | .sload _ _ => False
  | .sstore _ _ _ => False
  | .selfdestruct _ _ => False
  | _ => True

theorem NS.opT {op : HostOp} (h : NS op) (t : Nat) : OpT t op := by cases op <;> first | trivial | exact absurd h id

/-- every ok result of `m` satisfies `P` -/
def Ret {α} (P : α → Prop) (m : M α) : Prop := ∀ s a s', m s = .ok a s' → P a

theorem ret_pure {α} {P : α → Prop} {a : α} (h : P a) : Ret P (pure a : M α) := by
  intro s x s' hx
  cases hx; exact h
theorem ret_bind {α β} {P : β → Prop} {m : M α} {f : α → M β} (h : ∀ a, Ret P (f a)) : Ret P (m >>= f) := by
  intro s b s' hb
  change M.bind m f s = _ at hb
  unfold M.bind at hb
  cases hm : m s with
  | ok a s1 => rw [hm] at hb; exact h a s1 b s' hb
  | halt r o s1 => rw [hm] at hb; cases hb
  | fault f => rw [hm] at hb; cases hb
theorem ret_haltWith {α} {P : α → Prop} (r : IResult) : Ret P (haltWith r : M α) := fun s a s' h => nomatch h
theorem ret_faultWith {α} {P : α → Prop} (f : Fault) : Ret P (faultWith f : M α) := fun s a s' h => nomatch h

syntax "ret_auto" : tactic
macro_rules | `(tactic| ret_auto) => `(tactic| repeat (first
  | exact ret_pure trivial
  | exact ret_haltWith _
  | exact ret_faultWith _
  | (refine ret_bind (fun _ => ?_))
  | split
  | dsimp only))

theorem hostCall_pre {β} {pre : M (HostOp × β)} {post : β → HostResp → M Unit} {s : IState} {op k}
    (h : hostCall pre post s = .host op k) : ∃ b s', pre s = .ok (op, b) s' := by
  unfold hostCall at h
  cases hp : pre s with
  | ok p s' => obtain ⟨op', b⟩ := p; rw [hp] at h; simp only [Outcome.host.injEq] at h; exact ⟨b, s', by rw [h.1]⟩
  | halt r o s' => rw [hp] at h; cases h
  | fault f => rw [hp] at h; cases h
theorem hostCallAction_pre {β} {pre : M (HostOp × β)} {post : β → HostResp → M Action} {s : IState} {op k}
    (h : hostCallAction pre post s = .host op k) : ∃ b s', pre s = .ok (op, b) s' := by
  unfold hostCallAction at h
  cases hp : pre s with
  | ok p s' => obtain ⟨op', b⟩ := p; rw [hp] at h; simp only [Outcome.host.injEq] at h; exact ⟨b, s', by rw [h.1]⟩
  | halt r o s' => rw [hp] at h; cases h
  | fault f => rw [hp] at h; cases h
theorem hostCallOptAction_pre {β} {pre : M (HostOp × β)} {post : β → HostResp → M (Option Action)} {s : IState} {op k}
    (h : hostCallOptAction pre post s = .host op k) : ∃ b s', pre s = .ok (op, b) s' := by
  unfold hostCallOptAction at h
  cases hp : pre s with
  | ok p s' => obtain ⟨op', b⟩ := p; rw [hp] at h; simp only [Outcome.host.injEq] at h; exact ⟨b, s', by rw [h.1]⟩
  | halt r o s' => rw [hp] at h; cases h
  | fault f => rw [hp] at h; cases h

/-- an ok result of a `KeepT` computation -/
theorem keepT_ok {s0 : IState} {α} {Q : α → IState → Prop} {e : Exec α} (h : KeepT s0 Q e) {a s'} (he : e = .ok a s') :
    Q a s' := by
  subst he
  cases h with
  | ok _ hq => exact hq

theorem sloadI_addr {s : IState} {op k} (h : sloadI s = .host op k) : OpT s.target op := by
  obtain ⟨b, s', hp⟩ := hostCall_pre h
  have hk : KeepT s (fun p _ => OpT s.target p.1) ((do
      let idx ← popTop1
      let x ← getS
      pure (HostOp.sload x.target idx, ()) : M (HostOp × Unit)) s) := by
    refine keepT_bind (keepT_popTop1 (KeptT.refl s)) (fun idx s1 h1 _ => ?_)
    refine keepT_bind (keepT_getS h1) (fun x s2 h2 hx => ?_)
    obtain ⟨rfl, rfl⟩ := hx
    exact .ok h2 h1.tgt
  exact keepT_ok hk hp

theorem sstoreI_addr {s : IState} {op k} (h : sstoreI s = .host op k) : OpT s.target op := by
  obtain ⟨b, s', hp⟩ := hostCall_pre h
  have hk : KeepT s (fun p _ => OpT s.target p.1) ((do
      requireNonStatic
      let (idx, v) ← pop2
      let x ← getS
      pure (HostOp.sstore x.target idx v, ()) : M (HostOp × Unit)) s) := by
    refine keepT_bind (keepT_requireNonStatic (KeptT.refl s)) (fun _ s0 h0 _ => ?_)
    refine keepT_bind (keepT_pop2 h0) (fun p s1 h1 _ => ?_)
    obtain ⟨idx, v⟩ := p
    refine keepT_bind (keepT_getS h1) (fun x s2 h2 hx => ?_)
    obtain ⟨rfl, rfl⟩ := hx
    exact .ok h2 h1.tgt
  exact keepT_ok hk hp

theorem selfdestructI_addr {s : IState} {op k} (h : selfdestructI s = .host op k) : OpT s.target op := by
  obtain ⟨b, s', hp⟩ := hostCall_pre h
  have hk : KeepT s (fun p _ => OpT s.target p.1) ((do
      requireNonStatic
      let t ← popAddress
      let x ← getS
      pure (HostOp.selfdestruct x.target t, ()) : M (HostOp × Unit)) s) := by
    refine keepT_bind (keepT_requireNonStatic (KeptT.refl s)) (fun _ s0 h0 _ => ?_)
    refine keepT_bind (keepT_popAddress h0) (fun t s1 h1 _ => ?_)
    refine keepT_bind (keepT_getS h1) (fun x s2 h2 hx => ?_)
    obtain ⟨rfl, rfl⟩ := hx
    exact .ok h2 h1.tgt
  exact keepT_ok hk hp

/-- a `hostCall` whose request is never a storage / self-destruct request -/
theorem hostCall_ns {β} {pre : M (HostOp × β)} {post : β → HostResp → M Unit} {s : IState} {op k}
    (hr : Ret (fun p => NS p.1) pre) (h : hostCall pre post s = .host op k) : NS op := by
  obtain ⟨b, s', hp⟩ := hostCall_pre h; exact hr s _ s' hp
theorem hostCallAction_ns {β} {pre : M (HostOp × β)} {post : β → HostResp → M Action} {s : IState} {op k}
    (hr : Ret (fun p => NS p.1) pre) (h : hostCallAction pre post s = .host op k) : NS op := by
  obtain ⟨b, s', hp⟩ := hostCallAction_pre h; exact hr s _ s' hp
theorem hostCallOptAction_ns {β} {pre : M (HostOp × β)} {post : β → HostResp → M (Option Action)} {s : IState} {op k}
    (hr : Ret (fun p => NS p.1) pre) (h : hostCallOptAction pre post s = .host op k) : NS op := by
  obtain ⟨b, s', hp⟩ := hostCallOptAction_pre h; exact hr s _ s' hp

theorem keccak256I_ns {s : IState} {op k} (h : keccak256I s = .host op k) : NS op := by
  unfold keccak256I at h
  split at h
  · cases h
  · simp only [Outcome.host.injEq] at h; rw [← h.1]; trivial
  · cases h
  · cases h

/-- **the address of a storage / self-destruct request is the frame's own** -/
theorem execInstr_addr (i : Instr) (s : IState) {op k} (h : execInstr i s = .host op k) : OpT s.target op := by
  unfold execInstr at h
  cases hp : execPure i with
  | some m => rw [hp] at h; cases h
  | none =>
    rw [hp] at h
    simp only at h
    cases i <;> first
      | exact sloadI_addr h
      | exact sstoreI_addr h
      | exact selfdestructI_addr h
      | exact (keccak256I_ns h).opT _
      | cases h
      | exact (hostCall_ns (by ret_auto) h).opT _
      | exact (hostCallAction_ns (by ret_auto) h).opT _
      | exact (hostCallOptAction_ns (by ret_auto) h).opT _
      | exact (hostCallAction_ns (by unfold eofcreatePre; ret_auto) h).opT _

theorem step_addr (s : IState) {op k} (h : step s = .host op k) : OpT s.target op := by
  unfold step at h
  split at h
  · cases h
  · exact execInstr_addr _ { s with pc := s.pc + 1 } h

end Revm.Proofs.EvmLink
